#!/usr/bin/env python3
"""Helper used while WRITING the model (not at check time): prints a Coq Record with one setter per field.
usage: mkrecord.py Name ctor prefix field:type ..."""
import sys
name, ctor, pre = sys.argv[1:4]
fields = [f.split(":", 1) for f in sys.argv[4:]]
print(f"Record {name} := {ctor} {{")
print(";\n".join(f"  {pre}{f} : {t}" for f, t in fields))
print("}.")
for f, t in fields:
    args = " ".join(f"({pre}{g} x)" if g != f else "v" for g, _ in fields)
    print(f"Definition set_{pre}{f} (v : {t}) (x : {name}) : {name} := {ctor} {args}.")
