#!/usr/bin/env python3
"""Translator step for C10/C11: writes <coq/gen>/TxConstants.v from the constants the compiled
harness reports (`mfi run txconsts`: instruction discriminators as the introspection code and the
Anchor dispatcher see them, account flag masks, framework error numbers).  argv[1] = coq/gen dir."""
import os, subprocess, sys, tempfile

VERIF = os.path.dirname(os.path.dirname(os.path.abspath(__file__)))
# same target directory rule as py/vlib.py (a scratch VERIF_REPO gets its own cargo target dir)
sys.path.insert(0, os.path.join(VERIF, "py"))
import vlib
MFI = vlib.MFI


def main():
    gen = sys.argv[1]
    with tempfile.TemporaryDirectory() as d:
        cases, out = os.path.join(d, "c"), os.path.join(d, "o")
        open(cases, "w").write("consts\n")
        p = subprocess.run([MFI, "run", "txconsts", cases, out], stdout=subprocess.DEVNULL, stderr=subprocess.PIPE)
        if p.returncode != 0:
            sys.stderr.write(p.stderr.decode(errors="replace"))
            return 1
        toks = open(out).read().split()
    lines = ["(* GENERATED on every run by gen/coqgen_tx.py from `mfi run txconsts` (harness linked against /repo). Do not edit. *)",
             "From Coq Require Import ZArith.", ""]
    for t in toks:
        name, _, val = t.partition("=")
        if not name.replace("_", "").isalnum() or not val.lstrip("-").isdigit():
            sys.stderr.write("bad constant token %r\n" % t)
            return 1
        lines.append("Definition %s : Z := (%s)%%Z." % (name, val))
    text = "\n".join(lines) + "\n"
    dst = os.path.join(gen, "TxConstants.v")
    if not os.path.exists(dst) or open(dst).read() != text:
        open(dst, "w").write(text)
    return 0


if __name__ == "__main__":
    sys.exit(main())
