#!/usr/bin/env python3
"""Translator step for C12: read the OracleSetup discriminants, the BankMetadata buffer sizes and the
account-flag masks off /repo's source and write coq/gen/PrivGen.v.  argv[1] = coq/gen directory.
Fails (non-zero exit) when a definition it relies on has been renamed or has changed shape."""
import os, re, sys

REPO = os.environ.get("VERIF_REPO", "/repo")


def die(msg):
    print("coqgen_priv:", msg)
    sys.exit(1)


def read(rel):
    p = os.path.join(REPO, rel)
    if not os.path.exists(p):
        die("missing " + p)
    return open(p).read()


def main():
    out_dir = sys.argv[1]
    bank_rs = read("type-crate/src/types/bank.rs")
    meta_rs = read("type-crate/src/types/bank_metadata.rs")
    user_rs = read("type-crate/src/types/user_account.rs")
    lines = ["(* GENERATED on every run by gen/coqgen_priv.py from /repo's source. Do not edit. *)",
             "From Coq Require Import ZArith.", ""]

    def z(n, v):
        lines.append("Definition %s : Z := (%d)%%Z." % (n, v))

    # OracleSetup::from_u8: arms `n => Some(Self::Name)`; must be exactly 0..k-1
    m = re.search(r"impl OracleSetup \{\s*pub fn from_u8\(value: u8\) -> Option<Self> \{\s*match value \{(.*?)_ => None", bank_rs, re.S)
    if not m:
        die("OracleSetup::from_u8 not found")
    arms = re.findall(r"(\d+)\s*=>\s*Some\(Self::([A-Za-z0-9_]+)\)", m.group(1))
    nums = [int(a) for a, _ in arms]
    if nums != list(range(len(nums))) or not nums:
        die("OracleSetup::from_u8 arms are not 0..k-1: %r" % (nums,))
    names = {n: int(a) for a, n in arms}
    if "Fixed" not in names:
        die("OracleSetup::Fixed missing")
    z("ORACLE_SETUP_COUNT", len(nums))
    z("ORACLE_SETUP_FIXED", names["Fixed"])
    z("ORACLE_SETUP_NONE", names.get("None", 0))

    def arr_len(src, field):
        mm = re.search(r"pub " + field + r"\s*:\s*\[u8;\s*(\d+)\]", src)
        if not mm:
            die("BankMetadata.%s not found" % field)
        return int(mm.group(1))
    z("METADATA_TICKER_LEN", arr_len(meta_rs, "ticker"))
    z("METADATA_DESCRIPTION_LEN", arr_len(meta_rs, "description"))

    def flag(src, name):
        mm = re.search(r"pub const " + name + r"\s*:\s*u64\s*=\s*(?:1\s*<<\s*(\d+)|(\d+))\s*;", src)
        if not mm:
            die("const %s not found" % name)
        return (1 << int(mm.group(1))) if mm.group(1) is not None else int(mm.group(2))
    for n in ("ACCOUNT_DISABLED", "ACCOUNT_IN_FLASHLOAN", "ACCOUNT_IN_RECEIVERSHIP", "ACCOUNT_IN_DELEVERAGE", "ACCOUNT_FROZEN"):
        z("G_" + n, flag(user_rs, n))
    txt = "\n".join(lines) + "\n"
    dst = os.path.join(out_dir, "PrivGen.v")
    if not os.path.exists(dst) or open(dst).read() != txt:
        open(dst, "w").write(txt)


if __name__ == "__main__":
    main()
