#!/usr/bin/env python3
"""coqgen_fixture.py <coq/gen dir> — emits coq/gen/AuthFixture.v: the auth-relevant projection of the fixture
world of the level-C suites `auth` (C08 / C14), as computed by the harness itself (`mfi run auth` on the
case `W`: owner, account type, pubkey fields, flags of every named fixture object, read from the real account
bytes).  Program-derived addresses are emitted as `pda <program> <seeds>` terms (the harness re-derives and
asserts each of them), everything else as a numbered abstract key."""
import hashlib, os, re, subprocess, sys, tempfile

VERIF = os.path.dirname(os.path.dirname(os.path.abspath(__file__)))
REPO = os.environ.get("VERIF_REPO", "/repo")
# same rule as py/vlib.py TARGET_DIR (a scratch copy of the repo is built in its own target directory)
MFI = os.path.join(VERIF, ".cache", "harness-target" if REPO == "/repo" else
                   "harness-target-" + hashlib.sha256(REPO.encode()).hexdigest()[:8], "debug", "mfi")

PROGS = {"PROG:marginfi": "PROG_MARGINFI", "PROG:system": "PROG_SYSTEM", "PROG:token": "PROG_TOKEN",
         "PROG:token22": "PROG_TOKEN22", "PROG:kamino": "PROG_KAMINO", "PROG:drift": "PROG_DRIFT",
         "PROG:solend": "PROG_SOLEND", "PROG:ata": "PROG_ATA", "PROG:farms": "PROG_FARMS",
         "PROG:other": "13"}   # 13: some program the model knows nothing about (oracle owners ...)


def ident(n):
    return "k_" + re.sub(r"[^A-Za-z0-9]", "_", n)


def kref(n):
    if n == "0":
        return "0"
    if n in PROGS:
        return PROGS[n]
    if n == "?":
        raise SystemExit("coqgen_fixture: a fixture object refers to a key that has no name")
    return ident(n)


def cq(s):
    return '"' + s.replace('"', '""') + '"'


def pda_term(spec):
    body = spec[len("pda["):-1].split(";")
    prog = PROGS["PROG:" + body[0]]
    seeds = []
    for p in body[1:]:
        if p.startswith("s:"):
            seeds.append(f"VStr {cq(p[2:])}")
        elif p.startswith("k:"):
            seeds.append(f"VKey {kref(p[2:])}")
        elif p[0] == "n":
            seeds.append(f"VNum {int(p.split(':')[1])}")
        else:
            raise SystemExit("coqgen_fixture: bad seed " + p)
    return f"pda {prog} [{'; '.join(seeds)}]"


def main():
    outdir = sys.argv[1]
    with tempfile.TemporaryDirectory() as td:
        cases, out = os.path.join(td, "c"), os.path.join(td, "o")
        open(cases, "w").write("W\n")
        r = subprocess.run([MFI, "run", "auth", cases, out], stdout=subprocess.DEVNULL, stderr=subprocess.PIPE, text=True)
        if r.returncode != 0:
            print("coqgen_fixture: GENERATION FAILED: mfi run auth W: " + r.stderr[-2000:])
            return 1
        dump = open(out).read().strip()
    if dump.startswith("PANIC") or "!" not in dump:
        print("coqgen_fixture: GENERATION FAILED: the fixture world could not be built by the real program: " + dump[:300])
        return 1
    items = [x.strip() for x in dump.split(" | ")]
    now0 = int(items[0].split("!")[1])
    defs, names, accts, n = [], [], [], 100
    for it in items[1:]:
        f = it.split("!")
        name, spec = (f[0].split("@", 1) + [None])[:2]
        if spec:
            defs.append(f"Definition {ident(name)} : key := {pda_term(spec)}.")
        else:
            defs.append(f"Definition {ident(name)} : key := {n}.")
            n += 1
        names.append(f"({cq(name)}, {ident(name)})")
        if f[1] == "ABSENT":
            continue
        owner, disc, keys, nums = f[1], f[2], f[3], f[4]
        ks = "; ".join(f"({cq(k.split('=')[0])}, {kref(k.split('=')[1])})" for k in keys.split(",") if k)
        ns = "; ".join(f"({cq(k.split('=')[0])}, {int(k.split('=')[1])})" for k in nums.split(",") if k)
        accts.append(f"({ident(name)}, mkAcct {kref(owner)} {cq(disc)} [{ks}] [{ns}])")
    o = ["(* GENERATED on every run by gen/coqgen_fixture.py from `mfi run auth` (case W): projection of the\n"
         "   level-C fixture world as read from the real account bytes. Do not edit. *)",
         "Require Import Base AnchorTypes AnchorSem.", "Local Open Scope string_scope.", "Local Open Scope Z_scope.", "",
         "Section Fixture.", "Context (pda : key -> list seed_val -> key).", ""]
    o += defs
    o += ["", f"Definition fixture_now0 : Z := {now0}.", "",
          "Definition fixture_names : list (string * key) := [", "  " + ";\n  ".join(names), "].", "",
          "Definition fixture_accounts : list (key * account) := [", "  " + ";\n  ".join(accts), "].", "",
          "End Fixture."]
    text = "\n".join(o) + "\n"
    path = os.path.join(outdir, "AuthFixture.v")
    if not (os.path.exists(path) and open(path).read() == text):
        open(path + ".new", "w").write(text)
        os.replace(path + ".new", path)
    return 0


if __name__ == "__main__":
    sys.exit(main())
