#!/usr/bin/env python3
"""Translator step for C13: read enum discriminants and e-mode constants off /repo's source and write
coq/gen/ConfigGen.v.  argv[1] = coq/gen directory.  Fails (non-zero exit) when a definition it relies
on has been renamed or has changed shape, which breaks the proof build instead of silently passing."""
import os, re, sys
from fractions import Fraction

REPO = os.environ.get("VERIF_REPO", "/repo")
ONE = 1 << 48


def die(msg):
    print("coqgen_config:", msg)
    sys.exit(1)


def read(rel):
    p = os.path.join(REPO, rel)
    if not os.path.exists(p):
        die("missing " + p)
    return open(p).read()


def enum_variants(src, name):
    m = re.search(r"pub enum " + name + r"\s*\{(.*?)\n\}", src, re.S)
    if not m:
        die("enum %s not found" % name)
    body = re.sub(r"//[^\n]*", "", m.group(1))
    body = re.sub(r"#\[[^\]]*\]", "", body)
    out, nxt = [], 0
    for item in body.split(","):
        item = item.strip()
        if not item:
            continue
        mm = re.match(r"^([A-Za-z0-9_]+)(?:\s*=\s*(\d+))?$", item)
        if not mm:
            die("cannot parse variant %r of %s" % (item, name))
        if mm.group(2) is not None:
            nxt = int(mm.group(2))
        out.append((mm.group(1), nxt))
        nxt += 1
    return out


def const_int(src, name):
    m = re.search(r"pub const " + name + r"\s*:\s*[a-z0-9]+\s*=\s*([0-9_]+)\s*;", src)
    if not m:
        die("const %s not found" % name)
    return int(m.group(1).replace("_", ""))


def const_fx(src, name):
    m = re.search(r"pub const " + name + r"\s*:\s*I80F48\s*=\s*I80F48!\(([0-9_.]+)\)\s*;", src)
    if not m:
        die("I80F48 const %s not found" % name)
    v = Fraction(m.group(1).replace("_", "")) * ONE
    if v.denominator != 1:
        die("const %s is not exactly representable; extend the generator" % name)
    return int(v)


def main():
    out_dir = sys.argv[1]
    bank_rs = read("type-crate/src/types/bank.rs")
    emode_ty = read("type-crate/src/types/emode.rs")
    emode_rs = read("programs/marginfi/src/state/emode.rs")
    lines = ["(* GENERATED on every run by gen/coqgen_config.py from /repo's source. Do not edit. *)",
             "From Coq Require Import ZArith.", ""]

    def z(n, v):
        lines.append("Definition %s : Z := (%d)%%Z." % (n, v))

    ops = dict(enum_variants(bank_rs, "BankOperationalState"))
    for rust, coq in (("Paused", "OP_PAUSED"), ("Operational", "OP_OPERATIONAL"), ("ReduceOnly", "OP_REDUCE_ONLY"),
                      ("KilledByBankruptcy", "OP_KILLED")):
        if rust not in ops:
            die("BankOperationalState::%s missing" % rust)
        z(coq, ops[rust])
    z("OP_STATE_COUNT", len(ops))
    rts = dict(enum_variants(bank_rs, "RiskTier"))
    for rust, coq in (("Collateral", "RISK_COLLATERAL"), ("Isolated", "RISK_ISOLATED")):
        if rust not in rts:
            die("RiskTier::%s missing" % rust)
        z(coq, rts[rust])
    z("RISK_TIER_COUNT", len(rts))
    z("EMODE_ON", const_int(emode_ty, "EMODE_ON"))
    z("MAX_EMODE_ENTRIES", const_int(emode_ty, "MAX_EMODE_ENTRIES"))
    z("EMODE_TAG_EMPTY", const_int(emode_ty, "EMODE_TAG_EMPTY"))
    z("DEFAULT_INIT_MAX_EMODE_LEVERAGE", const_fx(emode_rs, "DEFAULT_INIT_MAX_EMODE_LEVERAGE"))
    z("DEFAULT_MAINT_MAX_EMODE_LEVERAGE", const_fx(emode_rs, "DEFAULT_MAINT_MAX_EMODE_LEVERAGE"))
    txt = "\n".join(lines) + "\n"
    dst = os.path.join(out_dir, "ConfigGen.v")
    if not os.path.exists(dst) or open(dst).read() != txt:
        open(dst, "w").write(txt)


if __name__ == "__main__":
    main()
