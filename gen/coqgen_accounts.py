#!/usr/bin/env python3
"""coqgen_accounts.py <coq/gen dir> — translator for the declarative parts of the program (C08, C14).

Reads  $VERIF_REPO/programs/marginfi/src/lib.rs            (fn -> Context<Struct> map, ix arguments)
       $VERIF_REPO/programs/marginfi/src/instructions/**   (#[derive(Accounts)] structs, handler bodies)
       type-crate/src/constants.rs, programs/marginfi/src/constants.rs, type-crate/src/types/user_account.rs
Writes <dir>/AccountsTable.v   one table entry per instruction (wrapper, mut/init/close, has_one, address,
                               seeds, token constraints, classified `constraint =` expressions)
       <dir>/HandlerFacts.v    per handler: the InstructionKind argument(s) passed to validate_bank_state
       <verif>/.cache/gen/accounts_table.json  the same data for the case generators (py/props/c08.py, c14.py)

The parser is a bracket-matching parser over comment-stripped source (attributes span lines and nest).
Every attribute / seed / address form that is not recognised makes generation FAIL (exit 1): a broken
tie, never a silent skip.  `constraint = <expr>` is normalised (whitespace removed, let-bindings
inlined, `@ Error` split off) and classified into the vocabulary of coq/model/AnchorTypes.v; what is
not recognised becomes `COpaque "<text>"` (uninterpreted in the model).
"""
import json, os, re, sys

REPO = os.environ.get("VERIF_REPO", "/repo")
SRC = os.path.join(REPO, "programs", "marginfi", "src")


class GenError(Exception):
    pass


def fail(msg):
    raise GenError(msg)


# ------------------------------------------------------------------------------------------------
# lexical helpers

def skip_string(s, i):
    """s[i] == '"' ; return index just after the closing quote"""
    j = i + 1
    while j < len(s) and s[j] != '"':
        if s[j] == "\\":
            j += 1
        j += 1
    return j + 1


CHAR_RE = re.compile(r"'(\\.|[^\\'])'")


def strip_comments(s):
    out, i, n = [], 0, len(s)
    while i < n:
        c = s[i]
        if s.startswith("//", i):
            j = s.find("\n", i)
            i = n if j < 0 else j
        elif s.startswith("/*", i):
            d, i = 1, i + 2
            while i < n and d > 0:
                if s.startswith("/*", i):
                    d, i = d + 1, i + 2
                elif s.startswith("*/", i):
                    d, i = d - 1, i + 2
                else:
                    i += 1
            out.append(" ")
        elif c == '"':
            j = skip_string(s, i)
            out.append(s[i:j])
            i = j
        elif c == "'" and CHAR_RE.match(s, i):
            m = CHAR_RE.match(s, i)
            out.append(m.group(0))
            i = m.end()
        else:
            out.append(c)
            i += 1
    return "".join(out)


OPEN, CLOSE = "([{", ")]}"


def match_bracket(s, i):
    """s[i] is an opening bracket; index of the matching closing bracket"""
    st, n = [], len(s)
    while i < n:
        c = s[i]
        if c == '"':
            i = skip_string(s, i)
            continue
        if c == "'" and CHAR_RE.match(s, i):
            i = CHAR_RE.match(s, i).end()
            continue
        if c in OPEN:
            st.append(c)
        elif c in CLOSE:
            if not st or OPEN.index(st.pop()) != CLOSE.index(c):
                fail("unbalanced bracket near: " + s[max(0, i - 60):i + 20])
            if not st:
                return i
        i += 1
    fail("unbalanced bracket (eof)")


def split_top(s, sep=","):
    """split at top-level separators (outside (), [], {}, strings). `<`/`>` are not brackets here
    (they occur as operators in expressions); closures `|d| ...` contain no top-level commas in this code base."""
    parts, cur, d, i, n = [], [], 0, 0, len(s)
    while i < n:
        c = s[i]
        if c == '"':
            j = skip_string(s, i)
            cur.append(s[i:j])
            i = j
            continue
        if c in OPEN:
            d += 1
        elif c in CLOSE:
            d -= 1
        if c == sep and d == 0:
            parts.append("".join(cur))
            cur = []
        else:
            cur.append(c)
        i += 1
    parts.append("".join(cur))
    return [p.strip() for p in parts if p.strip()]


def norm(e):
    """canonical spelling: no whitespace except a single blank between two identifier characters"""
    e = re.sub(r"\s+", " ", e.strip())
    e = re.sub(r" ?([^A-Za-z0-9_ ]) ?", r"\1", e)
    return e


def strip_outer(e):
    """remove redundant outer ( ) / { } pairs"""
    while e and e[0] in "({" and match_bracket(e, 0) == len(e) - 1:
        e = e[1:-1].strip()
    return e


# ------------------------------------------------------------------------------------------------
# constants needed to resolve seeds / flags

def read(path):
    return open(path, encoding="utf-8").read()


def collect_consts():
    strs, nums = {}, {}
    acct_flags = set()
    files = [os.path.join(REPO, "type-crate", "src", "constants.rs"),
             os.path.join(SRC, "constants.rs"),
             os.path.join(REPO, "type-crate", "src", "types", "user_account.rs")]
    for f in files:
        s = strip_comments(read(f))
        for m in re.finditer(r"pub const (\w+)\s*:\s*&(?:'static )?str\s*=\s*\"([^\"]*)\"\s*;", s):
            strs[m.group(1)] = m.group(2)
        for m in re.finditer(r"pub const (\w+)\s*:\s*u64\s*=\s*([^;]+);", s):
            e = m.group(2).strip().replace("_", "")
            mm = re.fullmatch(r"(\d+)\s*<<\s*(\d+)", e)
            if mm:
                nums[m.group(1)] = int(mm.group(1)) << int(mm.group(2))
                if f.endswith("user_account.rs") and m.group(1).startswith("ACCOUNT_"):
                    acct_flags.add(m.group(1))
            elif re.fullmatch(r"\d+", e):
                nums[m.group(1)] = int(e)
    return strs, nums, acct_flags


# ------------------------------------------------------------------------------------------------
# lib.rs : instruction -> (struct, args, delegate handler fn)

def parse_lib():
    s = strip_comments(read(os.path.join(SRC, "lib.rs")))
    m = re.search(r"#\[program\]\s*pub mod (\w+)\s*\{", s)
    if not m:
        fail("lib.rs: #[program] module not found")
    j = m.end() - 1
    k = match_bracket(s, j)
    body = s[j + 1:k]
    out, p = [], 0
    for m in re.finditer(r"\bpub fn (\w+)\s*(<[^>]*>)?\s*\(", body):
        if m.start() < p:
            continue
        name = m.group(1)
        lp = m.end() - 1
        rp = match_bracket(body, lp)
        params = split_params(body[lp + 1:rp])
        if not params:
            fail(f"lib.rs: {name}: no parameters")
        m0 = re.fullmatch(r"(?:mut\s+)?_?ctx\s*:\s*Context\s*<(.*)>", params[0], re.S)
        if not m0:
            fail(f"lib.rs: {name}: first parameter is not ctx: Context<..>: {params[0]!r}")
        ctx_args = [a.strip() for a in split_angle(m0.group(1))]
        st = re.sub(r"<.*>$", "", ctx_args[-1].strip()).strip()
        st = st.split("::")[-1]
        args = []
        for prm in params[1:]:
            mm = re.fullmatch(r"(?:mut\s+)?_?(\w+)\s*:\s*(.+)", prm, re.S)
            if not mm:
                fail(f"lib.rs: {name}: parameter {prm!r}")
            args.append((mm.group(1), norm(mm.group(2))))
        lb = body.index("{", rp)
        rb = match_bracket(body, lb)
        fbody = body[lb + 1:rb]
        calls = re.findall(r"\b((?:\w+::)*\w+)\s*\(\s*ctx\b", fbody)
        out.append({"ix": name, "struct": st, "args": args, "calls": calls})
        p = rb
    return out


def split_params(s):
    """split a parameter list at commas outside (), [], {} and <> (types only, no operators)"""
    parts, cur, d = [], [], 0
    for i, c in enumerate(s):
        if c in OPEN or c == "<":
            d += 1
        elif c in CLOSE or (c == ">" and not (i > 0 and s[i - 1] == "-")):
            d -= 1
        if c == "," and d == 0:
            parts.append("".join(cur))
            cur = []
        else:
            cur.append(c)
    parts.append("".join(cur))
    return [p.strip() for p in parts if p.strip()]


def split_angle(s):
    parts, cur, d = [], [], 0
    for c in s:
        if c == "<":
            d += 1
        elif c == ">":
            d -= 1
        if c == "," and d == 0:
            parts.append("".join(cur))
            cur = []
        else:
            cur.append(c)
    parts.append("".join(cur))
    return [p for p in parts if p.strip()]


# ------------------------------------------------------------------------------------------------
# Accounts structs

def instruction_files():
    res = []
    for root, ds, fs in os.walk(os.path.join(SRC, "instructions")):
        ds.sort()
        for f in sorted(fs):
            if f.endswith(".rs"):
                res.append(os.path.join(root, f))
    return res


def parse_structs():
    structs = {}
    for path in instruction_files():
        s = strip_comments(read(path))
        rel = os.path.relpath(path, REPO)
        for m in re.finditer(r"#\[derive\(([^)]*)\)\]", s):
            if "Accounts" not in [x.strip() for x in m.group(1).split(",")]:
                continue
            i = m.end()
            sattrs = []
            while True:
                mm = re.match(r"\s*#\[", s[i:])
                if not mm:
                    break
                j = i + mm.end() - 1
                k = match_bracket(s, j)
                sattrs.append(s[j + 1:k].strip())
                i = k + 1
            mm = re.match(r"\s*pub struct (\w+)\s*(<[^>]*>)?\s*\{", s[i:])
            if not mm:
                fail(f"{rel}: derive(Accounts) not followed by a struct: {s[i:i+80]!r}")
            name = mm.group(1)
            j = i + mm.end() - 1
            k = match_bracket(s, j)
            ix_args = []
            for a in sattrs:
                if a.startswith("instruction"):
                    inner = a[a.index("(") + 1:a.rindex(")")]
                    for prm in split_top(inner):
                        mm2 = re.fullmatch(r"(\w+)\s*:\s*(.+)", prm, re.S)
                        if not mm2:
                            fail(f"{rel}: {name}: #[instruction] item {prm!r}")
                        ix_args.append((mm2.group(1), norm(mm2.group(2))))
                else:
                    fail(f"{rel}: {name}: unknown struct attribute #[{a}]")
            if name in structs:
                fail(f"duplicate Accounts struct {name}")
            structs[name] = {"file": rel, "ix_args": ix_args, "fields": parse_fields(s[j + 1:k], rel, name)}
    return structs


def parse_fields(body, rel, sname):
    fields, p = [], 0
    while True:
        p += re.match(r"\s*", body[p:]).end()
        if p >= len(body):
            break
        attrs = []
        while body.startswith("#[", p):
            q = match_bracket(body, p + 1)
            attrs.append(body[p + 2:q].strip())
            p = q + 1
            p += re.match(r"\s*", body[p:]).end()
        mm = re.match(r"pub (\w+)\s*:\s*", body[p:])
        if not mm:
            fail(f"{rel}: {sname}: cannot parse field at {body[p:p+80]!r}")
        fname = mm.group(1)
        p += mm.end()
        d, q = 0, p
        while q < len(body):
            c = body[q]
            if c == "<":
                d += 1
            elif c == ">":
                d -= 1
            elif c == "," and d == 0:
                break
            q += 1
        ty = norm(body[p:q])
        p = q + 1
        items = []
        for a in attrs:
            if not (a.startswith("account") and a[len("account"):].lstrip().startswith("(")):
                fail(f"{rel}: {sname}.{fname}: unknown field attribute #[{a[:60]}]")
            inner = a[a.index("(") + 1:a.rindex(")")]
            items += split_top(inner)
        fields.append(make_field(fname, ty, items, f"{rel}: {sname}.{fname}"))
    return fields


def parse_wrapper(ty, where):
    opt = False
    m = re.fullmatch(r"Option<(.*)>", ty)
    if m:
        opt, ty = True, m.group(1)
    m = re.fullmatch(r"Box<(.*)>", ty)
    if m:
        ty = m.group(1)
    ty = ty.replace("'info,", "").replace("'info", "")
    pats = [
        (r"Signer<>", lambda m: ("WSigner", None)),
        (r"AccountLoader<([\w:]+)>", lambda m: ("WLoader", m.group(1).split("::")[-1])),
        (r"InterfaceAccount<TokenAccount>", lambda m: ("WTokenAccount", None)),
        (r"InterfaceAccount<Mint>", lambda m: ("WMint", None)),
        (r"Program<(\w+)>", lambda m: ("WProgram", m.group(1))),
        (r"Interface<TokenInterface>", lambda m: ("WTokenInterface", None)),
        (r"Sysvar<(\w+)>", lambda m: ("WSysvar", m.group(1))),
        (r"SystemAccount<>", lambda m: ("WSystemAccount", None)),
        (r"UncheckedAccount<>", lambda m: ("WUnchecked", None)),
        (r"AccountInfo<>", lambda m: ("WUnchecked", None)),
    ]
    for pat, f in pats:
        m = re.fullmatch(pat, ty)
        if m:
            w, arg = f(m)
            return {"w": w, "arg": arg, "opt": opt}
    fail(f"{where}: unknown account wrapper type {ty!r}")


def split_err(item):
    """`expr @ Error` -> (expr, 'Error' | None), at top level only"""
    parts = split_top(item, "@")
    if len(parts) == 1:
        return parts[0], None
    if len(parts) == 2:
        return parts[0], norm(parts[1])
    fail(f"more than one top-level @ in {item!r}")


def err_name(e, where):
    if e is None:
        return None
    m = re.fullmatch(r"(?:\w+::)*MarginfiError::(\w+)", e)
    if not m:
        fail(f"{where}: unknown error expression {e!r}")
    return m.group(1)


KEXPR_PATS = [
    (r"((?:\w+::)*sysvar::instructions)::(?:id\(\)|ID)", lambda m: ["KConst", "SYSVAR_INSTRUCTIONS_ID"]),
    (r"(\w+)\.key\(\)", lambda m: ["KField", m.group(1)]),
    (r"(\w+)\.load\(\)\?\.(\w+)", lambda m: ["KData", m.group(1), m.group(2)]),
    (r"(\w+)\.load\(\)\?\.config\.(\w+)", lambda m: ["KData", m.group(1), "config." + m.group(2)]),
    (r"(\w+)\.(mint|owner)", lambda m: ["KData", m.group(1), m.group(2)]),
    (r"&?((?:\w+::)*[A-Z][A-Z0-9_]*)", lambda m: ["KConst", m.group(1).split("::")[-1] if m.group(1).split("::")[-1] != "ID" else m.group(1).replace("::", "_")]),
    (r"(\w+)", lambda m: ["KField", m.group(1)]),
]


def parse_kexpr(e, where, bare_is_field=True):
    e = strip_outer(norm(e))
    for pat, f in KEXPR_PATS:
        m = re.fullmatch(pat, e)
        if m:
            r = f(m)
            if r[0] == "KField" and pat == r"(\w+)" and not bare_is_field:
                continue
            return r
    fail(f"{where}: unknown pubkey expression {e!r}")


def parse_seed(e, where, strs):
    e = norm(e)
    m = re.fullmatch(r"(\w+)\.as_bytes\(\)", e)
    if m:
        if m.group(1) not in strs:
            fail(f"{where}: seed constant {m.group(1)} not found in the constants files")
        return ["SLit", strs[m.group(1)], m.group(1)]
    m = re.fullmatch(r"(\w+)\.key\(\)\.as_ref\(\)", e)
    if m:
        return ["SKeyOf", m.group(1)]
    m = re.fullmatch(r"&(\d+)u(?:8|16|32|64)\.to_le_bytes\(\)", e)
    if m:
        return ["SNum", int(m.group(1))]
    m = re.fullmatch(r"&(\w+)\.to_le_bytes\(\)", e)
    if m:
        return ["SArg", m.group(1)]
    m = re.fullmatch(r"&(\w+)\.unwrap_or\(0\)\.to_le_bytes\(\)", e)
    if m:
        return ["SArg", m.group(1)]
    m = re.fullmatch(r"&(\d+)u(?:8|16|32|64)\.to_le_bytes\(\)", e)
    if m:
        return ["SNum", int(m.group(1))]
    m = re.fullmatch(r"&\[(\d+)u8\]", e)
    if m:
        return ["SNum", int(m.group(1))]
    m = re.fullmatch(r"(\w+)\.load\(\)\?\.(\w+)\.as_ref\(\)", e)
    if m:
        return ["SDataKey", m.group(1), m.group(2)]
    m = re.fullmatch(r"((?:\w+::)*\w+)::ID\.as_ref\(\)", e)
    if m:
        return ["SConstKey", m.group(1).replace("::", "_") + "_ID"]
    fail(f"{where}: unknown seed expression {e!r}")


def inline_lets(e):
    """{ let a = X; let b = Y; EXPR }  ->  EXPR[a:=X, b:=Y]  (textual, on identifier boundaries)"""
    e = strip_outer(e)
    stmts = split_top(e, ";")
    if len(stmts) == 1:
        return strip_outer(stmts[0])
    env = []
    for st in stmts[:-1]:
        m = re.fullmatch(r"let (\w+)(?::[^=]+)?=(.+)", st, re.S)
        if not m:
            return None
        rhs = m.group(2)
        for (n, v) in env:
            rhs = re.sub(r"(?<![\w.])" + n + r"\b", v, rhs)
        env.append((m.group(1), rhs))
    body = stmts[-1]
    for (n, v) in reversed(env):
        body = re.sub(r"(?<![\w.])" + n + r"\b", v, body)
    return strip_outer(body)


def classify(expr, where, nums):
    """normalised `constraint =` expression -> constraint term (nested lists)"""
    raw = norm(expr)
    e = inline_lets(raw)
    if e is None:
        return ["COpaque", raw]
    e = norm(e)
    # conjunctions
    conj = split_and(e)
    if len(conj) > 1:
        parts = [classify_atom(strip_outer(c), where, nums) for c in conj]
        if any(p[0] == "COpaque" for p in parts):
            return ["COpaque", raw]
        # merge account-flag atoms on the same account
        if all(p[0] == "CAcctFlags" and p[1] == parts[0][1] for p in parts):
            return ["CAcctFlags", parts[0][1], sum((p[2] for p in parts), [])]
        r = parts[-1]
        for p in reversed(parts[:-1]):
            r = ["CAnd", p, r]
        return r
    a = classify_atom(e, where, nums)
    if a[0] == "COpaque":
        return ["COpaque", raw]
    return a


def split_and(e):
    parts, cur, d, i = [], [], 0, 0
    while i < len(e):
        c = e[i]
        if c in OPEN:
            d += 1
        elif c in CLOSE:
            d -= 1
        if d == 0 and e.startswith("&&", i):
            parts.append("".join(cur))
            cur = []
            i += 2
            continue
        cur.append(c)
        i += 1
    parts.append("".join(cur))
    return parts


def classify_atom(e, where, nums):
    neg = False
    e0 = e
    while e.startswith("!"):
        neg = not neg
        e = strip_outer(e[1:])
    m = re.fullmatch(r"(\w+)\.load\(\)\?\.is_protocol_paused\(\)", e)
    if m and neg:
        return ["CNotPaused", m.group(1)]
    m = re.fullmatch(r"is_signer_authorized\(&(\w+)\.load\(\)\?,(\w+)\.load\(\)\?\.admin,(\w+)\.key\(\),(true|false)\)", e)
    if m and not neg:
        return ["CSignerAuthorized", m.group(1), m.group(2), m.group(3), m.group(4) == "true"]
    m = re.fullmatch(r"account_not_frozen_for_authority\(&(\w+)\.load\(\)\?,(\w+)\.key\(\)\)", e)
    if m and not neg:
        return ["CNotFrozenForAuthority", m.group(1), m.group(2)]
    m = re.fullmatch(r"(\w+)\.load\(\)\?\.get_flag\((\w+)\)", e)
    if m:
        flag = m.group(2)
        if flag.startswith("ACCOUNT_"):
            if flag not in nums:
                fail(f"{where}: account flag {flag} not found in type-crate/src/types/user_account.rs")
            return ["CAcctFlags", m.group(1), [[not neg, flag]]]
        return ["CBankFlag", m.group(1), not neg, flag]
    m = re.fullmatch(r"(is_\w+_asset_tag)\((\w+)\.load\(\)\?\.config\.asset_tag\)", e)
    if m and not neg:
        return ["CBankTag", m.group(2), m.group(1)]
    m = re.fullmatch(r"(\w+)\.load\(\)\?\.config\.asset_tag==(ASSET_TAG_\w+)", e)
    if m and not neg:
        return ["CBankTagIs", m.group(1), m.group(2)]
    m = re.fullmatch(r"(\w+)\.load\(\)\?\.get_flag\(ACCOUNT_IN_RECEIVERSHIP\)&&I80F48::from\((\w+)\.load\(\)\?\.config\.asset_weight_init\)==I80F48::ZERO", e)
    # the receivership / zero-weight rule (withdraw family), after let-inlining:
    m = re.fullmatch(r"(\w+)\.load\(\)\?\.get_flag\(ACCOUNT_IN_RECEIVERSHIP\)&&(\w+)\.load\(\)\?\.config\.asset_weight_init\.into\(\)==I80F48::ZERO", e)
    if m and neg:
        return ["CRecvZeroWeight", m.group(1), m.group(2)]
    m = re.fullmatch(r"(\w+)\.owner==&(\w+)", e)
    if m and not neg:
        return ["COwnerIs", m.group(1), m.group(2)]
    for op, tag in (("==", "CKeyEq"), ("!=", "CKeyNe")):
        parts = split_op(e, op)
        if parts and not neg:
            try:
                a = parse_kexpr(parts[0], where)
                b = parse_kexpr(parts[1], where)
            except GenError:
                break
            # only pubkey-typed comparisons: at least one side must be a .key() or a pubkey const,
            # or both sides account data fields
            return [tag, a, b]
    return ["COpaque", e0]


def split_op(e, op):
    d, i = 0, 0
    while i < len(e):
        c = e[i]
        if c in OPEN:
            d += 1
        elif c in CLOSE:
            d -= 1
        if d == 0 and e.startswith(op, i) and not (op == "==" and i > 0 and e[i - 1] in "!<>="):
            return [e[:i], e[i + len(op):]]
        i += 1
    return None


KNOWN_DROPPED = ("payer", "space")   # recognised, irrelevant to accept/reject modelling beyond `init`


def make_field(fname, ty, items, where):
    f = {"name": fname, "type": ty, "mut": False, "init": False, "close": None, "has_one": [], "address": None,
         "seeds": None, "bump": None, "seeds_program": None, "owner": None, "token": [], "cons": [], "payer": None}
    f.update(parse_wrapper(ty, where))
    f["_items"] = items
    f["_where"] = where
    return f


def finish_field(f, strs, nums):
    where = f.pop("_where")
    for it in f.pop("_items"):
        it_n = it.strip()
        if it_n == "mut":
            f["mut"] = True
        elif it_n == "init":
            f["init"] = True
            f["mut"] = True
        elif it_n == "bump":
            f["bump"] = "canonical"
        elif it_n in ("signer", "zero", "init_if_needed", "executable") or it_n.startswith(("realloc", "rent_exempt", "mint::")):
            fail(f"{where}: account attribute {it_n[:40]!r} is not in the translator's vocabulary")
        else:
            m = re.match(r"([\w:]+)\s*=\s*(.*)", it_n, re.S)
            if not m:
                fail(f"{where}: unknown account attribute {it_n[:60]!r}")
            k, v = m.group(1), m.group(2)
            if k == "has_one":
                tgt, err = split_err(v)
                if not re.fullmatch(r"\w+", tgt.strip()):
                    fail(f"{where}: has_one target {tgt!r}")
                f["has_one"].append([tgt.strip(), err_name(err, where)])
            elif k == "constraint":
                ex, err = split_err(v)
                f["cons"].append([classify(ex, where, nums), err_name(err, where), norm(ex)])
            elif k == "address":
                ex, err = split_err(v)
                f["address"] = [parse_kexpr(ex, where, bare_is_field=False), err_name(err, where)]
                if f["address"][0][0] != "KConst":
                    fail(f"{where}: address = {ex!r} is not a constant")
            elif k == "seeds":
                v = v.strip()
                if not (v.startswith("[") and match_bracket(v, 0) == len(v) - 1):
                    fail(f"{where}: seeds = {v[:40]!r}")
                f["seeds"] = [parse_seed(x, where, strs) for x in split_top(v[1:-1])]
            elif k == "bump":
                m2 = re.fullmatch(r"(\w+)\.load\(\)\?\.(\w+)", norm(v))
                if not m2:
                    fail(f"{where}: bump = {v!r}")
                f["bump"] = [m2.group(1), m2.group(2)]
            elif k == "seeds::program":
                f["seeds_program"] = parse_kexpr(v, where, bare_is_field=False)[1]
            elif k == "owner":
                f["owner"] = parse_kexpr(v, where, bare_is_field=False)[1]
            elif k == "close":
                f["close"] = v.strip()
                f["mut"] = True
            elif k == "payer":
                f["payer"] = v.strip()
            elif k == "space":
                pass
            elif k in ("token::mint", "token::authority", "token::token_program", "associated_token::mint",
                       "associated_token::authority", "associated_token::token_program"):
                f["token"].append([k, parse_kexpr(v, where)])
            else:
                fail(f"{where}: unknown account attribute {k!r}")
    if f["seeds"] is not None and f["bump"] is None:
        fail(f"{where}: seeds without bump")
    if f["bump"] is not None and f["seeds"] is None:
        fail(f"{where}: bump without seeds")
    return f


# ------------------------------------------------------------------------------------------------
# handler facts

def find_fn_bodies():
    """name -> list of (file, body) for every `pub fn name` under instructions/**"""
    res = {}
    for path in instruction_files():
        s = strip_comments(read(path))
        rel = os.path.relpath(path, REPO)
        for m in re.finditer(r"\bpub(?:\(crate\))? fn (\w+)\s*(<[^>(]*>)?\s*\(", s):
            lp = m.end() - 1
            rp = match_bracket(s, lp)
            try:
                lb = s.index("{", rp)
            except ValueError:
                continue
            if ";" in s[rp:lb]:
                continue
            rb = match_bracket(s, lb)
            res.setdefault(m.group(1), []).append((rel, s[lb + 1:rb], s[lp + 1:rp]))
    return res


def handler_facts(lib, structs):
    bodies = find_fn_bodies()
    total_sites = 0
    for path in instruction_files():
        total_sites += len(re.findall(r"\bvalidate_bank_state\s*\(", strip_comments(read(path))))
    for root, ds, fs in os.walk(SRC):
        for f in fs:
            p = os.path.join(root, f)
            if p.endswith(".rs") and "/instructions/" not in p:
                s = strip_comments(read(p))
                n = len(re.findall(r"\bvalidate_bank_state\s*\(", s))
                n -= len(re.findall(r"\bfn validate_bank_state\s*\(", s))
                if n:
                    fail(f"{os.path.relpath(p, REPO)}: validate_bank_state is called outside instructions/** "
                         f"({n} site(s)); the translator only attributes call sites in handler bodies")
    facts, attributed = [], 0
    for e in lib:
        calls = e["calls"]
        if len(calls) != 1:
            fail(f"lib.rs: {e['ix']}: expected exactly one delegate call taking ctx, found {calls}")
        fn = calls[0].split("::")[-1]
        cands = [b for b in bodies.get(fn, []) if re.search(r"Context\s*<[^;{]*\b" + e["struct"] + r"\b", b[2])]
        if len(cands) != 1:
            fail(f"lib.rs: {e['ix']}: handler fn {fn} taking Context<{e['struct']}> found {len(cands)} times")
        rel, body, _ = cands[0]
        kinds = []
        for m in re.finditer(r"\bvalidate_bank_state\s*\(", body):
            lp = m.end() - 1
            rp = match_bracket(body, lp)
            args = [norm(a) for a in split_top(body[lp + 1:rp])]
            if len(args) != 2:
                fail(f"{rel}: {fn}: validate_bank_state with {len(args)} arguments")
            mk = re.fullmatch(r"InstructionKind::(\w+)", args[1])
            mb = re.fullmatch(r"&(?:mut )?(\w+)", args[0])
            if not mk or not mb:
                fail(f"{rel}: {fn}: validate_bank_state({args[0]}, {args[1]}) is not of the form (&bank, InstructionKind::K)")
            kinds.append([mb.group(1), mk.group(1), unconditional(body, m.start())])
            attributed += 1
        facts.append({"ix": e["ix"], "handler": fn, "file": rel, "kinds": kinds})
    if attributed != total_sites:
        fail(f"validate_bank_state: {total_sites} call sites under instructions/** but only {attributed} are "
             f"directly inside instruction handler bodies")
    return facts


def unconditional(body, pos):
    """True iff every block enclosing body[pos] is a plain `{ .. }` block or a `let x = { .. }` block
    (i.e. the call is not nested in if / else / match / loop / closure) and no `return`/`?`-free early exit
    analysis is attempted: this is a purely syntactic nesting fact."""
    stack, i = [], 0
    while i < pos:
        c = body[i]
        if c == '"':
            i = skip_string(body, i)
            continue
        if c in OPEN:
            stack.append((c, i))
        elif c in CLOSE:
            stack.pop()
        i += 1
    for c, at in stack:
        if c != "{":
            return False
        j = at - 1
        while j >= 0 and body[j] not in ";{}":
            j -= 1
        head = body[j + 1:at].strip()
        if head and not re.fullmatch(r"let [^=;{}]+=", head):
            return False
    return True


def instruction_kinds():
    s = strip_comments(read(os.path.join(SRC, "utils", "general.rs")))
    m = re.search(r"pub enum InstructionKind\s*\{", s)
    if not m:
        fail("utils/general.rs: enum InstructionKind not found")
    j = m.end() - 1
    k = match_bracket(s, j)
    return [x.strip() for x in split_top(s[j + 1:k])]


# ------------------------------------------------------------------------------------------------
# Coq emission

def cq(s):
    return '"' + s.replace('"', '""') + '"'


def copt(x, f=lambda v: v):
    return "None" if x is None else f"(Some {f(x)})"


def cerr(e):
    return "None" if e is None else f"(Some E_{e})"


def clist(xs):
    return "[" + "; ".join(xs) + "]"


def cbool(b):
    return "true" if b else "false"


def ckexpr(k):
    if k[0] == "KField":
        return f"(KField {cq(k[1])})"
    if k[0] == "KData":
        return f"(KData {cq(k[1])} {cq(k[2])})"
    if k[0] == "KConst":
        return f"(KConst {cq(k[1])})"
    raise AssertionError(k)


def ccons(c):
    t = c[0]
    if t == "CNotPaused":
        return f"(CNotPaused {cq(c[1])})"
    if t == "CSignerAuthorized":
        return f"(CSignerAuthorized {cq(c[1])} {cq(c[2])} {cq(c[3])} {cbool(c[4])})"
    if t == "CNotFrozenForAuthority":
        return f"(CNotFrozenForAuthority {cq(c[1])} {cq(c[2])})"
    if t == "CAcctFlags":
        return f"(CAcctFlags {cq(c[1])} {clist('(%s, %s)' % (cbool(w), n) for w, n in c[2])})"
    if t == "CBankFlag":
        return f"(CBankFlag {cq(c[1])} {cbool(c[2])} {c[3]})"
    if t == "CBankTag":
        return f"(CBankTag {cq(c[1])} {cq(c[2])})"
    if t == "CBankTagIs":
        return f"(CBankTagIs {cq(c[1])} {c[2]})"
    if t == "CRecvZeroWeight":
        return f"(CRecvZeroWeight {cq(c[1])} {cq(c[2])})"
    if t == "COwnerIs":
        return f"(COwnerIs {cq(c[1])} {cq(c[2])})"
    if t in ("CKeyEq", "CKeyNe"):
        return f"({t} {ckexpr(c[1])} {ckexpr(c[2])})"
    if t == "CAnd":
        return f"(CAnd {ccons(c[1])} {ccons(c[2])})"
    if t == "COpaque":
        return f"(COpaque {cq(c[1])})"
    raise AssertionError(c)


def cseed(s):
    t = s[0]
    if t == "SLit":
        return f"(SLit {cq(s[1])})"
    if t == "SNum":
        return f"(SNum {s[1]})"
    return f"({t} {' '.join(cq(x) for x in s[1:])})"


def cwrap(f):
    w = f["w"]
    if w in ("WLoader", "WProgram", "WSysvar"):
        return f"({w} {cq(f['arg'])})"
    return w


def cfield(f):
    seeds = "None"
    if f["seeds"] is not None:
        seeds = f"(Some ({clist(cseed(s) for s in f['seeds'])}, {copt(f['seeds_program'], cq)}))"
    lines = [
        f"mkField {cq(f['name'])} {cwrap(f)} {cbool(f['opt'])} {cbool(f['mut'])} {cbool(f['init'])} {copt(f['close'], cq)}",
        "  " + clist(f"({cq(t)}, {cerr(e)})" for t, e in f["has_one"]),
        "  " + ("None" if f["address"] is None else f"(Some ({ckexpr(f['address'][0])}, {cerr(f['address'][1])}))"),
        "  " + seeds,
        "  " + copt(f["owner"], cq),
        "  " + clist(f"({cq(k)}, {ckexpr(v)})" for k, v in f["token"]),
        "  " + clist(f"({ccons(c)}, {cerr(e)})" for c, e, _ in f["cons"]),
    ]
    return "\n      ".join(lines)


def emit_table(entries, nums, acct_flags, outdir):
    o = []
    o.append("(* GENERATED on every run by gen/coqgen_accounts.py from the #[derive(Accounts)] structs of\n"
             "   programs/marginfi/src/instructions/** and the fn -> Context<Struct> map of lib.rs. Do not edit. *)")
    o.append("From Coq Require Import ZArith List String.")
    o.append("Require Import Constants AnchorTypes.")
    o.append("Import ListNotations.")
    o.append("Local Open Scope string_scope.")
    o.append("Local Open Scope Z_scope.\n")
    o.append("(* MarginfiAccount.account_flags masks (type-crate/src/types/user_account.rs) *)")
    for n in sorted(acct_flags, key=lambda k: nums[k]):
        o.append(f"Definition {n} : Z := {nums[n]}.")
    o.append("")
    o.append("Definition accounts_table : list entry := [")
    ents = []
    for e in entries:
        fl = ";\n      ".join(cfield(f) for f in e["fields"])
        ents.append(f"  mkEntry {cq(e['ix'])} {cq(e['struct'])} {clist(cq(a) for a, _ in e['args'])} [\n      {fl}\n  ]")
    o.append(";\n".join(ents))
    o.append("].\n")
    o.append(f"Definition accounts_table_len : nat := {len(entries)}.")
    open_write(os.path.join(outdir, "AccountsTable.v"), "\n".join(o) + "\n")


def emit_facts(facts, kinds, outdir):
    o = []
    o.append("(* GENERATED on every run by gen/coqgen_accounts.py: syntactic facts about instruction handlers.\n"
             "   validate_bank_state_calls: for every instruction of lib.rs, the (bank variable, InstructionKind)\n"
             "   arguments of the validate_bank_state calls in its handler body, in source order, and whether the\n"
             "   call is syntactically unconditional (not nested in if / match / loop / closure).\n"
             "   instruction_kind_variants: the variants of `enum InstructionKind` (utils/general.rs) in order. *)")
    o.append("From Coq Require Import ZArith List String.")
    o.append("Require Import Gate.")
    o.append("Import ListNotations.")
    o.append("Local Open Scope string_scope.\n")
    o.append("Definition instruction_kind_variants : list ikind := " + clist(kinds) + ".\n")
    o.append("Definition validate_bank_state_calls : list (string * list (string * ikind * bool)) := [")
    o.append(";\n".join(f"  ({cq(f['ix'])}, {clist('(%s, %s, %s)' % (cq(b), k, cbool(u)) for b, k, u in f['kinds'])})" for f in facts))
    o.append("].")
    open_write(os.path.join(outdir, "HandlerFacts.v"), "\n".join(o) + "\n")


def open_write(path, text):
    """write only when changed so that make does not rebuild needlessly"""
    if os.path.exists(path) and open(path).read() == text:
        return
    with open(path + ".new", "w") as f:
        f.write(text)
    os.replace(path + ".new", path)


def main():
    outdir = sys.argv[1]
    os.makedirs(outdir, exist_ok=True)
    strs, nums, acct_flags = collect_consts()
    for need in ("ACCOUNT_FROZEN", "ACCOUNT_IN_RECEIVERSHIP", "ACCOUNT_DISABLED", "ACCOUNT_IN_FLASHLOAN"):
        if need not in nums:
            fail(f"constant {need} not found in type-crate/src/types/user_account.rs")
    lib = parse_lib()
    structs = parse_structs()
    for st in structs.values():
        st["fields"] = [finish_field(f, strs, nums) for f in st["fields"]]
    entries, used = [], set()
    for e in lib:
        if e["struct"] not in structs:
            fail(f"lib.rs: {e['ix']}: Accounts struct {e['struct']} not found under instructions/**")
        st = structs[e["struct"]]
        used.add(e["struct"])
        # #[instruction(..)] arguments must be a prefix of the fn arguments
        fa = [a for a, _ in e["args"]]
        ia = [a for a, _ in st["ix_args"]]
        if fa[:len(ia)] != ia:
            fail(f"{e['ix']}: #[instruction({ia})] is not a prefix of the fn arguments {fa}")
        entries.append({"ix": e["ix"], "struct": e["struct"], "file": st["file"], "args": e["args"],
                        "ix_args": st["ix_args"], "fields": st["fields"]})
    unused = sorted(set(structs) - used)
    if unused:
        fail(f"Accounts structs not referenced by any instruction of lib.rs: {unused}")
    names = [e["ix"] for e in entries]
    if len(set(names)) != len(names):
        fail("duplicate instruction name in lib.rs")
    facts = handler_facts(lib, structs)
    kinds = instruction_kinds()
    emit_table(entries, nums, acct_flags, outdir)
    emit_facts(facts, kinds, outdir)
    js = {"entries": entries, "facts": facts, "kinds": kinds,
          "account_flags": {k: nums[k] for k in acct_flags}}
    # for the case generators (py/props/c08.py, c14.py): <verif>/.cache/gen/accounts_table.json
    cache = os.path.join(os.path.dirname(os.path.dirname(os.path.abspath(outdir))), ".cache", "gen")
    os.makedirs(cache, exist_ok=True)
    open_write(os.path.join(cache, "accounts_table.json"), json.dumps(js, indent=1, sort_keys=True))
    return 0


if __name__ == "__main__":
    try:
        sys.exit(main())
    except GenError as ex:
        print("coqgen_accounts: GENERATION FAILED: " + str(ex), file=sys.stderr)
        print("coqgen_accounts: GENERATION FAILED: " + str(ex))
        sys.exit(1)
