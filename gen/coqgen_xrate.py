#!/usr/bin/env python3
"""Translator step for C20: read the venue-mock constants the Xrate model depends on from /repo's
source and emit coq/gen/XrateConsts.v (argv[1] = coq/gen).

  drift-mocks/src/constants.rs : SPOT_CUMULATIVE_INTEREST_PRECISION, DRIFT_PRECISION_EXP,
                                 DRIFT_SCALED_BALANCE_DECIMALS, EXP_10 (u128), EXP_10_I80F48
  */src/lib.rs                 : #[error_code] enums -> 6000 + index (Anchor ERROR_CODE_OFFSET)
  solend-mocks/src/state.rs    : WAD, the 79-bit bound of decimal_to_i80f48
  kamino-mocks/src/state.rs    : FRAC_BITS_DIFF of u68f60_to_i80f48

The numbers are cross-checked against the COMPILED crates on every run by the `consts` op of the
xrate correspondence suite (harness prints them from the linked crates, the model driver from this file).
Unknown source shapes abort generation (reported as a broken tie)."""
import os, re, sys

REPO = os.environ.get("VERIF_REPO", "/repo")
out_dir = sys.argv[1]


def die(msg):
    sys.exit("coqgen_xrate: " + msg)


def read(p):
    try:
        return open(os.path.join(REPO, p)).read()
    except OSError as e:
        die(f"cannot read {p}: {e}")


def strip_comments(s):
    return re.sub(r"//[^\n]*", "", s)


def int_lit(s):
    s = s.strip().replace("_", "")
    s = re.sub(r"(u128|u64|u32|u8|i128|i64|usize)$", "", s)
    if not re.fullmatch(r"\d+", s):
        die(f"not an integer literal: {s!r}")
    return int(s)


def const(src, name, ty):
    m = re.search(r"pub const %s\s*:\s*%s\s*=\s*([^;]+);" % (re.escape(name), re.escape(ty)), src)
    if not m:
        die(f"const {name}: {ty} not found")
    return int_lit(m.group(1))


def local_const(src, name, ty):
    m = re.search(r"const %s\s*:\s*%s\s*=\s*([^;]+);" % (re.escape(name), re.escape(ty)), src)
    if not m:
        die(f"local const {name}: {ty} not found")
    return m.group(1).strip()


def array(src, name, elem_re):
    m = re.search(r"pub const %s\s*:\s*\[[^\]]+\]\s*=\s*\[(.*?)\];" % re.escape(name), src, re.S)
    if not m:
        die(f"array {name} not found")
    items = [x.strip() for x in m.group(1).split(",") if x.strip()]
    vals = []
    for it in items:
        mm = re.fullmatch(elem_re, it)
        if not mm:
            die(f"array {name}: cannot parse element {it!r}")
        vals.append(int_lit(mm.group(1)))
    return vals


def error_enum(src, enum):
    m = re.search(r"#\[error_code\]\s*pub enum %s\s*\{(.*?)\n\}" % re.escape(enum), src, re.S)
    if not m:
        die(f"error enum {enum} not found")
    body = re.sub(r"#\[[^\]]*\]", "", m.group(1))
    names = []
    for part in body.split(","):
        part = part.strip()
        if not part:
            continue
        if not re.fullmatch(r"[A-Za-z_][A-Za-z0-9_]*", part):
            die(f"{enum}: cannot parse variant {part!r}")
        names.append(part)
    return {n: 6000 + i for i, n in enumerate(names)}


dc = strip_comments(read("programs/drift-mocks/src/constants.rs"))
spot_prec = const(dc, "SPOT_CUMULATIVE_INTEREST_PRECISION", "u128")
drift_exp = const(dc, "DRIFT_PRECISION_EXP", "u32")
drift_bal_dec = const(dc, "DRIFT_SCALED_BALANCE_DECIMALS", "u8")
d_exp10 = array(dc, "EXP_10", r"([0-9_]+)")
d_exp10_fx = [v << 48 for v in array(dc, "EXP_10_I80F48", r"I80F48!\(([0-9_]+)\)")]

derr = error_enum(strip_comments(read("programs/drift-mocks/src/lib.rs")), "DriftMocksError")
kerr = error_enum(strip_comments(read("programs/kamino-mocks/src/lib.rs")), "KaminoMocksError")
serr = error_enum(strip_comments(read("programs/solend-mocks/src/lib.rs")), "SolendMocksError")
for e, n in ((derr, "ScalingOverflow"), (derr, "MathError"), (kerr, "MathError"), (serr, "MathError"), (serr, "ReserveStale")):
    if n not in e:
        die(f"error variant {n} missing")

# the math_error!() macro of each mock names the variant it raises
def math_error_variant(path, enum):
    src = strip_comments(read(path))
    m = re.search(r"macro_rules!\s*math_error\s*\{.*?\$crate::%s::([A-Za-z0-9_]+)" % enum, src, re.S)
    if not m:
        die(f"math_error! of {path} not understood")
    return m.group(1)


d_me = math_error_variant("programs/drift-mocks/src/macros.rs", "DriftMocksError")
k_me = math_error_variant("programs/kamino-mocks/src/macros.rs", "KaminoMocksError")
s_me = math_error_variant("programs/solend-mocks/src/macros.rs", "SolendMocksError")

ss = strip_comments(read("programs/solend-mocks/src/state.rs"))
wad = int_lit(local_const(ss, "WAD", "u128"))
if not re.search(r"int_part\s*>\s*\(\(1u128\s*<<\s*79\)\s*-\s*1\)", ss):
    die("decimal_to_i80f48: 79-bit bound not found")
ks = strip_comments(read("programs/kamino-mocks/src/state.rs"))
fbd = local_const(ks, "FRAC_BITS_DIFF", "u32")
mm = re.fullmatch(r"(\d+)\s*-\s*(\d+)", fbd)
if not mm:
    die(f"FRAC_BITS_DIFF not understood: {fbd!r}")
frac_bits_diff = int(mm.group(1)) - int(mm.group(2))


def z(name, v):
    return f"Definition {name} : Z := ({v})%Z.\n"


def zl(name, vs):
    return f"Definition {name} : list Z := (" + " :: ".join(map(str, vs)) + " :: nil)%Z%list.\n"


o = "(* GENERATED on every run by gen/coqgen_xrate.py from /repo's venue mocks. Do not edit. *)\n"
o += "From Coq Require Import ZArith List.\n\n"
o += z("SPOT_CUMULATIVE_INTEREST_PRECISION", spot_prec)
o += z("DRIFT_PRECISION_EXP", drift_exp)
o += z("DRIFT_SCALED_BALANCE_DECIMALS", drift_bal_dec)
o += zl("DRIFT_EXP_10", d_exp10)
o += zl("DRIFT_EXP_10_I80F48", d_exp10_fx)
o += z("SOLEND_WAD", wad)
o += z("KAMINO_FRAC_BITS_DIFF", frac_bits_diff)
o += z("E_Drift_ScalingOverflow", derr["ScalingOverflow"])
o += z("E_Drift_MathError", derr["MathError"])
o += z("E_Drift_math_error_macro", derr[d_me])
o += z("E_Kamino_MathError", kerr["MathError"])
o += z("E_Kamino_math_error_macro", kerr[k_me])
o += z("E_Solend_MathError", serr["MathError"])
o += z("E_Solend_math_error_macro", serr[s_me])
o += z("E_Solend_ReserveStale", serr["ReserveStale"])
# anchor_lang::error::ErrorCode::InvalidNumericConversion (From<TryFromIntError> for Error);
# cross-checked against the linked anchor-lang by the `consts` op
o += z("E_Anchor_InvalidNumericConversion", 4102)

dst = os.path.join(out_dir, "XrateConsts.v")
if not os.path.exists(dst) or open(dst).read() != o:
    open(dst, "w").write(o)
print("coqgen_xrate: ok")
