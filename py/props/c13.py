"""C13 — accepted configurations are coherent and always leave a liquidation buffer."""
from fractions import Fraction

ID = "C13"
MANIFEST = {
    "text": ("Kernel-checked theorems over the model of BankConfig::validate, the e-mode validators, Bank::configure and every "
             "admin path that writes a bank configuration: validate = Ok gives all stated weight inequalities over raw I80F48 bits; "
             "e-mode validation = Ok gives 0 <= init <= maint < liability weights, the leverage-cap inequality as computed and no "
             "duplicate tags; Valid is preserved by add, configure, interest-only, limits-only, e-mode configure, e-mode clone, staked "
             "propagation, curve migration and any sequence of them; no request puts a bank into the killed state and none takes it "
             "out again (the two defects found in round 1, killed-bank-revived and emode-clone-unvalidated, are repaired in /repo; "
             "their oracles stay armed); for every portfolio of any length under Valid weights initial health >= 0 implies maintenance "
             "health >= 0 at equal prices, with and without e-mode. Tied to the real code by differential execution of the "
             "validators (level A) and of sequences of real admin instructions in the sim runtime (level C) with a Valid-oracle on "
             "the real bank bytes after every successful instruction and a buffer-oracle on the health components cached by the real risk engine."),
    "design_ref": "DESIGN.md §7 C13 (§8 F3 F4 repaired)",
    "technique": "Coq proofs (validator soundness, invariant preservation by induction over request lists, monotonicity of the weighted sums) + model/implementation correspondence at levels A and C",
}
THEOREMS = [
    "C13_validate_sound", "C13_staked_validate_sound", "C13_emode_validate_sound", "C13_emode_sorted_no_duplicates",
    "C13_add_bank_valid", "C13_add_bank_permissionless_valid", "C13_paths_preserve_valid", "C13_sequences_preserve_valid",
    "C13_clone_emode_valid", "C13_configure_revalidates_emode",
    "C13_no_request_kills", "C13_killed_forever", "C13_killed_forever_sequences",
    "C13_reconcile_keeps_init_le_maint", "C13_buffer", "C13_buffer_with_emode", "C13_buffer_without_emode",
    "C13_init_discount_in_unit_interval",
]
RULE = ("level A: configs with every weight at 0, 1, 2, equal, +-1 bit and random, isolated/collateral, oracle ages around the minimum, "
        "valid and broken curves; e-mode entries with weights at the leverage-cap boundary +-3 bits for caps 15/20 and random caps, "
        "duplicate/unsorted/empty tags; option arguments for Bank::configure incl. every operational state; level C: sequences of up to 7 "
        "real admin instructions (add, configure, interest-only, limits-only, e-mode, clone, group caps, staked init/edit/propagate, "
        "curve migration, bankruptcy kill) interleaved with health probes (fixture balances at fixed prices evaluated by the real lending_account_pulse_health, "
        "compared with the model's Initial and Maintenance sums). Non-trivial = at least one accepting validator / at least two successful instructions; distinct = different case line")
ASSUMPTIONS = [
    "account validation (signers, has_one, seeds) of the admin instructions is out of scope here (C08); handlers are modelled from accepted accounts on",
    "oracle-account validation (validate_oracle_setup) is an external input of the model for propagate / permissionless add",
    "Valid is relative to the group's leverage caps at the time of the write; a later change of the caps is a group instruction, not a bank configuration request",
    "buffer theorem: positions carry amount, biased price and scaling factor as given non-negative numbers, the same price for both requirement types, all oracles readable; the init-only discount is a given factor in [0,1]",
    "lending_pool_add_bank_permissionless is modelled and proved but not differentially executed (needs SPL single-pool fixtures); lending_pool_clone_bank is staging-only (panics unless the program id is the staging/localnet id) and not modelled",
]
OBSERVATIONS = [
    "lending_pool_add_bank accepts operational_state = KilledByBankruptcy for a NEW bank (creating an empty dead bank is not a transition of an existing bank)",
    "check_dupes only compares adjacent non-empty tags: it is exact because lending_pool_configure_bank_emode sorts before storing; the validator alone accepts unsorted duplicates",
    "calculate_max_leverage truncates twice, so the computed leverage can be below the exact one by about L^2 * 2^-48; the proved bound is ONE^2*lw < (cap+1)*(ONE*(lw-cw)+lw)",
    "a frozen bank (FREEZE_SETTINGS) ignores everything but the two limits in configure_bank, including operational_state",
]

ONE = 1 << 48
U32 = (1 << 32) - 1
U64 = (1 << 64) - 1
I128_MIN, I128_MAX = -(1 << 127), (1 << 127) - 1
KNOWN_KEYS = ()   # nothing is tolerated: both round-1 findings are repaired in /repo, their oracle keys stay armed
STEP_KINDS = ("ADD", "ADS", "CFG", "IRO", "LIM", "EM", "CL", "GC", "SSI", "SSE", "PR", "KILL", "HP", "MIG")
ORACLE_MIN_AGE = 10
NOW = 1_700_000_000


def fx(x):
    return int(Fraction(x) * ONE)


def basis(v):  # u32_to_basis as a number (raw bits)
    return (v * ONE // U32) * 100


def to_u32(x):  # basis_to_u32 for raw bits x in [0, 100]
    x = max(0, min(x, 100 * ONE))
    ratio = x * ONE // (100 * ONE)
    return ((ratio * U32 * ONE) // ONE // ONE) & U32


CAP_I, CAP_M = to_u32(15 * ONE), to_u32(20 * ONE)

# ------------------------------------------------------------------------------------------------ generators


def near(rng, v):
    return v + rng.choice([0, 0, 0, 1, -1, 2, -2])


def gen_points(rng, valid=True):
    k = rng.choice([0, 1, 2, 3, 5])
    zero = rng.choice([0, 0, rng.randrange(0, U32 // 100)])
    hundred = rng.choice([U32, rng.randrange(zero, U32 + 1)])
    utils = sorted(rng.sample(range(1, U32), k)) if k else []
    rates = sorted(rng.randrange(zero, hundred + 1) for _ in range(k))
    pts = list(zip(utils, rates)) + [(0, 0)] * (5 - k)
    if not valid:
        m = rng.randrange(4)
        if m == 0 and k >= 2:
            pts[0], pts[1] = pts[1], pts[0]
        elif m == 1 and k < 5:
            pts[4] = (0, rng.randrange(1, U32))
        elif m == 2 and k >= 1:
            pts[0] = (pts[0][0], min(U32, hundred + 1)) if hundred < U32 else (pts[0][0], pts[0][1])
            if hundred == U32:
                zero, hundred = 5, 4
        else:
            zero, hundred = max(1, hundred), max(1, hundred) - 1
    return zero, hundred, pts


def gen_fee(rng):
    return rng.choice([0, 0, fx(Fraction(rng.randrange(0, 3000), 10000)), rng.randrange(0, ONE), -rng.randrange(1, ONE)])


def gen_ir(rng, valid=True, legacy_ok=True):
    m = rng.random()
    if legacy_ok and m < 0.08:
        ct = 0
        opt = rng.choice([fx(Fraction(1, 2)), 0, ONE, rng.randrange(1, ONE)]) if not valid else rng.choice([1, ONE - 1, rng.randrange(1, ONE)])
        pl = rng.randrange(1, 3 * ONE)
        mx = pl + rng.randrange(1, 3 * ONE) if valid else rng.choice([pl, 0, pl + 1])
        zero, hundred, pts = gen_points(rng, True)
    elif legacy_ok and m < 0.1 and not valid:
        ct, opt, pl, mx = rng.choice([2, 7, 255]), 0, 0, 0
        zero, hundred, pts = gen_points(rng, True)
    else:
        ct, opt, pl, mx = 1, 0, 0, 0
        zero, hundred, pts = gen_points(rng, valid)
    return {"ct": ct, "opt": opt, "pl": pl, "mx": mx, "fees": [gen_fee(rng) for _ in range(4)], "zero": zero,
            "hundred": hundred, "pts": pts}


def ir_toks(ir):
    t = [ir["ct"], ir["opt"], ir["pl"], ir["mx"]] + ir["fees"] + [ir["zero"], ir["hundred"]]
    for (u, r) in ir["pts"]:
        t += [u, r]
    return t


def gen_weights(rng, valid=True):
    """(awi, awm, lwi, lwm) around every boundary"""
    awi = rng.choice([0, ONE, fx(Fraction(rng.randrange(0, 101), 100)), rng.randrange(0, ONE + 1), 1, ONE - 1])
    awm = rng.choice([awi, awi, awi + 1, 2 * ONE, 2 * ONE - 1, rng.randrange(awi, 2 * ONE + 1), min(2 * ONE, awi + fx(Fraction(1, 10)))])
    lwi = rng.choice([ONE, ONE + 1, fx(Fraction(rng.randrange(100, 301), 100)), rng.randrange(ONE, 4 * ONE), 2 * ONE])
    lwm = min(lwi, rng.choice([lwi, lwi, ONE, ONE + 1, lwi - 1 if lwi > ONE else ONE, rng.randrange(ONE, lwi + 1)]))
    if not valid:
        m = rng.randrange(9)
        if m == 0:
            awi = rng.choice([-1, -ONE, I128_MIN])
        elif m == 1:
            awi = rng.choice([ONE + 1, 2 * ONE, I128_MAX])
            awm = max(awm, awi) if rng.random() < 0.5 else awm
        elif m == 2:
            awm = rng.choice([2 * ONE + 1, 3 * ONE, I128_MAX])
        elif m == 3:
            awm = awi - 1
        elif m == 4:
            lwi = rng.choice([ONE - 1, 0, -ONE])
            lwm = min(lwm, lwi) if rng.random() < 0.5 else lwm
        elif m == 5:
            lwm = lwi + 1
        elif m == 6:
            lwm = rng.choice([ONE - 1, 0, -1])
        elif m == 7:
            awi, awm = awm + 1, awi
        else:
            lwi, lwm = ONE - 1, ONE - 1
    return awi, awm, lwi, lwm


def gen_cfg(rng, valid=True, tag_std=False):
    wv = valid or rng.random() < 0.4
    awi, awm, lwi, lwm = gen_weights(rng, wv)
    tier = rng.choice([0, 0, 0, 1])
    if tier == 1 and (valid or rng.random() < 0.6):
        awi, awm = 0, 0
    if tier == 1 and not valid and rng.random() < 0.3:
        awi, awm = rng.choice([(0, 1), (1, 1), (0, ONE)])
    age = rng.choice([10, 10, 11, 60, 65535, rng.randrange(10, 65536)])
    irv = True
    if not valid:
        k = rng.randrange(4)
        if k == 0:
            age = rng.choice([9, 0, 1, 5])
        elif k == 1:
            irv = False
    c = {"awi": awi, "awm": awm, "lwi": lwi, "lwm": lwm,
         "dep": rng.choice([0, U64, rng.randrange(0, U64)]), "bor": rng.choice([0, U64, rng.randrange(0, U64)]),
         "ir": gen_ir(rng, irv), "orig": gen_fee(rng), "op": rng.choice([0, 1, 1, 1, 2, 3] if not tag_std else [0, 1, 1, 1, 2]),
         "tier": tier, "tag": rng.choice([0, 1] if tag_std else [0, 0, 1, 2, 3, 4, 5, 77]),
         "lim": rng.choice([0, 0, rng.randrange(0, U64)]), "age": age, "conf": rng.choice([0, U32, rng.randrange(0, U32)]),
         "okey": rng.choice([0, 1, 2])}
    return c


def cfg_toks(c):
    return ([c["awi"], c["awm"], c["lwi"], c["lwm"], c["dep"], c["bor"]] + ir_toks(c["ir"]) +
            [c["orig"], c["op"], c["tier"], c["tag"], c["lim"], c["age"], c["conf"], c["okey"]])


def compact_toks(c):
    ir = c["ir"]
    t = [c["awi"], c["awm"], c["lwi"], c["lwm"], c["dep"]] + ir["fees"] + [c["orig"], ir["zero"], ir["hundred"]]
    for (u, r) in ir["pts"]:
        t += [u, r]
    return t + [c["op"], c["bor"], c["tier"], c["tag"], c["lim"], c["age"], c["conf"]]


def o(rng, p, f):
    return ["S"] + [str(x) for x in f()] if rng.random() < p else ["N"]


def gen_ir_opt(rng, valid=True):
    ir = gen_ir(rng, valid, legacy_ok=False)
    t = []
    for k in range(4):
        t += o(rng, 0.3, lambda: [ir["fees"][k]])
    t += o(rng, 0.3, lambda: [gen_fee(rng)])
    pts_on = rng.random() < 0.5
    # zero / hundred / points are usually set together (a coherent curve) or not at all
    if pts_on:
        t += ["S", str(ir["zero"]), "S", str(ir["hundred"]), "S"] + [str(x) for p in ir["pts"] for x in p]
    else:
        t += o(rng, 0.2, lambda: [ir["zero"]]) + o(rng, 0.2, lambda: [ir["hundred"]]) + ["N"]
    return t


def gen_opt(rng, base=None, valid=True):
    """BankConfigOpt tokens. `base` (a cfg dict) lets the new weights be chosen relative to the current ones."""
    p = rng.choice([0.15, 0.4, 0.8])
    awi, awm, lwi, lwm = gen_weights(rng, valid or rng.random() < 0.5)
    if base is not None and rng.random() < 0.5:
        lwi = near(rng, base["lwi"])
        lwm = min(lwm, lwi)
    t = []
    t += o(rng, p, lambda: [awi]) + o(rng, p, lambda: [awm]) + o(rng, p, lambda: [lwi]) + o(rng, p, lambda: [lwm])
    t += o(rng, p, lambda: [rng.choice([0, U64, rng.randrange(0, U64)])])
    t += o(rng, p, lambda: [rng.choice([0, U64, rng.randrange(0, U64)])])
    t += o(rng, 0.45, lambda: [rng.choice([0, 1, 1, 2, 3])])
    if rng.random() < 0.3:
        t += ["S"] + gen_ir_opt(rng, valid or rng.random() < 0.6)
    else:
        t += ["N"]
    t += o(rng, p * 0.5, lambda: [rng.choice([0, 0, 1])])
    t += o(rng, p * 0.5, lambda: [rng.choice([0, 1, 2, 200])])
    t += o(rng, p, lambda: [rng.choice([0, rng.randrange(0, U64)])])
    t += o(rng, p, lambda: [rng.choice([0, U32, rng.randrange(0, U32)])])
    t += o(rng, p, lambda: [rng.choice([10, 11, 9, 0, 300, 65535]) if not valid else rng.choice([10, 11, 300, 65535])])
    t += o(rng, 0.2, lambda: [rng.randrange(2)]) + o(rng, 0.15, lambda: [rng.randrange(2)]) + o(rng, 0.2, lambda: [rng.randrange(2)])
    return t


def max_cw(lw, cap_bits):
    """largest collateral weight (approximately) whose leverage against lw stays within cap"""
    if cap_bits <= ONE or lw <= 0:
        return 0
    return lw - (lw * ONE) // cap_bits


def gen_entries(rng, lwi, lwm, cap_i, cap_m, valid=True):
    bi, bm = basis(cap_i), basis(cap_m)
    k = rng.choice([0, 1, 2, 3, 5, 10])
    tags = rng.sample(range(1, 60), k)
    for j, hot in enumerate((5, 7)):        # tags 5 and 7 are the ones banks carry in the sequences: make matches frequent
        if j < k and hot not in tags and rng.random() < 0.7:
            tags[j] = hot
    es = []
    for tg in tags:
        hi_i, hi_m = max_cw(lwi, bi), max_cw(lwm, bm)
        m = rng.random()
        if m < 0.35:
            ei = max(0, hi_i + rng.choice([-3, -2, -1, 0, 0]) - rng.choice([0, 0, 1 << 20]))
        elif m < 0.5:
            ei = rng.choice([0, 1, ONE, ONE - 1])
            ei = min(ei, max(0, hi_i - 2))
        else:
            ei = rng.randrange(0, max(1, hi_i - 1))
        m = rng.random()
        if m < 0.3:
            em = max(ei, hi_m + rng.choice([-3, -2, -1, 0]) - rng.choice([0, 0, 1 << 20]))
        elif m < 0.5:
            em = ei
        else:
            em = rng.randrange(ei, max(ei + 1, hi_m - 1))
        if em > hi_m - 1 and valid:
            em = max(0, hi_m - 2)
            ei = min(ei, em)
        es.append([tg, rng.choice([0, 0, 1, 255]), ei, em])
    if not valid and es:
        j = rng.randrange(len(es))
        m = rng.randrange(8)
        hi_i, hi_m = max_cw(lwi, bi), max_cw(lwm, bm)
        if m == 0:
            es[j][2] = -1
        elif m == 1:
            es[j][3] = es[j][2] - 1
        elif m == 2:
            es[j][2] = hi_i + rng.choice([1, 2, 3, 1 << 30])
            es[j][3] = max(es[j][3], es[j][2])
        elif m == 3:
            es[j][3] = hi_m + rng.choice([1, 2, 3, 1 << 30])
        elif m == 4:
            es[j][2] = rng.choice([lwi, lwi - 1, lwi + 1])
            es[j][3] = max(es[j][3], es[j][2])
        elif m == 5:
            es[j][3] = rng.choice([lwm, lwm - 1, lwm + 1, I128_MAX])
        elif m == 6 and len(es) >= 2:
            es[j][0] = es[(j + 1) % len(es)][0]
        else:
            es[j][2], es[j][3] = rng.choice([(I128_MIN, 0), (0, I128_MAX), (ONE, ONE)])
    es += [[0, rng.choice([0, 0, 3]), rng.choice([0, 0, 5]), rng.choice([0, 0, 7])] for _ in range(10 - len(es))]
    rng.shuffle(es)
    return es


def entries_toks(es):
    return [x for e in es for x in e]


def gen_caps(rng):
    m = rng.random()
    if m < 0.6:
        return CAP_I, CAP_M
    if m < 0.8:
        return to_u32(rng.randrange(ONE, 100 * ONE)), to_u32(rng.randrange(ONE, 100 * ONE))
    return rng.choice([0, 1, U32, rng.randrange(0, U32)]), rng.choice([0, 1, U32, rng.randrange(0, U32)])


def gen_staked(rng, valid=True):
    awi, awm, _, _ = gen_weights(rng, valid or rng.random() < 0.3)
    tier = rng.choice([0, 0, 0, 1])
    if tier == 1 and (valid or rng.random() < 0.5):
        awi, awm = 0, 0
    return [rng.choice([1, 1, 2]), awi, awm, rng.choice([0, U64, rng.randrange(0, U64)]), rng.choice([0, rng.randrange(0, U64)]),
            rng.choice([10, 11, 60, 65535]) if valid else rng.choice([10, 9, 0, 300]), tier]


def line(*parts):
    out = []

    def rec(p):
        if isinstance(p, (list, tuple)):
            for x in p:
                rec(x)
        else:
            out.append(str(p))
    rec(parts)
    return " ".join(out)


def gen_level_a(rng):
    m = rng.random()
    if m < 0.25:
        return "V", line("V", cfg_toks(gen_cfg(rng, rng.random() < 0.6)))
    if m < 0.5:
        c = gen_cfg(rng, rng.random() < 0.85)
        flags = rng.choice([0, 16, 8, 24, 4 | 32, rng.randrange(0, 128), U64])
        return "CONF", line("CONF", cfg_toks(c), flags, gen_opt(rng, c, rng.random() < 0.7))
    if m < 0.53:
        c = gen_cfg(rng, True)
        return "UNF", line("UNF", cfg_toks(c), rng.randrange(0, 128), gen_opt(rng, c, True))
    if m < 0.7:
        _, _, lwi, lwm = gen_weights(rng, rng.random() < 0.9)
        ci, cm = gen_caps(rng)
        return "EV", line("EV", lwi, lwm, ci, cm, entries_toks(gen_entries(rng, lwi, lwm, ci, cm, rng.random() < 0.6)))
    if m < 0.8:
        lw = rng.choice([ONE, ONE + 1, fx(Fraction(rng.randrange(100, 300), 100)), rng.randrange(1, 4 * ONE), 0, -ONE, 1, I128_MAX])
        k = rng.random()
        if k < 0.5 and lw > 0:
            cap = rng.choice([15 * ONE, 20 * ONE, rng.randrange(ONE, 100 * ONE)])
            cw = max_cw(lw, cap) + rng.choice([-2, -1, 0, 1, 2])
        elif k < 0.8:
            cw = rng.choice([lw, lw - 1, lw + 1, 0, -1, 1])
        else:
            cw = rng.choice([rng.randrange(-ONE, 4 * ONE), I128_MIN, I128_MAX, -(1 << 100)])
        return "LEV", line("LEV", max(I128_MIN, min(I128_MAX, cw)), lw)
    if m < 0.85:
        return "SV", line("SV", gen_staked(rng, rng.random() < 0.5))
    if m < 0.88:
        return "U2B", line("U2B", rng.choice([0, 1, U32, U32 - 1, CAP_I, CAP_M, rng.randrange(0, U32)]))
    if m < 0.9:
        return "B2U", line("B2U", rng.choice([0, ONE, 15 * ONE, 20 * ONE, 100 * ONE, 100 * ONE + 1, -1, rng.randrange(0, 101 * ONE), I128_MAX, I128_MIN]))
    if m < 0.96:
        k = rng.choice([0, 1, 2, 2, 3, 4])
        common = rng.sample(range(1, 12), rng.choice([0, 1, 2, 3]))
        cfgs = []
        for _ in range(k):
            es = gen_entries(rng, 2 * ONE, 2 * ONE, CAP_I, CAP_M, rng.random() < 0.8)
            for j, tg in enumerate(common):
                if rng.random() < 0.85:
                    es[j][0] = tg
            if rng.random() < 0.7:
                es.sort(key=lambda e: e[0])
            cfgs.append(es)
        return "REC", line("REC", k, [entries_toks(es) for es in cfgs])
    amount = rng.choice([0, 1, rng.randrange(0, 1 << 90), rng.randrange(0, 1 << 110)])
    price = rng.choice([0, ONE, rng.randrange(0, 1 << 70)])
    w = rng.choice([0, ONE, 2 * ONE, rng.randrange(0, 2 * ONE), -ONE])
    return "CV", line("CV", amount, price, rng.choice([0, 6, 9, 18, 23, rng.randrange(0, 24)]), w)


# ------------------------------------------------------------------------------------------------ level C sequences

def gen_seq(rng, tier):
    cfg2 = gen_cfg(rng, True)
    cfg2["okey"], cfg2["tag"] = 1, 2
    flags2 = rng.choice([16, 16, 16 | 8, 0])
    state = {0: None, 1: None, 2: cfg2}       # generator's rough idea of the banks (for relative choices only)
    steps = []
    n = rng.choice([3, 4, 5, 6, 7])
    kinds = []
    # scripted openings that reach the interesting states quickly
    script = rng.random()
    if script < 0.55:
        kinds = ["ADD0", "ADD1"]
    elif script < 0.7:
        kinds = ["ADD0", "ADD1", "EM0", "CL01"]
    elif script < 0.8:
        kinds = ["ADD0", "KILL0", "CFG0"]
    elif script < 0.86:
        kinds = ["SSI", "PR"]
    elif script < 0.9:
        kinds = ["MIG"]
    else:
        kinds = ["ADD0", "ADD1", "EM0", "HP"]
    if kinds == ["MIG"]:                       # a legacy-curve bank to migrate (plateau / max also beyond the u32 scale)
        pl = rng.choice([rng.randrange(1, 3 * ONE), 10 * ONE, 11 * ONE])
        cfg2["ir"] = {"ct": 0, "opt": rng.choice([1, ONE - 1, rng.randrange(1, ONE)]), "pl": pl,
                      "mx": pl + rng.choice([1, rng.randrange(1, 3 * ONE), 12 * ONE]), "fees": [gen_fee(rng) for _ in range(4)],
                      "zero": rng.randrange(0, U32), "hundred": rng.randrange(0, U32), "pts": gen_points(rng, True)[2]}
    pool = ["CFG", "CFG", "CFG", "IRO", "LIM", "EM", "EM", "CL", "GC", "SSI", "SSE", "PR", "PR", "KILL", "ADD", "HP", "HP", "HP", "MIG"]
    while len(kinds) < n:
        kinds.append(rng.choice(pool))
    caps = (CAP_I, CAP_M)
    for k in kinds[:n + 2]:
        i = rng.choice([0, 0, 1, 2])
        if k.startswith("ADD"):
            i = int(k[3]) if len(k) > 3 else rng.choice([0, 1])
            c = gen_cfg(rng, rng.random() < 0.85, tag_std=rng.random() < 0.95)
            if rng.random() < 0.03:
                c["op"] = 3
            steps.append(line(rng.choice(["ADD", "ADS"]), i, compact_toks(c)))
            if state[i] is None:
                state[i] = c
        elif k.startswith("CFG"):
            i = int(k[3]) if len(k) > 3 else i
            valid = rng.random() < 0.75
            t = gen_opt(rng, state[i], valid)
            steps.append(line("CFG", i, t))
        elif k == "IRO":
            steps.append(line("IRO", i, gen_ir_opt(rng, rng.random() < 0.7)))
        elif k == "LIM":
            steps.append(line("LIM", i, o(rng, 0.6, lambda: [rng.randrange(0, U64)]), o(rng, 0.6, lambda: [rng.randrange(0, U64)]),
                              o(rng, 0.6, lambda: [rng.randrange(0, U64)])))
        elif k.startswith("EM"):
            i = int(k[2]) if len(k) > 2 else i
            b = state[i] or {"lwi": ONE, "lwm": ONE}
            es = gen_entries(rng, b["lwi"], b["lwm"], caps[0], caps[1], rng.random() < 0.75)
            steps.append(line("EM", i, rng.choice([0, 5, 5, 7, 7, 65535]), entries_toks(es)))
        elif k.startswith("CL"):
            if len(k) > 2:
                a, b = int(k[2]), int(k[3])
            else:
                a, b = rng.sample([0, 1, 2], 2)
            steps.append(line("CL", a, b))
        elif k == "GC":
            vi = rng.choice([15 * ONE, 10 * ONE, ONE, rng.randrange(ONE, 100 * ONE), ONE - 1, 100 * ONE + 1])
            vm = rng.choice([20 * ONE, vi + 1, vi, 100 * ONE, rng.randrange(vi, 101 * ONE) if vi < 101 * ONE else vi])
            steps.append(line("GC", o(rng, 0.8, lambda: [vi]), o(rng, 0.8, lambda: [vm])))
        elif k == "SSI":
            steps.append(line("SSI", gen_staked(rng, rng.random() < 0.85)))
        elif k == "SSE":
            s = gen_staked(rng, rng.random() < 0.7)
            steps.append(line("SSE", *[o(rng, 0.4, (lambda v=v: [v])) for v in s]))
        elif k == "PR":
            steps.append("PR")
        elif k.startswith("KILL"):
            i = int(k[4]) if len(k) > 4 else rng.choice([0, 1])
            steps.append(line("KILL", i))
        elif k == "HP":
            steps.append(gen_probe(rng))
        elif k == "MIG":
            steps.append(line("MIG", rng.choice([2, 2, 0, 1])))
    return line(NOW, cfg_toks(cfg2), flags2, len(steps), steps)


def gen_probe(rng):
    """health probe: 1..3 balances on distinct banks, at least one asset; moderate amounts and prices so that
    no evaluation overflows; amounts sometimes tiny (rounding) and liabilities sized near the collateral value"""
    k = rng.choice([1, 2, 2, 3, 3])
    idx = rng.sample([0, 1, 2], k)
    parts = []
    for j, i in enumerate(idx):
        liab = 0 if j == 0 else rng.choice([0, 1, 1])
        tokens = rng.choice([1, 7, 10 ** 6, rng.randrange(1, 10 ** 9), rng.randrange(1, 10 ** 13)])
        shares = tokens * ONE + rng.choice([0, 0, rng.randrange(0, ONE)])
        price = rng.choice([ONE, fx(Fraction(rng.randrange(1, 100000), 100)), rng.randrange(1, 1 << 60), 1, 0])
        parts += [i, liab, shares, price]
    return line("HP", k, parts)


# Regression cases of the two repaired findings (always the first two cfgsim lines):
#  killed-bank-revived: bank 0 added, killed by the real bankruptcy handler, then configure_bank(operational_state = Operational)
#  emode-clone-unvalidated: bank 0 (liability weights 2.0) gets an entry with weights 1.5/1.6, cloned onto bank 1 (liability weights 1.0)


def _std_compact(lwi, lwm, awi=fx(Fraction(1, 2)), awm=fx(Fraction(3, 5))):
    c = {"awi": awi, "awm": awm, "lwi": lwi, "lwm": lwm, "dep": U64, "bor": U64,
         "ir": {"ct": 1, "opt": 0, "pl": 0, "mx": 0, "fees": [0, 0, 0, 0], "zero": 0, "hundred": U32, "pts": [(0, 0)] * 5},
         "orig": 0, "op": 1, "tier": 0, "tag": 0, "lim": 0, "age": 60, "conf": 0, "okey": 0}
    return c


def finding_lines():
    cfg2 = _std_compact(fx(Fraction(3, 2)), fx(Fraction(5, 4)))
    cfg2["okey"], cfg2["tag"] = 1, 2
    head = [NOW] + cfg_toks(cfg2) + [16]
    none16 = ["N"] * 16
    opt_operational = list(none16)
    opt_operational[6:7] = ["S", "1"]
    f3 = line(head, 3, line("ADD", 0, compact_toks(_std_compact(ONE, ONE))), "KILL 0", line("CFG", 0, opt_operational))
    es = [[7, 0, fx(Fraction(3, 2)), fx(Fraction(8, 5))]] + [[0, 0, 0, 0]] * 9
    f4 = line(head, 4, line("ADD", 0, compact_toks(_std_compact(2 * ONE, 2 * ONE))),
              line("ADD", 1, compact_toks(_std_compact(ONE, ONE))), line("EM", 0, 5, entries_toks(es)), "CL 0 1")
    return f3, f4


def suites(rng, tier):
    na = {"quick": 4000, "thorough": 45000, "search": 8000}[tier]
    nc = {"quick": 2500, "thorough": 28000, "search": 5000}[tier]
    la, da = [], {}
    for _ in range(na):
        k, l = gen_level_a(rng)
        da[k] = da.get(k, 0) + 1
        la.append(l)
    f3, f4 = finding_lines()
    lc = [f3, f4] + [gen_seq(rng, tier) for _ in range(nc)]
    dc = {}
    for l in lc:
        for tok in l.split():
            if tok in STEP_KINDS:
                dc[tok] = dc.get(tok, 0) + 1
    return [{"suite": "config", "name": "config-levelA", "lines": la, "distribution": da},
            {"suite": "cfgsim", "name": "cfgsim-levelC", "lines": lc, "distribution": dc}]


# ------------------------------------------------------------------------------------------------ parsing of dumps

def parse_cfg_dump(t, k):
    c = {"awi": t[k], "awm": t[k + 1], "lwi": t[k + 2], "lwm": t[k + 3], "dep": t[k + 4], "bor": t[k + 5],
         "ir": {"ct": t[k + 6], "opt": t[k + 7], "pl": t[k + 8], "mx": t[k + 9], "fees": t[k + 10:k + 14], "zero": t[k + 14],
                "hundred": t[k + 15], "pts": [(t[k + 16 + 2 * i], t[k + 17 + 2 * i]) for i in range(5)]},
         "orig": t[k + 26], "op": t[k + 27], "tier": t[k + 28], "tag": t[k + 29], "lim": t[k + 30], "age": t[k + 31],
         "conf": t[k + 32], "okey": t[k + 33]}
    return c, k + 34


def parse_bank_dump(t, k):
    c, k = parse_cfg_dump(t, k)
    flags = t[k]
    em = {"tag": t[k + 1], "ts": t[k + 2], "flags": t[k + 3], "entries": [tuple(t[k + 4 + 4 * i:k + 8 + 4 * i]) for i in range(10)]}
    return {"cfg": c, "flags": flags, "emode": em}, k + 44


# ------------------------------------------------------------------------------------------------ the property, directly

def ir_ok(ir):
    if ir["ct"] == 0:
        return 0 < ir["opt"] < ONE and ir["pl"] > 0 and ir["mx"] > 0 and ir["pl"] < ir["mx"]
    if ir["ct"] != 1:
        return False
    used, pad = [], False
    for (u, r) in ir["pts"]:
        if u == 0:
            if r != 0:
                return False
            pad = True
        else:
            if pad:
                return False
            used.append((u, r))
    for a, b in zip(used, used[1:]):
        if b[0] <= a[0] or b[1] < a[1]:
            return False
    if ir["zero"] > ir["hundred"]:
        return False
    return all(ir["zero"] <= r <= ir["hundred"] for (_, r) in used)


def cfg_violation(c):
    """None if the configuration satisfies what C13 states, else a description"""
    if not (0 <= c["awi"] <= ONE):
        return f"asset_weight_init {c['awi']} outside [0,1]"
    if c["awi"] > c["awm"]:
        return "asset_weight_init above asset_weight_maint"
    if c["awm"] > 2 * ONE:
        return "asset_weight_maint above 2"
    if c["lwm"] < ONE:
        return "liability_weight_maint below 1"
    if c["lwm"] > c["lwi"]:
        return "liability_weight_maint above liability_weight_init"
    if c["tier"] == 1 and (c["awi"] != 0 or c["awm"] != 0):
        return "isolated bank with non-zero asset weight"
    if c["age"] < ORACLE_MIN_AGE:
        return f"oracle_max_age {c['age']} below the minimum"
    if not ir_ok(c["ir"]):
        return "interest-rate configuration that InterestRateConfig::validate rejects"
    return None


def lev_within(cw, lw, cap_bits):
    """the leverage-cap inequality proved for accepted entries (exact integers)"""
    return ONE * ONE * lw < (cap_bits + 1) * (ONE * (lw - cw) + lw)


def emode_violation(entries, lwi, lwm, cap_i, cap_m, need_sorted_unique=True):
    bi, bm = basis(cap_i), basis(cap_m)
    tags = []
    for (tg, fl, ei, em) in entries:
        if tg == 0:
            continue
        tags.append(tg)
        if not (0 <= ei <= em):
            return f"entry {tg}: not 0 <= init <= maint"
        if not (ei < lwi and em < lwm):
            return f"entry {tg}: weight not below this bank's liability weight"
        if not lev_within(ei, lwi, bi):
            return f"entry {tg}: initial leverage above the group's cap"
        if not lev_within(em, lwm, bm):
            return f"entry {tg}: maintenance leverage above the group's cap"
    if need_sorted_unique:
        if len(set(tags)) != len(tags):
            return "duplicate e-mode tags"
    else:
        if any(a == b for a, b in zip(tags, tags[1:])):
            return "adjacent duplicate e-mode tags"
    return None


def pick(viol):
    for v in viol:
        if v["key"] not in KNOWN_KEYS:
            return v
    return viol[0] if viol else None


def oracle_config(case, impl):
    t = case.split()
    op = t[0]
    if op == "V":
        if impl == "OK":
            c, _ = parse_cfg_dump([int(x) for x in t[1:]], 0)
            why = cfg_violation(c)
            if why:
                return {"key": "validate-accepts-incoherent", "what": "BankConfig::validate accepted: " + why}
    elif op == "CONF":
        if impl.startswith("OK "):
            d = [int(x) for x in impl.split()[1:]]
            c, k = parse_cfg_dump(d, 0)
            why = cfg_violation(c)
            if why:
                return {"key": "configure-accepts-incoherent", "what": "Bank::configure accepted: " + why}
            old, k2 = parse_cfg_dump([int(x) for x in t[1:35]], 0)
            if old["op"] != 3 and c["op"] == 3:
                return {"key": "admin-killed-bank", "what": "Bank::configure moved a bank into KilledByBankruptcy"}
            if old["op"] == 3 and c["op"] != 3:
                return {"key": "killed-bank-revived", "what": f"Bank::configure moved a KilledByBankruptcy bank to state {c['op']}"}
    elif op == "SV":
        if impl == "OK":
            awi, awm, tier = int(t[2]), int(t[3]), int(t[7])
            if not (0 <= awi <= ONE and awi <= awm <= 2 * ONE) or (tier == 1 and (awi or awm)):
                return {"key": "staked-validate-accepts-incoherent", "what": "StakedSettings::validate accepted incoherent asset weights"}
    elif op == "EV":
        if impl == "OK":
            v = [int(x) for x in t[1:]]
            es = [tuple(v[4 + 4 * i:8 + 4 * i]) for i in range(10)]
            why = emode_violation(es, v[0], v[1], v[2], v[3], need_sorted_unique=False)
            if why:
                return {"key": "emode-validate-accepts-bad-entry", "what": "validate_entries_with_liability_weights accepted: " + why}
    elif op == "REC":
        if impl.startswith("OK "):
            v = [int(x) for x in t[1:]]
            k = v[0]
            ins = [[tuple(v[1 + 40 * c + 4 * i:5 + 40 * c + 4 * i]) for i in range(10)] for c in range(k)]
            if all(all(e[0] == 0 or 0 <= e[2] <= e[3] for e in cfg) for cfg in ins):
                d = [int(x) for x in impl.split()[1:]]
                for i in range(10):
                    tg, fl, ei, em = d[4 * i:4 * i + 4]
                    if tg != 0 and not (0 <= ei <= em):
                        return {"key": "reconcile-breaks-init-le-maint", "what": f"reconciled entry {tg} has init {ei} > maint {em}"}
    elif op == "CV":
        pass
    return None


def oracle_cfgsim(case, impl):
    segs = impl.split(" | ")
    head = segs[0].split()
    caps = (int(head[1]), int(head[2]))
    b2, _ = parse_bank_dump([int(x) for x in head[4:]], 0)
    banks = {2: b2}
    t = case.split()
    # recover the step kinds from the case line
    kinds = [x for x in t if x in STEP_KINDS]
    kpos = [j for j, x in enumerate(t) if x in STEP_KINDS] + [len(t)]
    step_toks = [t[kpos[j]:kpos[j + 1]] for j in range(len(kinds))]
    viol = []

    def flag_opts(toks):
        """the last three options of a BankConfigOpt: permissionless bad-debt settlement, freeze, token-less repayments"""
        out, toks = [], list(toks)
        for _ in range(3):
            if toks[-1] == "N":
                out.append(None)
                toks = toks[:-1]
            else:
                out.append(int(toks[-1]))
                toks = toks[:-2]
        return out[::-1]

    def em_bad(b):
        return emode_violation(b["emode"]["entries"], b["cfg"]["lwi"], b["cfg"]["lwm"], caps[0], caps[1])

    em_ok = {2: em_bad(b2) is None}
    for (kind, stoks), seg in zip(zip(kinds, step_toks), segs[1:]):
        if seg.startswith("H "):
            ai, li, am, lm = (int(x) for x in seg.split()[1:5])
            if li == 0 and lm > 0:
                continue            # the Initial evaluation itself failed (nothing cached); not a buffer statement
            if ai > am or lm > li or (li <= ai and lm > am):
                viol.append({"key": "no-liquidation-buffer",
                             "what": f"real risk engine at equal (fixed) prices: init assets {ai} liabs {li}, maint assets {am} liabs {lm}: "
                                     "the Initial requirement is not the stricter one"})
            continue
        if not seg.startswith("OK "):
            continue
        s = seg.split()
        if s[1] == "G":
            caps = (int(s[2]), int(s[3]))
            for i in banks:
                em_ok[i] = em_bad(banks[i]) is None    # validity is relative to the caps at the time of a bank write
            continue
        if s[1] == "S":
            awi, awm, tier = int(s[3]), int(s[4]), int(s[8])
            if not (0 <= awi <= ONE and awi <= awm <= 2 * ONE) or (tier == 1 and (awi or awm)):
                viol.append({"key": "staked-settings-incoherent", "what": "accepted staked settings with incoherent asset weights"})
            continue
        i = int(s[1][1:])
        nb, _ = parse_bank_dump([int(x) for x in s[2:]], 0)
        old = banks.get(i)
        why = cfg_violation(nb["cfg"])
        if why:
            viol.append({"key": "accepted-incoherent-config", "what": f"{kind} on bank {i} left: {why}"})
        frozen = old is not None and (old["flags"] & 8) == 8
        writer = kind in ("EM", "CL") or (kind == "CFG" and not frozen)
        why = em_bad(nb)
        if why and (writer or em_ok.get(i, True)):
            if kind == "CL":
                viol.append({"key": "emode-clone-unvalidated",
                             "what": f"lending_pool_clone_emode copied entries that are invalid for the destination bank: {why}"})
            else:
                viol.append({"key": "accepted-invalid-emode", "what": f"{kind} on bank {i} left e-mode entries invalid for the bank: {why}"})
        em_ok[i] = why is None
        if kind == "CFG" and old is not None and not frozen:
            # the three opt-in flags follow the request exactly: Some(b) -> bit = b, None -> unchanged (a bank that never
            # opted into permissionless bad-debt settlement must not end up with the flag)
            for (name, bit), want in zip((("permissionless bad-debt settlement", 4), ("freeze settings", 8), ("token-less repayments", 32)),
                                         flag_opts(stoks)):
                have = 1 if nb["flags"] & bit else 0
                exp = (1 if old["flags"] & bit else 0) if want is None else want
                if have != exp:
                    viol.append({"key": f"config-flag-not-as-requested:{bit}",
                                 "what": f"configure_bank on bank {i}: {name} requested {want}, flag was {1 if old['flags'] & bit else 0}, is now {have}"})
        if old is not None and kind not in ("KILL", "ADD", "ADS"):
            if old["cfg"]["op"] == 3 and nb["cfg"]["op"] != 3:
                viol.append({"key": "killed-bank-revived",
                             "what": f"{kind} moved a bank out of KilledByBankruptcy (to state {nb['cfg']['op']})"})
            if old["cfg"]["op"] != 3 and nb["cfg"]["op"] == 3:
                viol.append({"key": "admin-killed-bank", "what": f"{kind} moved a bank into KilledByBankruptcy"})
        banks[i] = nb
    return pick(viol)


def oracle(suite, case, impl):
    if suite == "config":
        return oracle_config(case, impl)
    return oracle_cfgsim(case, impl)


def nontrivial(suite, case, impl):
    if suite == "config":
        op = case.split(None, 1)[0]
        if op in ("V", "SV", "EV", "CONF", "UNF", "REC"):
            return impl.startswith("OK")
        return not impl.startswith(("E", "PANIC"))
    return impl.count("| OK") + impl.count("| H ") >= 2


def broken_explained_by_known(b, known_keys):
    return False
