"""C18 — every accepted interest curve is usable, bounded and non-decreasing."""
from fractions import Fraction
ID = "C18"
MANIFEST = {
    "text": ("Kernel-checked theorems: for every configuration accepted by validate_seven_point (any number of points) and every "
             "utilisation bit pattern the base rate is defined, lies in [zero,hundred], is monotone and interpolates the configured "
             "points; borrow >= base, lend <= base on [0,1]; calc_interest_rate total for bounded non-negative fees; legacy curve "
             "defined/bounded/monotone on [0,1]. Tied to the real InterestRateConfig::validate / InterestRateCalc by differential "
             "execution with utilisations at every breakpoint +-2 ulp."),
    "design_ref": "DESIGN.md §7 C18",
    "technique": "Coq proof by induction over the point list + model/implementation correspondence (extracted model vs real calc_interest_rate)",
}
THEOREMS = [
    "C18_curve_defined_and_bounded", "C18_curve_monotone", "C18_curve_hits_points",
    "C18_curve_endpoints", "C18_borrow_ge_base_lend_le_base", "C18_accrual_rate_total",
    "C18_legacy_defined_bounded_monotone",
]
RULE = ("interest configs: valid seven-point curves with 0..5 used points (adjacent utils, extremes of u32, equal rates), "
        "mutated-invalid curves, legacy curves, unsupported curve types; fees zero/typical/negative/huge; utilisations "
        "at every breakpoint +-2 ulp, 0, 1, beyond [0,1] and random. Non-trivial = validation passed and at least 3 "
        "distinct base rates observed; distinct = different case line")
ASSUMPTIONS = [
    "fee parameters in the theorem about calc_interest_rate are non-negative and below 2^30 (as I80F48 numbers); the curve theorems need no assumption beyond validation",
    "utilisation argument is any i128 bit pattern",
]
OBSERVATIONS = [
    "a used point with util = u32::MAX maps to utilisation exactly 1.0, so the 100% rate is that point's rate and hundred_util_rate is never used (still within [zero,hundred])",
]
ONE = 1 << 48
U32 = (1 << 32) - 1
I128_MIN, I128_MAX = -(1 << 127), (1 << 127) - 1


def U(u):
    return u * ONE // U32


def R(r):
    return (r * ONE // U32) * 10


def fx(x):
    return int(x * ONE)


def gen_points(rng, valid=True):
    k = rng.choice([0, 1, 2, 3, 4, 5, 5])
    zero = rng.choice([0, 0, rng.randrange(0, U32 // 100), rng.randrange(0, U32)])
    hundred = rng.choice([U32, rng.randrange(zero, U32 + 1), zero])
    utils = set()
    while len(utils) < k:
        m = rng.random()
        if m < 0.15:
            utils.add(rng.choice([1, 2, U32, U32 - 1]))
        elif m < 0.3 and utils:
            b = rng.choice(sorted(utils))
            utils.add(min(U32, max(1, b + rng.choice([-1, 1]))))
        else:
            utils.add(rng.randrange(1, U32 + 1))
    utils = sorted(utils)
    rates = sorted(rng.choice([zero, hundred, rng.randrange(zero, hundred + 1)]) for _ in range(k))
    pts = list(zip(utils, rates)) + [(0, 0)] * (5 - k)
    if not valid:
        m = rng.randrange(8)
        if m == 7 and 1 <= k <= 3:
            # a hole followed by an entry with a non-zero utilisation and a ZERO rate (between or beyond the used points):
            # if validation let it through, the calculator would use it as a node of the curve
            base_u = pts[rng.randrange(k)][0]
            stray = min(U32, max(1, base_u + rng.choice([-1, 1]) * rng.randrange(1, U32 // 4)))
            pts[k + 1] = (stray, 0)
        elif m == 0 and k >= 2:
            i = rng.randrange(k - 1)
            pts[i], pts[i + 1] = pts[i + 1], pts[i]
        elif m == 1 and k >= 1 and k < 5:
            pts[k], pts[k - 1] = pts[k - 1], pts[k]           # hole
        elif m == 2 and k < 5:
            pts[4] = (0, rng.randrange(1, U32))                 # padding with rate
        elif m == 3:
            zero, hundred = max(zero, hundred) , min(zero, hundred) - (1 if min(zero, hundred) > 0 else 0)
            hundred = max(0, hundred)
        elif m == 4 and k >= 1:
            i = rng.randrange(k)
            pts[i] = (pts[i][0], min(U32, hundred + 1 + rng.randrange(0, 1000)))
        elif m == 5 and k >= 2:
            i = rng.randrange(1, k)
            pts[i] = (pts[i - 1][0], pts[i][1])                 # equal utils
        elif m == 6 and k >= 1:
            i = rng.randrange(k)
            pts[i] = (pts[i][0], max(0, zero - 1 - rng.randrange(0, 1000)))
    return zero, hundred, pts


def gen_fee(rng):
    m = rng.random()
    if m < 0.25:
        return 0
    if m < 0.8:
        return fx(Fraction(rng.randrange(0, 5000), 10000))
    if m < 0.9:
        return rng.randrange(0, 1 << 78)
    if m < 0.95:
        return -rng.randrange(1, ONE)
    return rng.choice([I128_MAX, I128_MIN, 1 << 100, 1])


def gen_case(rng, kind):
    if kind == "legacy":
        ct = 0
        opt = rng.choice([fx(Fraction(rng.randrange(1, 100), 100)), 0, ONE, rng.randrange(1, ONE), -5, ONE + 3])
        pl = rng.choice([fx(Fraction(rng.randrange(1, 100), 100)), 0, rng.randrange(1, 5 * ONE)])
        mx = rng.choice([pl + rng.randrange(1, 5 * ONE), pl, fx(3), 0])
        zero, hundred, pts = gen_points(rng, True)
    else:
        ct = 1 if kind in ("valid", "invalid") else rng.choice([2, 3, 255])
        opt, pl, mx = 0, 0, 0
        zero, hundred, pts = gen_points(rng, kind != "invalid")
    fees = [gen_fee(rng) for _ in range(4)]
    if (kind == "valid" and rng.random() < 0.7) or (kind == "invalid" and rng.random() < 0.5):
        fees = [abs(f) % (ONE // 2) for f in fees]      # benign fees also on half of the malformed tables: an accepted one is then judged
    prog_on = rng.randrange(2)
    pf, pr = (abs(gen_fee(rng)) % ONE, abs(gen_fee(rng)) % ONE) if rng.random() < 0.8 else (gen_fee(rng), gen_fee(rng))
    urs = set([0, ONE, 1, ONE - 1, ONE + 1, -1])
    for (u, _) in pts:
        if u:
            for d in (-2, -1, 0, 1, 2):
                urs.add(U(u) + d)
    if kind == "legacy":
        for d in (-1, 0, 1):
            urs.add(opt + d)
        for u in (ONE - 1, ONE, ONE + 1, ONE + ONE // 200, 3 * ONE // 2):      # at and beyond 100% (the legacy curve extrapolates)
            urs.add(u)
    for _ in range(8):
        urs.add(rng.randrange(0, ONE + 1))
    urs.add(rng.choice([I128_MAX, I128_MIN, 2 * ONE, -ONE, 1 << 100]))
    urs = sorted(urs)
    toks = [ct, opt, pl, mx, fees[0], fees[1], fees[2], fees[3], zero, hundred]
    for (u, r) in pts:
        toks += [u, r]
    toks += [prog_on, pf, pr, len(urs)] + urs
    return " ".join(map(str, toks))


def suites(rng, tier):
    n = {"quick": 2500, "thorough": 60000, "search": 30000}[tier]
    kinds = ["valid"] * 6 + ["invalid"] * 2 + ["legacy"] * 2 + ["badtype"] * 1 if tier != "search" else ["valid"]
    lines = []
    dist = {}
    for _ in range(n):
        k = rng.choice(kinds)
        dist[k] = dist.get(k, 0) + 1
        lines.append(gen_case(rng, k))
    return [{"suite": "curve", "name": "curve", "lines": lines, "distribution": dist}]


def parse(case, impl):
    t = list(map(int, case.split()))
    cfg = {"ct": t[0], "opt": t[1], "pl": t[2], "mx": t[3], "fees": t[4:8], "zero": t[8], "hundred": t[9],
           "pts": [(t[10 + 2 * i], t[11 + 2 * i]) for i in range(5)], "prog_on": t[20], "pf": t[21], "pr": t[22]}
    n = t[23]
    urs = t[24:24 + n]
    segs = impl.split(" | ")
    return cfg, urs, segs[0], segs[1:]


def nontrivial(suite, case, impl):
    try:
        cfg, urs, v, outs = parse(case, impl)
    except Exception:
        return False
    bases = set(o.split()[0] for o in outs if o not in ("NONE", "PANIC"))
    return v == "OK" and len(bases) >= 3


def oracle_legacy(cfg, urs, outs):
    """legacy three-point curve accepted by validate(): defined, non-decreasing and borrow >= base for every utilisation from
    0 to 200% whenever the numbers are far from the I80F48 range (rates below 2^20, optimal utilisation in [0.1%, 99.9%])"""
    fees_ok = all(0 <= f < (1 << 60) for f in cfg["fees"]) and (not cfg["prog_on"] or (0 <= cfg["pf"] < (1 << 60) and 0 <= cfg["pr"] < (1 << 60)))
    rates_ok = fees_ok and 0 <= cfg["pl"] < (ONE << 20) and 0 <= cfg["mx"] < (ONE << 20)
    # up to 100% both segments interpolate (no large quotient whatever the kink position, an optimal utilisation of exactly 0
    # or 1 included); beyond 100% the second segment extrapolates with slope (max - plateau) / (1 - optimal)
    benign_hi = rates_ok and cfg["opt"] <= ONE - ONE // 1000
    prev = None
    for ur, o in zip(urs, outs):
        if not (0 <= ur <= 2 * ONE):
            continue
        if o in ("NONE", "PANIC"):
            if rates_ok if ur <= ONE else benign_hi:
                return {"key": "accepted-curve-fails", "what": f"legacy curve: calc_interest_rate returned {o} at ur={ur} ({ur / ONE:.4f}) for an accepted curve with benign numbers"}
            continue
        base, lend, borrow = map(int, o.split()[:3])
        if prev is not None and base < prev:
            return {"key": "not-monotone", "what": f"legacy curve: base decreased to {base} (from {prev}) at ur={ur}"}
        prev = base
        if fees_ok and borrow < base:
            return {"key": "borrow-below-base", "what": f"legacy curve: borrow rate {borrow} < base {base} at ur={ur}"}
    return None


def oracle(suite, case, impl):
    cfg, urs, v, outs = parse(case, impl)
    if cfg["ct"] == 0 and v == "OK":
        return oracle_legacy(cfg, urs, outs)
    if cfg["ct"] != 1 or v != "OK":
        return None
    fees_ok = all(0 <= f < (1 << 78) for f in cfg["fees"]) and (not cfg["prog_on"] or (0 <= cfg["pf"] < (1 << 78) and 0 <= cfg["pr"] < (1 << 78)))
    zero_r, hund_r = R(cfg["zero"]), R(cfg["hundred"])
    prev = None
    used = {U(u): R(r) for (u, r) in cfg["pts"] if u}
    for ur, o in zip(urs, outs):
        if o in ("NONE", "PANIC"):
            if fees_ok and 0 <= ur <= (ONE << 16):
                return {"key": "accepted-curve-fails", "what": f"calc_interest_rate returned {o} at ur={ur} for an accepted curve with benign fees"}
            continue
        base, lend, borrow = map(int, o.split()[:3])
        if not (zero_r <= base <= hund_r):
            return {"key": "base-out-of-bounds", "what": f"base {base} outside [{zero_r},{hund_r}] at ur={ur}"}
        if prev is not None and base < prev:
            return {"key": "not-monotone", "what": f"base decreased to {base} (from {prev}) at ur={ur}"}
        prev = base
        if ur in used and base != used[ur]:
            return {"key": "misses-point", "what": f"base {base} != configured {used[ur]} at its utilisation {ur}"}
        if ur <= 0 and base != zero_r:
            return {"key": "zero-endpoint", "what": f"base {base} != zero rate {zero_r} at ur={ur}"}
        if fees_ok:
            if borrow < base:
                return {"key": "borrow<base", "what": f"borrow {borrow} < base {base}"}
            if 0 <= ur <= ONE and lend > base:
                return {"key": "lend>base", "what": f"lend {lend} > base {base} at ur={ur}"}
    return None
