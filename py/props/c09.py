"""C09 — oracle safety: only fresh, authentic, confident prices, biased conservatively."""
from fractions import Fraction

ID = "C09"
MANIFEST = {
    "text": ("Kernel-checked theorems over a model of the price adapter (all 13 oracle setups): a feed loads only from the "
             "configured key, owned by the expected oracle program, of the right account type, fully verified and no older than "
             "the bank's max age (exact inequalities per oracle kind); a biased price exists only if the 95%-scaled confidence is "
             "within the bank's maximum (default 10%) of a non-negative price; low/high prices are the price minus/plus "
             "min(confidence, 5% of price); a feed or price error makes liability, maintenance and equity valuations fail and "
             "initial collateral count 0; liquidation and receivership-withdraw prices are strictly positive. Tied to the real "
             "OraclePriceFeedAdapter / RiskEngine by differential execution on real account bytes (doctored keys, owners, "
             "discriminators, verification levels, ages at the boundary, confidences at the threshold and at the cap)."),
    "design_ref": "DESIGN.md §7 C09",
    "technique": "Coq proof over an executable model of price.rs + model/implementation correspondence on synthesised oracle accounts",
}
THEOREMS = [
    "C09_authentic_and_fresh", "C09_authentic_any_max_age", "C09_staleness_inequalities", "C09_plain_setups_exact",
    "C09_venue_account_checked", "C09_staked_accounts_checked", "C09_confidence_within_maximum", "C09_scaled_confidence",
    "C09_constants", "C09_reported_price_conversion", "C09_bias_conservative", "C09_liability_fails_on_bad_feed",
    "C09_liability_fails_on_bad_price", "C09_collateral_on_bad_feed", "C09_collateral_fails_on_bad_price",
    "C09_collateral_value_only_from_checked_price", "C09_debt_value_only_from_authentic_price",
    "C09_negative_price_never_biased", "C09_liquidation_prices_positive", "C09_liquidation_nonpositive_rejected",
    "C09_receivership_withdraw_price_positive",
]
RULE = ("suite oracle: bank oracle configurations over all 13 setups x real account bytes (Pyth PriceUpdateV2 / Switchboard PullFeed / "
        "Kamino, Drift, Solend reserve accounts / SPL mint + stake account) through the real try_from_bank[_with_max_age], "
        "get_price_of_type (6 type x bias combinations) and get_price_and_confidence_of_type; valid stream = right key/owner/type with "
        "publish times at max_age-1/0/+1, confidences at the rejection threshold +-2 units and at the 5% cap +-2, prices over i64/i128 "
        "incl. 0, negative and extremes, exponents incl. out-of-table; malformed stream = one corruption (wrong key, wrong owner, foreign "
        "discriminator, <8 bytes, swapped oracle type, truncated body, bad/partial verification level, wrong account count, venue key / "
        "loader / staleness, mint / stake account defects). suite oraclerisk: the same through RiskEngine::new + "
        "get_account_health_components for Initial/Maintenance/Equity on a one-balance account (asset or liability side, isolated / "
        "reduce-only). suite oracleliq: real lending_account_liquidate and [start_liquidation, withdraw, repay, end_liquidation] in a "
        "three-bank scenario with one doctored oracle (zero / negative price, confidence at the threshold, staleness edge, corruptions). "
        "Non-trivial = a feed loaded and a biased price is numeric (oracle), a non-zero valuation (oraclerisk), OK / 6055 / 6057 / 6058 "
        "(oracleliq); distinct = different case line")
ASSUMPTIONS = [
    "oracle accounts are abstract records in the theorems (key, owner, decoded body or a malformed-body class); the byte decoding is covered by the correspondence suites only",
    "C09_authentic_and_fresh: oracle_max_age is a u16 and publish_time an i64 (stated as hypotheses); for an explicit max age the raw saturating/wrapping conditions are proved (C09_authentic_any_max_age) and their plain reading needs max_age != i64::MAX for Switchboard",
    "confidence / bias theorems: the max-confidence argument is non-negative (u32)",
    "the venue (Kamino/Drift/Solend) and staking accounts enter the theorems as the results of the calls the adapter makes on them (loader verdict, last refresh, scaled supplies, cumulative interest, mint supply, delegated stake); their exchange-rate arithmetic is modelled and corresponded but no theorem is stated about the adjusted numbers (C20)",
    "calc_value / discount / share arithmetic inside the valuation is a parameter of the fail-closed theorems (any function of the price)",
    "mainnet-beta feature set (live!() = true); MarginfiError::from(u32) is the identity on existing variant codes",
]
OBSERVATIONS = [
    "the Pyth feed id is compared with the feed id stored in the same account, so it never rejects anything: authenticity rests on the account key and owner alone",
    "publish times in the future are accepted (negative age) by both oracle kinds",
    "try_from_bank_with_max_age with max_age > i64::MAX aborts for Pyth (u64 -> i64 unwrap) and rejects every Switchboard feed (wrapping cast); with max_age = i64::MAX a Switchboard feed older than i64::MAX seconds is accepted; unreachable through a bank configuration (u16)",
    "a zero price with zero confidence passes the confidence test and yields biased prices 0; only liquidate.rs and the receivership branch of withdraw.rs reject it explicitly, valuations simply give value 0",
    "a negative price is rejected either by OracleMaxConfidenceExceeded or, for |price| below ~10 raw units with zero confidence, by the assert on the 5% cap (abort)",
    "a collateral oracle that loads but fails the confidence test makes the Initial valuation FAIL (stricter than counting 0); only a feed that does not load counts 0",
    "MAX_CONF_INTERVAL is 0.05 rounded up to (2^48+4)/20/2^48, so the cap is 5% x (1 + 1.4e-14); prices with negative exponents are truncated by < 1 ulp, so a high-biased price with zero confidence can be below the exact reported price by < 2^-48",
    "I80F48::from_num(i128) wraps for Switchboard values outside +-2^79 (x 1e-18): such a feed yields a wrapped price instead of an error",
    "a Switchboard std_dev in (-3553, 0) raw units truncates to confidence 0 and is accepted; more negative values abort on the non-negativity assert",
    "in the staked setup the owner of the stake account is not checked when pricing (only its key)",
    "through the risk engine a Drift-mock error code is re-read as the MarginfiError with the same number (6004 -> InvalidTransfer); drift-mocks reports a multiplication overflow as ScalingOverflow (6000) and a conversion failure as MathError (6004)",
]

ONE = 1 << 48
U32 = (1 << 32) - 1
I64_MIN, I64_MAX = -(1 << 63), (1 << 63) - 1
U64_MAX = (1 << 64) - 1
I128_MIN, I128_MAX = -(1 << 127), (1 << 127) - 1
E18 = 10 ** 18
PYTH_SETUPS = (3, 5, 6, 9, 11)
SWB_SETUPS = (4, 7, 10, 12)
VENUE_SETUPS = (6, 7, 9, 10, 11, 12)
K0, K1, K2 = 11, 12, 13


def clamp(v, lo, hi):
    return max(lo, min(hi, v))


# ------------------------------------------------------------------------------------------------
# generators

def gen_price_i64(rng):
    m = rng.random()
    if m < 0.70:
        return int(10 ** rng.uniform(0, 14))
    if m < 0.78:
        return rng.choice([0, 1, 2, 19, 20, 21])
    if m < 0.88:
        return -int(10 ** rng.uniform(0, 14))
    if m < 0.94:
        return rng.choice([I64_MAX, I64_MIN, I64_MAX - 1, -1])
    return rng.randrange(I64_MIN, I64_MAX + 1)


def frac_of(omc):
    return Fraction(omc, U32) if omc > 0 else Fraction(429496730, U32)


def gen_conf_for(rng, price, omc, mult):
    """confidence (same scale as price) directed at the rejection threshold / the 5% cap"""
    m = rng.random()
    p = abs(price)
    if m < 0.30:
        c = int(p * frac_of(omc) / mult) + rng.choice([-2, -1, 0, 0, 1, 2])
    elif m < 0.50:
        c = int(p * Fraction(1, 20) / mult) + rng.choice([-2, -1, 0, 0, 1, 2])
    elif m < 0.65:
        c = 0
    elif m < 0.85:
        c = int(p * Fraction(rng.randrange(0, 1200), 10000) / mult)
    elif m < 0.92:
        c = rng.choice([1, 2, U64_MAX, U64_MAX - 1, 1 << 63])
    else:
        c = rng.randrange(0, U64_MAX + 1)
    return c


def gen_expo(rng):
    m = rng.random()
    if m < 0.75:
        return rng.randrange(-12, 1)
    if m < 0.9:
        return rng.randrange(-23, 24)
    return rng.choice([24, -24, 25, -25, 100, -(1 << 31), (1 << 31) - 1, 0])


def gen_times(rng, eff_age, kind):
    """(now, publish/last_update)"""
    m = rng.random()
    if m < 0.6:
        now = 1_700_000_000 + rng.randrange(0, 10 ** 6)
    elif m < 0.7:
        now = rng.choice([0, 1, 59, 60, 61, 100])
    elif m < 0.8:
        now = rng.choice([I64_MAX, I64_MAX - 1, I64_MAX - 60, I64_MIN, I64_MIN + 60, -1])
    else:
        now = rng.randrange(I64_MIN, I64_MAX + 1)
    if kind == "fresh":
        d = rng.choice([0, 0, 1, eff_age // 2, eff_age, eff_age - 1, -5])
    elif kind == "edge":
        d = eff_age + rng.choice([-1, 0, 0, 1, 1])
    elif kind == "stale":
        d = eff_age + rng.choice([1, 1, 2, 1000, 10 ** 9])
    else:
        return now, rng.choice([I64_MAX, I64_MIN, 0, rng.randrange(I64_MIN, I64_MAX + 1)])
    return now, clamp(now - d, I64_MIN, I64_MAX)


def pyth_fields(rng, omc, publish, full=1):
    expo = gen_expo(rng)
    price = gen_price_i64(rng)
    mult = Fraction(212, 100)
    conf = clamp(gen_conf_for(rng, price, omc, mult), 0, U64_MAX)
    if rng.random() < 0.5:
        ema, ema_conf = price, conf
    else:
        ema = gen_price_i64(rng)
        ema_conf = clamp(gen_conf_for(rng, ema, omc, mult), 0, U64_MAX)
    return [full, price, conf, expo, publish, ema, ema_conf]


def swb_fields(rng, omc, last):
    m = rng.random()
    if m < 0.75:
        value = int(10 ** rng.uniform(0, 14)) * rng.choice([E18, E18 // 1000, E18 // 10 ** 6, 1])
    elif m < 0.8:
        value = rng.choice([0, 1, E18 - 1, E18])
    elif m < 0.88:
        value = -int(10 ** rng.uniform(0, 30))
    elif m < 0.94:
        value = rng.choice([I128_MAX, I128_MIN, (1 << 79) * E18 // 2, 1 << 80, (1 << 79), (1 << 79) - 1, -(1 << 79), -(1 << 79) - 1])
    else:
        value = rng.randrange(I128_MIN, I128_MAX + 1)
    mult = Fraction(196, 100)
    m = rng.random()
    p = abs(value)
    if m < 0.30:
        sd = int(p * frac_of(omc) / mult) + rng.choice([-2, -1, 0, 0, 1, 2]) * rng.choice([1, 1, E18 >> 48, E18 >> 47])
    elif m < 0.50:
        sd = int(p * Fraction(1, 20) / mult) + rng.choice([-2, -1, 0, 0, 1, 2]) * rng.choice([1, 1, E18 >> 48, E18 >> 47])
    elif m < 0.65:
        sd = 0
    elif m < 0.85:
        sd = int(p * Fraction(rng.randrange(0, 1200), 10000) / mult)
    elif m < 0.92:
        sd = rng.choice([-1, -E18, I128_MAX, I128_MIN, 1])
    else:
        sd = rng.randrange(I128_MIN, I128_MAX + 1)
    return [clamp(value, I128_MIN, I128_MAX), clamp(sd, I128_MIN, I128_MAX), last, 0, 0, 0, 0]


def ai(key, owner, body, f):
    f = list(f) + [0] * (7 - len(f))
    return [key, owner, body] + f


def gen_omc(rng):
    m = rng.random()
    if m < 0.35:
        return 0
    if m < 0.75:
        return rng.choice([U32 // 10, U32 // 20, U32 // 100, U32 // 50, U32 // 5, 429496730, 214748365])
    if m < 0.85:
        return rng.choice([1, 2, U32, U32 - 1])
    return rng.randrange(0, U32 + 1)


SETUP_WEIGHTS = [(3, 28), (4, 24), (8, 6), (5, 8), (6, 5), (7, 5), (9, 5), (10, 5), (11, 5), (12, 5), (0, 2), (1, 1), (2, 1)]


def pick_setup(rng):
    tot = sum(w for _, w in SETUP_WEIGHTS)
    x = rng.randrange(tot)
    for s, w in SETUP_WEIGHTS:
        if x < w:
            return s
        x -= w


def gen_prefix(rng, stream, dist, exact_count=False):
    """the common case prefix; returns (tokens, info)"""
    setup = pick_setup(rng)
    max_age = rng.choice([0, 10, 60, 60, 300, 65535, rng.randrange(0, 65536)])
    omc = gen_omc(rng)
    fixed_price = rng.choice([0, ONE, 5 * ONE // 2, 1, int(10 ** rng.uniform(0, 20)), -1, -ONE, I128_MAX, I128_MIN,
                              rng.randrange(0, 1 << 100)])
    over = 1 if (rng.random() < 0.15 and not exact_count) else 0
    over_age = rng.choice([0, 1, 60, 3600, I64_MAX, I64_MAX - 1, I64_MAX + 1, U64_MAX, rng.randrange(0, U64_MAX + 1)])
    eff_age = over_age if over else (60 if (max_age == 0 and setup == 3) else max_age)
    tkind = rng.choice(["fresh"] * 8 + ["edge"] * 5 + ["stale", "wild"]) if stream == "valid" else \
        rng.choice(["fresh"] * 3 + ["edge"] * 2 + ["stale"] * 2 + ["wild"])
    now, stamp = gen_times(rng, min(eff_age, 1 << 62), tkind)
    slot = rng.choice([1000, 0, 1, U64_MAX, rng.randrange(0, 1 << 40)])
    is_pyth = setup in PYTH_SETUPS or (setup in (0, 1, 2) and rng.random() < 0.5)
    # first account
    if is_pyth:
        a0 = ai(K0, 1, 3, pyth_fields(rng, omc, stamp))
    else:
        a0 = ai(K0, 2, 5, swb_fields(rng, omc, stamp))
    ais = []
    if setup == 8:
        ais = []
    elif setup == 5:
        ais = [a0, ai(K1, 6, 1, []), ai(K2, 3, 1, [])]
    elif setup in VENUE_SETUPS:
        ais = [a0, ai(K1, 3, 1, [])]
    else:
        ais = [a0]
    # venue / staking
    loader = 0
    if setup in (9, 10):
        last = clamp(now, 0, U64_MAX) if rng.random() < 0.8 else clamp(now + rng.choice([-1, 1, 5]), 0, U64_MAX)
    else:
        last = slot if rng.random() < 0.8 else clamp(slot + rng.choice([-1, 1, 5]), 0, U64_MAX)
    dec = rng.choice([0, 6, 6, 9, 9, rng.randrange(0, 13), 23])
    supply = rng.choice([0, 1, int(10 ** rng.uniform(0, 15)), int(10 ** rng.uniform(6, 12))])
    avail = rng.choice([supply, supply + supply // 20, int(10 ** rng.uniform(0, 15)), 0, supply * 1000, U64_MAX])
    avail = clamp(avail, 0, U64_MAX)
    cum = rng.choice([10 ** 10, 10 ** 10, 10 ** 10 + rng.randrange(0, 10 ** 9), 0, 1, 10 ** 12, (1 << 128) - 1,
                      (1 << 64), rng.randrange(0, 1 << 70)])
    mint_ok, lst_supply, stake_kind = 1, rng.choice([10 ** 9, int(10 ** rng.uniform(0, 15)), 1]), 0
    stake = rng.choice([10 ** 9 + lst_supply, 2 * 10 ** 9, 10 ** 9 + int(10 ** rng.uniform(0, 15)), 10 ** 9])
    corrupt = None
    if stream == "malformed":
        opts = ["key0", "owner", "foreign", "short", "swap", "count"]
        if is_pyth:
            opts += ["partial", "ptrunc", "ptag"]
        else:
            opts += ["strunc"]
        if setup in VENUE_SETUPS:
            opts += ["key1", "vinvalid", "vshort", "vstale"] * 2
        if setup == 5:
            opts += ["key1", "key2", "mint", "stake1", "stake2", "supply0", "stakelow", "stakebig"] * 2
        if setup == 8:
            opts = ["count", "negfixed"]
        corrupt = rng.choice(opts)
        if ais and corrupt == "key0":
            ais[0][0] = rng.choice([K1, 99, 0])
        elif ais and corrupt == "owner":
            ais[0][1] = rng.choice([2 if is_pyth else 1, 3, 4, 6, 50])
        elif ais and corrupt == "foreign":
            ais[0][2] = 1
        elif ais and corrupt == "short":
            ais[0][2] = 0
            ais[0][3] = rng.randrange(0, 8)
        elif ais and corrupt == "swap":
            if is_pyth:
                ais[0] = ai(K0, rng.choice([1, 2]), 5, swb_fields(rng, omc, stamp))
            else:
                ais[0] = ai(K0, rng.choice([1, 2]), 3, pyth_fields(rng, omc, stamp))
        elif corrupt == "count":
            if ais and rng.random() < 0.5:
                ais = ais[:-1]
            else:
                ais = ais + [ai(rng.choice([K0, K1, K2, 77]), rng.choice([1, 2, 3]), rng.choice([1, 3, 5]),
                                pyth_fields(rng, omc, stamp))]
        elif ais and corrupt == "partial":
            ais[0][3] = 0
        elif ais and corrupt == "ptrunc":
            ais[0][2] = 2
            ais[0][3] = 0
            ais[0][4] = rng.randrange(0, 125)
        elif ais and corrupt == "ptag":
            ais[0][2] = 2
            ais[0][3] = 1
        elif ais and corrupt == "strunc":
            ais[0][2] = 4
            ais[0][3] = rng.choice([0, 1, 100, 3199, rng.randrange(0, 3200)])
        elif corrupt == "key1" and len(ais) > 1:
            ais[1][0] = rng.choice([K0, 98])
        elif corrupt == "key2" and len(ais) > 2:
            ais[2][0] = rng.choice([K1, 97])
        elif corrupt == "vinvalid":
            loader = 1
        elif corrupt == "vshort":
            loader = 2
        elif corrupt == "vstale":
            if setup in (9, 10):
                last = clamp(now - rng.choice([1, 2, 100]), 0, U64_MAX)
            else:
                last = clamp(slot - rng.choice([1, 2, 100]), 0, U64_MAX)
        elif corrupt == "mint":
            mint_ok = 0
        elif corrupt == "stake1":
            stake_kind = 1
        elif corrupt == "stake2":
            stake_kind = 2
        elif corrupt == "supply0":
            lst_supply = 0
        elif corrupt == "stakelow":
            stake = rng.choice([0, 10 ** 9 - 1, 5])
        elif corrupt == "stakebig":
            stake = rng.choice([U64_MAX, 1 << 63])
            lst_supply = rng.choice([1, 2, lst_supply])
        elif corrupt == "negfixed":
            fixed_price = rng.choice([-1, -ONE, I128_MIN])
    toks = [setup, K0, K1, K2, max_age, omc, fixed_price, over, over_age, now, slot, len(ais)]
    for a in ais:
        toks += a
    toks += [loader, last, avail, supply, dec, cum, mint_ok, lst_supply, stake_kind, stake]
    k = f"{stream}:setup{setup}" + (f":{corrupt}" if corrupt else "")
    dist[k] = dist.get(k, 0) + 1
    return toks, {"setup": setup, "omc": omc}


def gen_oracle_case(rng, stream, dist):
    while True:
        d = {}
        toks, info = gen_prefix(rng, stream, d)
        # Solend reserves read the clock sysvar; the sim clock stub computes unix_timestamp - slot/2
        if info["setup"] not in (11, 12) or (toks[9] >= -(1 << 62) and toks[10] <= (1 << 62)):
            break
    for k, v in d.items():
        dist[k] = dist.get(k, 0) + v
    omcs = [info["omc"]]
    if rng.random() < 0.3:
        omcs.append(gen_omc(rng))
    toks += [len(omcs)] + omcs
    return " ".join(map(str, toks))


def gen_risk_case(rng, stream, dist):
    while True:
        d = {}
        toks, info = gen_prefix(rng, stream, d, exact_count=True)
        # the sim clock stub computes unix_timestamp - slot/2: keep that inside i64 (harness artefact)
        if toks[9] >= -(1 << 62) and toks[10] <= (1 << 62):
            break
    for k, v in d.items():
        dist[k] = dist.get(k, 0) + v
    side = rng.choice([0, 0, 1])
    isolated = 1 if rng.random() < 0.1 else 0
    reduce_only = 1 if rng.random() < 0.15 else 0
    toks += [side, isolated, reduce_only]
    return " ".join(map(str, toks))


NOW0, SLOT0 = 1_700_000_000, 1000


def gen_liq_case(rng, dist):
    """one doctored oracle in a fixed liquidation scenario (real handlers)"""
    op = 0 if rng.random() < 0.7 else 1
    role = 0 if op == 1 else rng.choice([0, 0, 1])
    setup = rng.choice([3, 3, 3, 4, 4, 8])
    omc = rng.choice([0, 0, U32 // 10, U32 // 20, U32 // 50])
    max_age = rng.choice([0, 10, 60, 300])
    age = 60 if (max_age == 0 and setup == 3) else max_age
    if role == 0:
        base = Fraction(rng.randrange(5800, 6201), 100) if op == 1 else Fraction(rng.randrange(5000, 7001), 100)
    else:
        base = Fraction(rng.randrange(9500, 10501), 10000)
    kind = rng.choice(["good"] * 7 + ["zero"] * 3 + ["negative"] * 2 + ["confedge"] * 3 + ["staleedge"] * 2 + ["corrupt"] * 4)
    stamp = NOW0 - rng.choice([0, 1, age // 2, age])
    if kind == "staleedge":
        stamp = NOW0 - age + rng.choice([-1, 0, 1, -1])
    fixed_price = 0
    ais = []
    mult = Fraction(212, 100) if setup == 3 else Fraction(196, 100)
    unit = 10 ** 8 if setup == 3 else E18
    price = int(base * unit)
    if kind == "zero":
        price = 0
    elif kind == "negative":
        price = -price if rng.random() < 0.7 else -rng.choice([1, 2, 3])
    if kind == "confedge":
        conf = int(abs(price) * frac_of(omc) / mult) + rng.choice([-2, -1, 0, 1, 2])
    elif kind in ("zero", "negative"):
        conf = rng.choice([0, 0, 1, abs(price) // 100])
    else:
        conf = int(abs(price) * Fraction(rng.randrange(0, 300), 10000) / mult)
    conf = max(conf, 0)
    if setup == 3:
        ais = [ai(K0, 1, 3, [1, price, conf, -8, stamp, price, conf])]
    elif setup == 4:
        ais = [ai(K0, 2, 5, [price, conf, stamp])]
    else:
        fixed_price = 0 if kind in ("zero", "negative", "corrupt") and rng.random() < 0.8 else int(base * ONE)
        if kind == "negative":
            fixed_price = -int(base * ONE)
    corrupt = None
    if kind == "corrupt" and ais:
        corrupt = rng.choice(["key0", "owner", "foreign", "short", "swap"] + (["partial", "ptrunc", "ptag"] if setup == 3 else ["strunc"]))
        a = ais[0]
        if corrupt == "key0":
            a[0] = 99
        elif corrupt == "owner":
            a[1] = rng.choice([2 if setup == 3 else 1, 3, 4])
        elif corrupt == "foreign":
            a[2] = 1
        elif corrupt == "short":
            a[2], a[3] = 0, rng.randrange(0, 8)
        elif corrupt == "swap":
            ais[0] = ai(K0, 1, 5, [price * (E18 // 10 ** 8), 0, stamp]) if setup == 3 else ai(K0, 2, 3, [1, price // (E18 // 10 ** 8), 0, -8, stamp, price // (E18 // 10 ** 8), 0])
        elif corrupt == "partial":
            a[3] = 0
        elif corrupt == "ptrunc":
            a[2], a[3], a[4] = 2, 0, rng.randrange(0, 125)
        elif corrupt == "ptag":
            a[2], a[3] = 2, 1
        elif corrupt == "strunc":
            a[2], a[3] = 4, rng.randrange(0, 3200)
    toks = [op, role, setup, K0, K1, K2, max_age, omc, fixed_price, 0, 0, NOW0, SLOT0, len(ais)]
    for a in ais:
        toks += a
    toks += [0, SLOT0, 0, 0, 6, 10 ** 10, 1, 10 ** 9, 0, 2 * 10 ** 9]
    k = f"op{op}:role{role}:setup{setup}:{kind}" + (f":{corrupt}" if corrupt else "")
    dist[k] = dist.get(k, 0) + 1
    return " ".join(map(str, toks))


def suites(rng, tier):
    n = {"quick": 2400, "thorough": 40000, "search": 20000}[tier]
    nr = {"quick": 1200, "thorough": 15000, "search": 8000}[tier]
    d1, d2 = {}, {}
    l1 = [gen_oracle_case(rng, "valid" if rng.random() < 0.7 else "malformed", d1) for _ in range(n)]
    l2 = [gen_risk_case(rng, "valid" if rng.random() < 0.7 else "malformed", d2) for _ in range(nr)]
    nl = {"quick": 600, "thorough": 6000, "search": 3000}[tier]
    d3 = {}
    l3 = [gen_liq_case(rng, d3) for _ in range(nl)]
    return [{"suite": "oracle", "name": "oracle", "lines": l1, "distribution": d1},
            {"suite": "oraclerisk", "name": "oraclerisk", "lines": l2, "distribution": d2},
            {"suite": "oracleliq", "name": "oracleliq", "lines": l3, "distribution": d3}]


# ------------------------------------------------------------------------------------------------
# parsing

def parse_prefix(t):
    """tokens -> (dict, index after the prefix)"""
    c = {"setup": t[0], "k": t[1:4], "max_age": t[4], "omc": t[5], "fixed": t[6], "over": t[7], "over_age": t[8],
         "now": t[9], "slot": t[10]}
    n = t[11]
    i = 12
    ais = []
    for _ in range(n):
        ais.append({"key": t[i], "owner": t[i + 1], "body": t[i + 2], "f": t[i + 3:i + 10]})
        i += 10
    c["ais"] = ais
    c["loader"], c["last"], c["avail"], c["supply"], c["dec"], c["cum"] = t[i:i + 6]
    c["mint_ok"], c["lst_supply"], c["stake_kind"], c["stake"] = t[i + 6:i + 10]
    return c, i + 10


def as_i64(u):
    return u - (1 << 64) if u >= (1 << 63) else u


def eff_age(c):
    if c["over"]:
        return c["over_age"]
    return 60 if (c["max_age"] == 0 and c["setup"] == 3) else c["max_age"]


def authentic(c, ais):
    """The property's acceptance condition, evaluated on the case: None if the accounts are acceptable,
    otherwise the reason why no price may be taken from them."""
    s = c["setup"]
    if s in (0, 1, 2):
        return "oracle not set up / deprecated setup"
    if s == 8:
        if ais:
            return "fixed-price bank given oracle accounts"
        return "negative fixed price" if c["fixed"] < 0 else None
    want = {3: 1, 4: 1, 5: 3}.get(s, 2)
    if len(ais) != want:
        return "wrong number of oracle accounts"
    a = ais[0]
    if a["key"] != c["k"][0]:
        return "oracle key differs from the configured key"
    age = eff_age(c)
    if s in PYTH_SETUPS:
        if a["owner"] != 1:
            return "Pyth account not owned by the receiver program"
        if a["body"] != 3:
            return "not a decodable PriceUpdateV2 account"
        if a["f"][0] == 0:
            return "insufficient verification level"
        if c["now"] - a["f"][4] > age:
            return f"stale: age {c['now'] - a['f'][4]} > {age}"
    else:
        if a["owner"] != 2:
            return "Switchboard account not owned by the Switchboard program"
        if a["body"] != 5:
            return "not a PullFeedAccountData account"
        if c["now"] - a["f"][2] > age:
            return f"stale: age {c['now'] - a['f'][2]} > {age}"
    if s in VENUE_SETUPS:
        if ais[1]["key"] != c["k"][1]:
            return "venue account key differs from the configured key"
        if c["loader"] != 0:
            return "venue account rejected by its loader"
        if s in (9, 10):
            if as_i64(c["last"]) < c["now"]:
                return "stale spot market"
        elif c["last"] < c["slot"]:
            return "stale reserve"
    if s == 5:
        if ais[1]["key"] != c["k"][1] or ais[2]["key"] != c["k"][2]:
            return "stake accounts differ from the configured keys"
        if not c["mint_ok"] or c["stake_kind"] != 0:
            return "mint / stake account malformed"
        if c["lst_supply"] == 0 or c["stake"] < 10 ** 9:
            return "empty stake pool"
    return None


def is_num(x):
    return x.lstrip("-").isdigit()


def reported(c, tw):
    """(price, scaled confidence) of a plain setup as exact rationals, from the account's integers"""
    a = c["ais"][0]
    if c["setup"] in PYTH_SETUPS:
        full, price, conf, expo, publish, ema, ema_conf = a["f"]
        sc = Fraction(10) ** expo
        p, cf = (ema, ema_conf) if tw else (price, conf)
        return p * sc, cf * sc * Fraction(212, 100)
    value, sd = a["f"][0], a["f"][1]
    return Fraction(value, E18), Fraction(sd, E18) * Fraction(196, 100)


def frac_max(omc):
    return Fraction(omc, U32) if omc > 0 else Fraction(429496730, U32)


def check_prices(c, omc, seg):
    """property checks on one query segment `TWn TWl TWh RTn RTl RTh ; p c ; p c`"""
    parts = seg.split(" ; ")
    q = parts[0].split()
    fixed = c["setup"] == 8
    # swb: the account value must fit the I80F48 integer part, otherwise the conversion wraps (observation)
    plain = c["setup"] in (3, 4) and not (c["setup"] == 4 and not (-(1 << 79) <= c["ais"][0]["f"][0] < (1 << 79) and
                                                                   -(1 << 79) <= c["ais"][0]["f"][1] < (1 << 79)))
    for k, tw in ((0, True), (3, False)):
        n, lo, hi = q[k:k + 3]
        name = "TW" if tw else "RT"
        if (is_num(lo) or is_num(hi)) and not is_num(n):
            return {"key": "biased-without-price", "what": f"{name}: a biased price exists but the unbiased price does not ({n})"}
        if not is_num(n):
            continue
        n = int(n)
        if fixed:
            for x in (lo, hi):
                if not is_num(x) or int(x) != c["fixed"] or n != c["fixed"]:
                    return {"key": "fixed-price-altered", "what": f"fixed price bank returned {n} {lo} {hi}, configured {c['fixed']}"}
            continue
        ds = []
        for x, sign, what in ((lo, -1, "low"), (hi, 1, "high")):
            if not is_num(x):
                continue
            x = int(x)
            if n < 0:
                return {"key": "negative-price-biased", "what": f"{name}: negative price {n} produced a {what} price {x}"}
            d = (x - n) * sign
            if d < 0:
                return {"key": "bias-wrong-direction", "what": f"{name}: {what} price {x} on the wrong side of the price {n}"}
            if 20 * d * ONE > n * (ONE + 4):
                return {"key": "bias-exceeds-5pct", "what": f"{name}: {what} bias {d} exceeds 5% of the price {n}"}
            ds.append(d)
        if len(ds) == 2 and ds[0] != ds[1]:
            return {"key": "bias-asymmetric", "what": f"{name}: low bias {ds[0]} differs from high bias {ds[1]}"}
        if plain:
            rp, rc = reported(c, tw)
            if abs(n - rp * ONE) >= 1:
                return {"key": "price-not-reported", "what": f"{name}: price {n} is not the account's price {float(rp)} in I80F48"}
            if ds:
                slack = Fraction(8) + abs(rc) * ONE / (1 << 40)
                if rc * ONE > rp * ONE * frac_max(omc) + slack:
                    return {"key": "confidence-above-maximum", "what": f"{name}: scaled confidence {float(rc)} exceeds the maximum "
                            f"{float(frac_max(omc))} of the price {float(rp)} but a biased price was returned"}
                need = min(rc * ONE, Fraction(n) / 20) - slack
                if ds[0] < need:
                    return {"key": "bias-too-small", "what": f"{name}: bias {ds[0]} smaller than min(scaled confidence, 5% of price) = {float(need)}"}
                if ds[0] > rc * ONE + slack:
                    return {"key": "bias-above-confidence", "what": f"{name}: bias {ds[0]} larger than the scaled confidence {float(rc * ONE)}"}
        if c["setup"] in VENUE_SETUPS and n >= (1 << 24) and ds:       # (prices of a few raw units: the rescaling truncates everything)
            # exchange-rate adjusted feeds: price and confidence are scaled by the same rate, so the RELATIVE confidence
            # (scaled confidence / price of the base account) must gate and size the bias as for a plain feed. The rescaling
            # works on the account's integers and truncates: allow one integer unit on price and confidence.
            a0 = c["ais"][0]
            if c["setup"] in PYTH_SETUPS:
                full, price, conf, expo, publish, ema, ema_conf = a0["f"]
                p_i, c_i, mult = ((ema, ema_conf) if tw else (price, conf)) + (Fraction(212, 100),)
                unit = mult * ONE * Fraction(10) ** expo          # one integer unit of the RESCALED confidence, in I80F48 bits
            else:
                p_i, c_i, mult = a0["f"][0], a0["f"][1], Fraction(196, 100)
                unit = Fraction(0)
                if not (p_i < (1 << 79) and c_i < (1 << 79)):   # does not fit I80F48: the conversion wraps (observation above)
                    p_i = 0
            if p_i > 1 and c_i >= 0:
                r_lo = Fraction(max(0, c_i - 1)) * mult / (p_i + 1)
                r_hi = Fraction(c_i + 1) * mult / (p_i - 1)
                rel = Fraction(1, 1 << 36)
                slack = 64 + Fraction(n) * rel + 2 * unit
                if r_lo * n - slack > frac_max(omc) * n * (1 + rel):
                    return {"key": "confidence-above-maximum", "what": f"{name}: venue feed: scaled confidence is at least {float(r_lo)} of the price, above the "
                            f"maximum {float(frac_max(omc))}, but a biased price was returned"}
                w_lo = min(r_lo, Fraction(1, 20)) * n
                w_hi = min(r_hi, Fraction(1, 20)) * n
                if ds[0] < w_lo - slack or ds[0] > w_hi + slack:
                    return {"key": "venue-bias-not-reported-confidence",
                            "what": f"{name}: venue feed: bias {ds[0]} outside [{float(w_lo)}, {float(w_hi)}] = min(scaled confidence, 5%) of the price {n}"}
        # price_and_confidence agrees with the above
        pc = parts[1 if tw else 2].split()
        if len(pc) == 2 and is_num(pc[0]):
            if int(pc[0]) != n:
                return {"key": "price-and-conf-mismatch", "what": f"{name}: get_price_and_confidence price {pc[0]} != {n}"}
            if ds and int(pc[1]) != ds[0]:
                return {"key": "price-and-conf-mismatch", "what": f"{name}: get_price_and_confidence conf {pc[1]} != bias {ds[0]}"}
    return None


def nontrivial(suite, case, impl):
    segs = impl.split(" | ")
    if suite == "oracleliq":
        return impl in ("OK", "E6057", "E6058", "E6055")
    if suite == "oracle":
        if not segs[0].startswith("OK") or len(segs) < 2:
            return False
        q = segs[1].split(" ; ")[0].split()
        return any(is_num(x) for x in q[1:3] + q[4:6])
    return any(len(s.split()) == 2 and is_num(s.split()[0]) and (int(s.split()[0]) != 0 or int(s.split()[1]) != 0)
               for s in segs)


def oracle_liq(case, impl):
    """real liquidation / receivership withdrawal succeeded => the doctored oracle was acceptable, its
    price strictly positive and its confidence within the maximum"""
    t = list(map(int, case.split()))
    op, role = t[0], t[1]
    c, _ = parse_prefix(t[2:])
    if impl != "OK":
        return None
    what = "liquidation" if op == 0 else "receivership withdrawal"
    why = authentic(c, c["ais"])
    if why:
        return {"key": "liquidated-with-unacceptable-oracle", "what": f"{what} succeeded although: {why}"}
    if c["setup"] == 8:
        if c["fixed"] <= 0:
            return {"key": "liquidated-at-nonpositive-price", "what": f"{what} succeeded at fixed price {c['fixed']}"}
        return None
    rp, rc = reported(c, False)
    if rp <= 0:
        return {"key": "liquidated-at-nonpositive-price",
                "what": f"{what} succeeded with the {'asset' if role == 0 else 'liability'} bank's oracle price {float(rp)}"}
    slack = Fraction(8) + abs(rc) * ONE / (1 << 40)
    if rc * ONE > rp * ONE * frac_max(c["omc"]) + slack:
        return {"key": "liquidated-with-wide-confidence",
                "what": f"{what} succeeded with scaled confidence {float(rc)} above the maximum of price {float(rp)}"}
    return None


def oracle(suite, case, impl):
    if suite == "oracleliq":
        return oracle_liq(case, impl)
    t = list(map(int, case.split()))
    c, i = parse_prefix(t)
    segs = impl.split(" | ")
    if suite == "oracle":
        m = t[i]
        omcs = t[i + 1:i + 1 + m]
        if not segs[0].startswith("OK"):
            return None
        # swb with an explicit max age of exactly i64::MAX: the saturated age can exceed it (unreachable through a bank config)
        exempt = c["over"] and c["over_age"] == I64_MAX and c["setup"] in SWB_SETUPS
        why = authentic(c, c["ais"])
        if why and not (exempt and why.startswith("stale")):
            return {"key": "loaded-unacceptable-oracle", "what": f"setup {c['setup']}: feed loaded although: {why}"}
        want = "OKF" if c["setup"] == 8 else ("OKP" if c["setup"] in PYTH_SETUPS else "OKS")
        if segs[0] != want:
            return {"key": "wrong-feed-kind", "what": f"setup {c['setup']} produced {segs[0]}"}
        for omc, seg in zip(omcs, segs[1:]):
            v = check_prices(c, omc, seg)
            if v:
                return v
        return None
    # oraclerisk
    side, isolated, reduce_only = t[i:i + 3]
    want = {3: 1, 4: 1, 5: 3, 8: 0}.get(c["setup"], 2)
    ais = c["ais"][:want]
    why = authentic(c, ais) if len(c["ais"]) >= want else "too few oracle accounts"
    for r, seg in enumerate(segs):
        name = ("Initial", "Maintenance", "Equity")[r]
        w = seg.split()
        if len(w) != 2 or not is_num(w[0]):
            continue
        a, l = int(w[0]), int(w[1])
        if why and (a != 0 or l != 0):
            return {"key": "valued-with-unacceptable-oracle", "what": f"{name}: value {a}/{l} although: {why}"}
        if why and side == 1:
            return {"key": "debt-valued-with-unacceptable-oracle", "what": f"{name}: debt valuation succeeded although: {why}"}
        if why and side == 0 and r != 0 and not isolated:
            return {"key": "collateral-valued-with-unacceptable-oracle",
                    "what": f"{name}: collateral valuation succeeded although: {why}"}
        if not why and c["setup"] in (3, 4) and (a or l):
            if c["setup"] == 4 and not (-(1 << 79) <= c["ais"][0]["f"][0] < (1 << 79)):
                continue
            rp, rc = reported(c, r != 1)
            if side == 0 and a > rp * ONE:
                return {"key": "collateral-above-price", "what": f"{name}: collateral valued {a} above the reported price {float(rp)}"}
            if side == 1 and l < rp * ONE - 1:
                return {"key": "debt-below-price", "what": f"{name}: debt valued {l} below the reported price {float(rp)}"}
            if side == 0 and l != 0 or side == 1 and a != 0:
                return {"key": "wrong-side", "what": f"{name}: value on the wrong side {a}/{l}"}
    return None
