"""C02 — ledger consistency: bank totals cover the sum of all positions; excess is only closing dust."""
import gen_bank as G
import gen_hops as H
import hops_oracles as O
from props import c16 as C16
from props import c12 as C12
ID = "C02"
MANIFEST = {
    "text": ("Kernel-checked invariant over the wrapper state machine (any number of banks and accounts, operation sequences of any "
             "length, by induction): every bank's total asset/liability shares are >= the sum of the shares recorded in all positions; "
             "every operation other than withdraw_all / repay_all / close_balance changes each bank's totals by EXACTLY the change of "
             "the positions (excess unchanged for every bank); the three closing operations add to the excess only the abandoned shares, "
             "each side worth < 0.0001 native unit; zero totals imply no position holds shares; the same invariant is proved at instruction level for the handler model (incl. liquidation's four legs over two banks and two accounts, bankruptcy) for histories of any length. Tied to the real code twice: the "
             "wrapper-level world (real Bank + BankAccountWrapper) and the handler-level world (real instruction handlers incl. "
             "liquidation's four legs and bankruptcy, sim runtime) are executed against the extracted model, and the oracle recomputes "
             "per-instruction delta equality and the counted dust budget from the real account bytes in exact integers."),
    "design_ref": "DESIGN.md §7 C02",
    "technique": "Coq proof (invariant by induction over operation sequences, exact per-operation deltas) + model/implementation correspondence at wrapper and handler level",
}
THEOREMS = ["C02_totals_cover_positions", "C02_ledger_meaning", "C02_exact_deltas_and_dust", "C02_zero_totals_no_positions",
            "C02_initial_world", "C02_instruction_level",
            "C02_transfer_keeps_position_sums", "C02_transfer_pda_keeps_position_sums", "C02_close_removes_only_empty_positions",
            "C02_purge_keeps_ledger", "C02_purge_effect_on_totals", "C02_deleverage_tx_keeps_ledger", "C02_close_bank_only_without_positions"]
RULE = ("level B: operation sequences over 1-3 banks and 1-4 accounts on the real Bank + BankAccountWrapper (deposit/withdraw/"
        "borrow/repay/withdraw_all/repay_all/close/liquidation legs/accrue/socialise/claim/settle/sort); level C: instruction-handler "
        "sequences (deposit, withdraw(all), borrow, repay(all), close_balance, liquidate, bankruptcy, accrue, collect fees) by several "
        "users. Non-trivial = at least 3 successful share-moving operations; distinct = different case line")
ASSUMPTIONS = [
    "lending_pool_close_bank is modelled as a yes/no probe (h_close_bank_probe = its four guards; the harness runs the real instruction and puts the closed account back) and covered by C02_close_bank_only_without_positions; purge_delev_balance is modelled (Deleverage.v dv_purge, tied by the delevsim suite) and covered by C02_purge_keeps_ledger / C02_purge_effect_on_totals; transfer_to_new_account and marginfi_account_close are modelled (AcctLifecycle.v) and covered by C02_transfer_keeps_position_sums / C02_close_removes_only_empty_positions; purge abandons liability dust of at most 0.0001 SHARES (the handler compares shares, not the amount, with ZERO_AMOUNT_THRESHOLD), i.e. up to 0.0001 x liability share value units",
    "amounts passed to the wrapper are non-negative (they are u64 instruction arguments)",
]
OBSERVATIONS = [
    "withdraw_all leaves the position's liability dust (< 0.0001) in total_liability_shares; repay_all and close_balance leave asset dust in total_asset_shares: the excess only grows",
    "position counters can drift in the unchanged code: a depositor whose remaining position is below 0.0001 SHARES but above 0.0001 TOKENS (share value > 1) is un-counted by the partial withdrawal that left the dust and un-counted AGAIN by the following withdraw_all, so lending_position_count can reach 0 while another depositor still holds the bank's deposits (reproduced by the close-bank scenario of the hops generator, about one case in four of that scenario); lending_pool_close_bank is then refused only by its totals guard - the property holds, the counter guard alone would not be enough",
]
ONE = G.ONE
THR = 28147497671


def suites(rng, tier):
    n = {"quick": 800, "thorough": 20000, "search": 12000}[tier]
    a = [G.gen_case(rng, max_ops=28, limits="mixed", liq_ops=True, loss_ops=True) for _ in range(n)]
    m = {"quick": 500, "thorough": 10000, "search": 8000}[tier]
    b = [H.gen_case(rng, max_ops=24) for _ in range(m)]
    k = {"quick": 1200, "thorough": 20000, "search": 8000}[tier]
    c = [C16.gen_life(rng) for _ in range(k)]
    return [{"suite": "bankops", "name": "bankops-ledger", "lines": a, "distribution": {"cases": n, "max_ops": 28}},
            {"suite": "hops", "name": "hops-ledger", "lines": b, "distribution": {"cases": m, "max_ops": 24}},
            {"suite": "delevsim", "name": "deleverage-purge-ledger", "lines": [C12.gen_delev_case(rng) for _ in range({"quick": 300, "thorough": 5000, "search": 2000}[tier])],
             "distribution": {"note": "forced-deleverage transactions and the risk admin's purge_delev_balance (real handlers): totals must move with the positions, a purge abandons only dust"}},
            {"suite": "acctlife", "name": "account-close-transfer-ledger", "lines": c,
             "distribution": {"cases": k, "note": "real marginfi_account_close / transfer_to_new_account on accounts with arbitrary positions: positions may only disappear with the account when they hold no shares, and a transfer moves them unchanged"}}]


def nontrivial(suite, case, impl):
    if suite == "delevsim":
        return C12.nontrivial(suite, case, impl)
    if suite == "acctlife":
        return " | OK" in (" | " + impl) or impl.startswith("OK")
    if suite == "hops":
        tr = O.Trace(case, impl)
        return tr.ok and sum(1 for x in O.walk(tr) if x[1] == "OK" and x[0][0] in (1, 2, 3, 4, 7, 8, 9)) >= 3
    ok = 0
    c = G.parse_case(case)
    for op, (res, bank, acct) in zip(c["ops"], G.parse_out(impl)):
        if res[0] == "OK" and op[0] in (1, 2, 3, 4, 5, 6, 7, 8, 9):
            ok += 1
    return ok >= 3


def oracle_acctlife(case, impl):
    """ledger view of account close / transfer: the sum of positions over all accounts may only lose positions that hold
    less than one share-unit (what the code treats as empty), and a transfer keeps every position"""
    if impl.startswith("DRIVER"):
        return None
    t, ops, states = C16.parse_life(case, impl)
    cur = C16.init_life(t)
    for op, (res, accts) in zip(ops, states):
        if res == "OK" and op[0] == 1:
            A = cur[op[1]]
            if A is not None and any(b[0] and (b[3] >= ONE or b[4] >= ONE) for b in A["bals"]):
                return {"key": "account-closed-with-positions",
                        "what": "marginfi_account_close removed an account whose active positions still hold shares: bank totals now exceed the sum of positions by more than dust"}
        if res == "OK" and op[0] in (2, 6):
            A = cur[op[1]]
            N = accts[op[2]]
            if A is not None and (N is None or N["bals"] != A["bals"]):
                return {"key": "transfer-changed-positions", "what": "transfer_to_new_account did not move the positions unchanged"}
            # the per-bank sums over ALL accounts (the retired source included) must not change: bank totals do not move
            def sums(state):
                out = {}
                for acc in state:
                    for b in (acc["bals"] if acc else []):
                        if b[0]:
                            k = out.setdefault(b[1], [0, 0])
                            k[0] += b[3]
                            k[1] += b[4]
                return out
            if sums(accts) != sums(cur):
                return {"key": "transfer-changed-position-sums",
                        "what": f"transfer (op {op[0]}): the sum of recorded shares over all accounts changed from {sums(cur)} to {sums(accts)} while no bank total moved"}
        if res == "OK":
            cur = accts
    return None


def oracle_delevsim(case, impl):
    """ledger view of the deleverage suite: after every successful step every bank's totals cover the sum of all positions,
    the excess never shrinks, and it grows only by dust (a few closes per transaction, each < 0.0001 unit or share)"""
    try:
        nb, na, banks, ops = C12.parse_delev_case(case)
    except Exception:
        return None
    parts = impl.split(" | ")
    if len(parts) != len(ops):
        return None
    ex = None
    for o_, outp in zip(ops, parts):
        secs = outp.split(" # ")
        if not secs[0].startswith("OK"):
            continue
        bks = [list(map(int, b.split())) for b in secs[1].split(" ; ")]
        sa, sl = [0] * nb, [0] * nb
        for a in secs[2].split(" ; "):
            tt = a.split()
            if tt[0] == "-":
                continue
            for sl_ in tt[0].split(","):
                g = list(map(int, sl_.split(":")))
                k = g[1] - 1
                if 0 <= k < nb:
                    sa[k] += g[3]
                    sl[k] += g[4]
        cur = []
        for k in range(nb):
            asv, lsv, tas, tls = bks[k][0], bks[k][1], bks[k][2], bks[k][3]
            if tas < sa[k] or tls < sl[k]:
                return {"key": "total-below-positions", "what": f"deleverage op {o_[0]}: bank {k} totals ({tas},{tls}) < sum of positions ({sa[k]},{sl[k]})"}
            cur.append((tas - sa[k], tls - sl[k]))
            if ex is not None:
                da, dl = cur[k][0] - ex[k][0], cur[k][1] - ex[k][1]
                if da < 0 or dl < 0:
                    return {"key": "excess-shrank", "what": f"deleverage op {o_[0]}: bank {k} excess of totals over positions fell by ({-da},{-dl})"}
                lim = 8 * (THR + 1)      # at most a few positions are closed by one transaction
                if da * asv // ONE >= lim and da >= lim or dl * lsv // ONE >= lim and dl >= lim:
                    return {"key": "abandoned-more-than-dust", "what": f"deleverage op {o_[0]}: bank {k} abandoned ({da},{dl}) shares"}
        ex = cur
    return None


def oracle(suite, case, impl):
    if suite == "delevsim":
        return oracle_delevsim(case, impl)
    if suite == "acctlife":
        return oracle_acctlife(case, impl)
    if suite == "hops":
        return O.oracle_c02(O.Trace(case, impl))
    return oracle_bankops(case, impl)


def oracle_bankops(case, impl):
    c = G.parse_case(case)
    outs = G.parse_out(impl)
    nb = c["nb"]
    tot = [(b["tas"], b["tls"]) for b in c["banks"]]
    sv = [(b["asv"], b["lsv"]) for b in c["banks"]]
    pos = {}                                   # (acct, bank index) -> (a, l)
    ex = [list(t) for t in tot]                # excess = initial totals (accounts start empty)
    for op, (res, bank, acct) in zip(c["ops"], outs):
        k = op[0]
        if res[0] != "OK":
            continue
        if k in (10, 11) and bank:             # accrue / socialise: totals must not move
            b_i = op[1]
            if (bank["tas"], bank["tls"]) != tot[b_i]:
                return {"key": "total-moved-without-position", "what": f"{G.OPN[k]} changed totals of bank {b_i}"}
            sv[b_i] = (bank["asv"], bank["lsv"])
            continue
        if k not in (1, 2, 3, 4, 5, 6, 7, 8, 9, 12, 13, 14):
            continue
        a_i = op[1]
        old = {kk: v for kk, v in pos.items() if kk[0] == a_i}
        new = {}
        for s in acct or []:
            key = (a_i, s["bank"] - 1)
            if key in new:
                return {"key": "duplicate-position", "what": f"account {a_i} holds two positions in bank {key[1]}"}
            if s["a"] < 0 or s["l"] < 0:
                return {"key": "negative-shares", "what": f"negative shares after {G.OPN[k]}"}
            new[key] = (s["a"], s["l"])
        b_i = op[2] if k != 14 else None
        for j in range(nb):
            oa, ol = old.get((a_i, j), (0, 0))
            na, nl = new.get((a_i, j), (0, 0))
            if j == b_i and bank:
                dta, dtl = bank["tas"] - tot[j][0], bank["tls"] - tot[j][1]
            else:
                dta, dtl = 0, 0
            xa, xl = dta - (na - oa), dtl - (nl - ol)
            if k in (5, 6, 7) and j == b_i:
                if xa < 0 or xl < 0:
                    return {"key": "total-below-positions", "what": f"{G.OPN[k]}: bank {j} total fell by more than the position"}
                asv, lsv = sv[j]
                if xa * asv // ONE >= THR + 1 or xl * lsv // ONE >= THR + 1:
                    return {"key": "abandoned-more-than-dust", "what": f"{G.OPN[k]}: bank {j} abandoned ({xa},{xl}) shares worth >= 0.0001"}
                ex[j][0] += xa
                ex[j][1] += xl
            elif xa != 0 or xl != 0:
                return {"key": "total-delta-mismatch", "what": f"{G.OPN[k]}: bank {j} totals changed by ({dta},{dtl}) but the position by ({na-oa},{nl-ol})"}
        for kk in old:
            del pos[kk]
        pos.update(new)
        if b_i is not None and bank:
            tot[b_i] = (bank["tas"], bank["tls"])
            sv[b_i] = (bank["asv"], bank["lsv"])
        for j in range(nb):
            sa = sum(v[0] for kk, v in pos.items() if kk[1] == j)
            sl = sum(v[1] for kk, v in pos.items() if kk[1] == j)
            if tot[j][0] < sa or tot[j][1] < sl:
                return {"key": "total-below-positions", "what": f"bank {j} totals {tot[j]} < sum of positions ({sa},{sl})"}
            if tot[j][0] - sa != ex[j][0] or tot[j][1] - sl != ex[j][1]:
                return {"key": "excess-not-dust", "what": f"bank {j}: excess of totals over positions is not initial excess + abandoned dust"}
    return None
