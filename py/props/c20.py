"""C20 — integration exchange-rate math never overstates value and fails closed."""
ID = "C20"
MANIFEST = {
    "text": ("Kernel-checked theorems over a model of type-crate/src/types/price.rs, the Kamino/Solend/Drift mock state math and the "
             "integration arms of the oracle adapter, for ALL supply states, amounts, prices and decimals (no size bound): both "
             "deposit/withdraw round trips per venue never gain, Drift decrement >= increment and withdraw(increment(a)) <= a, "
             "adjusted price = floor(price*ratio) <= price*ratio and monotone in both, every conversion either returns the exact "
             "floor/trunc result or an error (closed-form fail-closed characterisations; the unchecked `/`, `+`, `-` on the price "
             "path are proved unreachable for the venue field widths), staleness predicates. The end-to-end claim 'adjusted price "
             "<= price * exact venue rate' is REFUTED for the Kamino/Solend pipeline (scale_supplies floors the collateral supply) "
             "with a kernel-checked witness, and replaced by a proved relative bound 10^dec/(C*2^48-10^dec). Tied to the real "
             "functions and to the real OraclePriceFeedAdapter::try_from_bank_with_max_age on synthesised accounts by differential "
             "execution with boundary-directed generators."),
    "design_ref": "DESIGN.md §7 C20",
    "technique": "Coq proof over Z (floor/trunc division lemmas) + model/implementation correspondence (extracted model vs real functions and the real oracle adapter)",
}
THEOREMS = [
    "C20_roundtrip_scaled", "C20_roundtrip_kamino", "C20_roundtrip_solend", "C20_roundtrip_solend_rate",
    "C20_conversion_never_overstates",
    "C20_drift_decrement_ge_increment", "C20_drift_withdraw_of_increment_le", "C20_drift_conversions_exact",
    "C20_adjust_exact_floor", "C20_adjust_le_price_times_ratio", "C20_adjust_monotone",
    "C20_ratio_le_exact", "C20_drift_adjust_le_and_monotone",
    "C20_fail_closed_adjust", "C20_fail_closed_conversions", "C20_fail_closed_drift",
    "C20_venue_supply_math_never_aborts_or_wraps",
    "C20_stale", "C20_stale_venue_rejected_by_price_adapter",
    "C20_pipeline_ratio_division_never_wraps", "C20_pipeline_le_scaled_rate", "C20_pipeline_overstatement_bound",
    "C20_pipeline_le_exact_rate_when_scaling_exact", "C20_pipeline_le_exact_rate_refuted",
    "C20_drift_pipeline_le_exact_rate", "C20_confidence_scaled_with_price",
]
RULE = ("one case line per op of the xrate suite: price.rs functions (adjust_* on sorted raw/ratio sequences for monotonicity, "
        "from_scaled conversions, ratios, scale_supplies, convert_decimals), Kamino/Solend reserves (total supply, scaled supplies, "
        "both conversions, both round trips, staleness, Solend CollateralExchangeRate), Drift spot markets (increment, decrement, "
        "withdraw amount, compositions, adjust_*, staleness, precision, deposit-limit scaling) and the six integration arms of the real "
        "oracle adapter on synthesised Pyth/Switchboard + venue accounts. Supplies near zero / typical / near u64,u128 maximum, "
        "decimals 0..=19, 23 and invalid (24, 255, 256+k), amounts and prices directed at the u64/i64/i128/80-bit overflow "
        "boundaries, slots/timestamps at last-1/last/last+1; plus a malformed stream (arbitrary bit patterns, negative and zero "
        "supplies). Non-trivial = at least one segment of the implementation output is a number (a conversion actually produced a "
        "value); distinct = different case line")
ASSUMPTIONS = [
    "venue account fields have their declared machine widths (u64/u128/u32/u8) — premises kr_ok/sr_ok/dm_ok of the theorems that need them",
    "oracle prices are non-negative for the 'never exceeds price x rate' statements (a negative price is rejected elsewhere; for negative raw values floor still gives adjusted <= raw*ratio)",
    "Pyth/Switchboard account loading, age and confidence checks are outside C20 (C09); the harness feeds fresh, fully verified oracle accounts with exponent 0",
    "the unix timestamp passed to the Drift staleness predicate is non-negative",
    "the end-to-end Kamino/Solend price statements assume a non-negative venue total liquidity (available + borrowed >= accumulated fees); with negative liquidity the exchange rate itself is negative",
]
OBSERVATIONS = [
    "KNOWN FINDING (reported, not hidden): Kamino*/Solend* oracle setups compute the exchange rate as (L/10^d)/(C/10^d) with BOTH scaled values floored, so the ratio — and the adjusted price — can exceed price*L/C; relative excess <= 10^d/(C*2^48-10^d): below 2^-48 once the collateral supply is >= 1 whole token, but 6e-7 at 3 base units/9 decimals (bound 1.2e-6) and 40% at 1 base unit/14 decimals",
    "the `/` operator (wrapping) in programs/marginfi/src/state/price.rs `total_liq / total_col` and the `+`/`-` operators in calculate_total_supply_i80f48 / calculate_total_liquidity cannot overflow for any u64/u128 field values (proved), so they are not a fail-open path",
    "Kamino `self.mint_decimals as u8` truncates the u64 field (decimals 262 is read as 6); when floor(C*2^48/10^d) = 0 (d >= 15 and tiny supply) the price is left UNadjusted (rate 1 assumed)",
    "adjust_i128 returns None for |raw| >= 2^79 even when raw*ratio would fit i128 (conservative, fail-closed)",
    "Drift is_stale casts last_interest_ts u64 -> i64 (wraps); a wrapped negative value is stale for every non-negative time, i.e. fails closed",
]

ONE = 1 << 48
U64_MAX = (1 << 64) - 1
U128_MAX = (1 << 128) - 1
I64_MIN, I64_MAX = -(1 << 63), (1 << 63) - 1
I128_MIN, I128_MAX = -(1 << 127), (1 << 127) - 1
WAD = 10 ** 18
SPOT_PREC = 10 ** 10
E_RESERVE_STALE, E_SOLEND_STALE, E_DRIFT_STALE = "E6206", "E6411", "E6322"


# ------------------------------------------------------------------------------------------------
# generators

def g_u64(rng):
    m = rng.random()
    if m < 0.15:
        return rng.choice([0, 1, 2, 3, 5, 7, 10])
    if m < 0.3:
        return 10 ** rng.randrange(0, 20) + rng.choice([-1, 0, 0, 1]) if rng.random() < 0.9 else U64_MAX
    if m < 0.45:
        return min(U64_MAX, max(0, (1 << rng.randrange(1, 65)) + rng.choice([-2, -1, 0, 1])))
    if m < 0.55:
        return U64_MAX - rng.randrange(0, 4)
    return rng.randrange(0, 1 << rng.randrange(1, 65))


def g_u128(rng):
    m = rng.random()
    if m < 0.15:
        return rng.choice([0, 1, 2, 4095, 4096, 4097])
    if m < 0.3:
        return min(U128_MAX, max(0, (1 << rng.randrange(1, 129)) + rng.choice([-2, -1, 0, 1])))
    if m < 0.4:
        return U128_MAX - rng.randrange(0, 4)
    return rng.randrange(0, 1 << rng.randrange(1, 129))


def g_i64(rng):
    m = rng.random()
    if m < 0.1:
        return rng.choice([I64_MAX, I64_MIN, I64_MAX - 1, I64_MIN + 1, -1, 0, 1])
    v = g_u64(rng) >> 1
    return -v if rng.random() < 0.15 else v


def g_i128(rng):
    m = rng.random()
    if m < 0.1:
        return rng.choice([I128_MAX, I128_MIN, -1, 0, 1, (1 << 79) - 1, 1 << 79, -(1 << 79), -(1 << 79) - 1])
    v = g_u128(rng) >> 1
    return -v if rng.random() < 0.15 else v


def g_price_i64(rng):
    m = rng.random()
    if m < 0.7:
        return rng.randrange(1, 10 ** rng.randrange(1, 15))
    if m < 0.8:
        return rng.choice([0, 1, I64_MAX, I64_MAX // 2])
    if m < 0.9:
        return -rng.randrange(1, 10 ** 9)
    return g_i64(rng)


def g_ratio(rng):
    """an I80F48 exchange ratio (raw bits)"""
    m = rng.random()
    if m < 0.2:
        return rng.choice([ONE, ONE + 1, ONE - 1, 2 * ONE, ONE // 2, 0, 1, 2])
    if m < 0.55:
        return ONE + rng.randrange(0, ONE // 4)                     # 1.0 .. 1.25 (typical c-token rate)
    if m < 0.7:
        return rng.randrange(0, 1 << rng.randrange(1, 60))
    if m < 0.8:
        return rng.randrange(0, 1 << rng.randrange(60, 127))
    if m < 0.9:
        return -rng.randrange(1, 1 << rng.randrange(1, 127))
    return rng.choice([I128_MAX, I128_MIN, I128_MAX - 1, -1, -ONE])


def near(rng, x, lo, hi):
    return min(hi, max(lo, x + rng.choice([-2, -1, 0, 0, 1, 2])))


def g_decimals(rng, malformed=False):
    if malformed:
        return rng.choice([24, 25, 100, 255])
    m = rng.random()
    if m < 0.75:
        return rng.randrange(0, 20)
    if m < 0.9:
        return 23
    return rng.choice([20, 21, 22, 6, 9])


def adj_case(rng, kind=None):
    kind = kind or rng.choice(["i64", "u64", "i128"])
    lo, hi = {"i64": (I64_MIN, I64_MAX), "u64": (0, U64_MAX), "i128": (I128_MIN, I128_MAX)}[kind]
    tlo, thi = lo, hi
    n = 6
    mode = rng.random()
    if mode < 0.35:      # fixed ratio, ascending raws
        r = g_ratio(rng)
        if rng.random() < 0.5 and r > 0:
            # raws straddling the target-type overflow boundary: raw*r/ONE ~ thi
            c = thi * ONE // r
            raws = sorted(set(min(hi, max(lo, c + d)) for d in (-2, -1, 0, 1, 2, 3)))
        else:
            raws = sorted((g_price_i64(rng) if kind != "i128" else g_i128(rng)) for _ in range(n))
            raws = [min(hi, max(lo, x)) for x in raws]
        pairs = [(x, r) for x in raws]
    elif mode < 0.7:     # fixed raw, ascending ratios
        raw = min(hi, max(lo, g_price_i64(rng) if kind != "i128" else g_i128(rng)))
        if rng.random() < 0.5 and raw > 0:
            c = min(I128_MAX, thi * ONE // raw)
            rs = sorted(set(min(I128_MAX, max(I128_MIN, c + d)) for d in (-2, -1, 0, 1, 2, ONE)))
        else:
            rs = sorted(g_ratio(rng) for _ in range(n))
        pairs = [(raw, r) for r in rs]
    elif mode < 0.85:    # the cmul (i128 bits) overflow boundary: raw * r ~ 2^127
        r = rng.randrange(1, 1 << rng.randrange(2, 127))
        c = I128_MAX // r
        raws = sorted(set(min(hi, max(lo, c + d)) for d in (-1, 0, 1, 2)))
        pairs = [(x, r) for x in raws]
    else:                # arbitrary
        pairs = [(min(hi, max(lo, g_i128(rng))), g_ratio(rng)) for _ in range(n)]
    return f"adj {kind} {len(pairs)} " + " ".join(f"{a} {b}" for a, b in pairs)


def g_supply_fx(rng):
    """a scaled supply (I80F48 bits), mostly positive"""
    m = rng.random()
    if m < 0.1:
        return rng.choice([0, 1, 2, 3])
    if m < 0.75:
        return rng.randrange(1, 1 << rng.randrange(2, 112))
    if m < 0.85:
        return rng.randrange(1 << 100, 1 << 127)
    if m < 0.95:
        return -rng.randrange(1, 1 << rng.randrange(1, 120))
    return rng.choice([I128_MAX, I128_MIN])


def conv_case(rng):
    op = rng.choice(["c2l", "l2c"])
    tl, tc = g_supply_fx(rng), g_supply_fx(rng)
    if rng.random() < 0.4 and tl > 0:
        tc = min(I128_MAX, max(1, tl + rng.randrange(-tl // 4 - 1, tl // 4 + 1)))    # rate near 1
    amts = [g_u64(rng) for _ in range(3)]
    num, den = (tl, tc) if op == "c2l" else (tc, tl)
    if num > 0 and den > 0:
        amts.append(min(U64_MAX, U64_MAX * den // num))                  # result ~ u64::MAX
        amts.append(min(U64_MAX, U64_MAX * den // num + 1))
        amts.append(min(U64_MAX, I128_MAX // num))                       # product ~ i128::MAX
    return f"{op} {len(amts)} " + " ".join(f"{a} {tl} {tc}" for a in amts)


def g_sf(rng, tokens_hint):
    """a Kamino U68F60 value"""
    m = rng.random()
    if m < 0.3:
        return 0
    if m < 0.4:
        return rng.randrange(0, 1 << 13)
    if m < 0.85:
        return min(U128_MAX, rng.randrange(0, tokens_hint + 1) * (1 << 60) + rng.randrange(0, 1 << 60))
    return g_u128(rng)


def g_kreserve(rng, malformed=False):
    dec = g_decimals(rng, malformed and rng.random() < 0.5)
    if rng.random() < 0.06:
        dec = dec + 256 * rng.randrange(1, 1 << 20)      # `as u8` truncation
    regime = rng.random()
    if regime < 0.25:
        col = rng.randrange(0, 12)
    elif regime < 0.8:
        col = min(U64_MAX, rng.randrange(1, 10 ** 9) * 10 ** min(dec % 256, 12) + rng.randrange(0, 1000))
    else:
        col = U64_MAX - rng.randrange(0, 1000)
    rate = rng.choice([1, 1, 2, 3, rng.random() * 2, 1 + rng.random() / 10, 1 + rng.random() / 1000, 1000, 10 ** -3])
    liq = int(col * rate)
    split = rng.random()
    avail = min(U64_MAX, int(liq * split) + rng.choice([0, 0, 1, 2]))
    borrowed = g_sf(rng, max(0, liq - avail))
    fees = [g_sf(rng, liq // 100) if rng.random() < 0.5 else 0 for _ in range(3)]
    if rng.random() < 0.1:
        avail = g_u64(rng)
    slot = rng.choice([0, 1, 1000, U64_MAX, g_u64(rng)])
    return [slot, avail, borrowed, fees[0], fees[1], fees[2], dec, col]


def slot_near(rng, slot):
    return min(U64_MAX, max(0, slot + rng.choice([-1, 0, 0, 0, 1, 5])))


def k_exact_total(r):
    return r[1] * ONE + (r[2] >> 12) - (r[3] >> 12) - (r[4] >> 12) - (r[5] >> 12)


def amounts_for(rng, col, liq):
    a = [g_u64(rng), near(rng, col, 0, U64_MAX), near(rng, liq, 0, U64_MAX), rng.randrange(0, max(1, col) + 1)]
    return rng.choice(a)


def k_case(rng, malformed=False):
    r = g_kreserve(rng, malformed)
    liq = max(0, k_exact_total(r) // ONE)
    return "k " + " ".join(map(str, r)) + f" {slot_near(rng, r[0])} {amounts_for(rng, r[7], min(liq, U64_MAX))} {amounts_for(rng, min(liq, U64_MAX), r[7])}"


def g_wads(rng, tokens_hint):
    m = rng.random()
    if m < 0.3:
        return 0
    if m < 0.85:
        return min(U128_MAX, rng.randrange(0, tokens_hint + 1) * WAD + rng.randrange(0, WAD))
    return g_u128(rng)


def g_sreserve(rng, malformed=False):
    dec = g_decimals(rng, malformed and rng.random() < 0.5)
    regime = rng.random()
    if regime < 0.25:
        col = rng.randrange(0, 12)
    elif regime < 0.8:
        col = min(U64_MAX, rng.randrange(1, 10 ** 9) * 10 ** min(dec, 12) + rng.randrange(0, 1000))
    else:
        col = U64_MAX - rng.randrange(0, 1000)
    rate = rng.choice([1, 1, 2, 3, rng.random() * 2, 1 + rng.random() / 10, 1 + rng.random() / 1000, 1000, 10 ** -3])
    liq = int(col * rate)
    avail = min(U64_MAX, int(liq * rng.random()) + rng.choice([0, 0, 1, 2]))
    borrowed = g_wads(rng, max(0, liq - avail))
    fees = g_wads(rng, liq // 100) if rng.random() < 0.5 else 0
    if rng.random() < 0.1:
        avail = g_u64(rng)
    slot = rng.choice([0, 1, 1000, U64_MAX, g_u64(rng)])
    return [slot, dec, avail, borrowed, fees, col]


def wads_fx(raw):
    return ((raw // WAD) << 48) | ((raw % WAD) * ONE // WAD)


def s_exact_total(r):
    return r[2] * ONE + wads_fx(r[3]) - wads_fx(r[4])


def s_case(rng, malformed=False):
    r = g_sreserve(rng, malformed)
    liq = min(U64_MAX, max(0, s_exact_total(r) // ONE))
    return "s " + " ".join(map(str, r)) + f" {slot_near(rng, r[0])} {amounts_for(rng, r[5], liq)} {amounts_for(rng, liq, r[5])}"


def g_dmarket(rng, malformed=False):
    m = rng.random()
    if m < 0.6:
        ci = SPOT_PREC + rng.randrange(0, SPOT_PREC // 2)          # 1.0 .. 1.5
    elif m < 0.7:
        ci = rng.choice([SPOT_PREC, SPOT_PREC + 1, SPOT_PREC - 1, 1, 2])
    elif m < 0.8:
        ci = 0 if malformed else rng.randrange(1, 100)
    elif m < 0.9:
        ci = rng.randrange(1, 1 << rng.randrange(1, 128))
    else:
        ci = U128_MAX - rng.randrange(0, 3)
    ts = rng.choice([1_700_000_000, 1_700_000_000 + rng.randrange(-5, 5), 0, 1, (1 << 63) - 1, 1 << 63, U64_MAX, g_u64(rng)])
    dec = rng.randrange(0, 20) if not (malformed and rng.random() < 0.5) else rng.choice([20, 23, 24, 255, (1 << 32) - 1])
    return [ci, ts, dec]


def d_case(rng, malformed=False):
    m = g_dmarket(rng, malformed)
    ci, ts, dec = m
    now = rng.choice([min(I64_MAX, ts), min(I64_MAX, ts + 1), max(0, min(I64_MAX, ts) - 1), 0, 1_700_000_000, I64_MAX])
    if malformed and rng.random() < 0.3:
        now = rng.choice([-1, I64_MIN, -1_700_000_000])
    p = 10 ** max(0, 19 - dec) if dec <= 19 else 1
    amount = g_u64(rng)
    if rng.random() < 0.3 and ci > 0:
        amount = min(U64_MAX, near(rng, U64_MAX * ci // p, 0, U64_MAX))      # increment ~ u64::MAX
    sb = g_u64(rng)
    if rng.random() < 0.3 and ci > 0:
        sb = min(U64_MAX, near(rng, rng.choice([U64_MAX * p // ci, U128_MAX // ci]), 0, U64_MAX))
    return "d " + " ".join(map(str, m)) + f" {now} {amount} {sb}"


def dadj_case(rng):
    kind = rng.choice(["i64", "u64", "i128"])
    hi = {"i64": I64_MAX, "u64": U64_MAX, "i128": I128_MAX}[kind]
    lo = 0 if kind == "u64" else -hi - 1
    mode = rng.random()
    if mode < 0.4:
        ci = g_dmarket(rng)[0]
        if ci > 0 and rng.random() < 0.5:
            c = rng.choice([hi * SPOT_PREC // ci, U128_MAX // ci])
            raws = sorted(set(min(hi, max(lo, c + d)) for d in (-2, -1, 0, 1, 2)))
        else:
            raws = sorted(min(hi, max(lo, g_price_i64(rng) if kind != "i128" else g_i128(rng))) for _ in range(5))
        pairs = [(ci, x) for x in raws]
    elif mode < 0.8:
        raw = min(hi, max(lo, g_price_i64(rng) if kind != "i128" else g_i128(rng)))
        cis = sorted(g_dmarket(rng)[0] for _ in range(5))
        pairs = [(c, raw) for c in cis]
    else:
        pairs = [(g_u128(rng), min(hi, max(lo, g_i128(rng)))) for _ in range(5)]
    return f"dadj {kind} {len(pairs)} " + " ".join(f"{a} {b}" for a, b in pairs)


def misc_case(rng):
    m = rng.random()
    if m < 0.15:
        return f"i80 {g_i128(rng)}"
    if m < 0.3:
        return f"ratio {g_supply_fx(rng)} {g_supply_fx(rng)}"
    if m < 0.5:
        return f"scale {g_supply_fx(rng)} {g_u64(rng)} {g_decimals(rng, rng.random() < 0.2)}"
    if m < 0.65:
        return f"convdec {g_supply_fx(rng)} {rng.choice([0, 6, 9, 23, 24, 255, rng.randrange(0, 30)])} {rng.choice([0, 6, 9, 23, 24, 255, rng.randrange(0, 30)])}"
    if m < 0.75:
        return f"u68 {g_u128(rng)}"
    if m < 0.85:
        return f"dec2fx {g_wads(rng, 10 ** 12) if rng.random() < 0.5 else g_u128(rng)}"
    if m < 0.92:
        return f"dprec {rng.choice([rng.randrange(0, 25), (1 << 32) - 1, 19, 20])}"
    return f"dlimit {g_u64(rng)} {rng.choice([rng.randrange(0, 34), 9, 255, 32, 33])}"


def pyth_args(rng):
    p = g_price_i64(rng)
    e = p if rng.random() < 0.5 else g_price_i64(rng)
    c = rng.choice([0, 0, rng.randrange(0, max(1, abs(p) // 50 + 1)), g_u64(rng)])
    ec = rng.choice([0, c, g_u64(rng), rng.randrange(0, max(1, abs(e) // 50 + 1))])
    return f"{p} {e} {c} {ec}"


def swb_args(rng):
    m = rng.random()
    v = rng.randrange(0, 10 ** rng.randrange(1, 25)) if m < 0.8 else g_i128(rng)
    s = rng.randrange(0, max(1, abs(v) // 20 + 1)) if rng.random() < 0.8 else g_i128(rng)
    return f"{v} {s}"


def pipe_case(rng, malformed=False):
    venue = rng.choice("ksd")
    feed = rng.choice(["pyth", "swb"])
    args = pyth_args(rng) if feed == "pyth" else swb_args(rng)
    if venue == "k":
        r = g_kreserve(rng, malformed)
        return f"k{feed} " + " ".join(map(str, r)) + f" {slot_near(rng, r[0])} {args}"
    if venue == "s":
        r = g_sreserve(rng, malformed)
        return f"s{feed} " + " ".join(map(str, r)) + f" {slot_near(rng, r[0])} {args}"
    m = g_dmarket(rng, malformed)
    ts = m[1]
    now = rng.choice([min(1 << 62, ts), min(1 << 62, ts + 1), max(1, min(1 << 62, ts) - 1), 1_700_000_000])
    now = max(1, now)
    # the oracle update may be older than the venue refresh (age within the 60 s default max age of Pyth feeds)
    age = rng.choice([0, 0, 1, 5, 30])
    return f"d{feed} " + " ".join(map(str, m)) + f" {now} {args}" + (f" {age}" if age and now > age and feed == "pyth" else "")


KNOWN_WITNESS = "kpyth 10 6 0 0 0 0 9 3 10 1000000000000 1000000000000 5 5"


def suites(rng, tier):
    scale = {"quick": 1, "thorough": 30, "search": 8}[tier]
    plan = [("adj", 700, adj_case), ("conv", 350, conv_case), ("misc", 350, misc_case),
            ("kamino", 450, k_case), ("solend", 450, s_case), ("drift", 450, d_case),
            ("drift_adjust", 250, dadj_case), ("pipeline", 900, pipe_case)]
    lines = ["consts", KNOWN_WITNESS]
    dist = {"consts": 1, "known_witness": 1}
    for name, n, gen in plan:
        for _ in range(n * scale):
            malformed = rng.random() < 0.15
            if gen in (k_case, s_case, d_case, pipe_case):
                lines.append(gen(rng, malformed))
                dist[name + (".malformed" if malformed else "")] = dist.get(name + (".malformed" if malformed else ""), 0) + 1
            else:
                lines.append(gen(rng))
                dist[name] = dist.get(name, 0) + 1
    return [{"suite": "xrate", "name": "xrate", "lines": lines, "distribution": dist}]


# ------------------------------------------------------------------------------------------------
# oracles: the property evaluated DIRECTLY on the implementation output, exact integer arithmetic

def is_num(s):
    s = s.strip()
    return bool(s) and (s.lstrip("-").isdigit())


def nontrivial(suite, case, impl):
    if case.startswith("consts"):
        return False
    return any(all(is_num(x) for x in seg.split()) and seg.strip() for seg in impl.split(" | "))


def trunc_div(a, b):
    q = abs(a) // abs(b)
    return q if (a >= 0) == (b > 0) else -q


def V(key, what):
    return {"key": key, "what": what}


def check_adjust(kind, pairs, outs):
    lo, hi = {"i64": (I64_MIN, I64_MAX), "u64": (0, U64_MAX), "i128": (I128_MIN, I128_MAX)}[kind]
    vals = []
    for (raw, r), o in zip(pairs, outs):
        if o == "PANIC":
            vals.append(None)
            continue
        if o == "NONE":
            vals.append(None)
            continue
        v = int(o)
        exact = (raw * r) // ONE          # floor(raw * ratio), ratio = r / 2^48
        if v * ONE > raw * r:
            return V("adjust-exceeds-price-times-ratio", f"adjust_{kind}({raw},{r}) = {v} > raw*ratio = {raw*r}/2^48")
        if v != exact or not (lo <= v <= hi):
            return V("adjust-wrapped-or-inexact", f"adjust_{kind}({raw},{r}) = {v}, exact floor is {exact}")
        vals.append(v)
    # monotone in raw (ratio >= 0 fixed) and in ratio (raw >= 0 fixed)
    for i in range(len(pairs)):
        for j in range(len(pairs)):
            if vals[i] is None or vals[j] is None:
                continue
            (a1, r1), (a2, r2) = pairs[i], pairs[j]
            if r1 == r2 and r1 >= 0 and a1 <= a2 and vals[i] > vals[j]:
                return V("adjust-not-monotone-in-price", f"adjust_{kind}: raw {a1}<={a2} at ratio {r1} but {vals[i]} > {vals[j]}")
            if a1 == a2 and a1 >= 0 and r1 <= r2 and vals[i] > vals[j]:
                return V("adjust-not-monotone-in-ratio", f"adjust_{kind}: ratio {r1}<={r2} at raw {a1} but {vals[i]} > {vals[j]}")
    return None


def exact_from_scaled(a, num, den):
    """to_u64(checked_div(checked_mul(a, num), den)) in exact arithmetic; None if any step leaves its type"""
    if den == 0:
        return None
    m = a * num
    if not (I128_MIN <= m <= I128_MAX):
        return None
    d = trunc_div(m * ONE, den)
    if not (I128_MIN <= d <= I128_MAX):
        return None
    v = d // ONE
    return v if 0 <= v <= U64_MAX else None


def check_conv_value(name, a, num, den, o):
    """o = output of a conversion a*num/den (num, den I80F48 bits)"""
    if not is_num(o):
        return None
    v = int(o)
    if not (0 <= v <= U64_MAX):
        return V("conversion-out-of-range", f"{name}({a}) = {v}")
    if num >= 0 and den > 0 and v * den > a * num:
        return V("conversion-overstates", f"{name}({a}) = {v} > {a}*{num}/{den}")
    e = exact_from_scaled(a, num, den)
    if e is None or v != e:
        return V("conversion-wrapped-or-inexact", f"{name}({a}) = {v}, exact result is {e}")
    return None


def roundtrip(name, start, o):
    if is_num(o) and int(o) > start:
        return V("roundtrip-gains", f"{name}: started with {start}, got back {int(o)}")
    return None


def pyth_vals(o):
    """'pbits ebits' -> (p, e) integers or None"""
    t = o.split()[:2]
    if len(t) != 2 or not all(is_num(x) for x in t):
        return None
    pb, eb = int(t[0]), int(t[1])
    if pb % ONE or eb % ONE:
        return "frac"
    return pb // ONE, eb // ONE


def _gen_const(name, default):
    """constants regenerated from /repo's source on every run (coq/gen/Constants.v)"""
    import os, re
    try:
        txt = open(os.path.join(os.path.dirname(__file__), "..", "..", "coq", "gen", "Constants.v")).read()
        m = re.search(r"Definition %s : Z := \((-?\d+)\)%%Z" % name, txt)
        return int(m.group(1)) if m else default
    except OSError:
        return default


CIM_BITS = _gen_const("CONF_INTERVAL_MULTIPLE", 596726950626591)      # 2.12
MAXCI_BITS = _gen_const("MAX_CONF_INTERVAL", 14073748835533)          # 0.05


def check_conf_scaled(what, o, args, pv):
    """The adjusted feed's confidence is private; the low-biased prices (tokens 3 and 4) reveal it whenever the
       95% interval is below the 5% cap: low = price - 2.12 * conf.  Price and confidence are floored products with
       the SAME rate r, so  conf_out * price_in - conf_in * price_out > -price_in  exactly (no tolerance needed).
       An adjusted confidence below that understates the interval and so overstates the low-biased price that
       values the collateral (price x exact rate is exceeded)."""
    t = o.split()
    if len(t) != 4:
        return None
    for k, name in ((0, "spot"), (1, "ema")):
        p_in, c_in, p_out, low = args[k], args[2 + k], pv[k], t[2 + k]
        if p_in <= 0 or p_out <= 0 or not is_num(low):
            continue
        ci = p_out * ONE - int(low)
        cap = (p_out * ONE * MAXCI_BITS) >> 48
        if ci < 0:
            return V("low-biased-price-above-price", f"{what} {name}: low-biased {low} above the price {p_out * ONE}")
        if ci >= cap or ci % CIM_BITS:
            continue                      # capped at 5% of the price: the confidence is not recoverable
        c_out = ci // CIM_BITS
        if c_out * p_in - c_in * p_out <= -p_in:
            return V("adjusted-confidence-understated",
                     f"{what} {name}: price {p_in} -> {p_out} but confidence {c_in} -> {c_out}: the interval shrank "
                     f"more than the price, the low-biased price {low} exceeds (price - 2.12 conf) x rate")
    return None


def check_ratio_pipeline(what, in_vals, out_vals, L, Lq, qshift, C, dec_eff, tl, tc):
    """Kamino/Solend: out <= in * L / C.
       L  = I80F48 total-supply bits as the program computes them (floors of the venue fractions)
       Lq / 2^qshift = the exact rational liquidity from the raw venue fields (>= (L-3)/2^48)"""
    if tc <= 0:
        for a, b in zip(in_vals, out_vals):
            if a != b:
                return V("price-changed-without-ratio", f"{what}: total_col <= 0 but {a} -> {b}")
        return None
    ten = 10 ** dec_eff
    if L < 0:
        return None        # negative venue liquidity (fees > liquidity): no meaningful exchange rate, see ASSUMPTIONS
    for a, b in zip(in_vals, out_vals):
        if a < 0:
            continue
        # proved bound (C20_pipeline_overstatement_bound): b*(C*2^48 - 10^d) <= a*L
        if b * (C * ONE - ten) > a * L:
            return V("adjusted-price-exceeds-proved-bound", f"{what}: {a} -> {b} exceeds a*L/(C*2^48-10^d), L={L} C={C} d={dec_eff}")
        if b * tc > a * tl:
            return V("adjusted-price-exceeds-scaled-rate", f"{what}: {a} -> {b} > a*tl/tc, tl={tl} tc={tc}")
        # the property as stated: adjusted <= price * exact venue rate (liquidity per collateral unit)
        if b * C * (1 << qshift) > a * Lq:
            return V("adjusted-price-exceeds-exact-rate:scaled-supply-rounding",
                     f"{what}: price {a} adjusted to {b} > price * liquidity/collateral = {a}*{Lq}/2^{qshift}/{C}")
    return None


def oracle(suite, case, impl):
    t = case.split()
    op = t[0]
    segs = [s.strip() for s in impl.split(" | ")]
    if "WRONG-ADAPTER" in impl or "MISMATCH" in impl:
        return V("harness-inconsistency", impl[:200])
    if op == "consts":
        return None
    if op == "adj":
        kind, n = t[1], int(t[2])
        pairs = [(int(t[3 + 2 * i]), int(t[4 + 2 * i])) for i in range(n)]
        return check_adjust(kind, pairs, segs)
    if op in ("c2l", "l2c"):
        n = int(t[1])
        for i in range(n):
            a, tl, tc = int(t[2 + 3 * i]), int(t[3 + 3 * i]), int(t[4 + 3 * i])
            num, den = (tl, tc) if op == "c2l" else (tc, tl)
            v = check_conv_value(op, a, num, den, segs[i])
            if v:
                return v
        return None
    if op == "ratio":
        tl, tc = int(t[1]), int(t[2])
        for name, num, den, o in (("liq_to_col_ratio", tl, tc, segs[0]), ("col_to_liq_ratio", tc, tl, segs[1])):
            if is_num(o):
                v = int(o)
                if den == 0:
                    return V("ratio-div-by-zero-value", f"{name}({tl},{tc}) = {v}")
                if num >= 0 and den > 0 and v * den > num * ONE:
                    return V("ratio-exceeds-exact", f"{name}({tl},{tc}) = {v} > {num}/{den}")
                if v != trunc_div(num * ONE, den):
                    return V("ratio-wrapped-or-inexact", f"{name}({tl},{tc}) = {v}")
        return None
    if op == "scale":
        tl, tc, d = int(t[1]), int(t[2]), int(t[3])
        if segs[0] not in ("NONE", "PANIC"):
            a, b = map(int, segs[0].split())
            if d > 23:
                return V("scale-bad-decimals-accepted", f"scale_supplies decimals={d} returned a value")
            if a != trunc_div(tl, 10 ** d) or b != tc * ONE // 10 ** d:
                return V("scale-wrapped-or-inexact", f"scale_supplies({tl},{tc},{d}) = {a} {b}")
        return None
    if op == "convdec":
        n, f, to = int(t[1]), int(t[2]), int(t[3])
        if is_num(segs[0]):
            v = int(segs[0])
            e = n if f == to else (n * 10 ** (to - f) if to > f else trunc_div(n, 10 ** (f - to)))
            if abs(to - f) > 23 or v != e or not (I128_MIN <= v <= I128_MAX):
                return V("convert-decimals-wrapped-or-inexact", f"convert_decimals({n},{f},{to}) = {v}, exact {e}")
        return None
    if op == "i80":
        x = int(t[1])
        if is_num(segs[0]) and int(segs[0]) != x * ONE:
            return V("i80-wrapped", f"i80_from_i128_checked({x}) = {segs[0]}")
        return None
    if op == "u68":
        if is_num(segs[0]) and int(segs[0]) != int(t[1]) >> 12:
            return V("u68f60-inexact", f"u68f60_to_i80f48({t[1]}) = {segs[0]}")
        return None
    if op == "dec2fx":
        if is_num(segs[0]):
            raw, v = int(t[1]), int(segs[0])
            if v != wads_fx(raw) or v * WAD > raw * ONE:
                return V("decimal-to-fx-inexact", f"decimal_to_i80f48({raw}) = {v}")
        return None
    if op == "k":
        r = list(map(int, t[1:9]))
        cur, col, liq = int(t[9]), int(t[10]), int(t[11])
        L = k_exact_total(r)
        if is_num(segs[0]) and int(segs[0]) != L:
            return V("total-supply-wrapped", f"Kamino total supply {segs[0]} != exact {L}")
        return check_venue("Kamino", segs, L, r[7], r[6] % 256, r[0], cur, col, liq)
    if op == "s":
        r = list(map(int, t[1:7]))
        cur, col, liq = int(t[7]), int(t[8]), int(t[9])
        L = s_exact_total(r)
        if is_num(segs[0]) and int(segs[0]) != L:
            return V("total-supply-wrapped", f"Solend total liquidity {segs[0]} != exact {L}")
        v = check_venue("Solend", segs, L, r[5], r[1], r[0], cur, col, liq)
        if v:
            return v
        # CollateralExchangeRate
        if is_num(segs[7]):
            rate = int(segs[7])
            if is_num(segs[8]) and (rate == 0 or int(segs[8]) != trunc_div(col * ONE * ONE, rate) // ONE):
                return V("rate-conversion-inexact", f"rate c2l({col}) = {segs[8]} at rate {rate}")
            if is_num(segs[9]) and int(segs[9]) != (liq * rate) // ONE:
                return V("rate-conversion-inexact", f"rate l2c({liq}) = {segs[9]} at rate {rate}")
            return roundtrip("Solend rate l2c->c2l", liq, segs[10]) or roundtrip("Solend rate c2l->l2c", col, segs[11])
        return None
    if op == "d":
        ci, ts, dec = int(t[1]), int(t[2]), int(t[3])
        now, amount, sb = int(t[4]), int(t[5]), int(t[6])
        inc, decr, wd, wd_inc, dec_wd, stale = segs
        if dec <= 19 and ci > 0:
            p = 10 ** (19 - dec)
            if is_num(inc) and (int(inc) != amount * p // ci or int(inc) > U64_MAX):
                return V("drift-increment-wrapped-or-inexact", f"increment({amount}) = {inc}, exact {amount*p//ci}")
            if is_num(decr):
                e = amount * p // ci
                e = e + 1 if e != 0 else 0
                if int(decr) != e or int(decr) > U64_MAX:
                    return V("drift-decrement-wrapped-or-inexact", f"decrement({amount}) = {decr}, exact {e}")
        else:
            for name, o in (("increment", inc), ("decrement", decr)):
                if is_num(o):
                    return V("drift-bad-market-accepted", f"{name} returned {o} with decimals={dec} cum_interest={ci}")
        if is_num(wd):
            if dec > 19:
                return V("drift-bad-market-accepted", f"withdraw_amount returned {wd} with decimals={dec}")
            p = 10 ** (19 - dec)
            if int(wd) != sb * ci // p or int(wd) > U64_MAX:
                return V("drift-withdraw-wrapped-or-inexact", f"withdraw_amount({sb}) = {wd}, exact {sb*ci//p}")
        if is_num(inc) and is_num(decr) and int(decr) < int(inc):
            return V("drift-decrement-below-increment", f"amount {amount}: decrement {decr} < increment {inc}")
        if is_num(wd_inc) and int(wd_inc) > amount:
            return V("drift-roundtrip-gains", f"deposit {amount} -> scaled {inc} -> withdraw amount {wd_inc}")
        last_i64 = ts - (1 << 64) if ts >= (1 << 63) else ts
        if last_i64 < now and stale != "B1":
            return V("stale-venue-not-flagged", f"Drift last_interest_ts={ts} now={now} is_stale={stale}")
        if now >= 0 and ts < (1 << 63) and ts >= now and stale != "B0":
            return V("fresh-venue-flagged", f"Drift last_interest_ts={ts} now={now} is_stale={stale}")
        return None
    if op == "dadj":
        kind, n = t[1], int(t[2])
        hi = {"i64": I64_MAX, "u64": U64_MAX, "i128": I128_MAX}[kind]
        pairs = [(int(t[3 + 2 * i]), int(t[4 + 2 * i])) for i in range(n)]
        vals = []
        for (ci, raw), o in zip(pairs, segs):
            if not is_num(o):
                vals.append(None)
                continue
            v = int(o)
            if raw < 0:
                return V("drift-negative-price-accepted", f"adjust_{kind}({raw}) = {v}")
            if v * SPOT_PREC > raw * ci:
                return V("drift-adjust-exceeds-exact", f"adjust_{kind}({raw}) at cum_interest {ci} = {v} > raw*ci/1e10")
            if v != raw * ci // SPOT_PREC or v > hi:
                return V("drift-adjust-wrapped-or-inexact", f"adjust_{kind}({raw}) at cum_interest {ci} = {v}")
            vals.append(v)
        for i in range(n):
            for j in range(n):
                if vals[i] is None or vals[j] is None:
                    continue
                if pairs[i][0] <= pairs[j][0] and pairs[i][1] <= pairs[j][1] and vals[i] > vals[j]:
                    return V("drift-adjust-not-monotone", f"adjust_{kind}: {pairs[i]} <= {pairs[j]} but {vals[i]} > {vals[j]}")
        return None
    if op == "dprec":
        d = int(t[1])
        if is_num(segs[0]) and (d > 19 or int(segs[0]) != 10 ** (19 - d)):
            return V("drift-precision-wrong", f"get_precision_increase({d}) = {segs[0]}")
        return None
    if op == "dlimit":
        l, d = int(t[1]), int(t[2])
        if is_num(segs[0]):
            v = int(segs[0])
            e = l * ONE * 10 ** (9 - d) if d <= 9 else (l * ONE) // 10 ** (d - 9)
            if v != e or v > I128_MAX:
                return V("drift-limit-wrapped-or-inexact", f"scale_drift_deposit_limit({l},{d}) = {v}, exact {e}")
        return None
    if op in ("kpyth", "kswb", "spyth", "sswb"):
        if op[0] == "k":
            r = list(map(int, t[1:9]))
            cur = int(t[9])
            args = list(map(int, t[10:]))
            L, C, dec_eff, slot = k_exact_total(r), r[7], r[6] % 256, r[0]
            Lq = r[1] * (1 << 60) + r[2] - r[3] - r[4] - r[5]
            qshift = 60
            stale_tok, venue = E_RESERVE_STALE, "Kamino"
        else:
            r = list(map(int, t[1:7]))
            cur = int(t[7])
            args = list(map(int, t[8:]))
            L, C, dec_eff, slot = s_exact_total(r), r[5], r[1], r[0]
            # exact rational liquidity * WAD * 2^48 would need a common denominator: use WAD
            Lq = r[2] * WAD + r[3] - r[4]
            qshift = None
            stale_tok, venue = E_SOLEND_STALE, "Solend"
        o = segs[0]
        if slot < cur:
            if o != stale_tok:
                return V("stale-venue-accepted", f"{venue} reserve slot {slot} < clock slot {cur} but adapter returned {o}")
            return None
        if op.endswith("pyth"):
            pv = pyth_vals(o)
            if pv is None:
                return None
            if pv == "frac":
                return V("harness-inconsistency", f"non-integer pyth price bits {o}")
            ins, outs = [args[0], args[1]], list(pv)
            v = check_conf_scaled(f"{venue} {op}", o, args, pv)
            if v:
                return v
        else:
            tt = o.split()
            if len(tt) != 2 or not all(is_num(x) for x in tt):
                return None
            ins, outs = [args[0], args[1]], [int(tt[0]), int(tt[1])]
        if dec_eff > 23:
            return V("scale-bad-decimals-accepted", f"{venue} adapter returned a price with decimals {dec_eff}")
        ten = 10 ** dec_eff
        tl, tc = trunc_div(L, ten), C * ONE // ten
        if qshift is None:
            # Solend: compare b*C*WAD <= a*Lq  (Lq = exact liquidity * WAD)
            return check_ratio_pipeline_solend(f"{venue} {op}", ins, outs, L, Lq, C, dec_eff, tl, tc)
        return check_ratio_pipeline(f"{venue} {op}", ins, outs, L, Lq, qshift, C, dec_eff, tl, tc)
    if op in ("dpyth", "dswb"):
        ci, ts, dec = int(t[1]), int(t[2]), int(t[3])
        now = int(t[4])
        args = list(map(int, t[5:]))
        o = segs[0]
        last_i64 = ts - (1 << 64) if ts >= (1 << 63) else ts
        if last_i64 < now:
            if o != E_DRIFT_STALE:
                return V("stale-venue-accepted", f"Drift market last_interest_ts {ts} < now {now} but adapter returned {o}")
            return None
        if op == "dpyth":
            pv = pyth_vals(o)
            if pv is None:
                return None
            if pv == "frac":
                return V("harness-inconsistency", f"non-integer pyth price bits {o}")
            outs = list(pv)
            v = check_conf_scaled(f"Drift {op}", o, args, pv)
            if v:
                return v
        else:
            tt = o.split()
            if len(tt) != 2 or not all(is_num(x) for x in tt):
                return None
            outs = [int(tt[0]), int(tt[1])]
        for a, b in zip(args[:2], outs):
            if a < 0:
                return V("drift-negative-price-accepted", f"Drift adapter adjusted negative value {a} to {b}")
            if b * SPOT_PREC > a * ci:
                return V("adjusted-price-exceeds-exact-rate:drift", f"Drift {op}: {a} -> {b} > a*cum_interest/1e10 (ci={ci})")
            if b != a * ci // SPOT_PREC:
                return V("drift-adjust-wrapped-or-inexact", f"Drift {op}: {a} -> {b}, exact floor {a*ci//SPOT_PREC}")
        return None
    return V("oracle-error", f"unknown op {op}")


def check_ratio_pipeline_solend(what, in_vals, out_vals, L, Lw, C, dec_eff, tl, tc):
    if tc <= 0:
        for a, b in zip(in_vals, out_vals):
            if a != b:
                return V("price-changed-without-ratio", f"{what}: total_col <= 0 but {a} -> {b}")
        return None
    ten = 10 ** dec_eff
    if L < 0:
        return None        # negative venue liquidity (fees > liquidity): no meaningful exchange rate, see ASSUMPTIONS
    for a, b in zip(in_vals, out_vals):
        if a < 0:
            continue
        if b * (C * ONE - ten) > a * L:
            return V("adjusted-price-exceeds-proved-bound", f"{what}: {a} -> {b} exceeds a*L/(C*2^48-10^d), L={L} C={C} d={dec_eff}")
        if b * tc > a * tl:
            return V("adjusted-price-exceeds-scaled-rate", f"{what}: {a} -> {b} > a*tl/tc, tl={tl} tc={tc}")
        if b * C * WAD > a * Lw:
            return V("adjusted-price-exceeds-exact-rate:scaled-supply-rounding",
                     f"{what}: price {a} adjusted to {b} > price * liquidity/collateral = {a}*{Lw}/1e18/{C}")
    return None


def check_venue(venue, segs, L, C, dec_eff, slot, cur, col, liq):
    total, scaled, c2l, l2c, rt_l, rt_c, stale = segs[:7]
    if (slot < cur) != (stale == "B1"):
        return V("stale-predicate-wrong", f"{venue} reserve slot {slot}, clock slot {cur}: is_stale = {stale}")
    if scaled in ("PANIC",) or scaled.startswith("E"):
        for name, o in (("collateral_to_liquidity", c2l), ("liquidity_to_collateral", l2c)):
            if is_num(o):
                return V("conversion-without-supplies", f"{venue} {name} returned {o} although scaled_supplies failed")
        return None
    tl, tc = map(int, scaled.split())
    if dec_eff > 23:
        return V("scale-bad-decimals-accepted", f"{venue} scaled_supplies returned a value with decimals {dec_eff}")
    ten = 10 ** dec_eff
    if tl != trunc_div(L, ten) or tc != C * ONE // ten:
        return V("scale-wrapped-or-inexact", f"{venue} scaled_supplies = {tl} {tc}, exact {trunc_div(L, ten)} {C*ONE//ten}")
    return (check_conv_value(f"{venue} collateral_to_liquidity", col, tl, tc, c2l)
            or check_conv_value(f"{venue} liquidity_to_collateral", liq, tc, tl, l2c)
            or roundtrip(f"{venue} deposit {liq} -> collateral -> liquidity", liq, rt_l)
            or roundtrip(f"{venue} collateral {col} -> liquidity -> collateral", col, rt_c))
