"""C08 — authorization: only the entitled signer can act on an account, bank or group."""
import re
from props import authlib as A
from props import c09 as C9
from props import c10 as C10
from props import txgen as TG
import gen_hops as HG
import hops_oracles as HO

ID = "C08"
MANIFEST = {
    "text": ("The declarative Anchor account constraints of all instructions are regenerated from the source on every "
             "run (gen/coqgen_accounts.py -> coq/gen/AccountsTable.v); kernel-checked theorems 'for every instruction of "
             "class K in the generated table, accepted => ...' (boolean checker over the finite table + soundness lemma "
             "over all worlds / bindings / signer sets) give the signer rule, the admin roles and the account bindings; "
             "the table semantics is tied to the real program by an enumerated matrix instruction x signer identity x "
             "single substitution executed through marginfi::entry and compared with the extracted model."),
    "design_ref": "DESIGN.md §7 C08, §5.1, §4 L5",
    "technique": ("Coq proof over a generated finite table (vm_compute checker + soundness lemma, unbounded worlds) + "
                  "model/implementation correspondence on an enumerated matrix through the real entry point"),
}
THEOREMS = [
    "C08_signer_rule", "C08_signer_rule_weak", "C08_every_instruction_classified", "C08_user_ops", "C08_receivership_only_withdraw_repay",
    "C08_owner_ops", "C08_admin_roles", "C08_clone_emode", "C08_fee_admin", "C08_bankruptcy", "C08_end_liquidation",
    "C08_typed_accounts", "C08_group_binding", "C08_vault_binding", "C08_fee_state_binding", "C08_liquidation_record_binding",
    "C08_foreign_group_rejected",
]
RULE = ("enumerated matrix over the generated accounts table: every instruction x {base transaction; each signer field "
        "signed by each of 12 identities (authority, stranger, the 7 group roles, global fee admin, foreign group admin, "
        "liquidator); signer present but not signing; account frozen / in receivership x signer} x single substitution on "
        "every typed or bound field {counterpart of a foreign group, vault / authority of another bank, byte-identical "
        "clone at another address (wrong PDA), wrong owner program, wrong discriminator, account of another type, wrong "
        "program id, wrong sysvar address, wrong seeds for init PDAs, read-only instead of writable}; plus a randomised "
        "stream of double substitutions. Non-trivial = the real program produced a verdict (accepted, or rejected by "
        "account validation / handler); distinct = different case line")
ASSUMPTIONS = [
    "Anchor's expansion of #[derive(Accounts)] is modelled (AnchorSem.v, from anchor-syn 0.31.1 codegen) and validated natively, not on BPF",
    "PDA derivation is an abstract function `pda`; the theorems hold for every such function (no injectivity needed: they state key = pda(seeds))",
    "constraints outside the vocabulary (7 venue-specific expressions) are uninterpreted (COpaque): the theorems hold for every interpretation",
    "in-body handler guards (bankruptcy / clone_emode / freeze signer checks, validate_bank_state calls) are modelled by hand in Spec.v",
    "signature verification, account ownership rules and transaction atomicity are properties of the Solana runtime (modelled: signers set, owner field, store unchanged on failure)",
    "Kamino / Drift / Solend instructions need venue CPIs: only their account-validation verdict is compared (mode val); their positive cells are not executed",
]
OBSERVATIONS = [
    "lending_account_deposit / repay leave `signer_token_account` unchecked (AccountInfo): the token program enforces ownership at transfer time",
    "marginfi_account_set_freeze checks group.admin twice (constraint and handler)",
    "lending_pool_clone_bank always panics on mainnet builds; lending_pool_add_bank_permissionless needs a real stake pool: both are compared on account validation only",
    "start_liquidation is permissionless by design (eligibility is a health check, C10); end_liquidation is bound to the receiver recorded by start",
]

IDS = ["u", "s", "adm", "emo", "cur", "lim", "emi", "met", "rsk", "fadm", "admB", "liq"]
HAS_TOKENS = {"u", "s", "adm", "rsk", "liq", "v", "v2", "emi", "fadm"}

FOREIGN = {"gA": "gB", "bk1": "bkB1", "bk2": "bkB2", "bk3": "bkB1", "bkE": "bkB1", "bkT": "bkB1", "bkSt": "bkB1",
           "bkK0": "bkB1", "bkK": "bkB1", "bkD0": "bkB1", "bkD": "bkB1", "bkDh": "bkB1", "bkS0": "bkB1", "bkS": "bkB1",
           "accA": "accB", "accL": "accB", "accU": "accB", "accBad": "accB", "accE": "accBE", "accT": "accB",
           "ssA": "ssB", "bk1.meta": "bkB1.meta", "accU.rec": "accA.rec", "accA.rec": "accU.rec"}
OTHERBANK = {"bk1": "bk3", "bk2": "bk1", "bk3": "bk1", "bkE": "bk1", "bkT": "bk1", "bkSt": "bk1",
             "bkK0": "bk1", "bkK": "bk1", "bkD0": "bk1", "bkD": "bk1", "bkDh": "bk1", "bkS0": "bk1", "bkS": "bk1"}
MARGINFI_TYPES = {"MarginfiGroup", "Bank", "MarginfiAccount", "FeeState", "LiquidationRecord", "StakedSettings", "BankMetadata"}

# oracle-side specification (independent of the Coq Spec.v): who may sign for the role field of an instruction
ROLE_FIELD = {}
ENTITLED = {}
ROLE_WALLETS_A = {"adm", "emo", "cur", "lim", "emi", "met", "rsk"}


def _spec():
    user = ["lending_account_deposit", "lending_account_borrow", "lending_account_close_balance",
            "lending_account_withdraw_emissions", "transfer_to_new_account", "transfer_to_new_account_pda",
            "kamino_deposit", "drift_deposit", "solend_deposit"]
    recv = ["lending_account_withdraw", "lending_account_repay", "kamino_withdraw", "drift_withdraw", "solend_withdraw"]
    owner = ["lending_account_start_flashloan", "lending_account_end_flashloan",
             "marginfi_account_update_emissions_destination_account", "marginfi_account_close"]
    for ix in user + recv + owner + ["lending_account_liquidate"]:
        ROLE_FIELD[ix] = "authority"
    for ix in user:
        ENTITLED[ix] = "user"
    for ix in recv:
        ENTITLED[ix] = "user-recv"
    for ix in owner:
        ENTITLED[ix] = "owner"
    ENTITLED["lending_account_liquidate"] = "user"
    roles = {
        "adm": ["marginfi_group_configure", "lending_pool_add_bank", "lending_pool_add_bank_with_seed", "lending_pool_clone_bank",
                "lending_pool_configure_bank", "lending_pool_configure_bank_oracle", "lending_pool_set_fixed_oracle_price",
                "lending_pool_withdraw_fees", "lending_pool_update_fees_destination_account", "lending_pool_withdraw_insurance",
                "lending_pool_close_bank", "marginfi_account_set_freeze", "init_staked_settings", "edit_staked_settings",
                "configure_deleverage_withdrawal_limit", "lending_pool_add_bank_kamino", "lending_pool_add_bank_drift",
                "lending_pool_add_bank_solend"],
        "emo": ["lending_pool_configure_bank_emode"],
        "cur": ["lending_pool_configure_bank_interest_only"],
        "lim": ["lending_pool_configure_bank_limits_only"],
        "emi": ["lending_pool_setup_emissions", "lending_pool_update_emissions_parameters"],
        "met": ["write_bank_metadata"],
        "rsk": ["lending_pool_force_tokenless_repay_complete", "start_deleverage", "end_deleverage", "purge_deleverage_balance"],
        "fadm": ["edit_global_fee_state", "config_group_fee", "panic_pause", "panic_unpause"],
    }
    fieldname = {"adm": "admin", "emo": "emode_admin", "cur": "delegate_curve_admin", "lim": "delegate_limit_admin",
                 "emi": "delegate_emissions_admin", "met": "metadata_admin", "rsk": "risk_admin", "fadm": "global_fee_admin"}
    for who, ixs in roles.items():
        for ix in ixs:
            ROLE_FIELD[ix] = fieldname[who]
            ENTITLED[ix] = {who}
    ROLE_FIELD["lending_pool_clone_emode"] = "signer"
    ENTITLED["lending_pool_clone_emode"] = {"adm", "emo"}
    ROLE_FIELD["lending_pool_handle_bankruptcy"] = "signer"
    ENTITLED["lending_pool_handle_bankruptcy"] = {"adm", "rsk"}
    ROLE_FIELD["end_liquidation"] = "liquidation_receiver"
    ENTITLED["end_liquidation"] = {"liq"}


_spec()


def entitled(ix, who, variant, acct_authority, fam="A"):
    """may `who` sign for the role field of `ix`? `fam`: the group (A / B) the transaction's objects belong to —
    every role of the foreign group gB is held by admB"""
    e = ENTITLED.get(ix)
    if e is None:
        return True     # permissionless
    admin = "adm" if fam == "A" else "admB"
    if isinstance(e, set):
        if e <= ROLE_WALLETS_A and fam == "B":
            return who == "admB"
        return who in e
    if e == "owner":
        return who == acct_authority
    if "R" in variant and e == "user-recv":
        return not ("F" in variant and who == acct_authority)
    if "F" in variant:
        return who == admin
    return who == acct_authority


ACCT_FIELD = {"lending_account_liquidate": "liquidator_marginfi_account", "transfer_to_new_account": "old_marginfi_account",
              "transfer_to_new_account_pda": "old_marginfi_account"}
AUTH_OF = {"accA": "u", "accL": "liq", "accE": "u", "accU": "v", "accBad": "v2", "accT": "v", "accB": "u", "accBE": "u"}


def meta(line, **kw):
    return line + " " + " ".join(f"{k}={v}" for k, v in kw.items())


# instructions executed next to a companion (start/end brackets): signer and writable privileges are
# message-level on Solana, so "not signing" / "read-only" cannot be expressed for keys the companion also uses;
# in-place world edits (owner / discriminator) hit the companion first when it precedes the instruction
BRACKET = {"lending_account_start_flashloan", "start_liquidation", "end_liquidation", "start_deleverage", "end_deleverage"}
BRACKET_END = {"end_liquidation", "end_deleverage"}

# frozen / receivership cells that are executed in full (acceptance is the point); all other variant cells
# compare the account-validation verdict only, because handlers refuse flagged accounts for reasons that are not
# authorization (AccountDisabled for deposit/borrow/transfer in receivership, frozen checks in emissions ...)
FULL_VARIANT = {("F", "adm"), ("R", "s"), ("R", "u")}
VARIANT_VAL_ONLY = {"lending_account_withdraw_emissions", "lending_account_liquidate"}


def token_follow(cell, who):
    """user ops move tokens from / to an account of the signer: keep that consistent for accepted cells"""
    c = cell
    if who not in HAS_TOKENS:
        return c
    for n, o in cell["fields"]:
        if n in ("signer_token_account", "destination_token_account") and re.fullmatch(r"\w+\.t[12]", o):
            c = A.with_field(c, n, who + "." + o.split(".")[1])
    return c


def signer_cells(ix, base):
    out = []
    e = A.entry(ix)
    role = ROLE_FIELD.get(ix)
    objs = dict(base["fields"])
    acct = objs.get(ACCT_FIELD.get(ix, "marginfi_account"))
    for f in e["fields"]:
        if f["w"] != "WSigner":
            continue
        n = f["name"]
        if ix not in BRACKET:
            out.append(meta(A.line(base, nosign=n), k="nosign", f=n))
        who_list = IDS if n == role or role is None else ["s"]
        for who in who_list:
            if who == objs[n]:
                continue
            c = token_follow(A.with_field(base, n, who), who) if n == role else A.with_field(base, n, who)
            out.append(meta(A.line(c), k="signer", f=n, who=who, v="N", role=("1" if n == role else "0")))
    # frozen / receivership variants for instructions acting on a marginfi account under the signer rule
    if ENTITLED.get(ix) in ("user", "user-recv") and base["mode"] == "full" and acct in AUTH_OF:
        for variant, tws in (("F", [f"aflag:{acct}:64:1"]), ("R", [f"aflag:{acct}:16:1"]),
                             ("FR", [f"aflag:{acct}:64:1", f"aflag:{acct}:16:1"])):
            for who in [AUTH_OF[acct], "s", "adm", "rsk", "fadm", "emi"]:
                c = dict(base)
                for t in tws:
                    c = A.with_tweak(c, t)
                c = token_follow(A.with_field(c, role, who), who)
                full = (variant, who) in FULL_VARIANT and ix not in VARIANT_VAL_ONLY and \
                    (ENTITLED[ix] == "user-recv" or variant == "F")
                c["mode"] = "full" if full else "val"
                out.append(meta(A.line(c), k="signer", f=role, who=who, v=variant, role="1"))
    # bad-debt settlement: with the bank's PERMISSIONLESS_BAD_DEBT_SETTLEMENT flag anyone may sign, without it only the
    # group admin or the risk admin
    if ix == "lending_pool_handle_bankruptcy" and base["mode"] == "full":
        bank = objs["bank"]
        for who in ["s", "liq", "u", "adm", "rsk", "fadm", "emi"]:
            c = A.with_tweak(dict(base), f"bflag:{bank}:4:1")
            c = token_follow(A.with_field(c, role, who), who)
            out.append(meta(A.line(c), k="signer", f=role, who=who, v="P", role="1"))
    return out


def counterpart_vault(o, mapping):
    m = re.fullmatch(r"(\w+)\.(lv|lva|iv|iva|fv|fva)", o)
    if m and m.group(1) in mapping:
        return f"{mapping[m.group(1)]}.{m.group(2)}"
    return None


def address_bound(e, f):
    """the ADDRESS of field f is pinned by the instruction: seeds, address =, or target of some has_one"""
    if f["seeds"] is not None or f["address"] is not None:
        return True
    return any(f["name"] == t for g in e["fields"] for t, _ in g["has_one"])


VENUE_KIND_BANKS = ("bkSt", "bkK", "bkD", "bkDh", "bkS")

def subst_cells(ix, base):
    out = []
    e = A.entry(ix)
    for f, (n, o) in zip(e["fields"], base["fields"]):
        if o == "NONE":
            continue
        w = f["w"]
        inplace_ok = ix not in BRACKET_END
        if f["init"]:
            if f["seeds"] is not None:
                out.append(meta(A.line(A.with_field(base, n, "new:wrongpda")), k="sub", f=n, s="wrongseeds"))
            continue
        if w == "WLoader" and f["arg"] in MARGINFI_TYPES:
            if o in FOREIGN:
                out.append(meta(A.line(A.with_field(base, n, FOREIGN[o])), k="sub", f=n, s="foreign"))
            if not o.startswith(("pda[", "new:")):
                if address_bound(e, f):
                    out.append(meta(A.line(A.with_field(base, n, "~" + o)), k="sub", f=n, s="clone"))
                if inplace_ok:
                    out.append(meta(A.line(A.with_tweak(base, "own:" + o)), k="sub", f=n, s="owner"))
                    out.append(meta(A.line(A.with_tweak(base, "disc:" + o)), k="sub", f=n, s="disc"))
                other = "bk1" if f["arg"] != "Bank" else "gA"
                out.append(meta(A.line(A.with_field(base, n, other)), k="sub", f=n, s="othertype"))
                if f["arg"] == "Bank" and o in VENUE_KIND_BANKS:
                    # a bank of the SAME group but of another kind (a regular bank where the instruction is meant for a
                    # staked-collateral / venue bank): a permissionless or venue instruction must not reach it
                    out.append(meta(A.line(A.with_field(base, n, "bk1")), k="sub", f=n, s="wrongkind"))
        elif n in A.VAULT_SUFFIX:
            fo = counterpart_vault(o, FOREIGN)
            if fo:
                out.append(meta(A.line(A.with_field(base, n, fo)), k="sub", f=n, s="foreignvault"))
            ob = counterpart_vault(o, OTHERBANK)
            if ob:
                out.append(meta(A.line(A.with_field(base, n, ob)), k="sub", f=n, s="otherbankvault"))
            if not o.startswith("pda["):
                if w == "WTokenAccount":
                    out.append(meta(A.line(A.with_field(base, n, "~" + o)), k="sub", f=n, s="clone"))
                    out.append(meta(A.line(A.with_tweak(base, "own:" + o)), k="sub", f=n, s="owner"))
                else:
                    out.append(meta(A.line(A.with_field(base, n, "new:wrongpda")), k="sub", f=n, s="wrongpda"))
        elif w in ("WProgram", "WTokenInterface"):
            out.append(meta(A.line(A.with_field(base, n, "PROG:stranger")), k="sub", f=n, s="program"))
        elif f["address"] is not None:
            out.append(meta(A.line(A.with_field(base, n, "new:wrongaddr")), k="sub", f=n, s="address"))
        elif f["seeds"] is not None:
            out.append(meta(A.line(A.with_field(base, n, "new:wrongpda")), k="sub", f=n, s="wrongpda"))
        if f["mut"] and not f["init"] and w != "WSigner" and ix not in BRACKET:
            out.append(meta(A.line(base, readonly=n), k="readonly", f=n))
    return out


def bundle_cells(ix, base):
    """the realistic substitution: a foreign (or other) bank / account passed TOGETHER with everything derived from
    it (its own vaults, authorities, record, metadata), everything else unchanged"""
    out = []
    e = A.entry(ix)
    for f, (n, o) in zip(e["fields"], base["fields"]):
        if f["init"] or not (f["w"] == "WLoader" and f["arg"] in ("Bank", "MarginfiAccount")):
            continue
        if o not in FOREIGN:
            continue
        c = A.with_field(base, n, FOREIGN[o])
        changed = False
        for n2, o2 in base["fields"]:
            if parent(o2) == o and re.fullmatch(r"\w+\.(lv|lva|iv|iva|fv|fva)", o2):
                c = A.with_field(c, n2, FOREIGN[o] + o2[len(o):])
                changed = True
        if changed:
            out.append(meta(A.line(c), k="sub", f=n, s="bundle-foreign"))
    return out


def matrix():
    lines = []
    for ix in A.instructions():
        base = A.base(ix)
        lines.append(meta(A.line(base), k="base"))
        lines += signer_cells(ix, base)
        lines += subst_cells(ix, base)
        lines += bundle_cells(ix, base)
    return lines


def kvs(l):
    return dict(t.split("=", 1) for t in l.split()[1:] if "=" in t)


def double_cells(rng, n):
    """randomised stream: two independent single faults in one transaction"""
    per_ix = {}
    for l in matrix():
        k = kvs(l)
        if k["k"] == "sub" or (k["k"] == "signer" and k["v"] == "N"):
            per_ix.setdefault(k["ix"], []).append(l)
    out = []
    ixs = sorted(per_ix)
    while len(out) < n:
        ix = rng.choice(ixs)
        if len(per_ix[ix]) < 2:
            continue
        a, b = rng.sample(per_ix[ix], 2)
        m = merge(a, b)
        if m:
            out.append(m)
    return out


def merge(a, b):
    ka, kb = kvs(a), kvs(b)
    base = A.base(ka["ix"])
    fa = dict(x.split(":", 1) for x in ka["a"].split(","))
    fb = dict(x.split(":", 1) for x in kb["a"].split(","))
    fields = []
    for n, o in base["fields"]:
        da, db = fa[n] != o, fb[n] != o
        if da and db and fa[n] != fb[n]:
            return None
        fields.append((n, fa[n] if da else fb[n]))
    tw = [t for t in (ka["tw"].split(";") + kb["tw"].split(";")) if t != "-"]
    c = {"ix": ka["ix"], "fields": fields, "tw": sorted(set(tw), key=tw.index), "al": base["al"],
         "mtw": base.get("mtw", []), "mode": base["mode"]}
    return meta(A.line(c), k="double", f=ka.get("f", "-") + "+" + kb.get("f", "-"),
                s=ka.get("s", "signer") + "+" + kb.get("s", "signer"))


def signer_rule_cases(rng, n_random):
    """level A: the real is_signer_authorized / account_not_frozen_for_authority. All 2^7 flag words of the defined
    bits x {signer = authority, admin, both (authority = admin), neither} x allow, plus random 64-bit flag words"""
    out = []
    configs = [(1, 2, 1), (1, 2, 2), (1, 1, 1), (1, 2, 3), (1, 1, 3)]     # (authority, admin, signer)
    for fl in range(128):
        for au, ad, sg in configs:
            for allow in (0, 1):
                out.append(f"S {fl} {au} {ad} {sg} {allow}")
    for _ in range(n_random):
        fl = rng.getrandbits(64) if rng.random() < 0.5 else rng.choice([0, 16, 64, 80, 2**63, 2**64 - 1, 2**64 - 1 - 64, 2**64 - 1 - 16])
        au, ad, sg = rng.choice(configs)
        out.append(f"S {fl} {au} {ad} {sg} {rng.randrange(2)}")
    return out


def suites(rng, tier):
    m = matrix()
    n_double = {"quick": 600, "thorough": 24000, "search": 4000}[tier]
    d = double_cells(rng, n_double)
    dist = {}
    for l in m:
        k = kvs(l)
        key = k["k"] + (":" + k["s"] if "s" in k else "")
        dist[key] = dist.get(key, 0) + 1
    return [
        {"suite": "auth", "name": "auth-matrix", "lines": m,
         "distribution": {"instructions": len(A.instructions()), "cells_by_kind": dist}},
        {"suite": "auth", "name": "auth-double-faults", "lines": d, "distribution": {"cells": len(d)}},
        {"suite": "auth", "name": "signer-rule-fn", "lines": signer_rule_cases(rng, {"quick": 500, "thorough": 20000, "search": 2000}[tier]),
         "distribution": {"exhaustive_flag_words": 128, "signer_configs": 5}},
        oracle_substitution_suite(rng, {"quick": 1500, "thorough": 30000, "search": 6000}[tier]),
        fee_destination_suite(rng, {"quick": 250, "thorough": 5000, "search": 1500}[tier]),
        {"suite": "hops", "name": "tokenless-repay-role",
         "lines": [HG.gen_tokenless_case(rng) for _ in range({"quick": 250, "thorough": 6000, "search": 2000}[tier])],
         "distribution": {"note": "the risk admin's token-less repayment on sunset banks through the real repay handler: signer = risk admin / account authority / authority of another account; account in receivership or not; only the risk admin's repay_all may skip the token transfer"}},
        {"suite": "txval", "name": "receivership-bracket-shapes", "lines": TG.val_exhaustive(rng, "liq3", 4 if tier != "thorough" else 5),
         "distribution": {"alphabet": TG.ALPHABETS["liq3"], "note": "the 'strictly inside an active receivership' clause: transaction shapes with repeated / trailing-byte start and end instructions; a receivership that is not closed by its own end instruction lets any signer withdraw / repay afterwards"}},
        receivership_power_suite(rng, tier),
        {"suite": "auth", "name": "payout-without-registered-destination", "lines": _c19().unregistered_destination_cells(), "impl_only": True,
         "distribution": {"note": "the one instruction that moves value out of an account without its authority's signature (permissionless emissions payout) on an account that never registered a destination wallet: must be refused, also for the ATA of the default pubkey"}},
    ]


def _c19():
    from props import c19
    return c19


def receivership_power_suite(rng, tier):
    """'anyone strictly inside an active receivership': whole liquidation / deleverage transactions through the real start,
    withdraw, repay and end handlers (empty brackets, brackets that seize or repay nothing, third parties before / after the
    bracket): a committed transaction never leaves the receivership marker on an account, and a signer who is not the
    authority acts only between a start and its end"""
    n = {"quick": 700, "thorough": 8000, "search": 2500}[tier]
    lines = [TG.liq_tx(rng, "liq") for _ in range(n)] + [TG.liq_tx(rng, "delev") for _ in range(n // 3)]
    if tier != "search":
        lines += TG.sim_enumerated("liq")
    return {"suite": "txsim", "name": "receivership-third-party-power", "lines": lines,
            "distribution": {"liquidation": n, "deleverage": n // 3,
                             "enumerated_len<=3": len(TG.sim_enumerated("liq")) if tier != "search" else 0}}



def fee_destination_suite(rng, n):
    """substituting the fee destination: fee-collection histories (C19's generator: program fees enabled or not, zero and
    non-zero fee rates, Token-2022 mints) in which lending_pool_collect_bank_fees is also called with a FOREIGN token account
    in place of the global fee wallet's canonical ATA (hops op 32) - must always be refused"""
    from props import c19 as C19
    lines = [C19.add_collects(rng, C19.gen_fee_case(rng)) for _ in range(n)]
    return {"suite": "hops", "name": "fee-destination-substitution", "lines": lines, "distribution": {"cases": n}}


SUBST_REASONS = ("oracle key differs", "venue account key differs", "stake accounts differ", "not owned by", "wrong number of oracle accounts")


def oracle_substitution_suite(rng, n):
    """every oracle kind crossed with single substitutions of an oracle / venue / stake-pool account by one that belongs to
    another bank or program (reuses C09's oracle-account case generator; the suite runs the real OraclePriceFeedAdapter)"""
    lines, d, tries = [], {}, 0
    while len(lines) < n and tries < 40 * n:
        tries += 1
        dd = {}
        line = C9.gen_oracle_case(rng, "malformed", dd)
        t = list(map(int, line.split()))
        c, _ = C9.parse_prefix(t)
        why = C9.authentic(c, c["ais"])
        if why and why.startswith(SUBST_REASONS):
            lines.append(line)
            k = f"setup{c['setup']}:{why.split(' ')[0]}"
            d[k] = d.get(k, 0) + 1
    return {"suite": "oracle", "name": "oracle-substitution", "lines": lines, "distribution": d}


# ------------------------------------------------------------------------------------------------
# oracle: C08 evaluated directly on the real outcome of a cell, from the objects of the cell alone

GROUP_A = {"gA", "bk1", "bk2", "bk3", "bkE", "bkT", "bkSt", "bkK0", "bkK", "bkD0", "bkD", "bkDh", "bkS0", "bkS", "accA", "accL", "accU", "accBad", "accE", "accT", "ssA"}
GROUP_B = {"gB", "bkB1", "bkB2", "accB", "accBE", "ssB"}
INVALID_OBJECT = ("new:wrong", "PROG:stranger")


def parent(o):
    """object -> the object its address / content is derived from"""
    m = re.fullmatch(r"~?(\w+)\.(lv|lva|iv|iva|fv|fva|rec|meta|eauth|evault|kobl|duser|dstats|sobl)", o)
    return m.group(1) if m else None


def family(o):
    o = o.lstrip("~")
    root = parent(o) or o
    if root in GROUP_A:
        return "A"
    if root in GROUP_B:
        return "B"
    return None


def consistent(ix, fields):
    """all group-owned objects of the transaction belong to one group, every derived object (vault, authority,
    record, metadata) comes with the object it is derived from, and a group-role signer belongs to that group"""
    objs = [o for _, o in fields]
    fams = {family(o) for o in objs} - {None}
    role = ROLE_FIELD.get(ix)
    for n, o in fields:
        if n == role and o in ROLE_WALLETS_A:
            fams.add("A")
        if n == role and o == "admB":
            fams.add("B")
    if len(fams) > 1:
        return False
    plain = {o.lstrip("~") for o in objs}
    for o in objs:
        p = parent(o)
        if p and p not in plain:
            return False
    return True


def must_reject(k):
    """does C08 demand that this cell is not accepted?"""
    ix = k["ix"]
    fields = [tuple(x.split(":", 1)) for x in k["a"].split(",")]
    tw = [] if k["tw"] == "-" else k["tw"].split(";")
    bound_objs = {o.lstrip("~") for _, o in fields}
    if any(t.startswith(("own:", "disc:")) and t.split(":", 1)[1] in bound_objs for t in tw):
        return "an account with a wrong owner program / discriminator"
    if any(o.startswith(INVALID_OBJECT) for _, o in fields):
        return "a wrong address / program"
    e = A.entry(ix)
    base = dict(A.base(ix)["fields"])
    for f, (n, o) in zip(e["fields"], fields):
        if o.startswith("~") and address_bound(e, f):
            return f"a copy of {n} at another address"
        if f["w"] == "WLoader" and f["arg"] in MARGINFI_TYPES and o in ("gA", "bk1") and base[n] != o and \
                not ((f["arg"] == "MarginfiGroup" and o == "gA") or (f["arg"] == "Bank" and o == "bk1")):
            return f"an account of another type as {n}"
    if k.get("s") == "wrongkind":
        return "a regular bank of the group where the instruction is meant for a staked-collateral / venue bank"
    if not consistent(ix, fields):
        return "objects of different groups / banks / accounts"
    sg = k["sg"]
    for i, (f, (n, o)) in enumerate(zip(e["fields"], fields)):
        if f["w"] == "WSigner" and sg[i] == "0" and o != "NONE":
            return f"{n} not signing"
    role = ROLE_FIELD.get(ix)
    if role:
        objs = dict(fields)
        acct = objs.get(ACCT_FIELD.get(ix, "marginfi_account"), "").lstrip("~")
        variant = ("F" if any(t.startswith("aflag:") and t.endswith(":64:1") for t in tw) else "") + \
                  ("R" if any(t.startswith("aflag:") and t.endswith(":16:1") for t in tw) else "")
        if ix == "lending_pool_handle_bankruptcy" and any(t.startswith("bflag:") and t.endswith(":4:1") for t in tw):
            return None          # permissionless settlement: every signer is entitled
        fams = {family(o) for _, o in fields} - {None}
        fam = "B" if fams == {"B"} else "A"
        if not entitled(ix, objs[role], variant or "N", AUTH_OF.get(acct), fam):
            return f"signer {objs[role]} is not entitled (world {variant or 'N'})"
    return None


def nontrivial(suite, case, impl):
    if suite == "hops":
        tr = HO.Trace(case, impl)
        return tr.ok and any((op[0] == 4 and res == "OK") or op[0] == 32 for op, res, *_ in HO.walk(tr))
    if suite == "auth" and " k=emis0 " in case:
        return True
    if suite in ("txval", "txsim"):
        return C10.nontrivial(suite, case, impl)
    if suite == "oracle":
        return True          # every case is a substitution that must be rejected
    if case.startswith("S "):
        return impl in ("0 0", "0 1", "1 0", "1 1")
    return impl.startswith(("OK", "V ", "B ", "PASSV"))


def oracle_signer_rule(case, impl):
    """the three lines of the property, evaluated on the real functions' answers"""
    _, fl, au, ad, sg, allow = case.split()
    fl, allow = int(fl), allow == "1"
    frozen, recv = bool(fl & 64), bool(fl & 16)
    if impl not in ("0 0", "0 1", "1 0", "1 1"):
        return {"key": "signer-rule-fn-abort", "what": f"signer rule functions aborted: {impl}"}
    passed = impl == "1 1"
    if allow and recv:
        want = not (frozen and sg == au)
    elif frozen:
        want = sg == ad and sg != au
    else:
        want = sg == au
    if passed != want:
        return {"key": f"signer-rule:{'accepts' if passed else 'refuses'}:frozen={int(frozen)}:recv={int(recv)}:allow={int(allow)}",
                "what": f"is_signer_authorized && account_not_frozen_for_authority = {passed} for flags={fl} authority={au} admin={ad} signer={sg} allow_receivership={allow}"}
    return None


def oracle_substitution(case, impl):
    t = list(map(int, case.split()))
    c, _ = C9.parse_prefix(t)
    if not impl.split(" | ")[0].startswith("OK"):
        return None
    why = C9.authentic(c, c["ais"])
    if why and why.startswith(SUBST_REASONS):
        return {"key": "foreign-oracle-accepted", "what": f"oracle setup {c['setup']}: price feed loaded although: {why}"}
    return None


def oracle(suite, case, impl):
    if suite == "hops":
        tr = HO.Trace(case, impl)
        v = HO.oracle_tokenless_role(tr)
        if v:
            return v
        v = HO.oracle_c19(tr)
        return v if v and v["key"] == "fees-paid-to-foreign-account" else None
    if suite == "oracle":
        return oracle_substitution(case, impl)
    if suite == "txval":
        return C10.oracle(suite, case, impl)
    if suite == "auth" and " k=emis0 " in case:
        return _c19().oracle_payout(case, impl)
    if suite == "txsim":
        # whole transactions through the real handlers: the two consequences of the signer rule that only show at
        # transaction level (the rest of C10's transaction oracle - shapes, health, premium - is judged under C10)
        v = C10.oracle(suite, case, impl)
        if v and v["key"] == "marker-survives":
            return {"key": "receivership-power-outlives-bracket",
                    "what": v["what"] + " - from now on ANY signer may withdraw / repay on it"}
        return v if v and v["key"] in ("third-party-outside-receivership", "harness") else None
    if case.startswith("S "):
        return oracle_signer_rule(case, impl)
    k = kvs(case)
    ix = k["ix"]
    if "STORE-CHANGED" in impl:
        return {"key": "store-changed-on-rejection", "what": f"{ix}: rejected transaction modified the account store"}
    accepted = impl.startswith("OK")
    passed_validation = accepted or impl.startswith("PASSV")
    if not passed_validation:
        return None
    why = must_reject(k)
    if why is None:
        return None
    # cells compared on account validation only (venue CPIs, flagged accounts): the demand is on validation for
    # structural faults; an unentitled signer must at least not be ACCEPTED
    if impl.startswith("PASSV") and why.startswith("signer "):
        if ENTITLED.get(ix) in ("user", "user-recv", "owner") or isinstance(ENTITLED.get(ix), set) and k["m"] == "val" and k.get("k") == "signer" and k.get("v", "N") != "N":
            return {"key": f"unentitled-signer-passed-validation:{ix}:{k.get('who')}:{k.get('v')}",
                    "what": f"{ix}: {why}, yet account validation passed"}
        return None
    return {"key": f"accepted:{ix}:{k.get('k')}:{k.get('f', '-')}:{k.get('s', k.get('who', '-'))}:{k.get('v', '-')}",
            "what": f"{ix} was {'accepted' if accepted else 'not rejected by account validation'} with {why}"}
