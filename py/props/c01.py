"""C01 — bank solvency: vault tokens cover net depositor claims and accrued fees."""
import gen_bank as G
import gen_hops as H
import hops_oracles as O
from props import c12 as C12
ID = "C01"
MANIFEST = {
    "text": ("Kernel-checked theorems over the instruction-handler model (deposit, withdraw(all), borrow, repay(all), close_balance, "
             "liquidate with its four legs and insurance fee, handle_bankruptcy, accrue, collect_fees; SPL and Token-2022 mints with any "
             "transfer fee): for every well-formed world, every instruction and every amount, ONE successful instruction lowers "
             "gap = vault*2^96 - (deposits - liabilities + outstanding fees) of ANY bank by at most an explicit rounding allowance "
             "(accrual: L + total liability shares + asv'/asv + 3 units of 2^-96; withdraw/borrow/liquidation: + one ulp of each share "
             "value; repay_all: + 2^-48 unit) unless it is one of the two sanctioned exceptions (risk-admin token-less repay_all on a "
             "flagged bank; bankruptcy that wipes out and kills the bank); well-formedness (incl. the instruction-level ledger invariant, "
             "through liquidation's four legs over two banks and two accounts) is proved to be preserved by every instruction, and the "
             "bound is lifted to histories of any length by induction (sum of the allowances) with no assumption on intermediate states. Tied to the real handlers by differential execution "
             "of generated instruction sequences in the native sim runtime against the extracted model (0 disagreements), and the "
             "oracle recomputes the per-instruction gap inequality from the real vault balances and bank bytes in exact integers."),
    "design_ref": "DESIGN.md §7 C01",
    "technique": "Coq proof (handler inversion + exact integer inequalities per primitive + induction over histories) + model/implementation correspondence at handler level (real handlers in the sim runtime)",
}
THEOREMS = ["C01_step", "C01_allowance_is", "C01_accrual_allowance", "C01_wellformedness_preserved", "C01_HOk2_implies_HOk", "C01_hypotheses_checkable",
            "C01_history", "C01_history_given_wellformed_states", "C01_purge_gap",
            "C01_deleverage_withdraw_gap", "C01_deleverage_repay_gap", "C01_deleverage_tx_keeps_world"]
RULE = ("instruction sequences (deposit incl. up-to-limit, withdraw / withdraw-all, borrow with origination fee, repay / repay-all, "
        "close_balance, liquidate, bankruptcy, accrue, collect_fees, clock advances, price changes) by 1-4 users over 1-3 banks with "
        "SPL / Token-2022 / transfer-fee mints, seven-point curves and fee settings drawn at random; scenario stream (70%) builds "
        "lender/borrower/liquidation/bankruptcy stories, random stream (30%) mixes everything. Non-trivial = at least 3 successful "
        "fund-moving instructions; distinct = different case line")
ASSUMPTIONS = [
    "initial world well-formed (HOk2): share values > 0, valid seven-point curve, transfer-fee bps <= 10000, program fee rate in [0,1], fee buckets representable, bank totals cover every position; preservation is proved (C01_wellformedness_preserved), histories with a bank wipe-out are covered by C01_history_given_wellformed_states for the surviving banks",
    "token movement is modelled as balance arithmetic with the SPL Token-2022 transfer-fee function (TransferFee.v, compared with the real library in C03's prefee suite); the real SPL token programs run behind the CPI stub in the sim runtime",
    "pass-through banks of third-party venues (Kamino/Drift/Solend asset tags) are outside C01 (the property excludes them); the handlers reject them (WrongAssetTagForStandardInstructions)",
]
OBSERVATIONS = [
    "accrual credits depositors floor-rounded interest and books three fee buckets each rounded separately: the proved allowance per accrual is L + tls + asv'/asv + 3 units of 2^-96 token, i.e. about 2^-47 token per token of liabilities",
]
ONE = G.ONE


def suites(rng, tier):
    m = {"quick": 700, "thorough": 15000, "search": 10000}[tier]
    hl = [H.gen_case(rng, max_ops=26) for _ in range(m)]
    return [{"suite": "hops", "name": "hops-solvency", "lines": hl, "distribution": {"cases": m, "max_ops": 26}},
            {"suite": "hokcheck", "name": "hypotheses-hold-on-generated-worlds", "lines": hl, "model_only": True,
             "count": (lambda out: out.strip() == "1"),
             "distribution": {"cases": m, "note": "the extracted boolean checker hok2b (proved sound: hok2b w = true -> HOk2 w) evaluated on the initial world of every generated case: how many tested histories start in a world that satisfies the hypotheses of the C01 theorems"}},
            {"suite": "hopsref", "name": "hops-solvency-reference", "lines": hl, "impl_only": True,
             "distribution": {"cases": m, "note": "same cases with the real accrue_interest applied in isolation: gives the accrued share values the allowance is computed from"}},
            {"suite": "delevsim", "name": "deleverage-purge-solvency",
             "lines": [C12.gen_delev_case(rng) for _ in range({"quick": 300, "thorough": 5000, "search": 2000}[tier])],
             "distribution": {"note": "forced-deleverage transactions (start; withdrawals / repayments; end) and purge_delev_balance through the real handlers: per successful instruction no bank's gap drops by more than the accrual allowance plus rounding, except the sanctioned token-less write-off of a sunset bank; a purge never lowers it"}},
            {"suite": "hops", "name": "hops-tokenless-writeoff",
             "lines": [H.gen_tokenless_case(rng) for _ in range({"quick": 120, "thorough": 3000, "search": 1000}[tier])],
             "distribution": {"note": "the first sanctioned exception at level C: repay_all on a bank flagged for token-less repayments, signed by the risk admin (no tokens move, the gap may drop) or by anybody else / on an unflagged bank (tokens must move, the bound applies)"}}]


def delev_banks(outp):
    secs = outp.split(" # ")
    out = []
    for b in secs[1].split(" ; "):
        t = list(map(int, b.split()))
        out.append({"asv": t[0], "lsv": t[1], "tas": t[2], "tls": t[3], "ins": t[4], "grp": t[5], "prog": t[6],
                    "flags": t[11], "op_state": t[12], "vault": t[13]})
    return out


def oracle_delevsim(case, impl):
    """C01 on the deleverage suite: compare every successful instruction's post-state with the last committed state"""
    try:
        nb, na, banks, ops = C12.parse_delev_case(case)
    except Exception:
        return None
    parts = impl.split(" | ")
    if len(parts) != len(ops):
        return None
    prev = None
    for o_, outp in zip(ops, parts):
        if not outp.startswith("OK"):
            continue
        cur = delev_banks(outp)
        if prev is not None:
            for k in range(nb):
                b0, b1 = prev[k], cur[k]
                if b0["asv"] <= 0 or b1["op_state"] == 3:
                    continue
                if (b0["flags"] | b1["flags"]) & 32:
                    continue          # sunset bank (TOKENLESS_REPAYMENTS_ALLOWED): the risk admin's token-less write-off is sanctioned
                touched = any(b1[f] != b0[f] for f in ("asv", "lsv", "tas", "tls", "ins", "grp", "prog", "vault"))
                if not touched:
                    continue
                steps = 1 + (len(o_) if o_[0] == 31 else 0)       # a deleverage transaction holds several instructions
                allow = steps * (O.accrual_allowance(b0, b1) + 2 * (b1["asv"] + b1["lsv"]) + 2 * ONE)
                if O.gap(b1) < O.gap(b0) - allow:
                    return {"key": "gap-dropped-beyond-allowance",
                            "what": f"deleverage-suite op {o_[0]}: bank {k} gap fell from {O.gap(b0)} to {O.gap(b1)} (allowance {allow})"}
                if o_[0] == 33 and O.gap(b1) < O.gap(b0):
                    return {"key": "purge-lowered-gap", "what": f"purge: bank {k} gap fell from {O.gap(b0)} to {O.gap(b1)}"}
        prev = cur
    return None


def nontrivial(suite, case, impl):
    if suite == "delevsim":
        return C12.nontrivial(suite, case, impl)
    tr = O.Trace(case, impl)
    return tr.ok and sum(1 for x in O.walk(tr) if x[1] == "OK" and x[0][0] in (1, 2, 3, 4, 17, 18)) >= 3


TOUCH = {1: [2], 2: [2], 3: [2], 4: [2], 7: [2], 10: [1], 16: [1], 17: [3, 4], 18: [2], 34: [2], 35: [2]}


def step_slack(op, k, b0, b1, ref):
    """the Coq step_slack (SolvencyWorld.v), from the pre-state and the accrued share values"""
    kind = op[0]
    if k not in [op[j] for j in TOUCH.get(kind, [])] or kind == 16:
        return 0
    asv1, lsv1 = ref if ref else (max(b1["asv"], b0["asv"]), max(b1["lsv"], b0["lsv"]))
    acc = b0["tls"] * b0["lsv"] // ONE + b0["tls"] + (asv1 * ONE // max(1, b0["asv"]) + 2) + 1
    sv = asv1 + lsv1
    if kind in (1, 7, 10, 18):
        return acc
    if kind in (2, 3, 17, 34, 35):
        return acc + sv
    if kind == 4:
        return acc + (ONE if op[4] == 1 else 0)
    return 0


def oracle(suite, case, impl):
    if suite == "delevsim":
        return oracle_delevsim(case, impl)
    tr = O.Trace(case, impl)
    if not tr.ok:
        return None
    v = O.oracle_c01(tr)            # absolute: gap >= -(accumulated allowance)
    if v:
        return v
    i = -1
    ra = -1
    for op, res, b0, a0, b1, a1, now, prices in O.walk(tr):
        i += 1
        if op[0] == 30:
            ra = op[1]
        if res != "OK":
            continue
        refs = tr.refs[i] if tr.with_refs else None
        for k in range(tr.nb):
            if op[0] == 4 and op[4] == 1 and op[2] == k and ra == op[1] and b0[k]["flags"] & 32:
                continue                                  # sanctioned: risk admin's token-less repay_all on a flagged bank
            if op[0] == 18 and op[2] == k and b1[k]["op_state"] == 3:
                continue                                  # sanctioned: bank wiped out and killed
            if b0[k]["asv"] <= 0:
                continue                                  # killed earlier: outside the property
            ref = refs[k] if refs and refs[k] is not None else None
            if suite == "hops" and k in [op[j] for j in TOUCH.get(op[0], [])]:
                # without the reference accrual use a safe upper bound of the accrued share values
                ref = (max(b1[k]["asv"], b0[k]["asv"]) if op[0] != 18 else None, None)
                ref = None if ref[0] is None else (ref[0], max(b1[k]["lsv"], b0[k]["lsv"]))
                if ref is None:
                    continue                              # bankruptcy without reference: checked in hopsref
            s = step_slack(op, k, b0[k], b1[k], ref)
            if O.gap(b1[k]) < O.gap(b0[k]) - s:
                return {"key": "gap-dropped-beyond-allowance",
                        "what": f"{H.OPN[op[0]]}: bank {k} gap fell by {O.gap(b0[k]) - O.gap(b1[k])} > allowance {s} (units of 2^-96 token)"}
    return None
