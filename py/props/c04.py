"""C04 — risk gate: a successful borrow or withdrawal leaves the account initially healthy."""
import gen_hops as H
import hops_oracles as O
from props import risklib as R, riskgen as RG
from props import c13 as K13
ID = "C04"
MANIFEST = {
    "text": ("Kernel-checked theorems over the handler model (h_borrow, h_withdraw) and the risk-engine model: a successful borrow "
             "or withdrawal outside a flash loan implies that check_account_init_health succeeded on the FINAL account in the FINAL "
             "world, i.e. init-weighted liabilities <= init-weighted assets and an isolated-tier debt is the only debt; conversely "
             "RiskEngineInitRejected can only come from that comparison evaluated on the state the instruction would have produced "
             "(never while L <= A). What the engine computes is pinned: sum over positions (a position of < 1.0 shares is empty), "
             "assets at the low-biased time-weighted price with max(bank, reconciled e-mode) init weight times the init-limit "
             "discount, 0 for isolated tier / reduce-only / unusable oracle; liabilities at the high-biased time-weighted price "
             "with the liability init weight; reconciled e-mode = intersection over all borrowing banks with entry-wise minimum "
             "(any number of configs); valuation monotone in price and weight; explicit rounding bound of calc_value. Tied to the "
             "real handlers by differential execution in the sim runtime on banks with Fixed and Pyth push oracles (confidence "
             "bands, EMA vs spot, stale and wrong oracle accounts), with amounts placed around the analytically predicted "
             "accept/reject boundary; the oracle recomputes initial health in exact rationals from the dumped account/bank state."),
    "design_ref": "DESIGN.md §7 C04",
    "technique": "Coq proof (handler split + inversion, error provenance, induction over portfolios and e-mode config lists) + model/implementation correspondence at handler level (suites risk, hops)",
}
THEOREMS = ["C04_borrow_sound", "C04_withdraw_sound", "C04_isolated_debt_is_only_debt", "C04_nonempty_means_one_unit",
            "C04_handlers_split", "C04_borrow_rejected_only_when_unhealthy", "C04_withdraw_rejected_only_when_unhealthy",
            "C04_never_rejected_while_healthy", "C04_fixed_feed_never_says_rejected",
            "C04_oracle_model_feeds_never_say_rejected",
            "C04_health_is_sum_of_weighted_values", "C04_position_counts_on_one_side", "C04_liability_value_initial",
            "C04_asset_value_initial", "C04_init_limit_discount", "C04_emode_is_reconciled_over_borrowing_banks",
            "C04_reconcile_present_iff_in_all_and_minimum", "C04_reconcile_absent_iff_missing_somewhere",
            "C04_value_monotone", "C04_value_rounding_bound",
            "C04_borrow_without_risk_accounts", "C04_withdraw_without_risk_accounts",
            "C04_borrow_without_risk_accounts_only_in_flashloan"]
RULE = ("suite risk (structured): worlds of 2-6 banks (every 10th: 17 banks, 16 positions) with Fixed or Pyth push oracles "
        "(confidence 0-4%, EMA within 10% of spot, exponents -8..0), decimals 0-9, weights 0.3-1 / 1-1.5, share values 1-1.75; "
        "features e-mode pairs, isolated tier (as debt and as collateral), reduce-only collateral, stale collateral oracle, "
        "stale debt oracle, wrong oracle account, too wide confidence, init-limit discount, price move; probe = descending "
        "family of borrow or withdraw amounts around the predicted boundary (n+3..n-2). suite risk (malformed) and suite hops: "
        "random instruction streams incl. amounts 0 / u64::MAX / non-existent positions, liquidations, price changes, clock "
        "advances. Non-trivial = a borrow/withdraw decided by the health comparison (accepted with debt, or RiskEngineInitRejected); "
        "distinct = different case line")
ASSUMPTIONS = [
    "per-bank oracle results enter the handler theorems as an abstract `feed` (low/high, time-weighted/real-time); how they derive from oracle accounts is C09 (suite risk composes the C09 adapter model with the handler model and diffs it against the real code)",
    "converse theorems assume the oracle adapter never returns the code RiskEngineInitRejected itself (feeds_ng; proved for Fixed feeds, true of every adapter error code)",
    "e-mode characterisation assumes each config has distinct non-empty tags (wf_cfg; enforced by EmodeSettings validation, C13)",
    "'empty' position = fewer than 1.0 shares (Balance::is_empty compares shares with EMPTY_BALANCE_THRESHOLD = 1), as recorded in DESIGN.md §7 C04",
    "withdrawals in receivership / deleverage (health check skipped by design) are outside the handler model",
]
OBSERVATIONS = [
    "a borrow whose resulting liabilities equal the weighted assets exactly (L = A) is accepted: the comparison is L <= A",
    "a stale or wrong COLLATERAL oracle only zeroes that collateral for the initial check; a stale or wrong DEBT oracle fails the instruction with the oracle's error",
]


def suites(rng, tier):
    n = {"quick": 1300, "thorough": 14000, "search": 8000}[tier]
    m = {"quick": 500, "thorough": 6000, "search": 3000}[tier]
    k = {"quick": 500, "thorough": 6000, "search": 3000}[tier]
    dist = {}
    a = [RG.gen_gate_case(rng, dist, big_portfolio=(i % 10 == 0)) for i in range(n)]
    b = [RG.pythify(rng, H.gen_case(rng)) for _ in range(m)]
    c = [H.gen_case(rng) for _ in range(k)]
    ne = {"quick": 600, "thorough": 6000, "search": 2500}[tier]
    e = []
    while len(e) < ne:
        l = K13.gen_seq(rng, tier)
        if " EM " in f" {l} " or " CL " in f" {l} ":
            e.append(l)
    return [{"suite": "cfgsim", "name": "emode-entries-feeding-the-risk-engine", "lines": e,
             "distribution": {"cases": ne, "note": "the health the gate checks takes its e-mode weights from the entries stored by configure_bank_emode / clone_emode (intersection over the debt banks, counted per tag): histories of the real instructions with entry tables containing holes, repeated tags and unsorted tags; a stored table with a repeated tag makes the per-tag count wrong"}},
            {"suite": "risk", "name": "risk-gate-boundary", "lines": a, "distribution": dict(dist, cases=n)},
            {"suite": "risk", "name": "risk-malformed-streams", "lines": b, "distribution": {"cases": m}},
            {"suite": "hops", "name": "hops-handlers", "lines": c, "distribution": {"cases": k}}]


def nontrivial(suite, case, impl):
    if suite == "cfgsim":
        return K13.nontrivial(suite, case, impl)
    if suite == "risk":
        return R.gate_nontrivial(R.Trace(case, impl))
    tr = O.Trace(case, impl)
    for op, res, b0, a0, b1, a1, now, prices in O.walk(tr):
        if op[0] in (2, 3) and (res == "E6009" or (res == "OK" and any(s["l"] >= O.ONE for s in a1[op[1]]["slots"]))):
            return True
    return False


def oracle(suite, case, impl):
    if suite == "cfgsim":
        v = K13.oracle(suite, case, impl)
        if v and "emode" in v["key"]:
            return {"key": "emode-entries-ambiguous-for-risk-engine:" + v["key"], "what": v["what"]}
        return None
    if suite == "risk":
        return R.oracle_gate(R.Trace(case, impl))
    # hops: the shared oracle, then the stricter one of this module (converse direction, unusable prices)
    return O.oracle_c04(O.Trace(case, impl)) or R.oracle_gate(R.Trace(R.hops_to_risk(case), impl))
