"""C05 — classic liquidation is possible only when unhealthy, improves health, and is bounded."""
import gen_hops as H
import hops_oracles as O
from props import risklib as R, riskgen as RG
ID = "C05"
MANIFEST = {
    "text": ("Kernel-checked inversion of the handler model of lending_account_liquidate: success implies that the liquidatee's "
             "maintenance health (real-time prices, maintenance weights) h0 before and h1 after satisfy h0 < h1 <= 0 (hence h0 < 0; "
             "the pre-check alone only rejects h0 > 0), that its debt position still holds >= 1.0 liability shares and < 1.0 asset "
             "shares, that the seized position gained no liability and the seized amount is at most its asset amount, that the "
             "liquidator passed the initial-health gate on the final world, and that the quantities are "
             "calc_amount(calc_value(n, low real-time asset price, 1 - 0.025), high real-time debt price) for the liquidator's leg and "
             "the same with 1 - 0.05 for the liquidatee's relief, the difference leaving the liquidity vault as whole tokens for the "
             "insurance vault with the fraction booked to the outstanding insurance fees; explicit rounding bounds against the exact "
             "rationals. Tied to the real handler by differential execution in the sim runtime (Fixed and Pyth push oracles, all "
             "decimal pairs sampled, seize amounts at the over-liquidation, too-severe and liquidator-health boundaries); the oracle "
             "recomputes both healths, the fee split and all vault deltas in exact rationals."),
    "design_ref": "DESIGN.md §7 C05",
    "technique": "Coq proof (inversion of the 60-step handler, wrapper inversion lemmas, floor inequalities) + model/implementation correspondence at handler level (suites risk, hops)",
}
THEOREMS = ["C05_only_unhealthy_improves_bounded", "C05_precheck_alone_accepts_zero", "C05_no_flip_and_overliquidation_guard",
            "C05_liquidator_remains_initially_healthy", "C05_fee_constants", "C05_quantities_and_fee_split",
            "C05_quantity_rounding_bound", "C05_liquidation_inversion"]
RULE = ("suite risk (structured): 2-4 banks with Fixed or Pyth push oracles (confidence bands, EMA != spot), decimals 0-9 on both "
        "sides, liquidatee borrowing 80-100% of its initial limit, mildest collateral price drop that makes it unhealthy (or none: "
        "healthy), seize amounts: 1, fractions, full collateral, full+1, full+2 (over-liquidation boundary), descending family around "
        "the largest amount keeping post-health <= 0 (too-severe boundary), descending family around the largest amount the thin "
        "liquidator can afford (liquidator ends at zero health), stale asset oracle, extra positions, wrong direction. suite risk "
        "(malformed) and suite hops: random streams. Non-trivial = a liquidation that succeeded; distinct = different case line")
ASSUMPTIONS = [
    "handler theorems assume the ledger invariant (share values: asset >= 0, liability > 0; totals and position shares >= 0) — C02 — and liquidator != liquidatee (the real program cannot load one account mutably twice: AccountBorrowFailed; the model does not encode this)",
    "prices enter as the abstract per-bank `feed`; the suite composes the C09 adapter model with the handler model",
    "receivership liquidation (start/end_liquidation) is a different code path (C10/C11)",
]
OBSERVATIONS = [
    "check_pre_liquidation_condition alone accepts maintenance health 0; h0 = 0 is excluded only by the post-check (h0 < h1 <= 0)",
    "1 - 0.025 and 1 - 0.05 are computed from I80F48 constants rounded down, i.e. 0.975 and 0.95 plus at most one unit in the last place",
]


def suites(rng, tier):
    n = {"quick": 1300, "thorough": 14000, "search": 8000}[tier]
    m = {"quick": 500, "thorough": 6000, "search": 3000}[tier]
    k = {"quick": 500, "thorough": 6000, "search": 3000}[tier]
    dist = {}
    a = [RG.gen_liq_case(rng, dist) for _ in range(n)]
    b = [RG.pythify(rng, H.gen_case(rng)) for _ in range(m)]
    c = [H.gen_case(rng) for _ in range(k)]
    return [{"suite": "risk", "name": "risk-liquidation-boundaries", "lines": a, "distribution": dict(dist, cases=n)},
            {"suite": "risk", "name": "risk-malformed-streams", "lines": b, "distribution": {"cases": m}},
            {"suite": "hops", "name": "hops-handlers", "lines": c, "distribution": {"cases": k}}]


def _trace(suite, case, impl):
    # the hops output format is the risk output format; a hops case is a risk case with Fixed oracles only
    return R.Trace(case if suite == "risk" else R.hops_to_risk(case), impl)


def nontrivial(suite, case, impl):
    return R.liq_nontrivial(_trace(suite, case, impl))


RATIO_KEYS = ("liquidation-relief-not-95pct", "liquidator-payment-not-97.5pct", "insurance-fee-not-2.5pct")


def oracle(suite, case, impl):
    v = R.oracle_liq(_trace(suite, case, impl))
    if v or suite == "risk":
        return v
    # the shared hops oracle as a second opinion; its fee-ratio checks use a fixed tolerance that does not cover
    # degenerate prices of a few raw units (2^-48 dollars), where the proved rounding bound (used by oracle_liq) applies
    v = O.oracle_c05(O.Trace(case, impl))
    if v and v["key"] in RATIO_KEYS:
        return None
    return v
