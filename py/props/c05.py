"""C05 — classic liquidation is possible only when unhealthy, improves health, and is bounded."""
import gen_hops as H
import hops_oracles as O
from props import risklib as R, riskgen as RG
ID = "C05"
MANIFEST = {
    "text": ("Kernel-checked inversion of the handler model of lending_account_liquidate: success implies that the liquidatee's "
             "maintenance health (real-time prices, maintenance weights) h0 before and h1 after satisfy h0 < h1 <= 0 (hence h0 < 0; "
             "the pre-check alone only rejects h0 > 0), that its debt position still holds >= 1.0 liability shares and < 1.0 asset "
             "shares, that the seized position gained no liability and the seized amount is at most its asset amount, that the "
             "liquidator passed the initial-health gate on the final world, and that the quantities are "
             "calc_amount(calc_value(n, low real-time asset price, 1 - 0.025), high real-time debt price) for the liquidator's leg and "
             "the same with 1 - 0.05 for the liquidatee's relief, the difference leaving the liquidity vault as whole tokens for the "
             "insurance vault with the fraction booked to the outstanding insurance fees; explicit rounding bounds against the exact "
             "rationals. Tied to the real handler by differential execution in the sim runtime (Fixed and Pyth push oracles, all "
             "decimal pairs sampled, seize amounts at the over-liquidation, too-severe and liquidator-health boundaries); the oracle "
             "recomputes both healths, the fee split and all vault deltas in exact rationals."),
    "design_ref": "DESIGN.md §7 C05",
    "technique": "Coq proof (inversion of the 60-step handler, wrapper inversion lemmas, floor inequalities) + model/implementation correspondence at handler level (suites risk, hops)",
}
THEOREMS = ["C05_only_unhealthy_improves_bounded", "C05_precheck_alone_accepts_zero", "C05_no_flip_and_overliquidation_guard",
            "C05_liquidator_remains_initially_healthy", "C05_fee_constants", "C05_quantities_and_fee_split",
            "C05_quantity_rounding_bound", "C05_liquidation_inversion", "C05_hypothesis_holds_in_wellformed_worlds",
            "C05_liquidation_without_risk_accounts_never_succeeds"]
RULE = ("suite risk (structured): 2-4 banks with Fixed or Pyth push oracles (confidence bands, EMA != spot), decimals 0-9 on both "
        "sides, liquidatee borrowing 80-100% of its initial limit, mildest collateral price drop that makes it unhealthy (or none: "
        "healthy), seize amounts: 1, fractions, full collateral, full+1, full+2 (over-liquidation boundary), descending family around "
        "the largest amount keeping post-health <= 0 (too-severe boundary), descending family around the largest amount the thin "
        "liquidator can afford (liquidator ends at zero health), stale asset oracle, extra positions, wrong direction. suite risk "
        "(malformed) and suite hops: random streams. Non-trivial = a liquidation that succeeded; distinct = different case line")
ASSUMPTIONS = [
    "handler theorems assume the ledger invariant (share values: asset >= 0, liability > 0; totals and position shares >= 0) — C02 — and liquidator != liquidatee (the real program cannot load one account mutably twice: AccountBorrowFailed; the model does not encode this)",
    "prices enter as the abstract per-bank `feed`; the suite composes the C09 adapter model with the handler model",
    "receivership liquidation (start/end_liquidation) is a different code path (C10/C11)",
]
OBSERVATIONS = [
    "check_pre_liquidation_condition alone accepts maintenance health 0; h0 = 0 is excluded only by the post-check (h0 < h1 <= 0)",
    "1 - 0.025 and 1 - 0.05 are computed from I80F48 constants rounded down, i.e. 0.975 and 0.95 plus at most one unit in the last place",
]


def suites(rng, tier):
    n = {"quick": 1300, "thorough": 14000, "search": 8000}[tier]
    m = {"quick": 500, "thorough": 6000, "search": 3000}[tier]
    k = {"quick": 500, "thorough": 6000, "search": 3000}[tier]
    dist = {}
    a = [RG.gen_liq_case(rng, dist) for _ in range(n)]
    b = [RG.pythify(rng, H.gen_case(rng)) for _ in range(m)]
    c = [H.gen_case(rng) for _ in range(k)]
    z = {"quick": 250, "thorough": 4000, "search": 2000}[tier]
    dz = {}
    zl = [gen_zero_crossing(rng, dz) for _ in range(z)]
    return [{"suite": "risk", "name": "risk-liquidation-boundaries", "lines": a, "distribution": dict(dist, cases=n)},
            {"suite": "risk", "name": "risk-liquidation-zero-crossing", "lines": zl, "distribution": dict(dz, cases=z)},
            {"suite": "risk", "name": "risk-malformed-streams", "lines": b, "distribution": {"cases": m}},
            {"suite": "hops", "name": "hops-handlers", "lines": c, "distribution": {"cases": k}}]


def gen_zero_crossing(rng, dist):
    for _ in range(200):
        r = _gen_zero_crossing(rng, dist)
        if r is not None:
            return r
    raise RuntimeError('zero-crossing generator: no scenario found')


def _gen_zero_crossing(rng, dist):
    """liquidations at the exact point where the liquidatee's maintenance health crosses zero: two Fixed-oracle banks
    with maintenance weights wa < 0.95*wl (so that repaying improves health), a borrower just under water, and seize
    amounts n*+k for the largest n* with predicted post-liquidation health <= 0 (closest above first, then n* itself)"""
    from fractions import Fraction
    now = RG.NOW0 + rng.randrange(0, 10 ** 6)
    wa_m = rng.choice([Fraction(5, 10), Fraction(7, 10), Fraction(8, 10), Fraction(85, 100)])
    wl_m = rng.choice([Fraction(1), Fraction(11, 10), Fraction(125, 100)])
    banks, orcs = [], []
    for i in range(2):
        b, _ = RG.gen_bank(rng, now, i, {"pyth": 0.0})
        b.update({"orig": 0, "tier": 0, "tavil": 0, "etag": 0, "emode": [], "op_state": 1, "tag": 0, "tokprog": 0,
                  "asv": R.ONE, "lsv": R.ONE})
        banks.append(b)
        orcs.append(None)
    ab, lb = 0, 1
    banks[ab].update({"awi": R.fxr(wa_m - Fraction(1, 10)), "awm": R.fxr(wa_m), "dec": rng.choice([6, 8, 9]),
                      "price": R.fxr(rng.choice([Fraction(1), Fraction(10), Fraction(100), Fraction(1, 100)]))})
    banks[lb].update({"lwi": R.fxr(wl_m + Fraction(1, 10)), "lwm": R.fxr(wl_m), "dec": rng.choice([6, 9]),
                      "price": R.fxr(rng.choice([Fraction(1), Fraction(2), Fraction(1, 2)]))})
    pf = [0, 0, 0]
    pred = R.Pred(banks, orcs, 3, now)
    ops = []
    amt = min(RG.native(banks[lb], None, Fraction(10 ** 7)), 1 << 60)
    ops.append([1, 0, lb, amt, 0]); pred.deposit(0, lb, amt)
    camt = min(RG.native(banks[ab], None, Fraction(rng.choice([100, 1000, 54321]))), 1 << 58)
    ops.append([1, 1, ab, camt, 0]); pred.deposit(1, ab, camt)

    def okb(n):
        hh, _ = pred.init_health(1, {lb: (0, pred.lshares(lb, n * R.ONE))})
        return hh >= 0
    nmax = R.bisect_max(okb, 1 << 60)
    if nmax < 1000:
        dist["retry-small-limit"] = dist.get("retry-small-limit", 0) + 1
        return None
    bamt = max(1, nmax * 95 // 100)
    ops.append([3, 1, lb, bamt]); pred.borrow(1, lb, bamt)
    # lower the collateral price to the point where maintenance health is just negative
    p0 = pred.fixed[ab]

    def healthy_at(p):
        pred.fixed[ab] = max(1, p)
        hh, _ = pred.maint_health(1)
        return hh >= 0
    lo = R.bisect_max(lambda d: healthy_at(p0 - d), p0 - 1)     # largest price cut that keeps the account healthy
    cut = lo + max(1, (p0 - lo) * rng.choice([1, 5, 20]) // 1000) + 1
    pred.fixed[ab] = max(1, p0 - cut)
    ops.append([19, ab, pred.fixed[ab]])
    hh, _ = pred.maint_health(1)
    if hh >= 0:
        dist["retry-still-healthy"] = dist.get("retry-still-healthy", 0) + 1
        return None
    have = pred.pos[1].get(ab, [0, 0])[0] * pred.banks[ab]["asv"] // (R.ONE * R.ONE)
    px = pred.px()

    def post_health(n):
        da, dl = banks[ab]["dec"], banks[lb]["dec"]
        v = Fraction(n) * px[ab]["rt"][0] / 10 ** da
        q = v * 10 ** dl / px[lb]["rt"][1]
        relief = int(q * Fraction(95, 100) * R.ONE)
        if pred.lshares(lb, relief) >= pred.pos[1][lb][1]:
            return Fraction(1)          # the debt would be exhausted: not the region we bisect in
        h2, _ = pred.maint_health(1, {ab: (-pred.ashares(ab, n), 0), lb: (0, -pred.lshares(lb, relief))})
        return h2
    nsev = R.bisect_max(lambda n: post_health(n) <= 0, max(1, have))
    if nsev < 2 or nsev >= have:
        dist["no-crossing"] = dist.get("no-crossing", 0) + 1
        return None
    dist["crossing"] = dist.get("crossing", 0) + 1
    for k in (1, 2, 3, 10, 100, 1000, nsev // 1000 + 5):
        if nsev + k <= have:
            ops.append([17, 0, 1, ab, lb, nsev + k])
    for k in (0, 1, 2):
        ops.append([17, 0, 1, ab, lb, max(1, nsev - k)])
    return R.case_line(2, 3, pf, now, banks, orcs, ops)


def _trace(suite, case, impl):
    # the hops output format is the risk output format; a hops case is a risk case with Fixed oracles only
    return R.Trace(case if suite == "risk" else R.hops_to_risk(case), impl)


def nontrivial(suite, case, impl):
    return R.liq_nontrivial(_trace(suite, case, impl))


RATIO_KEYS = ("liquidation-relief-not-95pct", "liquidator-payment-not-97.5pct", "insurance-fee-not-2.5pct")


def oracle(suite, case, impl):
    v = R.oracle_liq(_trace(suite, case, impl))
    if v or suite == "risk":
        return v
    # the shared hops oracle as a second opinion; its fee-ratio checks use a fixed tolerance that does not cover
    # degenerate prices of a few raw units (2^-48 dollars), where the proved rounding bound (used by oracle_liq) applies
    v = O.oracle_c05(O.Trace(case, impl))
    if v and v["key"] in RATIO_KEYS:
        return None
    return v
