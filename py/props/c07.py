"""C07 — bankruptcy: only real bad debt is discharged; insurance first, rest pro rata."""
from fractions import Fraction
import gen_bank as G
import gen_hops as H
import hops_oracles as O
from props import c14 as C14
from props import c08 as C08
from props import c09 as C09
from props import c12 as C12
ID = "C07"
MANIFEST = {
    "text": ("Kernel-checked theorems about the model of lending_pool_handle_bankruptcy and Bank::socialize_loss, for every world, "
             "account and bank: success implies the equity (unweighted) assets are < liabilities and < $0.1, liabilities > $0.0001, "
             "no flash loan, bank neither paused nor killed, and an active position in that bank whose liability after accrual is "
             "> 0.0001; covered = min(bad debt, insurance balance net of transfer fee), the insurance vault pays the pre-fee amount of "
             "ceil(covered), the liquidity vault receives >= ceil(covered), a loss is socialised only once the available insurance is "
             "exhausted; socialize_loss keeps 0 <= asv' <= asv, lowers total deposits by the loss up to an explicit rounding bound "
             "(< 1 ulp + tas ulps of share value), values every claim with the one new share value (pro rata), returns kill exactly when "
             "asv' = 0 (always when loss >= deposits) and the handler then sets KilledByBankruptcy; nobody else's shares move; the "
             "debt is cleared to a sub-ulp residual, totals move exactly with the position and ACCOUNT_DISABLED is set. The signer rule "
             "(admin / risk admin / permissionless flag 4) is the generated-table theorem of C08 restated. Tied to the real handler "
             "(sim runtime: SPL, Token-2022 and transfer-fee mints, funded insurance vaults, several depositors) by differential "
             "execution against the extracted model; the oracle re-evaluates every clause on the real account bytes in exact "
             "integers / Fractions, including every depositor's claim before and after."),
    "design_ref": "DESIGN.md §7 C07",
    "technique": "Coq proof (handler inversion + exact floor/trunc bounds for socialize_loss) + model/implementation correspondence at handler level",
}
THEOREMS = ["C07_only_real_bad_debt", "C07_equity_is_unweighted", "C07_only_real_bad_debt_unweighted",
            "C07_unweighted_assets_refuted", "C07_insurance_first", "C07_socialize_loss",
            "C07_socialize_in_ledger_worlds", "C07_loss_shared_pro_rata", "C07_debt_cleared_account_disabled", "C07_who_may_call", "C07_hypotheses_hold_in_wellformed_worlds",
            "C07_killed_bank_permanently_shut"]
RULE = ("level C (suite hops / hopsref, real handlers in the sim runtime): scenario stream = 1-3 depositors of very different sizes in "
        "the debt bank, insurance vault funded through collect_bank_fees to a chosen balance (0, 1, bad debt -1/=/+1, half, double), "
        "a debtor posting collateral in another bank and borrowing (a fraction or ALL of the liquidity, optionally two debtors), "
        "optional clock advance / accrual / partial repayment, collateral price crash (to ~0 or to $0.1 -/+ epsilon or clearly above), "
        "bankruptcy on the wrong bank / a healthy account / the debtor / again, then depositor exits and activity on the (killed) bank; "
        "SPL, Token-2022 and transfer-fee mints; share values 1 or accrued; tiny debts around the 0.0001 thresholds. Malformed stream = "
        "the random handler sequences of gen_hops plus scenario lines with dropped / duplicated operations and paused / reduce-only / "
        "killed banks. Non-trivial = at least one successful handle_bankruptcy; distinct = different case line")
ASSUMPTIONS = [
    "theorems (4),(5) assume the C02 ledger invariants of the pre-state (share values >= 0 / > 0, totals >= 0, position shares >= 0), proved invariant for the wrapper world in C02",
    "the signer of handle_bankruptcy in the handler-level world is the group admin; all signer identities / the permissionless flag are covered by C08's matrix (theorem restated as C07_who_may_call)",
    "'permanently shut': KilledByBankruptcy cannot be left by any admin instruction is C13 (C13_killed_forever, C13_killed_forever_sequences, C13_no_request_kills); here: the handler sets it and validate_bank_state refuses killed banks",
    "'receives at least ceil(covered)' for transfer-fee mints assumes a fee config with bps <= 10000 (enforced by Token-2022)",
]
OBSERVATIONS = [
    "FINDING bankruptcy-ignores-isolated-tier-deposits: the equity test values deposits in isolated-tier banks at 0, so an account with such a deposit worth more than its debt (and more than $0.1) can be declared bankrupt; proved as C07_unweighted_assets_refuted, the property's test holds on the unweighted assets for accounts without such a deposit (C07_only_real_bad_debt_unweighted)",
    "a bankruptcy fully covered by insurance still calls socialize_loss(0), whose floor-then-truncate rounding can lower the asset share value by one ulp (more only if the bank holds less than one whole share); covered by the proved bound, not a loss of value beyond (tas + 2^48)/2^96 native units",
    "socialize_loss also kills the bank when the new share value truncates to 0 although loss < total deposits (total shares > 2^48 * remaining value): the branch commented 'should be unreachable' in bank.rs is reachable; it errs on the safe side (depositors of a bank worth < 1 ulp per share)",
    "depositors lose at least the uncovered amount and at most (tas + 2^48) / 2^96 native units more (rounding of the share value goes against depositors, never against solvency)",
    "the residual liability after bankruptcy is not forced to 0: up to (lsv/2^48 + 1) ulps of debt shares remain and keep the balance active; the account is disabled, so it can only be closed via repay/close paths that C16 allows for disabled accounts (none) — the dust stays in total_liability_shares",
    "check_account_bankrupt runs BEFORE the bank's interest accrual in the handler, the 'owes' test after it",
]
ONE = G.ONE
U64 = G.U64_MAX
THR = 28147497671
NB_EXTRA = H.HB_EXTRA


# ------------------------------------------------------------------------------------------------
# generators
def fxr(x):
    return int(Fraction(x) * ONE)


def mk_bank(rng, now, role):
    """bank tokens for the scenario stream: no caps, operational, default tag, no e-mode"""
    t = G.gen_bank(rng, now, fresh=True, limits="none", tag=0,
                   sv="one" if rng.random() < 0.6 else "mixed", emissions=False)
    t[4] = t[5] = t[6] = 0
    if t[0] < ONE // 1000 or t[0] > 100 * ONE:
        t[0] = ONE
    t[7] = now
    t[8] = t[9] = U64
    t[11] = rng.choice([0, 2, 6, 6, 9])
    t[12] = rng.choice([0, 0, 4, 16]) if role == "debt" else 0
    t[17] = 1
    if role == "coll":
        awi = Fraction(rng.choice([50, 80, 90, 100]), 100)
        awm = min(Fraction(1), awi + Fraction(rng.choice([0, 5, 10]), 100))
        lwi, lwm = Fraction(1), Fraction(1)
        tier = 0
    else:
        awi = Fraction(rng.choice([0, 50, 80]), 100)
        awm = awi
        lwi = Fraction(rng.choice([100, 100, 110, 125]), 100)
        lwm = max(Fraction(1), lwi - Fraction(rng.choice([0, 5]), 100))
        tier = rng.choice([0, 0, 0, 1])
        if tier == 1:
            awi = awm = Fraction(0)
    price = rng.choice([ONE, ONE, 2 * ONE, ONE // 2, 100 * ONE, 25 * ONE + 12345, fxr(Fraction(rng.randrange(1, 10 ** 6), 1000))])
    if role == "debt":
        tokprog = rng.choice([0, 0, 1, 2, 2])
    else:
        tokprog = rng.choice([0, 0, 0, 1, 2])
    bps = rng.choice([1, 10, 100, 500, 0]) if tokprog == 2 else 0
    mx = rng.choice([0, 5, 10 ** 4, 10 ** 9, U64]) if tokprog == 2 else 0
    orig = rng.choice([0, 0, 0, fxr(Fraction(1, 100))]) if role == "debt" else 0
    extra = [fxr(awi), fxr(awm), fxr(lwi), fxr(lwm), tier, 0, price, tokprog, bps, mx, orig, 0, 0]
    return t + extra, {"dec": t[11], "price": price, "awi": awi, "lwi": lwi, "orig": Fraction(orig, ONE),
                       "tokprog": tokprog, "bps": bps, "mx": mx}


SIZES = [1, 7, 10 ** 3, 10 ** 6, 10 ** 9, 10 ** 12, 10 ** 15]
CAP = 1 << 61


def gen_scenario(rng, dist):
    nb = rng.choice([2, 2, 3])
    now = 1_700_000_000 + rng.randrange(0, 10 ** 7)
    pf = [rng.randrange(2), G.fx(Fraction(rng.randrange(0, 200), 10000)), G.fx(Fraction(rng.randrange(0, 500), 10000))]
    d = rng.randrange(nb)
    c = rng.choice([x for x in range(nb) if x != d])
    banks, info = [], []
    for k in range(nb):
        t, i = mk_bank(rng, now, "debt" if k == d else "coll")
        banks.append(t)
        info.append(i)
    fam = rng.choice(["insured", "insured", "insured", "kill", "kill", "threshold"])
    iso = None
    if nb == 3 and rng.random() < 0.35:
        # the debtor also holds a deposit in an isolated-tier bank (valued at 0 by the risk engine)
        iso = [x for x in range(3) if x not in (c, d)][0]
        banks[iso][G.BANK_TOKS + 0] = banks[iso][G.BANK_TOKS + 1] = 0
        banks[iso][G.BANK_TOKS + 4] = 1
        dist["isolated_deposit"] = dist.get("isolated_deposit", 0) + 1
    dist[fam] = dist.get(fam, 0) + 1
    dist["tokprog%d" % info[d]["tokprog"]] = dist.get("tokprog%d" % info[d]["tokprog"], 0) + 1
    ndep = rng.choice([1, 2, 3])
    ndebt = 2 if (fam == "kill" and rng.random() < 0.4) else 1
    dist["depositors=%d" % ndep] = dist.get("depositors=%d" % ndep, 0) + 1
    na = ndep + ndebt
    ops = []

    def usd(b, amt):
        return Fraction(amt * info[b]["price"], ONE * 10 ** info[b]["dec"])

    def amt_for(b, value):
        return max(1, -(-(value * 10 ** info[b]["dec"] * ONE) // max(1, info[b]["price"])))

    # depositors of very different sizes
    if fam == "threshold":
        sizes = [rng.choice([10 ** 3, 10 ** 6, 10 ** 9]) for _ in range(ndep)]
    else:
        sizes = [rng.choice(SIZES) for _ in range(ndep)]
        if max(sizes) < 1000:
            sizes[0] = rng.choice([10 ** 6, 10 ** 9, 10 ** 12])
    for k, s in enumerate(sizes):
        ops.append([1, k, d, s, 0])
    total = sum(sizes)
    # how much is borrowed, how much insurance
    if fam == "kill":
        ins = rng.choice([0, 0, 0, 1, 2, total // 10])
        ins = min(ins, total - 1)
        # everything the utilisation check allows: liabilities (incl. origination fee) <= deposits
        room = int(Fraction(total) / (1 + info[d]["orig"])) - (1 if info[d]["orig"] else 0)
        if info[d]["tokprog"] == 2 and info[d]["bps"]:
            # the liability booked is the pre-fee amount of what the borrower receives
            room -= min(-(-(room * info[d]["bps"]) // 10000), info[d]["mx"]) + ndebt
        borrow_total = max(1, min(total - ins, room) - rng.choice([0, 0, 0, 1, 2]))
    elif fam == "threshold":
        borrow_total = rng.choice([1, 1, 2, 3, 10, 100])
        ins = rng.choice([0, 0, 1, 5])
    else:
        borrow_total = max(1, rng.choice([1, 2, 1000, total // 1000, total // 3, total // 2]))
        borrow_total = min(borrow_total, max(1, total // 2))
        ins = rng.choice([0, 0, 1, borrow_total - 1, borrow_total, borrow_total + 1, borrow_total // 2, 2 * borrow_total,
                          borrow_total + borrow_total // 100])
        ins = max(0, min(ins, total - borrow_total))
    dist["ins_vs_debt:" + ("zero" if ins == 0 else "below" if ins < borrow_total else "equal" if ins == borrow_total else "above")] = \
        dist.get("ins_vs_debt:" + ("zero" if ins == 0 else "below" if ins < borrow_total else "equal" if ins == borrow_total else "above"), 0) + 1
    if ins > 0:
        banks[d][4] = ins * ONE + rng.choice([0, 0, 1, ONE // 2, ONE - 1])
        ops.append([16, d])
    # debtors
    shares = [borrow_total] if ndebt == 1 else [borrow_total // 2, borrow_total - borrow_total // 2]
    debtors = []
    for j, bamt in enumerate(shares):
        x = ndep + j
        if bamt <= 0:
            continue
        need = usd(d, bamt) * info[d]["lwi"] * (1 + info[d]["orig"]) / info[c]["awi"]
        mult = Fraction(rng.choice([102, 105, 120, 200]), 100)
        if amt_for(c, need * mult) + 2 > CAP:
            # make the collateral token valuable enough for the position to fit into a u64 amount
            f = -(-(amt_for(c, need * mult) + 2) // (CAP // 4))
            info[c]["price"] = min(info[c]["price"] * f, 1 << 100)
            banks[c][G.BANK_TOKS + 6] = info[c]["price"]
        camt = min(amt_for(c, need * mult) + 2, CAP)
        ops.append([1, x, c, camt, 0])
        if iso is not None and j == 0:
            v = rng.choice([Fraction(1, 100), Fraction(9, 100), Fraction(11, 100), Fraction(1), Fraction(1000), usd(d, bamt) * 2])
            ops.append([1, x, iso, min(amt_for(iso, v), CAP), 0])
        ops.append([3, x, d, bamt])
        debtors.append((x, camt, bamt))
    # time / accrual / partial repayment
    r = rng.random()
    dust = fam == "threshold" and debtors and rng.random() < 0.4
    if dust:
        # leave only the accrued interest of a tiny loan: a debt around 0.0001 native units
        dist["dust_debt"] = dist.get("dust_debt", 0) + 1
        # the risk engine ignores positions below one share: give a share a value around 0.0001 native units
        banks[d][1] = rng.choice([ONE // 20000, ONE // 10000, ONE // 9999, ONE // 5000, ONE // 1000])
        now += int(60 * 10 ** (rng.random() * 5.7))           # 1 minute .. 1 year, log-uniform
        ops.append([0, now])
        ops.append([10, d])
        ops.append([4, debtors[0][0], d, debtors[0][2], 0])
        # price of the debt token high enough for the dust to be worth more than $0.0001
        info[d]["price"] = min(10 ** info[d]["dec"] * ONE * rng.choice([1, 10, 1000, 1000, 10 ** 6, 10 ** 6]), 1 << 100)
        ops.append([19, d, info[d]["price"]])
    elif r < 0.45:
        now += rng.choice([1, 60, 3600, 86400, G.YEAR // 12, G.YEAR, 3 * G.YEAR])
        ops.append([0, now])
        if rng.random() < 0.5:
            ops.append([10, d])
    if debtors and not dust and rng.random() < (0.5 if fam == "kill" else 0.15):
        x, camt, bamt = debtors[0]
        rp = rng.choice([1, 1, 2, max(1, bamt // 2), max(1, bamt - 1)])
        ops.append([4, x, d, rp, 0])
    # collateral price crash
    for (x, camt, bamt) in debtors[:1]:
        L = usd(d, bamt)
        m = rng.random()
        if dust and m < 0.8:
            p = rng.choice([1, 1, 2])
        elif fam == "threshold" or m < 0.3:
            tgt = rng.choice([Fraction(1, 10), Fraction(1, 10), Fraction(9, 100), Fraction(2, 10), Fraction(1), L, L / 2, 2 * L])
            p = int(tgt * 10 ** info[c]["dec"] * ONE * ONE / max(1, camt * ONE)) + rng.choice([-2, -1, 0, 1, 2])
            p = max(1, min(p, 1 << 100))
        else:
            p = rng.choice([1, 1, 2, 1000])
        info[c]["price"] = p
        ops.append([19, c, p])
    if fam == "threshold" and not dust and rng.random() < 0.5:
        # move the debt bank's price so that the liability value sits around $0.0001
        tgt = Fraction(1, 10000)
        bamt = debtors[0][2] if debtors else 1
        p = int(tgt * 10 ** info[d]["dec"] * ONE / max(1, bamt)) + rng.choice([-1, 0, 1, 2, 100])
        p = max(1, min(p, 1 << 100))
        info[d]["price"] = p
        ops.append([19, d, p])
    # noise before
    if rng.random() < 0.25 and debtors:
        ops.append([18, debtors[0][0], c])          # bank where the account has assets only
    if rng.random() < 0.2:
        ops.append([18, 0, d])                      # a depositor is not bankrupt
    if rng.random() < 0.1 and nb == 3 and debtors:
        ops.append([18, debtors[0][0], [x for x in range(3) if x not in (c, d)][0]])   # no position
    for (x, camt, bamt) in debtors:
        ops.append([18, x, d])
    # afterwards
    if rng.random() < 0.3 and debtors:
        ops.append([18, debtors[0][0], d])
    for _ in range(rng.randrange(0, 4)):
        q = rng.random()
        k = rng.randrange(ndep)
        if q < 0.35:
            ops.append([2, k, d, 0, 1])
        elif q < 0.5:
            ops.append([2, k, d, max(1, sizes[k] // 2), 0])
        elif q < 0.65:
            ops.append([1, k, d, rng.choice([1, 1000]), 0])
        elif q < 0.75:
            ops.append([10, d])
        elif q < 0.85:
            ops.append([16, d])
        elif debtors:
            x = debtors[0][0]
            ops.append(rng.choice([[4, x, d, 1, 1], [2, x, c, 0, 1], [1, x, c, 5, 0], [3, x, d, 1]]))
    return case_line(nb, na, pf, banks[0][7], banks, ops)


def case_line(nb, na, pf, now0, banks, ops):
    toks = [nb, na] + pf + [now0]
    for bk in banks:
        toks += bk
    toks.append(len(ops))
    for o in ops:
        toks += H.clamp_op(o)
    return " ".join(map(str, toks))


def mangle(rng, line):
    """malformed stream: drop / duplicate / swap operations, change operational states"""
    c = H.parse_case(line)
    t = line.split()
    i = 6
    heads = []
    for b in c["banks"]:
        heads.append(i)
        i += G.BANK_TOKS + H.HB_EXTRA + 4 * len(b["emode"])
    pre = t[:i]
    ops = [list(o) for o in c["ops"]]
    for _ in range(rng.randrange(1, 4)):
        m = rng.random()
        if m < 0.3 and len(ops) > 1:
            del ops[rng.randrange(len(ops))]
        elif m < 0.5 and ops:
            ops.insert(rng.randrange(len(ops) + 1), list(rng.choice(ops)))
        elif m < 0.65 and len(ops) > 1:
            a, b = rng.randrange(len(ops)), rng.randrange(len(ops))
            ops[a], ops[b] = ops[b], ops[a]
        elif m < 0.85:
            h = rng.choice(heads)
            pre[h + 17] = str(rng.choice([0, 2, 3, 1]))
        else:
            ops.append([18, rng.randrange(c["na"]), rng.randrange(c["nb"])])
    out = pre + [str(len(ops))]
    for o in ops:
        out += list(map(str, o))
    return " ".join(out)



PERMISSIONLESS_FLAG = 4


def privileged_flag_suite(rng, n):
    """'anyone only if the bank opted in': the opt-in is the bank flag PERMISSIONLESS_BAD_DEBT_SETTLEMENT, which only the group
    admin's configure_bank may set. C12's generator of delegated-administrator instructions (emissions set-up / update with
    every kind of flag word, interest-only, limits-only, e-mode, oracle, metadata ...) through the real entry point: the bit
    may change only in a configure_bank signed by the admin"""
    lines = []
    while len(lines) < n:
        l = C12.gen_priv_case(rng)
        if " ESET " in f" {l} " or " EUPD " in f" {l} ":
            lines.append(l)
    return {"suite": "privsim", "name": "permissionless-opt-in-only-by-the-admin", "lines": lines,
            "distribution": {"cases": n, "note": "privsim cases containing an emissions set-up or update"}}


def oracle_optin_priv(case, impl):
    parts = impl.split(" | ")
    steps = C12.parse_priv_steps(case)
    if len(parts) != 2 + len(steps):
        return None
    flags = {0: int(parts[0].split()[C12.FLAGS_AT]), 1: int(parts[1].split()[C12.FLAGS_AT])}
    for st, outp in zip(steps, parts[2:]):
        status, j, dump, dn, an = C12.parse_step_out(outp)
        if status != "OK" or dump is None:
            continue
        before, after = flags[j], int(dump[C12.FLAGS_AT])
        flags[j] = after
        if (before ^ after) & PERMISSIONLESS_FLAG and st[0] != "CFG":
            return {"key": "permissionless-settlement-switched-by-non-admin-instruction",
                    "what": f"{st[0]} on bank {j} changed the PERMISSIONLESS_BAD_DEBT_SETTLEMENT flag (flags {before:#x} -> {after:#x}): "
                            "after that anybody may / may no longer settle the bank's bad debt although the admin never configured it"}
    return None

def suites(rng, tier):
    n = {"quick": 1800, "thorough": 22000, "search": 6000}[tier]
    m = {"quick": 500, "thorough": 6000, "search": 1500}[tier]
    dist = {}
    a = [gen_scenario(rng, dist) for _ in range(n)]
    b = []
    for k in range(m):
        b.append(mangle(rng, gen_scenario(rng, {})) if k % 2 == 0 else H.gen_case(rng, max_ops=22))
    return [{"suite": "hops", "name": "hops-bankruptcy-scenarios", "lines": a, "distribution": dict(dist, cases=n)},
            {"suite": "hops", "name": "hops-bankruptcy-malformed", "lines": b,
             "distribution": {"cases": m, "mangled_scenarios": (m + 1) // 2, "random_handler_sequences": m // 2}},
            {"suite": "hopsref", "name": "hops-bankruptcy-accrual-reference", "lines": a, "impl_only": True,
             "distribution": {"cases": n, "note": "same scenario lines; adds the real accrue_interest applied in isolation, "
                                                   "so that the oracle knows the share value the loss was taken from"}},
            C14.killed_suite(rng, {"quick": 150, "thorough": 3000, "search": 1000}[tier]),
            optin_suite(rng, {"quick": 120, "thorough": 2500, "search": 800}[tier]),
            {"suite": "oraclerisk", "name": "bankruptcy-assessment-with-bad-oracles",
             "lines": [C09.gen_risk_case(rng, "valid" if rng.random() < 0.5 else "malformed", {}) for _ in range({"quick": 500, "thorough": 8000, "search": 3000}[tier])],
             "distribution": {"note": "the Equity valuation behind check_account_bankrupt (real RiskEngine) on positions whose oracle is stale, foreign, wrongly owned or too uncertain: the assessment must FAIL, never count the collateral as worth nothing (C09's generator; only the Equity verdicts are judged here)"}},
            privileged_flag_suite(rng, {"quick": 900, "thorough": 12000, "search": 4000}[tier]),
            {"suite": "auth", "name": "who-may-settle-bad-debt",
             "lines": [l for l in C08.matrix() if C08.kvs(l)["ix"] == "lending_pool_handle_bankruptcy"],
             "distribution": {"note": "the authorization-matrix cells of lending_pool_handle_bankruptcy (every signer role, permissionless flag on / off, every single account substitution) through the real entry point"}}]


def optin_suite(rng, n):
    """'unless the bank opted into permissionless settlement': the opt-in is the bank flag that only
    lending_pool_configure_bank writes. Sequences of real configure requests whose permissionless option is absent,
    Some(false) or Some(true) (fresh banks, repeated opt-outs, opt-in / opt-out alternations, other options riding along):
    after every accepted request the flag must be exactly what the requests said (C13's configuration oracle, key :4)"""
    C13 = C14.C13
    cfg2 = C13._std_compact(C13.fx(C13.Fraction(3, 2)), C13.fx(C13.Fraction(5, 4)))
    cfg2["okey"], cfg2["tag"] = 1, 2
    head = [C13.NOW] + C13.cfg_toks(cfg2) + [16]

    def opt(perm, extra):
        t = ["N"] * 16
        if perm is not None:
            t[13:14] = ["S", str(perm)]
        if extra:
            t[4:5] = ["S", str(rng.choice([0, 1, 10 ** 9, C13.U64]))]
        return t
    scripted = [(0,), (0, 0), (1,), (1, 0), (1, 1, 0, 0, 1), (None, 0), (0, None, 1), (1, None, 0, 0)]
    lines = []
    while len(lines) < n:
        sq = scripted[len(lines)] if len(lines) < len(scripted) else tuple(rng.choice([None, 0, 0, 1]) for _ in range(rng.choice([1, 2, 3, 5])))
        base = C13._std_compact(C13.ONE, C13.ONE) if len(lines) % 2 == 0 else C13.gen_cfg(rng, True, tag_std=True)
        base["op"] = 1
        steps = [C13.line("ADD", 0, C13.compact_toks(base))]
        for pm in sq:
            steps.append(C13.line("CFG", 0, opt(pm, rng.random() < 0.3)))
        lines.append(C13.line(head, len(steps), *steps))
    return {"suite": "cfgsim", "name": "permissionless-opt-in-follows-requests", "lines": lines,
            "distribution": {"sequences": n, "scripted": len(scripted)}}


def nontrivial(suite, case, impl):
    if suite == "privsim":
        return C12.nontrivial(suite, case, impl)
    if suite == "cfgsim":
        return C14.nontrivial(suite, case, impl)
    if suite == "auth":
        return C08.nontrivial(suite, case, impl)
    if suite == "oraclerisk":
        return C09.nontrivial(suite, case, impl)
    tr = O.Trace(case, impl)
    return tr.ok and any(op[0] == 18 and res == "OK" for op, res, *_ in O.walk(tr))


# ------------------------------------------------------------------------------------------------
# oracle: every clause of the property on the implementation's output
def t22_fee(cfg, amount):
    if cfg["tokprog"] != 2 or cfg["bps"] == 0 or amount == 0:
        return 0
    return min(-(-(amount * cfg["bps"]) // 10000), cfg["maxfee"])


def unweighted(tr, acct, banks, prices):
    """(assets, liabilities) in dollars, every position at weight 1 — deposits in isolated-tier banks included"""
    A = Fraction(0)
    L = Fraction(0)
    for s in acct["slots"]:
        k = s["bank"] - 1
        cf, bk = tr.cfg[k], banks[k]
        dec = 9 if cf["tag"] == 4 else cf["decimals"]
        price = Fraction(prices[k], ONE)
        if s["l"] >= ONE:
            L += Fraction(s["l"] * bk["lsv"], ONE * ONE) * price / 10 ** dec
        elif s["a"] >= ONE:
            A += Fraction(s["a"] * bk["asv"], ONE * ONE) * price / 10 ** dec
    return A, L


def same_banks(x, y):
    """the trace's synthetic initial state carries fewer fields than a dump: compare the common ones"""
    return all(all(p[f] == q[f] for f in p if f in q) for p, q in zip(x, y))


def slot_of(acct, b):
    s = [x for x in acct["slots"] if x["bank"] == b + 1]
    return s[0] if s else None


def oracle(suite, case, impl):
    if suite == "privsim":
        return oracle_optin_priv(case, impl)
    if suite == "auth":
        return C08.oracle(suite, case, impl)
    if suite == "oraclerisk":
        v = C09.oracle(suite, case, impl)
        return v if v and v["what"].startswith("Equity") else None
    if suite == "cfgsim":
        v = C14.oracle(suite, case, impl)      # 'permanently shut': no sequence of admin requests revives a killed bank
        if v:
            return v
        v = C14.C13.oracle(suite, case, impl)  # the permissionless opt-in flag is exactly what configure_bank was asked
        return v if v and v["key"] == "config-flag-not-as-requested:4" else None
    tr = O.Trace(case, impl)
    if not tr.ok:
        return None
    i = -1
    for op, res, b0, a0, b1, a1, now, prices in O.walk(tr):
        i += 1
        # a killed bank never leaves the killed state (tie to C13), whatever the instruction
        for k in range(tr.nb):
            if b0[k]["op_state"] == 3 and b1[k]["op_state"] != 3:
                return {"key": "killed-bank-revived", "what": f"bank {k} left the killed state after {H.OPN[op[0]]}"}
            if b1[k]["asv"] < 0:
                return {"key": "negative-share-value", "what": f"bank {k} asset share value negative"}
            if op[0] != 18 and b1[k]["op_state"] == 3 and b0[k]["op_state"] != 3:
                return {"key": "killed-outside-bankruptcy", "what": f"{H.OPN[op[0]]} killed bank {k}"}
        if op[0] != 18:
            continue
        a, b = op[1], op[2]
        if res != "OK":
            if i > 0 and (not same_banks(b0, b1) or a1 != a0):     # (step 0 starts from the trace's synthetic state)
                return {"key": "failed-bankruptcy-changed-state", "what": f"handle_bankruptcy failed with {res} but state changed"}
            continue
        refs = tr.refs[i] if tr.with_refs else None
        v = check_bankruptcy(tr, a, b, b0, a0, b1, a1, now, prices, refs)
        if v:
            return v
    return None


def check_bankruptcy(tr, a, b, b0, a0, b1, a1, now, prices, refs):
    cfg = tr.cfg[b]
    o, n = b0[b], b1[b]
    # ---- (1) only real bad debt -----------------------------------------------------------------
    pre = {"slots": a0[a]["slots"], "flags": a0[a]["flags"]}
    A, L = O.health(tr, pre, b0, prices, "equity")
    t = O.tol(A, L)
    if not A < L + t:
        return {"key": "bankruptcy-of-solvent-account", "what": f"bankruptcy accepted with equity assets {float(A)} >= liabilities {float(L)}"}
    if not A < Fraction(1, 10) + t:
        return {"key": "bankruptcy-with-assets-over-10c", "what": f"bankruptcy accepted with equity assets ${float(A)} >= $0.1"}
    if not L > Fraction(1, 10000) - t:
        return {"key": "bankruptcy-without-liabilities", "what": f"bankruptcy accepted with liabilities ${float(L)} <= $0.0001"}
    AU, LU = unweighted(tr, pre, b0, prices)
    tu = O.tol(AU, LU)
    if not (AU < LU + tu and AU < Fraction(1, 10) + tu):
        return {"key": "bankruptcy-ignores-isolated-tier-deposits",
                "what": f"bankruptcy accepted for an account whose unweighted assets are ${float(AU)} (liabilities ${float(LU)}): "
                        f"deposits in isolated-tier banks are valued at 0 by the equity test"}
    if a0[a]["flags"] & 2:
        return {"key": "bankruptcy-in-flashloan", "what": "bankruptcy accepted inside a flash loan"}
    if o["op_state"] in (0, 3):
        return {"key": "bankruptcy-on-paused-or-killed-bank", "what": f"bankruptcy accepted on a bank in state {o['op_state']}"}
    s0 = slot_of(a0[a], b)
    if s0 is None:
        return {"key": "bankruptcy-no-position", "what": "no position in the bank"}
    lsv = n["lsv"]                       # accrual runs first and nothing else moves the liability share value
    if n["lsv"] < o["lsv"]:
        return {"key": "liability-share-value-fell", "what": "bankruptcy lowered the liability share value"}
    bad = s0["l"] * lsv // ONE
    if not bad > THR:
        return {"key": "bankruptcy-without-debt-in-bank", "what": f"debt in the bank is {bad} raw <= 0.0001"}
    # share value the loss is taken from: accrued to `now`
    if refs is not None and refs[b] is not None:
        asv_acc = refs[b][0]
        if refs[b][1] != lsv:
            return {"key": "interest-not-accrued-first", "what": "liability share value after bankruptcy differs from accrual to the current time"}
    elif o["last_update"] == now:
        asv_acc = o["asv"]
    else:
        asv_acc = None
    # ---- (2) insurance first ----------------------------------------------------------------------
    avail = o["insv"] - t22_fee(cfg, o["insv"])
    covered = min(bad, avail * ONE)
    loss = bad - covered
    moved = -(-covered // ONE)
    paid = o["insv"] - n["insv"]
    got = n["vault"] - o["vault"]
    if cfg["tokprog"] != 2:
        if paid != moved or got != moved:
            return {"key": "insurance-transfer-wrong", "what": f"covered {covered} raw: insurance vault paid {paid}, liquidity vault received {got}, expected {moved}"}
    else:
        if got < moved:
            return {"key": "insurance-transfer-short", "what": f"liquidity vault received {got} < ceil(covered) = {moved}"}
        if paid - got != t22_fee(cfg, paid) or paid > o["insv"] or paid < 0:
            return {"key": "insurance-transfer-wrong", "what": f"insurance vault paid {paid}, liquidity vault received {got}: not one transfer with the mint's fee"}
        if got > moved + 1 and paid > moved + t22_fee(cfg, paid) + 1:
            return {"key": "insurance-overdrawn", "what": f"liquidity vault received {got} for ceil(covered) = {moved}"}
    if n["feev"] != o["feev"] or n["feeata"] != o["feeata"]:
        return {"key": "fee-vault-moved", "what": "bankruptcy changed a fee destination balance"}
    if loss > 0 and n["insv"] > t22_fee(cfg, o["insv"]):
        return {"key": "socialised-before-insurance", "what": f"loss {loss} raw socialised while {n['insv']} tokens stayed in the insurance vault"}
    # ---- (3) socialisation ------------------------------------------------------------------------
    tas = o["tas"]
    if n["tas"] != tas:
        return {"key": "total-asset-shares-moved", "what": "bankruptcy changed total asset shares"}
    if (n["asv"] == 0) != (n["op_state"] == 3):
        return {"key": "kill-mismatch", "what": f"asset share value {n['asv']} but operational state {n['op_state']}"}
    if n["op_state"] != 3 and n["op_state"] != o["op_state"]:
        return {"key": "operational-state-changed", "what": "bankruptcy changed the operational state other than to killed"}
    if asv_acc is not None:
        if not 0 <= n["asv"] <= asv_acc:
            return {"key": "share-value-out-of-range", "what": f"asset share value {asv_acc} -> {n['asv']}"}
        D0 = tas * asv_acc
        D1 = tas * n["asv"]
        # (a fully covered debt may still cost depositors the rounding of socialize_loss(0): bounded below)
        if D0 // ONE <= loss:
            if n["asv"] != 0 or n["op_state"] != 3:
                return {"key": "wiped-out-bank-not-killed", "what": f"loss {loss} >= deposits {D0 // ONE} but share value {n['asv']}, state {n['op_state']}"}
        else:
            if D0 - D1 < loss * ONE:
                return {"key": "loss-under-socialised", "what": f"deposits fell by {D0 - D1} / 2^96 < loss {loss} / 2^48"}
        if D0 - D1 >= (loss + 1) * ONE + tas:
            return {"key": "loss-over-socialised", "what": f"deposits fell by {D0 - D1} / 2^96, loss {loss} / 2^48 (allowance 2^48 + tas)"}
    # ---- (4) every depositor, pro rata; nobody else touched ---------------------------------------
    for k in range(tr.nb):
        if k != b and not same_banks([b0[k]], [b1[k]]):
            return {"key": "other-bank-touched", "what": f"bankruptcy in bank {b} changed bank {k}"}
    lost = Fraction(0)
    shares = 0
    for k in range(len(a0)):
        if k != a and a1[k] != a0[k]:
            return {"key": "other-account-touched", "what": f"bankruptcy of account {a} changed account {k}"}
        for s in a0[k]["slots"]:
            s1 = [x for x in a1[k]["slots"] if x["bank"] == s["bank"]]
            if not s1 or s1[0]["a"] != s["a"]:
                return {"key": "asset-shares-moved", "what": f"account {k} asset shares in bank {s['bank'] - 1} changed"}
            if k == a and s["bank"] != b + 1 and s1[0] != s:
                return {"key": "other-position-touched", "what": f"bankrupt account's position in bank {s['bank'] - 1} changed"}
            if s["bank"] == b + 1 and asv_acc is not None:
                before = Fraction(s["a"] * asv_acc, ONE * ONE)
                after = Fraction(s1[0]["a"] * n["asv"], ONE * ONE)
                if after * asv_acc != before * n["asv"]:
                    return {"key": "not-pro-rata", "what": f"account {k}: claim {before} -> {after} is not scaled by {n['asv']}/{asv_acc}"}
                if after > before:
                    return {"key": "claim-grew", "what": f"account {k}: claim grew in a bankruptcy"}
                lost += before - after
                shares += s["a"]
    if asv_acc is not None:
        if shares > tas:
            return {"key": "total-below-positions", "what": "positions exceed total asset shares"}
        # all depositors together lose no more than the uncovered amount plus the rounding allowance
        if lost * ONE * ONE >= (loss + 1) * ONE + tas:
            return {"key": "depositors-lost-more-than-loss", "what": f"depositors lost {float(lost)} for an uncovered amount of {float(Fraction(loss, ONE))}"}
        if shares == tas and D0 // ONE > loss and lost * ONE * ONE < loss * ONE:
            return {"key": "depositors-lost-less-than-loss", "what": f"depositors lost {float(lost)} < uncovered {float(Fraction(loss, ONE))}"}
    # ---- (5) debt cleared, account disabled -------------------------------------------------------
    s1 = slot_of(a1[a], b)
    if not a1[a]["flags"] & 1:
        return {"key": "bankrupt-account-not-disabled", "what": "account not disabled after bankruptcy"}
    if a1[a]["flags"] & ~1 != a0[a]["flags"] & ~1:
        return {"key": "account-flags-changed", "what": "bankruptcy changed account flags other than DISABLED"}
    l1 = s1["l"] if s1 else 0
    if l1 < 0 or l1 > s0["l"]:
        return {"key": "bad-debt-not-cleared", "what": f"liability shares {s0['l']} -> {l1}"}
    if l1 * lsv >= ONE + lsv:
        return {"key": "bad-debt-not-cleared", "what": f"liability shares {l1} worth {l1 * lsv // ONE} raw remain after bankruptcy"}
    if n["tls"] - o["tls"] != l1 - s0["l"]:
        return {"key": "total-delta-mismatch", "what": f"total liability shares moved by {n['tls'] - o['tls']}, the position by {l1 - s0['l']}"}
    return None
