"""C03 — no free value: no operation or round trip pays out more than it debits."""
import gen_bank as G
import gen_hops as H
import hops_oracles as O
ID = "C03"
MANIFEST = {
    "text": ("Kernel-checked theorems over the BankAccountWrapper model: every increase credits at most the amount paid, every "
             "decrease debits at least the amount paid out (up to one ulp of each share value), full withdrawal rounds down and "
             "full repayment rounds up with the sub-token fraction booked to insurance fees, and for operation sequences of ANY "
             "length at unchanged share values tokens gained + position value change <= explicit rounding allowance (induction "
             "over the sequence). Tied to the real BankAccountWrapper/Bank code by differential execution of generated operation "
             "sequences; the oracle re-derives every inequality from the real account/bank state in exact integers."),
    "design_ref": "DESIGN.md §7 C03",
    "technique": "Coq proof (per-operation inversion lemmas + induction over operation sequences) + model/implementation correspondence on the wrapper state machine",
}
THEOREMS = ["C03_increase_credits_at_most_paid", "C03_decrease_debits_at_least_paid", "C03_withdraw_all_rounds_down",
            "C03_repay_all_rounds_up", "C03_no_profitable_round_trip", "C03_prefee_covers", "C03_prefee_covers_in_every_epoch"]
RULE = ("operation sequences (deposit/withdraw/borrow/repay/withdraw_all/repay_all/close/liquidation primitives/accrue/"
        "socialise/claim/sort/clock) over 1-3 banks and 1-4 accounts executed on the real Bank + BankAccountWrapper; share "
        "values 1, accrued, post-loss and extreme; amounts 1, 2, 10^k, previous amount +-1, u64::MAX; fractional I80F48 amounts "
        "in a separate stream; plus transfer-fee (bps, max_fee, amount) triples. Non-trivial = sequence with >= 2 successful "
        "value-moving operations; distinct = different case line")
ASSUMPTIONS = [
    "share values: asset share value >= 0, liability share value > 0; balances have non-negative shares (proved invariant of the wrapper ops, see C02)",
    "the token amount actually transferred by a handler equals the amount passed to the wrapper (handler-level tie: level C suites of C01)",
    "Token-2022 transfer-fee arithmetic is SPL library code (spl-token-2022 7.0.0 calculate_pre_fee_amount / calculate_fee), modelled in TransferFee.v and compared with the real library functions",
]
OBSERVATIONS = [
    "withdraw_all forgives liability dust below 0.0001 token (ZERO_AMOUNT_THRESHOLD) and repay_all abandons asset dust below the same threshold; both appear as explicit terms in the round-trip theorem",
    "repay_all charges ceil(floor_ulp(debt)); the charge can be below the exact debt by less than one I80F48 ulp (2^-48 token)",
]
ONE = G.ONE
THR = 28147497671  # ZERO_AMOUNT_THRESHOLD bits = floor(0.0001 * 2^48); re-read from output not needed: only used as an upper bound


def suites(rng, tier):
    n = {"quick": 1200, "thorough": 30000, "search": 20000}[tier]
    a = [G.gen_case(rng, max_ops=28, limits="mixed", liq_ops=True, loss_ops=True) for _ in range(n)]
    out = [{"suite": "bankops", "name": "bankops-int", "lines": a, "distribution": {"cases": n, "max_ops": 28}}]
    if tier != "search":
        m = n // 3
        b = [G.gen_case(rng, max_ops=20, limits="none", frac_amounts=True, emissions=False) for _ in range(m)]
        out.append({"suite": "bankops", "name": "bankops-frac", "lines": b, "distribution": {"cases": m, "fractional_amounts": True}})
        k = {"quick": 1500, "thorough": 40000}[tier]
        out.append({"suite": "prefee", "name": "prefee", "lines": [gen_prefee(rng) for _ in range(k)], "distribution": {"cases": k}})
    h = {"quick": 500, "thorough": 10000, "search": 4000}[tier]
    out.append({"suite": "hops", "name": "hops-no-free-value", "lines": [H.gen_case(rng, max_ops=24) for _ in range(h)],
                "distribution": {"cases": h, "note": "the same law at instruction level (real deposit / withdraw / borrow / repay handlers incl. the Token-2022 pre-fee glue): tokens received + position value never rise through an operation"}})
    return out


U64 = (1 << 64) - 1


def gen_prefee(rng):
    bps = rng.choice([0, 1, 5, 100, 9999, 10000, rng.randrange(0, 10001)])
    maxfee = rng.choice([0, 1, 1000, U64, rng.randrange(0, 10 ** 12), rng.randrange(0, U64)])
    m = rng.random()
    if m < 0.3:
        post = rng.choice([0, 1, 2, 9, 10, 9999, 10000, 10001, U64, U64 - 1, U64 - maxfee if maxfee <= U64 else 0])
    elif m < 0.6:
        post = rng.randrange(0, 10 ** 6)
    else:
        post = int(10 ** (rng.random() * 19.2))
    post = max(0, min(U64, post))
    if rng.random() < 0.4:
        # a pending fee change: (bps, maxfee) is the NEWER schedule starting at epoch e_new; the call happens in `epoch`
        old_bps = rng.choice([0, 1, 5, 100, 9999, 10000, rng.randrange(0, 10001)])
        old_max = rng.choice([0, 1, 1000, U64, rng.randrange(0, 10 ** 12)])
        e_new = rng.choice([1, 2, 600, U64])
        epoch = max(0, min(U64, rng.choice([e_new - 1, e_new, e_new, e_new + 1, 0])))
        return f"{bps} {maxfee} {post} {old_bps} {old_max} {e_new} {epoch}"
    return f"{bps} {maxfee} {post}"


def nontrivial(suite, case, impl):
    if suite == "prefee":
        return not impl.startswith("NONE") and not case.startswith("0 ")
    ok = 0
    for seg in impl.split(" | "):
        if seg.startswith("OK"):
            ok += 1
    return ok >= 3


def oracle(suite, case, impl):
    if suite == "prefee":
        return oracle_prefee(case, impl)
    if suite == "hops":
        return O.oracle_c03_instruction(O.Trace(case, impl))
    c = G.parse_case(case)
    outs = G.parse_out(impl)
    pos = {}   # (acct, bank) -> (a, l)
    for op, (res, bank, acct) in zip(c["ops"], outs):
        k = op[0]
        if res[0] != "OK":
            continue
        if k == 7:
            # close_balance pays nothing: whatever the position still owed is forgiven; only dust may be
            pa, pl = pos.get((op[1], op[2]), (0, 0))
            if pl * bank["lsv"] >= (THR + 1) * ONE:
                return {"key": "close-forgives-debt", "what": f"close_balance closed a position owing {pl * bank['lsv']}/2^96 tokens (more than the 0.0001 dust)"}
        if k in (1, 2, 3, 4, 5, 6, 8, 9):
            a_i, b_i, amt = op[1], op[2], op[3]
            key = (a_i, b_i)
            pa, pl = pos.get(key, (0, 0))
            slot = [s for s in acct if s["bank"] == b_i + 1]
            na, nl = (slot[0]["a"], slot[0]["l"]) if slot else (0, 0)
            asv, lsv = bank["asv"], bank["lsv"]
            dval = (na * asv - nl * lsv) - (pa * asv - pl * lsv)
            if k in (1, 4, 8):
                if dval > amt * ONE:
                    return {"key": "credit>paid", "what": f"{G.OPN[k]} of {amt} bits credited value {dval} > {amt * ONE}"}
            elif k in (2, 3, 9):
                if not (amt * ONE - asv - lsv < -dval):
                    return {"key": "debit<paid", "what": f"{G.OPN[k]} of {amt} bits debited only {-dval} (< {amt*ONE} - asv - lsv)"}
            elif k == 5:
                n = int(res[1])
                if n * ONE * ONE > pa * asv:
                    return {"key": "withdraw_all-rounds-up", "what": f"withdraw_all paid {n} tokens for asset value {pa*asv}/2^96"}
                if pl * lsv >= (THR + 1) * ONE:
                    return {"key": "withdraw_all-forgives-debt", "what": f"withdraw_all closed a position owing {pl*lsv}/2^96"}
            elif k == 6:
                n = int(res[1])
                if not (pl * lsv - ONE < n * ONE * ONE):
                    return {"key": "repay_all-rounds-down", "what": f"repay_all charged {n} tokens for debt {pl*lsv}/2^96"}
        # refresh positions of this account from the dump
        if acct is not None and len(op) >= 2 and k in (1, 2, 3, 4, 5, 6, 7, 8, 9, 12, 13, 14):
            a_i = op[1]
            for kk in [x for x in pos if x[0] == a_i]:
                del pos[kk]
            for s in acct:
                pos[(a_i, s["bank"] - 1)] = (s["a"], s["l"])
    return None


def oracle_prefee(case, impl):
    bps, maxfee, post = map(int, case.split()[:3])
    if impl.startswith("NONE") or impl.startswith("PANIC"):
        return None
    pre, fee = map(int, impl.split())
    if pre - fee < post:
        return {"key": "prefee-undercovers", "what": f"case {case}: pre-fee amount {pre} minus the fee {fee} the mint charges in that epoch < requested {post}"}
    return None
