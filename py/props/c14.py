"""C14 — operational-state and global-pause gating of financial instructions."""
from props import authlib as A
from props import c15 as C15
from props import risklib as R, riskgen as RG
from props import c13 as C13

ID = "C14"
MANIFEST = {
    "text": ("validate_bank_state is proved equal to the property's truth table; over the regenerated handler facts "
             "(which InstructionKind every handler passes, gen/coqgen_accounts.py -> coq/gen/HandlerFacts.v) and the "
             "regenerated accounts table (every financial instruction carries !is_protocol_paused on its group) the "
             "gating theorems hold for every world; is_protocol_paused = flag and fewer than 1800 s since the cached "
             "start, for every cache and clock, so an expired pause stops blocking without any cache update. Tied to "
             "the real handlers by the enumerated matrix financial instruction x bank state x pause timing x cache "
             "propagation executed through marginfi::entry."),
    "design_ref": "DESIGN.md §7 C14, §5.1",
    "technique": ("Coq proof over generated finite facts (vm_compute checker + soundness lemma) and over all caches/"
                  "clocks + model/implementation correspondence on an enumerated matrix through the real entry point"),
}
THEOREMS = [
    "C14_bank_state_table", "C14_deposit_borrow_need_operational", "C14_withdraw_repay_liquidate_need_not_paused",
    "C14_reduce_only_withdraw_repay_still_work", "C14_financial_instructions_refused_while_paused",
    "C14_financial_instructions_exist", "C14_paused_iff_flag_and_not_expired", "C14_expired_pause_accepts_again",
    "C14_pause_constraint_after_expiry", "C14_reduce_only_valuation", "C14_killed_permanently",
]
RULE = ("enumerated matrix: each of the 21 financial instructions x bank operational state {Operational, Paused, "
        "ReduceOnly, KilledByBankruptcy} (bank-gated instructions; for liquidation on either bank) x {no pause; global "
        "pause started at S with the clock at S-1, S, S+1799, S+1800, S+1801} x {group cache propagated, not "
        "propagated}; reduce-only valuation scenarios (borrow against / liquidate an account whose only collateral is "
        "in a bank of each state); plus a randomised stream (random state, cache flag, cached start and clock in "
        "[S-3000, S+4000]). Non-trivial = the real program produced a verdict; distinct = different case line")
ASSUMPTIONS = [
    "cached pause start within +-2^62 and clock in [0, 2^62) (the i64 subtraction of is_expired cannot overflow)",
    "the validate_bank_state call sites are read syntactically from the handler bodies (translator fails if a call is "
    "not directly inside an instruction handler); what the handlers do is tied by the matrix",
    "the rest of calc_weighted_asset_value (price, weights, discount) is an argument of the modelled rule: the theorem "
    "says the operational state enters the valuation only through the (ReduceOnly, Initial) => 0 test",
    "Kamino / Drift / Solend deposit / withdraw cannot complete without the venue program: their cells compare the "
    "account-validation verdict and the program-error number of an early handler refusal (mode gate)",
    "transaction rollback on error is a property of the Solana runtime (modelled as 'state unchanged')",
]
OBSERVATIONS = [
    "an account WITH debt whose collateral sits in a reduce-only bank cannot withdraw from it: the gate lets the "
    "withdrawal through, the post-withdraw Initial health check values that collateral at 0 and answers "
    "RiskEngineInitRejected (6009) — a consequence of the valuation rule, reported, not claimed either way",
    "drift_withdraw performs a Drift CPI (update_spot_market_cumulative_interest) before validate_bank_state; "
    "solend_deposit / solend_withdraw fail natively before reaching it: their bank-state refusal is covered by the "
    "HandlerFacts theorem only, not by native execution",
    "not in FinancialIx (no CNotPaused required, reported not claimed): lending_account_close_balance (removes an empty "
    "balance), purge_deleverage_balance (risk-admin sunset path), lending_account_settle_emissions, "
    "lending_pool_accrue_bank_interest, pulse_health / pulse_bank_price_cache, start/end_liquidation, start/end_deleverage, "
    "start/end_flashloan (they move nothing themselves; every fund-moving instruction inside them is gated), all "
    "account / bank / group creation and configuration instructions, panic_* and propagate_*",
    "F3 (DESIGN.md §8): Bank::configure lets the admin move a bank out of KilledByBankruptcy; 'permanently' in the "
    "property is therefore about the gate (a killed bank refuses everything), not about configuration — C13/C07 own that finding",
    "liquidation passes FailsInPausedState for both banks: a ReduceOnly asset or liability bank can still be liquidated against",
]

STATES = {"Operational": 1, "Paused": 0, "ReduceOnly": 2, "KilledByBankruptcy": 3}
DEPOSIT_FAMILY = ["lending_account_deposit", "lending_account_borrow", "kamino_deposit", "drift_deposit", "solend_deposit"]
WITHDRAW_FAMILY = ["lending_account_withdraw", "lending_account_repay", "lending_account_liquidate",
                   "lending_pool_handle_bankruptcy", "kamino_withdraw", "drift_withdraw", "solend_withdraw"]
FINANCIAL = [
    "lending_account_deposit", "lending_account_withdraw", "lending_account_borrow", "lending_account_repay",
    "lending_account_liquidate", "lending_pool_handle_bankruptcy",
    "kamino_deposit", "kamino_withdraw", "drift_deposit", "drift_withdraw", "solend_deposit", "solend_withdraw",
    "transfer_to_new_account", "transfer_to_new_account_pda",
    "lending_account_withdraw_emissions", "lending_account_withdraw_emissions_permissionless",
    "lending_pool_collect_bank_fees", "lending_pool_withdraw_fees", "lending_pool_withdraw_fees_permissionless",
    "lending_pool_withdraw_insurance", "lending_pool_update_fees_destination_account",
]
TIMINGS = [-1, 0, 1799, 1800, 1801]
RISK_REJECTED = 6009     # RiskEngineInitRejected
HEALTHY = 6068           # HealthyAccount (liquidating an account that is healthy at maintenance)


def meta(line, **kw):
    return line + " " + " ".join(f"{k}={v}" for k, v in kw.items())


def bank_targets(ix):
    """(label, bank object) pairs whose operational state is varied"""
    if ix not in DEPOSIT_FAMILY + WITHDRAW_FAMILY:
        return [("-", None)]
    f = dict(A.base(ix)["fields"])
    if ix == "lending_account_liquidate":
        return [("asset_bank", f["asset_bank"]), ("liab_bank", f["liab_bank"])]
    return [("bank", f["bank"])]


# venue handlers whose validate_bank_state call precedes everything that cannot run natively (for the others —
# drift_withdraw performs a venue CPI first, the Solend handlers look the reserve up first — only the
# account-validation verdict is compared)
GATE_OBSERVABLE = {"kamino_deposit", "kamino_withdraw", "drift_deposit"}


def fin_base(ix):
    base = A.base(ix)
    if A.is_venue(ix):
        base["mode"] = "gate" if ix in GATE_OBSERVABLE else "val"
    if ix == "lending_account_withdraw":
        # an account without liabilities (see OBSERVATIONS: an indebted account whose collateral sits in a
        # reduce-only bank fails the Initial health check of withdraw)
        for n, o in (("marginfi_account", "accL"), ("authority", "liq"), ("destination_token_account", "liq.t1")):
            base = A.with_field(base, n, o)
    return base


def cell(ix, st, target, cache_flag, start, t, fs_paused=True, kind="matrix", bank_flags=0, acct_flags=0):
    base = fin_base(ix)
    group = dict(base["fields"])["group"]
    c = base
    if acct_flags:
        c = A.with_tweak(c, f"aflag:{dict(base['fields'])['marginfi_account']}:{acct_flags}:1")
    if fs_paused:
        c = A.with_tweak(c, f"fspause:1:{start}:1:1")
    if cache_flag is not None:
        c = A.with_tweak(c, f"gcache:{group}:{cache_flag}:{start}")
    label, bank = target
    if bank is not None:
        c = A.with_tweak(c, f"bstate:{bank}:{STATES[st]}")
        if bank_flags:
            c = A.with_tweak(c, f"bflag:{bank}:{bank_flags}:1")
    return meta(A.line(c, t=t), k=kind, st=st, tg=label, cf=("-" if cache_flag is None else cache_flag), S=start, T=t)


def matrix():
    lines = []
    for ix in FINANCIAL:
        for target in bank_targets(ix):
            states = list(STATES) if target[1] else ["Operational"]
            for st in states:
                lines.append(cell(ix, st, target, None, 0, 0, fs_paused=False))          # no pause anywhere
                for d in TIMINGS:
                    S = max(0, -d)      # the clock never runs before the fixture's time
                    lines.append(cell(ix, st, target, 1, S, S + d))                        # propagated
                    lines.append(cell(ix, st, target, None, S, S + d))                     # paused globally, cache not updated
    # the gate must not depend on the bank's flag word: the sunset flags (token-less repayments allowed / complete) on
    # banks of every state
    for ix in DEPOSIT_FAMILY + WITHDRAW_FAMILY:
        for target in bank_targets(ix):
            for st in STATES:
                for fl in (32, 96):
                    lines.append(cell(ix, st, target, None, 0, 0, fs_paused=False, kind="matrix", bank_flags=fl))
    # ... nor on the ACCOUNT's flag word: an account in receivership (liquidation: 16, deleverage: 16 | 32) is acted on
    # by its receiver through the ordinary withdraw / repay instructions, which stay subject to the bank's state
    for ix in ("lending_account_withdraw", "lending_account_repay"):
        for target in bank_targets(ix):
            for st in STATES:
                for fl in (16, 48):
                    lines.append(cell(ix, st, target, None, 0, 0, fs_paused=False, kind="matrix", acct_flags=fl))
    # the pause that counts is the one of the BANK's (account's) own group: while that group's cache says paused, passing
    # ANOTHER group - one that is not paused - in the `group` slot must not let the instruction through
    for ix in FINANCIAL:
        base = fin_base(ix)
        fields = dict(base["fields"])
        if fields.get("group") != "gA":
            continue
        for target in bank_targets(ix)[:1]:
            for d in (0, 1799):
                c = cell(ix, "Operational", target, 1, 0, d, kind="gsub")
                lines.append(c.replace(",group:gA", ",group:gB").replace(" a=group:gA", " a=group:gB"))
    lines += valuation_cells()
    return lines


def valuation_cells():
    """accA's only collateral is in bk1 (it owes bk2): borrowing more needs Initial collateral; accA is healthy at
    Maintenance, so liquidating it must be refused — in every state of bk1 except that a ReduceOnly bk1 gives
    nothing for the borrow"""
    out = []
    for st in STATES:
        b = A.base("lending_account_borrow")
        b["mode"] = "risk"
        b = A.with_tweak(b, f"bstate:bk1:{STATES[st]}")
        out.append(meta(A.line(b), k="risk", st=st, rb="bk1", rq="I", rc=RISK_REJECTED))
        q = A.base("lending_account_liquidate")
        q = A.with_field(q, "liquidatee_marginfi_account", "accA")
        q["mode"] = "risk"
        q = A.with_tweak(q, f"bstate:bk3:{STATES[st]}")      # a bank accA has an (empty) balance in, not a liquidation leg
        out.append(meta(A.line(q), k="risk", st="Operational", rb="bk1", rq="M", rc=HEALTHY))
    return out


def random_cells(rng, n):
    out = []
    while len(out) < n:
        ix = rng.choice(FINANCIAL)
        target = rng.choice(bank_targets(ix))
        st = rng.choice(list(STATES)) if target[1] else "Operational"
        flag = rng.choice([0, 1, 1, 1])
        start = rng.choice([0, -1800, -1799, 1, 600, rng.randrange(-5000, 5000)])
        t = start + rng.choice([-1, 0, 1, 1799, 1800, 1801, rng.randrange(-3000, 4000)])
        if t < 0:
            continue
        out.append(cell(ix, st, target, flag, start, t, fs_paused=rng.random() < 0.5, kind="random"))
    return out


def kvs(l):
    return dict(t.split("=", 1) for t in l.split()[1:] if "=" in t)


def suites(rng, tier):
    m = matrix()
    n = {"quick": 1500, "thorough": 25000, "search": 5000}[tier]
    r = random_cells(rng, n)
    return [
        {"suite": "auth", "name": "gate-matrix", "lines": m,
         "distribution": {"financial_instructions": len(FINANCIAL), "states": list(STATES), "timings": TIMINGS, "cells": len(m)}},
        {"suite": "auth", "name": "gate-random", "lines": r, "distribution": {"cells": len(r)}},
        {"suite": "auth", "name": "validate-bank-state-fn",
         "lines": [f"G {s} {k}" for s in range(4) for k in range(4)] + [f"G {s} {k} {fl}" for s in range(4) for k in range(4) for fl in range(1, 128)],
         "distribution": {"exhaustive": "4 states x 4 kinds x every combination of the 7 low bank flag bits (the gate must not depend on them)"}},
        pause_cache_suite(rng, {"quick": 1200, "thorough": 30000, "search": 8000}[tier]),
        reduce_only_suite(rng, {"quick": 400, "thorough": 6000, "search": 3000}[tier]),
        killed_suite(rng, {"quick": 150, "thorough": 3000, "search": 1000}[tier]),
    ]


def killed_suite(rng, n):
    """'permanently': a bank killed by the real bankruptcy handler, then every ordered pair / triple of configure_bank
    requests that name an operational state (alone or with limits riding along), and random admin sequences after a
    kill; the bank must still be killed after each of them (real lending_pool_configure_bank through the sim runtime)"""
    cfg2 = C13._std_compact(C13.fx(C13.Fraction(3, 2)), C13.fx(C13.Fraction(5, 4)))
    cfg2["okey"], cfg2["tag"] = 1, 2
    head = [C13.NOW] + C13.cfg_toks(cfg2) + [16]

    def opt(state, extra):
        t = ["N"] * 16
        t[6:7] = ["S", str(state)]
        if extra:
            t[4:5] = ["S", str(rng.choice([0, 1, 10 ** 9, C13.U64]))]
        return t
    lines = []
    seqs = [(a, b) for a in (0, 1, 2) for b in (0, 1, 2)] + [(a, b, c) for a in (0, 2) for b in (0, 1, 2) for c in (1, 2)]
    while len(lines) < n:
        sq = seqs[len(lines) % len(seqs)] if len(lines) < 2 * len(seqs) else tuple(rng.choice([0, 1, 2, 3]) for _ in range(rng.choice([1, 2, 3, 4])))
        base = C13._std_compact(C13.ONE, C13.ONE) if len(lines) % 2 == 0 else C13.gen_cfg(rng, True, tag_std=True)
        base["op"] = rng.choice([1, 1, 2])
        steps = [C13.line("ADD", 0, C13.compact_toks(base)), "KILL 0"]
        for st in sq:
            if rng.random() < 0.15:
                steps.append(C13.line("LIM", 0, ["S", rng.randrange(0, C13.U64)], ["N"], ["N"]))
            steps.append(C13.line("CFG", 0, opt(st, rng.random() < 0.3)))
        lines.append(C13.line(head, len(steps), *steps))
    return {"suite": "cfgsim", "name": "killed-permanently", "lines": lines, "distribution": {"sequences": n, "scripted": min(n, 2 * len(seqs))}}


def reduce_only_suite(rng, n):
    """reduce-only valuation through the real borrow / withdraw / liquidate handlers with e-mode entries lifting the
    reduce-only bank's tag, Fixed and Pyth oracles: its deposits count for nothing toward new borrowing (Initial) and
    in full for liquidation (Maintenance)"""
    dist = {}
    lines = [RG.gen_reduce_only_case(rng, dist) if i % 3 else RG.gen_liq_case(rng, dist, reduce_only_asset=True) for i in range(n)]
    return {"suite": "risk", "name": "reduce-only-valuation", "lines": lines, "distribution": dict(dist, cases=n)}


def pause_cache_suite(rng, n):
    """cache propagation orderings of the protocol-wide pause: pause / extension / unpause schedules with the group's
    cache refreshed at chosen moments and queried around both candidate expiry seconds (real PanicState / PanicStateCache)"""
    lines = [C15.gen_valid(rng, rng.randrange(4, 20)) for _ in range(n)]
    return {"suite": "panic", "name": "pause-cache-orderings", "lines": lines, "distribution": {"schedules": n}}


def oracle_reduce_only(tr):
    """deposits in a reduce-only bank: nothing at Initial (new borrowing / withdrawing other collateral), full value at
    Maintenance (liquidation). Evaluated on the real post-state of every accepted instruction of an account that holds
    deposits in a reduce-only bank."""
    if not tr.ok:
        return None
    for op, res, b0, a0, b1, a1, now, px in R.walk(tr):
        if res != "OK":
            continue
        if op[0] in (2, 3):
            slots = a1[op[1]]["slots"]
            ro = [s for s in slots if s["a"] >= R.ONE and b1[s["bank"] - 1]["op_state"] == 2]
            if not ro or not any(s["l"] >= R.ONE for s in slots):
                continue
            A, L, st, qn = R.health_q(tr.cfg, b1, slots, px, "init")       # counts reduce-only deposits as 0
            if st == "ok" and A - L < -(R.tol(A, L) + qn):
                return {"key": "reduce-only-collateral-counted-for-borrowing",
                        "what": f"{R.OPN[op[0]]} accepted with init health {float(A - L)} once the deposits in reduce-only banks "
                                f"{[s['bank'] - 1 for s in ro]} count for nothing (assets {float(A)}, liabilities {float(L)})"}
        elif op[0] == 17:
            liqee = op[2]
            pre = a0[liqee]["slots"]
            if not any(s["a"] >= R.ONE and b1[s["bank"] - 1]["op_state"] == 2 for s in pre):
                continue
            A, L, st, qn = R.health_q(tr.cfg, b1, pre, px, "maint")         # counts them in full
            if st == "ok" and A - L > R.tol(A, L) + qn:
                return {"key": "reduce-only-collateral-ignored-for-liquidation",
                        "what": f"account liquidated although its maintenance health is {float(A - L)} with its reduce-only deposits counted"}
    return None


def nontrivial(suite, case, impl):
    if suite == "cfgsim":
        return "KILL" in case and C13.nontrivial(suite, case, impl)
    if suite == "risk":
        tr = R.Trace(case, impl)
        return R.gate_nontrivial(tr) or R.liq_nontrivial(tr)
    if suite == "panic":
        return " 5 " in case and " 6 " in case
    if case.startswith("G "):
        return impl == "OK" or impl.startswith("E")
    return impl.startswith(("OK", "V ", "B ", "PASSV", "PASSB"))


def oracle(suite, case, impl):
    """C14 evaluated on the real outcome of the cell."""
    if suite == "risk":
        return oracle_reduce_only(R.Trace(case, impl))
    if suite == "cfgsim":
        v = C13.oracle(suite, case, impl)
        return v if v and v["key"] in ("killed-bank-revived",) else None
    if suite == "panic":
        v = C15.oracle(suite, case, impl)
        return v if v and v["key"].startswith("group-") else None
    if case.startswith("G "):
        # the property's table: paused -> nothing; reduce-only -> no deposit/borrow; killed -> nothing
        st, kd = int(case.split()[1]), int(case.split()[2])
        deposit_kind, withdraw_kind = kd == 3, kd == 2
        refuse = st == 3 or (st == 0 and (deposit_kind or withdraw_kind)) or (st == 2 and deposit_kind)
        allow = st == 1 or (st == 2 and withdraw_kind)
        if refuse and impl == "OK":
            return {"key": f"validate_bank_state-accepts:{st}:{kd}", "what": f"validate_bank_state(state {st}, kind {kd}) = Ok"}
        if allow and impl != "OK":
            return {"key": f"validate_bank_state-refuses:{st}:{kd}", "what": f"validate_bank_state(state {st}, kind {kd}) = {impl}"}
        return None
    k = kvs(case)
    ix = k["ix"]
    if "STORE-CHANGED" in impl:
        return {"key": "store-changed-on-refusal", "what": f"{ix}: refused transaction modified the account store"}
    accepted = impl.startswith(("OK", "PASSB"))
    if k["m"] == "val":
        # only account validation is observable: the pause constraint
        paused = k["cf"] == "1" and (int(k["T"]) - int(k["S"])) < 1800
        if paused and impl.startswith("PASSV"):
            return {"key": f"accepted-while-paused:{ix}", "what": f"{ix} passed the pause check while paused"}
        if not paused and impl.startswith("V group"):
            return {"key": f"refused-without-reason:{ix}", "what": f"{ix} refused by the pause check although no pause is in force: {impl}"}
        return None
    if k["k"] == "risk":
        if k["rq"] == "I":
            want = k["st"] != "ReduceOnly" and k["st"] != "Paused" and k["st"] != "KilledByBankruptcy"
            # bk1 is only the collateral bank here: its state matters through the valuation rule alone
            want = k["st"] != "ReduceOnly"
            if accepted and not want:
                return {"key": "reduce-only-collateral-counted-for-borrowing",
                        "what": "borrow against collateral held only in a reduce-only bank was accepted"}
            if not accepted and want:
                return {"key": f"collateral-not-counted:{k['st']}", "what": f"borrow refused ({impl}) although the collateral bank is {k['st']}"}
        else:
            if accepted:
                return {"key": "healthy-account-liquidated", "what": "an account healthy at maintenance was liquidated"}
        return None
    cf, S, T, st = k["cf"], int(k["S"]), int(k["T"]), k["st"]
    paused = cf == "1" and (T - S) < 1800
    passed_validation = accepted or impl.startswith("B ")
    if k["k"] == "gsub":
        if passed_validation:
            return {"key": f"pause-evaded-with-foreign-group:{ix}",
                    "what": f"{ix} on a bank / account of a PAUSED group passed validation when another, unpaused group was passed in the group slot: {impl}"}
        return None
    if paused:
        if passed_validation:
            return {"key": f"accepted-while-paused:{ix}", "what": f"{ix} passed the pause check {T - S}s after the cached pause start: {impl}"}
        return None
    # pause not in force for this group (never propagated, flag clear, or expired): the outcome is the bank gate's
    gated = ix in DEPOSIT_FAMILY + WITHDRAW_FAMILY
    must_refuse = gated and (st in ("Paused", "KilledByBankruptcy") or (st == "ReduceOnly" and ix in DEPOSIT_FAMILY))
    if must_refuse and accepted:
        return {"key": f"bank-state-not-enforced:{ix}:{st}", "what": f"{ix} accepted on a {st} bank ({k['tg']})"}
    sunset = any(t.startswith("bflag:") and int(t.split(":")[2]) & 32 for t in k.get("tw", "-").split(";"))
    if sunset and ix in DEPOSIT_FAMILY:
        return None        # deposits / borrows on a bank flagged for token-less repayments are refused by their own account constraints
    if not must_refuse and not accepted:
        why = "pause expired" if cf == "1" else "no pause in force for the group"
        return {"key": f"refused-without-reason:{ix}:{st}", "what": f"{ix} refused ({impl}) on a {st} bank although {why} (T-S={T - S})"}
    return None
