"""C16 — account structure: one side per bank, sorted, compatible tags, bounded; close / disable / transfer."""
from fractions import Fraction
import gen_bank as G
import gen_hops as H
import hops_oracles as O
from props import txgen as TG
from props import c11 as C11
ID = "C16"
MANIFEST = {
    "text": ("Kernel-checked invariants, by induction over operation sequences of any length: at handler level (deposit, withdraw(all), "
             "borrow, repay(all), close_balance, liquidation's four legs on both accounts, bankruptcy, accrue, collect fees) every "
             "successful instruction preserves for every account: 16 slots, at most one active slot per bank, at most 8 integration "
             "positions, slot tag = bank tag (bank tags never change), no staked position next to a default-class one, active slots "
             "first in strictly descending bank-key order; the same minus the two handler-only clauses for the BankAccountWrapper state "
             "machine. Every history of one position (all increase/decrease types, withdraw_all, repay_all, close, with the bank state "
             "arbitrary between steps) keeps one side at <= 2 share-ulps, hence never a deposit >= 0.0001 with a debt >= 0.0001 for share "
             "values in [1, 10^6]. A disabled account cannot deposit/withdraw/borrow/repay/close a balance/start a flash loan, stays "
             "disabled, and bankruptcy disables. marginfi_account_close succeeds iff authority signs and the account is not frozen / "
             "disabled / in flash loan / in receivership and every slot holds < 1.0 shares on both sides; transfer_to_new_account copies "
             "the whole lending account to exactly one fresh address, empties + disables + marks the source, which can then never be "
             "transferred or closed. Tied to the real code by differential execution of the real handlers (sim runtime) and the real "
             "wrapper at three levels, with oracles recomputing the structure from the real account bytes."),
    "design_ref": "DESIGN.md §7 C16",
    "technique": "Coq proof (invariant by induction over handler / wrapper / lifecycle operation sequences) + model/implementation correspondence at wrapper, handler and lifecycle level",
}
THEOREMS = ["C16_structure_preserved_by_every_instruction", "C16_structure_all_histories", "C16_structure_meaning",
            "C16_initial_world", "C16_wrapper_structure_all_histories", "C16_wrapper_structure_meaning",
            "C16_wrapper_initial_world", "C16_sort_sorts", "C16_increase_keeps_one_side", "C16_decrease_keeps_one_side",
            "C16_one_side_per_position_all_histories", "C16_one_side_shares_all_histories", "C16_disabled_cannot_act",
            "C16_bankruptcy_disables", "C16_disabled_forever", "C16_disabled_cannot_start_flashloan", "C16_close_iff",
            "C16_transfer_moves_everything_to_one_new_account", "C16_transfer_once"]
RULE = ("level C (hops): real instruction handlers on 2-18 banks (asset tags default / SOL / staked, also integration tags that the "
        "standard instructions must refuse) and 2-4 accounts: random and scenario streams incl. filling all 16 slots (+1 refused), "
        "staked/default mixing attempts through deposit, borrow and both liquidation roles, liquidations that flip the liquidator's "
        "debt into a deposit and its deposit into a debt, withdraw-all / repay-all / exact-withdraw + close_balance followed by "
        "reopening, bankruptcy followed by every user instruction; level B (bankops): real BankAccountWrapper on up to 20 banks of "
        "all six tags incl. 8 integration positions (+1 refused), 16 slots (+1 refused), sort; lifecycle (acctlife): real "
        "marginfi_account_close / transfer_to_new_account on accounts with arbitrary flag words, dust / non-dust / both-sided slots, "
        "wrong signers, frozen accounts, paused protocol, occupied destinations, repeated transfers. Non-trivial = >= 3 successful "
        "position operations (hops, bankops) or >= 1 successful close/transfer (acctlife); distinct = different case line")
ASSUMPTIONS = [
    "one-side-per-position (clause 6) is proved for every history of ONE position through the wrapper primitives with arbitrary bank states in between (theorems C16_one_side_*), under explicit share-value bounds (>= 1.0 resp. >= m, <= 10^6) and non-negative shares/amounts; it is not lifted to hstep as a world invariant (handlers touch positions only through these primitives); the oracle checks it on every slot after every real instruction",
    "integration (Kamino/Drift/Solend) deposit/withdraw instructions, purge_delev_balance, receivership withdraw/repay and the PDA variant of transfer are not in the Coq operation set; they use the same find_or_create / sort_balances / flag checks",
    "lifecycle model abstracts lamports (fee payer funded), the health cache and events; MarginfiGroup::is_protocol_paused is an input bit (C15)",
    "start_flashloan's refusal of disabled accounts is proved on Tx.v's check_flashloan_can_start (tied to the code by C10/C11's suites)",
]
OBSERVATIONS = [
    "can_be_closed tests get_side() of all 16 slots, not is_active(): an account with ACTIVE positions of < 1.0 share (asset or liability side) can be closed; the shares stay in the bank totals and the bank's position counters are not decremented",
    "can_be_closed evaluates the slots before looking at the flags: a slot with >= 1.0 shares on both sides aborts (assert in get_side) even for a disabled account",
    "transfer_to_new_account copies account_flags verbatim: transferring a disabled (bankrupt) account yields a new account that is disabled too; a frozen account transferred by the admin stays frozen",
    "handle_bankruptcy does not call sort_balances; it never opens or closes a slot, so the order is preserved (proved: C16_structure_preserved_by_every_instruction)",
]
ONE = G.ONE
U64 = G.U64_MAX
THR = 28147497671
INTEG = (3, 4, 5)


def fxr(x):
    return int(Fraction(x) * ONE)


# ------------------------------------------------------------------------------------------------
# hops scenario builders (same case-line format as gen_hops)
def hbank(rng, now, tag=0, dec=6, price=ONE, awi=Fraction(8, 10), lwi=Fraction(5, 4), op_state=1, sv="one"):
    t = G.gen_bank(rng, now, fresh=True, limits="none", tag=tag, sv=sv, emissions=False)
    t[4] = t[5] = t[6] = 0
    if t[0] < ONE // 1000 or t[0] > 100 * ONE:
        t[0] = ONE
    t[7] = now
    t[11] = dec
    t[12] = 0
    t[17] = op_state
    awm = min(Fraction(2), awi + Fraction(5, 100))
    lwm = max(Fraction(1), lwi - Fraction(5, 100))
    extra = [fxr(awi), fxr(awm), fxr(lwi), fxr(lwm), 0, 0, price, 0, 0, 0, 0, 0, 0]
    return t + extra


def hline(nb, na, now, banks, ops, pf=(0, 0, 0)):
    toks = [nb, na] + list(pf) + [now]
    for b in banks:
        toks += b
    toks.append(len(ops))
    for o in ops:
        toks += H.clamp_op(o)
    return " ".join(map(str, toks))


def sc_full_slots(rng):
    """account 0 opens positions in 17-18 banks: 16 succeed, the rest are refused; then frees and reuses slots"""
    nb = rng.choice([17, 18])
    now = 1_700_000_000 + rng.randrange(10 ** 6)
    tags = [rng.choice([0, 0, 0, 1]) for _ in range(nb)]
    banks = [hbank(rng, now, tag=tags[i], sv=rng.choice(["one", "mixed"])) for i in range(nb)]
    order = list(range(nb))
    rng.shuffle(order)
    ops = []
    lender_bank = order[-1]
    ops.append([1, 1, lender_bank, 10 ** 12, 0])
    borrow_first = rng.random() < 0.5
    for k, b in enumerate(order):
        if b == lender_bank and borrow_first:
            ops.append([3, 0, b, rng.choice([1, 1000, 10 ** 5])])
        else:
            ops.append([1, 0, b, rng.choice([10 ** 6, 10 ** 9, 12345678]), 0])
        if rng.random() < 0.1:
            ops.append([10, b])
    for _ in range(rng.randrange(3, 10)):
        r = rng.random()
        b = rng.choice(order)
        if r < 0.3:
            ops.append([2, 0, b, 0, 1])                       # withdraw all
        elif r < 0.5:
            ops.append([1, 0, rng.choice(order), 10 ** 6, 0])
        elif r < 0.65:
            ops.append([3, 0, lender_bank, rng.choice([1, 1000, 10 ** 6])])
        elif r < 0.75:
            ops.append([4, 0, lender_bank, 0, 1])             # repay all
        elif r < 0.85:
            ops.append([7, 0, b])
        else:
            now += rng.choice([1, 3600, 86400])
            ops.append([0, now])
    return hline(nb, 2, banks[0][7], banks, ops)


def sc_tag_mix(rng):
    """staked / default / SOL / integration banks; every way of trying to mix staked with default"""
    now = 1_700_000_000 + rng.randrange(10 ** 6)
    tags = [0, 2, 1, rng.choice([2, 0]), rng.choice([3, 4, 5, 0])]
    rng.shuffle(tags)
    nb = len(tags)
    banks = [hbank(rng, now, tag=tags[i], price=rng.choice([ONE, 2 * ONE, 10 * ONE])) for i in range(nb)]
    na = 3
    ops = []
    for b in range(nb):
        ops.append([1, 0 if tags[b] != 2 else 2, b, 10 ** 12, 0])      # lenders: account 0 (non-staked), 2 (staked)
    for _ in range(rng.randrange(8, 20)):
        a = rng.randrange(na)
        b = rng.randrange(nb)
        r = rng.random()
        if r < 0.4:
            ops.append([1, a, b, rng.choice([10 ** 6, 10 ** 9]), 0])
        elif r < 0.65:
            ops.append([3, a, b, rng.choice([1, 1000, 10 ** 5])])
        elif r < 0.75:
            ops.append([2, a, b, 0, 1])
        elif r < 0.8:
            ops.append([4, a, b, 0, 1])
        elif r < 0.9:
            e = rng.randrange(na)
            # lb != b: with equal banks (or amount 0) and a non-marginfi tag the real code reports the account
            # constraint (WrongAssetTag) first, Handlers.v the handler check first — both fail, codes differ
            lb = rng.choice([x for x in range(nb) if x != b])
            ops.append([19, b, 1 + rng.randrange(1000)])
            ops.append([17, rng.choice([x for x in range(na) if x != e]), e, b, lb, rng.choice([1, 1000, 10 ** 6])])
        else:
            ops.append([19, b, rng.choice([ONE, 2 * ONE, ONE // 2])])
    return hline(nb, na, banks[0][7], banks, ops)


def sc_liq_flip(rng):
    """liquidator holds a small debt in the asset bank and a deposit in the liability bank: the seized
    collateral flips the debt into a deposit; a small deposit in the liability bank flips into a debt"""
    now = 1_700_000_000 + rng.randrange(10 ** 6)
    nb = rng.choice([2, 3])
    dec = rng.choice([6, 6, 9])
    banks = [hbank(rng, now, tag=0, dec=dec, price=ONE, awi=Fraction(8, 10), lwi=Fraction(5, 4)) for _ in range(nb)]
    A, L = 0, 1
    big = 10 ** 12
    coll = rng.choice([10 ** 6, 10 ** 8, 10 ** 9])
    debt = coll * 8 // 10 * 4 // 5 * rng.choice([90, 99, 100]) // 100
    small = rng.choice([1, 10, 1000, coll // 100])
    ops = [[1, 2, A, big, 0], [1, 2, L, big, 0]]          # account 2: passive lender
    ops += [[1, 1, A, coll, 0], [3, 1, L, debt]]          # account 1: borrower
    if rng.random() < 0.7:
        ops += [[1, 0, L, rng.choice([big, small]), 0], [3, 0, A, small]]      # liquidator: deposit in L, small debt in A
    else:
        ops += [[1, 0, nb - 1, big, 0], [1, 0, L, small, 0], [3, 0, A, small]]
    ops.append([19, A, fxr(Fraction(rng.choice([50, 70, 80, 90]), 100))])     # collateral price falls
    for _ in range(rng.randrange(1, 5)):
        ops.append([17, 0, 1, A, L, rng.choice([small, small + 1, 2 * small + 7, coll // 10, coll // 3, coll])])
        if rng.random() < 0.3:
            ops.append([19, A, fxr(Fraction(rng.choice([30, 50, 60]), 100))])
    ops += [[2, 0, A, 0, 1], [4, 0, L, 0, 1], [7, 0, A], [1, 0, A, 5, 0]]
    return hline(nb, 3, banks[0][7], banks, ops)


def sc_reopen(rng):
    """withdraw-all / repay-all / exact withdrawal + close_balance, then open the position again"""
    now = 1_700_000_000 + rng.randrange(10 ** 6)
    nb = 3
    banks = [hbank(rng, now, tag=rng.choice([0, 1]), sv=rng.choice(["one", "mixed"])) for _ in range(nb)]
    ops = [[1, 1, b, 10 ** 12, 0] for b in range(nb)]
    for _ in range(rng.randrange(2, 5)):
        b = rng.randrange(nb)
        amt = rng.choice([1, 999, 10 ** 6, 123456789])
        k = rng.randrange(4)
        if k == 0:
            ops += [[1, 0, b, amt, 0], [2, 0, b, 0, 1], [1, 0, b, amt + 1, 0]]
        elif k == 1:
            ops += [[1, 0, (b + 1) % nb, 10 ** 10, 0], [3, 0, b, amt], [0, now + 3600], [4, 0, b, 0, 1], [3, 0, b, amt]]
            now += 3600
        elif k == 2:
            ops += [[1, 0, b, amt, 0], [2, 0, b, amt, 0], [0, now + 86400], [7, 0, b], [1, 0, b, amt, 0]]
            now += 86400
        else:
            ops += [[1, 0, (b + 1) % nb, 10 ** 10, 0], [3, 0, b, amt], [4, 0, b, amt + rng.choice([0, 1, 2]), 0], [7, 0, b], [3, 0, b, amt]]
    return hline(nb, 2, banks[0][7], banks, ops)


def sc_bankrupt_disabled(rng):
    """a bankrupt account is disabled: every user instruction on it must fail afterwards"""
    now = 1_700_000_000 + rng.randrange(10 ** 6)
    nb = 2
    banks = [hbank(rng, now, tag=0) for _ in range(nb)]
    coll = rng.choice([10 ** 6, 10 ** 9])
    debt = coll * 8 // 10 * 4 // 5 * 9 // 10
    ops = [[1, 0, 0, 10 ** 12, 0], [1, 0, 1, 10 ** 12, 0], [1, 1, 0, coll, 0], [3, 1, 1, debt]]
    ops += [[19, 0, rng.choice([1, 2, 1000])], [18, 1, 1]]
    tail = [[1, 1, 0, 5, 0], [2, 1, 0, 1, 0], [2, 1, 0, 0, 1], [3, 1, 1, 1], [4, 1, 1, 1, 0], [4, 1, 1, 0, 1], [7, 1, 1],
            [19, 0, ONE], [1, 1, 1, 7, 0], [18, 1, 1]]
    rng.shuffle(tail)
    return hline(nb, 2, banks[0][7], banks, ops + tail)


def sc_liq_mix(rng):
    """a liquidation that is sound in itself (unhealthy liquidatee, healthy liquidator, compatible bank pair
    default/SOL or staked/SOL) but would hand the liquidator a position of the class it must not mix with"""
    now = 1_700_000_000 + rng.randrange(10 ** 6)
    variant = rng.randrange(3)
    # banks: 0 = collateral seized, 1 = SOL-tag liability, 2 = what the liquidator already holds
    ctag, otag = ((0, 2), (2, 0), (0, 0))[variant]        # third variant: compatible, must succeed
    banks = [hbank(rng, now, tag=ctag), hbank(rng, now, tag=1), hbank(rng, now, tag=otag)]
    coll = rng.choice([10 ** 6, 10 ** 8])
    debt = coll * 8 // 10 * 4 // 5 * rng.choice([95, 99]) // 100
    ops = [[1, 2, 1, 10 ** 12, 0]]                            # account 2 lends SOL-tag tokens
    ops += [[1, 1, 0, coll, 0], [3, 1, 1, debt]]              # liquidatee
    ops += [[1, 0, 2, 10 ** 11, 0]]                           # liquidator's own class
    if rng.random() < 0.5:
        ops += [[1, 0, 1, 10 ** 9, 0]]
    ops.append([19, 0, fxr(Fraction(rng.choice([60, 80, 90]), 100))])
    for _ in range(rng.randrange(1, 4)):
        ops.append([17, 0, 1, 0, 1, rng.choice([1, coll // 100, coll // 10, coll // 2])])
    ops += [[1, 0, 0, 5, 0], [3, 0, 1, 7]]
    return hline(3, 3, banks[0][7], banks, ops)


HOPS_SCEN = [sc_full_slots, sc_tag_mix, sc_liq_flip, sc_reopen, sc_bankrupt_disabled, sc_liq_mix]


# ------------------------------------------------------------------------------------------------
# bankops scenario: many banks of all tags, fill the slot array and the integration quota
def bk_many(rng):
    nb = rng.choice([12, 18, 20])
    na = 2
    now = 1_700_000_000
    n_int = rng.choice([9, 10, 11])
    tags = [rng.choice(INTEG) for _ in range(min(n_int, nb))] + [rng.choice([0, 0, 1, 2]) for _ in range(max(0, nb - n_int))]
    rng.shuffle(tags)
    banks = [G.gen_bank(rng, now, fresh=True, limits="none", tag=tags[i], sv=rng.choice(["one", "mixed"]), emissions=False)
             for i in range(nb)]
    pf = [0, 0, 0]
    ops = []
    order = list(range(nb))
    rng.shuffle(order)
    for b in order:
        ops.append([1, 1, b, 10 ** 9 * ONE])              # liquidity from account 1 where possible
    rng.shuffle(order)
    for b in order:
        k = rng.choice([1, 1, 1, 3, 8, 9])
        ops.append([k, 0, b, rng.choice([1, 1000, 10 ** 6]) * ONE])
    for _ in range(rng.randrange(4, 14)):
        b = rng.choice(order)
        r = rng.random()
        if r < 0.25:
            ops.append([5, 0, b, 0])
        elif r < 0.4:
            ops.append([6, 0, b, 0])
        elif r < 0.5:
            ops.append([7, 0, b, 0])
        elif r < 0.6:
            ops.append([14, 0])
        elif r < 0.8:
            ops.append([rng.choice([1, 3, 8, 9]), 0, rng.choice(order), rng.choice([1, 10 ** 3, 10 ** 6]) * ONE])
        else:
            ops.append([2, 0, b, rng.choice([1, 1000, 10 ** 6]) * ONE])
    ops.append([14, 0])
    return G.case_line(nb, na, pf, now, banks, ops)


# ------------------------------------------------------------------------------------------------
# lifecycle cases
FLAGS = [0, 0, 0, 0, 1, 2, 16, 32, 64, 4, 8, 65, 3, 18, 80, 127, 1 << 40, (1 << 64) - 1]
SHARES = [0, 0, 0, 1, ONE - 1, ONE, ONE + 1, 5 * ONE, 10 ** 6 * ONE + 12345]


def gen_bal(rng, idx, empty_bias):
    act = rng.choice([0, 1, 1])
    bank = rng.randrange(0, 7)
    tag = rng.randrange(0, 6)
    if rng.random() < empty_bias:
        a, l = rng.choice([0, 1, ONE - 1]), rng.choice([0, 0, ONE - 1])
    else:
        a, l = rng.choice(SHARES), rng.choice(SHARES)
    em = rng.choice([0, 0, ONE // 2, 3 * ONE])
    return [idx, act, bank, tag, a, l, em, rng.choice([0, 1_700_000_000])]


def gen_life(rng):
    na = rng.choice([3, 4, 5])
    now = rng.choice([1_700_000_000, 1_800_000_000 + rng.randrange(10 ** 6)])
    paused = 1 if rng.random() < 0.08 else 0
    toks = [na, now, paused]
    exists, auth, frozen = [], [], []
    for i in range(na):
        e = 1 if (i == 0 or rng.random() < 0.6) else 0
        exists.append(e)
        if not e:
            toks.append(0)
            auth.append(0)
            continue
        fl = rng.choice(FLAGS)
        au = rng.randrange(1, 9)
        auth.append(au)
        grp = 1 if rng.random() < 0.9 else 2
        mto = rng.choice([0, 0, 0, 0, 0, rng.randrange(1, na + 1), 50 + rng.randrange(10)])
        mfrom = rng.choice([0, 0, 0, rng.randrange(1, na + 1), 50 + rng.randrange(10)])
        emis = rng.choice([0, 0, rng.randrange(1, 9)])
        eb = rng.choice([1.0, 1.0, 0.8, 0.3])
        idxs = sorted(rng.sample(range(16), rng.choice([0, 0, 1, 2, 3, 16])))
        toks += [1, fl, au, grp, mto, mfrom, emis, rng.choice([0, now - 5]), len(idxs)]
        for j in idxs:
            toks += gen_bal(rng, j, eb)
    ops = []
    live = [i for i in range(na) if exists[i]]
    free = [i for i in range(na) if not exists[i]]
    for _ in range(rng.randrange(2, 9)):
        r = rng.random()
        a = rng.choice(live) if (live and rng.random() < 0.85) else rng.randrange(na)
        if r < 0.3:
            s = auth[a] if (auth[a] and rng.random() < 0.8) else rng.randrange(1, 10)
            ops.append([1, a, s])
        elif r < 0.7:
            new = rng.choice(free) if (free and rng.random() < 0.8) else rng.randrange(na)
            s = auth[a] if (auth[a] and rng.random() < 0.8) else rng.randrange(1, 10)
            fw = 20 if rng.random() < 0.9 else rng.randrange(1, 9)
            nauth = rng.randrange(0, 9)
            tk = 2 if rng.random() < 0.6 else 6          # keypair / PDA variant of the transfer instruction
            ops.append([tk, a, new, s, nauth, fw])
            if new in free and a in live and new != a:
                free.remove(new)
                live.append(new)
                auth[new] = nauth
            if rng.random() < 0.3:
                ops.append([rng.choice([2, 6]), a, rng.randrange(na), s, nauth, fw])         # try again
            if rng.random() < 0.3 and nauth:
                ops.append([1, new, nauth])                                  # close the copy
        elif r < 0.85:
            ops.append([3, a, rng.choice(FLAGS)])
        elif r < 0.93:
            now += rng.choice([1, 1799, 1800, 86400])
            ops.append([4, now])
        else:
            ops.append([5, rng.randrange(2)])
    toks.append(len(ops))
    for o in ops:
        toks += o
    return " ".join(map(str, toks))


def parse_life(case, impl):
    t = list(map(int, case.split()))
    na = t[0]
    i = 3
    for _ in range(na):
        if t[i] == 0:
            i += 1
        else:
            nbal = t[i + 8]
            i += 9 + 8 * nbal
    n = t[i]
    i += 1
    ops = []
    LEN = {1: 3, 2: 6, 3: 3, 4: 2, 5: 2, 6: 6}
    for _ in range(n):
        ops.append(t[i:i + LEN[t[i]]])
        i += LEN[t[i]]
    states = []
    for seg in impl.split(" | "):
        res, dump = [x.strip() for x in seg.split(" # ")]
        accts = []
        for d in dump.split(";"):
            d = d.strip()
            if d == "X":
                accts.append(None)
                continue
            f = d.split()
            bals = [tuple(map(int, b.split(":"))) for b in f[7].split(",")]
            accts.append({"flags": int(f[0]), "auth": int(f[1]), "group": int(f[2]), "mto": int(f[3]), "mfrom": int(f[4]),
                          "emis": int(f[5]), "last": int(f[6]), "bals": bals})
        states.append((res, accts))
    return t, ops, states


def init_life(t):
    na = t[0]
    i = 3
    accts = []
    for _ in range(na):
        if t[i] == 0:
            accts.append(None)
            i += 1
            continue
        fl, au, grp, mto, mfrom, emis, last, nbal = t[i + 1:i + 9]
        i += 9
        bals = [(0, 0, 0, 0, 0, 0, 0)] * 16
        for _ in range(nbal):
            idx = t[i]
            bals[idx] = tuple(t[i + 1:i + 8])
            i += 8
        accts.append({"flags": fl, "auth": au, "group": grp, "mto": mto, "mfrom": mfrom, "emis": emis, "last": last, "bals": bals})
    return accts


def oracle_life(case, impl):
    if impl.startswith("DRIVER"):
        return {"key": "lifecycle-harness-failed", "what": impl[:80]}
    t, ops, states = parse_life(case, impl)
    cur = init_life(t)
    for op, (res, accts) in zip(ops, states):
        k = op[0]
        if res != "OK":
            if accts != cur:
                return {"key": "failed-instruction-changed-state", "what": f"op {op} failed with {res} but accounts changed"}
            continue
        if k == 1:
            a, s = op[1], op[2]
            A = cur[a]
            if A is None:
                return {"key": "closed-nonexistent", "what": "close succeeded on a missing account"}
            if A["flags"] & (1 | 2 | 16 | 64):
                return {"key": "closed-flagged-account", "what": f"close succeeded with account_flags {A['flags']} (disabled / flash loan / receivership / frozen)"}
            if any(b[3] >= ONE or b[4] >= ONE for b in A["bals"]):
                return {"key": "closed-nonempty-account", "what": "close succeeded with a slot holding >= 1.0 shares"}
            if A["auth"] != s:
                return {"key": "closed-by-non-authority", "what": f"close signed by wallet {s}, authority {A['auth']}"}
            exp = list(cur)
            exp[a] = None
            if accts != exp:
                return {"key": "close-side-effect", "what": "close changed something other than removing the account"}
        elif k in (2, 6):
            old, new, s, nauth, fw = op[1:6]
            A = cur[old]
            if A is None or cur[new] is not None or old == new:
                return {"key": "transfer-bad-endpoints", "what": "transfer succeeded from a missing account or onto an existing one"}
            if A["mto"] != 0:
                return {"key": "transferred-twice", "what": f"account {old} already migrated to key {A['mto']} was transferred again"}
            if A["flags"] & (2 | 16):
                return {"key": "transferred-flagged-account", "what": f"transfer succeeded with account_flags {A['flags']}"}
            N, O2 = accts[new], accts[old]
            if N is None or O2 is None:
                return {"key": "transfer-lost-account", "what": "source or destination missing after transfer"}
            if N["bals"] != A["bals"]:
                return {"key": "transfer-positions-not-copied", "what": "destination balances differ from the source's"}
            if N["flags"] != A["flags"] or N["auth"] != nauth or N["mfrom"] != old + 1 or N["mto"] != 0 or N["group"] != A["group"]:
                return {"key": "transfer-new-account-wrong", "what": f"destination header wrong: {N['flags']} {N['auth']} {N['mfrom']} {N['mto']}"}
            if any(b != (0, 0, 0, 0, 0, 0, 0) for b in O2["bals"]):
                return {"key": "transfer-source-not-emptied", "what": "source still holds balances"}
            if not (O2["flags"] & 1) or O2["flags"] != A["flags"] | 1 or O2["mto"] != new + 1 or O2["auth"] != A["auth"]:
                return {"key": "transfer-source-not-retired", "what": f"source flags {O2['flags']} migrated_to {O2['mto']}"}
            for j in range(len(cur)):
                if j not in (old, new) and accts[j] != cur[j]:
                    return {"key": "transfer-touched-third-account", "what": f"account {j} changed"}
            if A["flags"] & 64:
                if s != 9:
                    return {"key": "frozen-account-transferred-by-non-admin", "what": f"signer {s}"}
            elif s != A["auth"]:
                return {"key": "transferred-by-non-authority", "what": f"signer {s}, authority {A['auth']}"}
        cur = accts
    return None


# ------------------------------------------------------------------------------------------------
def suites(rng, tier):
    n_h = {"quick": 1400, "thorough": 15000, "search": 6000}[tier]
    n_b = {"quick": 1200, "thorough": 13000, "search": 6000}[tier]
    n_l = {"quick": 2400, "thorough": 25000, "search": 10000}[tier]
    hl, dist_h = [], {}
    for _ in range(n_h):
        r = rng.random()
        if r < 0.45:
            f = rng.choice(HOPS_SCEN)
            hl.append(f(rng))
            dist_h[f.__name__] = dist_h.get(f.__name__, 0) + 1
        else:
            hl.append(H.gen_case(rng, max_ops=24, kind="mixed"))
            dist_h["gen_hops"] = dist_h.get("gen_hops", 0) + 1
    blines, dist_b = [], {"bk_many": 0, "gen_bank": 0}
    for _ in range(n_b):
        if rng.random() < 0.3:
            blines.append(bk_many(rng))
            dist_b["bk_many"] += 1
        else:
            blines.append(G.gen_case(rng, max_ops=28, limits="mixed", liq_ops=True, loss_ops=True))
            dist_b["gen_bank"] += 1
    ll = [gen_life(rng) for _ in range(n_l)]
    return [{"suite": "hops", "name": "hops-structure", "lines": hl, "distribution": dict(dist_h, cases=n_h)},
            {"suite": "bankops", "name": "bankops-structure", "lines": blines, "distribution": dict(dist_b, cases=n_b)},
            {"suite": "acctlife", "name": "acctlife", "lines": ll, "distribution": {"cases": n_l, "flags": len(FLAGS)}},
            flashloan_on_flagged(rng, {"quick": 300, "thorough": 4000, "search": 1000}[tier])]


def flashloan_on_flagged(rng, n):
    """'a disabled account can no longer ... start a flash loan': flash-loan transactions (real handlers, instructions sysvar)
    on accounts whose flag word has DISABLED (alone or with FROZEN / others) set from the start"""
    lines = []
    while len(lines) < n:
        l = TG.fl_tx(rng)
        cfg = l.split(" ; ")[0].split()
        if any(int(f) & 1 for f in cfg[2:6]):
            lines.append(l)
    return {"suite": "txsim", "name": "flashloan-on-disabled-account", "lines": lines, "distribution": {"transactions": n}}


def nontrivial(suite, case, impl):
    if suite == "txsim":
        return impl.startswith(("OK", "ERR"))
    if suite == "hops":
        tr = O.Trace(case, impl)
        return tr.ok and sum(1 for x in O.walk(tr) if x[1] == "OK" and x[0][0] in (1, 2, 3, 4, 7, 17, 18)) >= 3
    if suite == "bankops":
        c = G.parse_case(case)
        return sum(1 for op, (res, bank, acct) in zip(c["ops"], G.parse_out(impl)) if res[0] == "OK" and op[0] in range(1, 10)) >= 3
    try:
        t, ops, states = parse_life(case, impl)
    except Exception:
        return False
    return any(res == "OK" and op[0] in (1, 2) for op, (res, _) in zip(ops, states))


SV_MAX = 10 ** 6 * ONE      # share-value bound of C16_one_side_per_position_all_histories


def oracle_c16_struct(tr):
    """O.oracle_c16 with the dust clause restricted to the share-value range the theorem states"""
    for op, res, b0, a0, b1, a1, now, prices in O.walk(tr):
        if res != "OK":
            continue
        for ai, a in enumerate(a1):
            sl = a["slots"]
            ids = [s["bank"] for s in sl]
            if len(set(ids)) != len(ids):
                return {"key": "duplicate-position", "what": f"account {ai} holds two positions in one bank after {H.OPN[op[0]]}"}
            if len(sl) > 16 or any(not (0 <= s["slot"] < 16) for s in sl):
                return {"key": "too-many-positions", "what": "more than 16 positions"}
            if sum(1 for s in sl if s["tag"] in INTEG) > 8:
                return {"key": "too-many-integration-positions", "what": "more than 8 integration positions"}
            tags = [s["tag"] for s in sl]
            if 2 in tags and any(O.is_default_like(t) for t in tags):
                return {"key": "staked-mixed-with-default", "what": f"account {ai} mixes staked and default-class positions after {H.OPN[op[0]]}"}
            for s in sl:
                bk = b1[s["bank"] - 1]
                if 0 <= bk["asv"] <= SV_MAX and 0 <= bk["lsv"] <= SV_MAX and \
                        s["a"] * bk["asv"] // ONE > THR and s["l"] * bk["lsv"] // ONE > THR:
                    return {"key": "both-sides", "what": f"account {ai} has a non-dust deposit and a non-dust debt in bank {s['bank']-1} after {H.OPN[op[0]]}"}
                if s["a"] < 0 or s["l"] < 0:
                    return {"key": "negative-shares", "what": "negative shares"}
                if s["tag"] != tr.cfg[s["bank"] - 1]["tag"]:
                    return {"key": "tag-changed", "what": "position tag differs from the bank's tag"}
        if op[0] in (1, 2, 3, 4, 7) and a0[op[1]]["flags"] & 1:
            return {"key": "disabled-account-acted", "what": f"disabled account {op[1]} executed {H.OPN[op[0]]}"}
    return None


def oracle_hops(case, impl):
    tr = O.Trace(case, impl)
    if not tr.ok:
        return None
    v = oracle_c16_struct(tr)
    if v:
        return v
    # clauses oracle_c16 does not look at: EVERY account stays sorted at all times (accounts start empty),
    # slot indices in range, a disabled account stays disabled and cannot close a balance, bankruptcy disables
    for op, res, b0, a0, b1, a1, now, prices in O.walk(tr):
        if res != "OK":
            if a1 != a0:
                return {"key": "failed-instruction-changed-account", "what": f"{H.OPN[op[0]]} failed but an account changed"}
            continue
        for ai, a in enumerate(a1):
            sl = a["slots"]
            ids = [s["bank"] for s in sl]
            if ids != sorted(ids, reverse=True) or [s["slot"] for s in sl] != list(range(len(sl))):
                return {"key": "unsorted", "what": f"account {ai} positions not sorted / not contiguous after {H.OPN[op[0]]}: {ids}"}
            if a0[ai]["flags"] & 1 and not a["flags"] & 1:
                return {"key": "disabled-flag-cleared", "what": f"account {ai} was re-enabled by {H.OPN[op[0]]}"}
            old = {s["bank"]: s["tag"] for s in a0[ai]["slots"]}
            for s in sl:
                if s["bank"] in old and old[s["bank"]] != s["tag"]:
                    return {"key": "tag-changed", "what": "a surviving position changed its asset tag"}
        if op[0] == 18 and not a1[op[1]]["flags"] & 1:
            return {"key": "bankrupt-account-not-disabled", "what": "account not disabled after bankruptcy"}
    return None


def oracle_bankops(case, impl):
    c = G.parse_case(case)
    outs = G.parse_out(impl)
    tags = [b["tag"] for b in c["banks"]]
    sv = [(b["asv"], b["lsv"]) for b in c["banks"]]
    prev = {}
    for op, (res, bank, acct) in zip(c["ops"], outs):
        k = op[0]
        if res[0] != "OK":
            continue
        if k in (10, 11) and bank:
            sv[op[1]] = (bank["asv"], bank["lsv"])
        if k not in (1, 2, 3, 4, 5, 6, 7, 8, 9, 12, 13, 14):
            continue
        a_i = op[1]
        sl = acct or []
        ids = [s["bank"] for s in sl]
        if len(set(ids)) != len(ids):
            return {"key": "duplicate-position", "what": f"account {a_i} holds two positions in one bank after {G.OPN[k]}"}
        if len(sl) > 16 or any(not (0 <= s["slot"] < 16) for s in sl) or len({s["slot"] for s in sl}) != len(sl):
            return {"key": "too-many-positions", "what": "more than 16 positions / slot index out of range"}
        if sum(1 for s in sl if s["tag"] in INTEG) > 8:
            return {"key": "too-many-integration-positions", "what": f"{sum(1 for s in sl if s['tag'] in INTEG)} integration positions after {G.OPN[k]}"}
        for s in sl:
            if not (1 <= s["bank"] <= c["nb"]) or s["tag"] != tags[s["bank"] - 1]:
                return {"key": "tag-changed", "what": f"position of bank {s['bank']-1} carries tag {s['tag']}"}
        if k == 14 and (ids != sorted(ids, reverse=True) or [s["slot"] for s in sl] != list(range(len(sl)))):
            return {"key": "unsorted", "what": f"sort_balances left {ids}"}
        if k != 14:
            b_i = op[2]
            if bank:
                sv[b_i] = (bank["asv"], bank["lsv"])
            for s in sl:
                if s["bank"] == b_i + 1:
                    asv, lsv = sv[b_i]
                    if 0 <= asv <= SV_MAX and 0 <= lsv <= SV_MAX and s["a"] * asv // ONE > THR and s["l"] * lsv // ONE > THR:
                        return {"key": "both-sides", "what": f"{G.OPN[k]}: position of bank {b_i} has a non-dust deposit and a non-dust debt"}
            if k in (5, 6, 7) and any(s["bank"] == b_i + 1 for s in sl):
                return {"key": "closed-position-still-active", "what": f"{G.OPN[k]} left the slot active"}
        # positions of other banks are untouched by a slot operation
        old = prev.get(a_i)
        if old is not None and k != 14:
            o2 = {s["bank"]: (s["tag"], s["a"], s["l"]) for s in old if s["bank"] != op[2] + 1}
            n2 = {s["bank"]: (s["tag"], s["a"], s["l"]) for s in sl if s["bank"] != op[2] + 1}
            if o2 != n2:
                return {"key": "other-position-changed", "what": f"{G.OPN[k]} on bank {op[2]} changed another position"}
        prev[a_i] = sl
    return None


def oracle(suite, case, impl):
    if suite == "txsim":
        v = C11.oracle_sim(case, impl)
        return v if v and v["key"] in ("start-on-disabled-or-frozen", "harness") else None
    if suite == "hops":
        return oracle_hops(case, impl)
    if suite == "bankops":
        return oracle_bankops(case, impl)
    return oracle_life(case, impl)
