"""C17 — caps and utilisation: limits hold after every user action."""
import gen_bank as G
import gen_hops as H
from props import c20 as C20
ID = "C17"
MANIFEST = {
    "text": ("Kernel-checked theorems over the bank/wrapper model for all limits, share values and amounts: a successful deposit "
             "that mints shares leaves total deposits strictly below an active deposit limit, a successful borrow leaves total "
             "debt strictly below an active borrow limit, successful withdraw/borrow/withdraw_all leave deposits >= debt, the "
             "remaining-capacity function is safe (any amount up to it passes the cap), only the two liquidation primitives "
             "bypass. Tied to the real code at wrapper level (bankops) and at handler level (real deposit/borrow/withdraw "
             "instructions in the sim runtime, including 'up to limit' deposits after clock advances)."),
    "design_ref": "DESIGN.md §7 C17",
    "technique": "Coq proof (inversion lemmas of the wrapper primitives + floor arithmetic) + model/implementation correspondence at wrapper and handler level",
}
THEOREMS = ["C17_deposit_below_limit", "C17_borrow_below_limit_and_utilisation", "C17_withdraw_all_utilisation",
            "C17_capacity_is_safe", "C17_deposit_instruction_respects_limit",
            "C17_borrow_instruction_respects_limit_and_utilisation", "C17_withdraw_instruction_keeps_utilisation",
            "C17_up_to_limit_never_fails_for_capacity", "C17_up_to_limit_books_min"]
RULE = ("level B: operation sequences on the real Bank/BankAccountWrapper with limits 0, 1, 10^k, random, u64::MAX; level C: real "
        "instruction handlers with banks funded by a lender, borrowers near their limit, clock advances, and deposits flagged "
        "'up to limit' with amounts far above the capacity. Non-trivial = a sequence in which a limit was active and at least "
        "one deposit or borrow succeeded; distinct = different case line")
ASSUMPTIONS = [
    "cap theorems are stated for non-Drift asset tags (Drift banks compare against the limit scaled to 9 decimals; covered by the correspondence only)",
    "share values: asset share value >= 0, liability share value > 0; balances have non-negative shares",
]
OBSERVATIONS = [
    "a deposit limit of 0 refuses every share-minting deposit; u64::MAX means unlimited",
    "fixed defect (commit 0857a8b8): lending_account_deposit used to compute the 'up to limit' capacity before accruing interest",
]
ONE = G.ONE
U64 = G.U64_MAX


def suites(rng, tier):
    n = {"quick": 800, "thorough": 20000, "search": 12000}[tier]
    a = [G.gen_case(rng, max_ops=26, limits="mixed", liq_ops=True) for _ in range(n)]
    m = {"quick": 500, "thorough": 8000, "search": 6000}[tier]
    b = [H.gen_case(rng) for _ in range(m)] + [gen_up_to(rng) for _ in range(m // 3)]
    dl = [f"dlimit {rng.choice([0, 1, 10 ** 6, 10 ** 9, 10 ** 12, U64, rng.randrange(0, 1 << 64)])} {rng.choice(list(range(0, 24)) + [9, 10, 12, 18, 19, 20])}"
          for _ in range({"quick": 600, "thorough": 6000, "search": 3000}[tier])]
    return [{"suite": "xrate", "name": "venue-deposit-cap-scaling", "lines": dl,
             "distribution": {"cases": len(dl), "note": "the deposit cap of a Drift bank is compared in 9-decimal scaled-balance units: scale_drift_deposit_limit(limit, mint decimals) must be the cap times 10^(9 - decimals) exactly (floor), for every mint precision - a cap scaled the wrong way lets deposits through above the configured limit"}},
            {"suite": "bankops", "name": "bankops-limits", "lines": a, "distribution": {"cases": n}},
            {"suite": "hops", "name": "hops-limits", "lines": b, "distribution": {"cases": len(b), "up_to_limit_scenarios": m // 3}}]


def gen_up_to(rng):
    """lender deposits, borrower drives utilisation up, time passes, then an 'up to limit' deposit"""
    now = 1_700_000_000
    limit = rng.choice([2 * 10 ** 9, 10 ** 12, 10 ** 6, rng.randrange(10 ** 6, 10 ** 12)])
    dep0 = limit // rng.choice([2, 3, 10])
    util = rng.choice([50, 90, 99, 100])
    rate = rng.choice([(1 << 32) // 10, (1 << 32) // 100, (1 << 32) - 1])
    ir = [1, 0, 0, 0, 0, 0, 0, 0, 0, rate] + [0, 0] * 5
    b0 = [ONE, ONE, 0, 0, 0, 0, 0, now, limit, U64, 0, 6, 0, 0, 0, 0, 0, 1] + ir + [ONE, ONE, ONE, ONE, 0, 0, ONE, rng.choice([0, 1, 2]), rng.choice([0, 50]), rng.choice([0, 10 ** 6]), 0, 0, 0]
    b1 = [ONE, ONE, 0, 0, 0, 0, 0, now, U64, U64, 0, 6, 0, 0, 0, 0, 0, 1] + ir + [ONE, ONE, ONE, ONE, 0, 0, ONE, 0, 0, 0, 0, 0, 0]
    ops = [[1, 0, 0, dep0, 0], [1, 1, 1, 10 ** 13, 0], [3, 1, 0, max(1, dep0 * util // 100 - 1)]]
    now2 = now + rng.choice([1, 3600, 86400, 30 * 86400, 365 * 86400])
    ops += [[0, now2], [1, 0, 0, rng.choice([10 ** 15, limit, limit * 2, 1 << 60]), 1]]
    if rng.random() < 0.5:
        ops += [[0, now2 + rng.choice([1, 86400])], [1, 1, 0, 1 << 60, 1]]
    toks = [2, 2, rng.randrange(2), 0, 0, now] + b0 + b1 + [len(ops)]
    for o in ops:
        toks += o
    return " ".join(map(str, toks))


def nontrivial(suite, case, impl):
    if suite == "xrate":
        return impl.split()[0].lstrip("-").isdigit()
    if suite == "bankops":
        c = G.parse_case(case)
        if all(b["dep_limit"] == U64 and b["bor_limit"] == U64 for b in c["banks"]):
            return False
        return sum(1 for seg, op in zip(impl.split(" | "), c["ops"]) if seg.startswith("OK") and op[0] in (1, 3)) >= 1
    c = H.parse_case(case)
    if all(b["dep_limit"] == U64 and b["bor_limit"] == U64 for b in c["banks"]):
        return False
    return sum(1 for seg, op in zip(impl.split(" | "), c["ops"]) if seg.startswith("OK") and op[0] in (1, 3)) >= 1


def drift_scale(limit, decimals):
    lim = limit * ONE
    if decimals == 9:
        return lim
    if decimals < 9:
        return lim * 10 ** (9 - decimals)
    return lim * ONE // (10 ** (decimals - 9) * ONE) if False else (lim * ONE) // ((10 ** (decimals - 9)) * ONE)


def check_bank(k, cfg, before, after, key_prefix=""):
    """cfg: static bank config (limits, tag, decimals); before/after: bank dumps"""
    tot_a = after["tas"] * after["asv"] // ONE
    tot_l = after["tls"] * after["lsv"] // ONE
    if k == "deposit" and cfg["dep_limit"] != U64 and after["tas"] > before["tas"]:
        lim = drift_scale(cfg["dep_limit"], cfg["decimals"]) if cfg["tag"] == 4 else cfg["dep_limit"] * ONE
        if not tot_a < lim:
            return {"key": "deposit-over-limit", "what": f"deposit left total deposits {tot_a} >= limit {lim}"}
    if k == "borrow" and cfg["bor_limit"] != U64 and after["tls"] > before["tls"]:
        if not tot_l < cfg["bor_limit"] * ONE:
            return {"key": "borrow-over-limit", "what": f"borrow left total debt {tot_l} >= limit {cfg['bor_limit'] * ONE}"}
    if k in ("borrow", "withdraw") and tot_a < tot_l:
        return {"key": "utilisation>100%", "what": f"{k} left total deposits {tot_a} < total debt {tot_l}"}
    return None


def oracle(suite, case, impl):
    if suite == "xrate":
        v = C20.oracle(suite, case, impl)
        if v:
            return {"key": "venue-deposit-cap-misscaled:" + v["key"], "what": v["what"]}
        return None
    if suite == "bankops":
        c = G.parse_case(case)
        outs = G.parse_out(impl)
        st = [dict(b) for b in c["banks"]]
        for op, (res, bank, _) in zip(c["ops"], outs):
            k = op[0]
            if bank is None or k == 0:
                continue
            bi = op[1] if k in (10, 11, 15) else op[2]
            if res[0] == "OK":
                kind = {1: "deposit", 4: "deposit", 3: "borrow", 2: "withdraw", 5: "withdraw"}.get(k)
                if kind:
                    v = check_bank(kind, c["banks"][bi], st[bi], bank)
                    if v:
                        return v
            st[bi].update(bank)
        return None
    c = H.parse_case(case)
    outs = H.parse_out(impl, c["nb"])
    prev = None
    for op, (res, banks, accts) in zip(c["ops"], outs):
        k = op[0]
        if k == 1 and op[4] == 1 and res == "E6003":
            return {"key": "up-to-limit-fails-capacity", "what": f"deposit flagged up-to-limit failed with BankAssetCapacityExceeded (amount {op[3]})"}
        if res == "OK" and prev is not None and k in (1, 2, 3, 4):
            b = op[2]
            kind = {1: "deposit", 4: "deposit", 3: "borrow", 2: "withdraw"}[k]
            # interest accrued inside the instruction may by itself push totals over a limit: only a
            # share-minting deposit / borrow is checked against the caps (as the code does)
            v = check_bank(kind, c["banks"][b], prev[b], banks[b])
            if v:
                return v
        prev = banks
    return None
