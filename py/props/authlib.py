"""authlib — shared by c08.py / c14.py: base transactions of every instruction over the fixture world of
harness/src/suites/auth.rs, and formatting of `auth` suite case lines.

The accounts table (field order, wrappers, mut / signer flags) is read from the translator's JSON
(.cache/gen/accounts_table.json, regenerated from /repo on every run), so a new / renamed field or
instruction shows up here as a KeyError -> broken tie, not as a silently skipped cell."""
import json, os

VERIF = os.path.dirname(os.path.dirname(os.path.dirname(os.path.abspath(__file__))))
TABLE_JSON = os.path.join(VERIF, ".cache", "gen", "accounts_table.json")

_table = None


def table():
    global _table
    if _table is None:
        _table = json.load(open(TABLE_JSON))
    return _table


def entry(ix):
    for e in table()["entries"]:
        if e["ix"] == ix:
            return e
    raise KeyError("instruction not in the generated table: " + ix)


# ------------------------------------------------------------------------------------------------
# base bindings

VAULT_SUFFIX = {
    "liquidity_vault": "lv", "bank_liquidity_vault": "lv", "insurance_vault": "iv", "bank_insurance_vault": "iv",
    "fee_vault": "fv", "liquidity_vault_authority": "lva", "bank_liquidity_vault_authority": "lva",
    "insurance_vault_authority": "iva", "fee_vault_authority": "fva",
}
VAULT_SEED = {"lv": "liquidity_vault", "iv": "insurance_vault", "fv": "fee_vault",
              "lva": "liquidity_vault_auth", "iva": "insurance_vault_auth", "fva": "fee_vault_auth"}

DEFAULTS = {
    "group": "gA", "marginfi_group": "gA", "marginfi_account": "accA", "authority": "u", "bank": "bk1",
    "signer_token_account": "u.t1", "destination_token_account": "u.t1",
    "token_program": "PROG:token", "system_program": "PROG:system",
    "fee_state": "fs", "global_fee_wallet": "fwal", "global_fee_admin": "fadm",
    "admin": "adm", "fee_payer": "payer", "payer": "payer",
    "emode_admin": "emo", "delegate_curve_admin": "cur", "delegate_limit_admin": "lim",
    "delegate_emissions_admin": "emi", "metadata_admin": "met", "risk_admin": "rsk",
    "bank_mint": "m1", "mint": "m1", "emissions_mint": "em", "emissions_auth": "bk1.eauth",
    "emissions_vault": "bk1.evault", "emissions_token_account": "bk1.evault",
    "instructions_sysvar": "SYSVAR:ix", "instruction_sysvar": "SYSVAR:ix", "ixs_sysvar": "SYSVAR:ix",
    "instruction_sysvar_account": "SYSVAR:ix", "rent": "SYSVAR:rent",
    "staked_settings": "ssA", "metadata": "bk1.meta",
}

ARGS = {"bank_seed": 7, "account_index": 3, "third_party_id": 0}


def new_bank_vaults(bank_alias):
    return {f: "pda[marginfi;s:%s;k:%s]" % (VAULT_SEED[sfx], bank_alias) for f, sfx in VAULT_SUFFIX.items()}


# per instruction: field overrides, plus "_tw" (tweaks), "_al" (aliases), "_mode", "_bank" (bank whose vaults
# the vault fields default to)
OVERRIDES = {
    "marginfi_group_initialize": {"marginfi_group": "new:group"},
    "lending_pool_add_bank": dict(new_bank_vaults("nb"), bank="nb", _al=["nb=new:bank"]),
    "lending_pool_add_bank_with_seed": dict(new_bank_vaults("nb"), bank="nb",
                                            _al=["nb=pda[marginfi;k:gA;k:m1;n8:7]"]),
    "lending_pool_clone_bank": dict(new_bank_vaults("nb"), bank="nb", source_bank="bk1",
                                    _al=["nb=pda[marginfi;k:gA;k:m1;n8:7]"], _mode="val"),
    "lending_pool_add_bank_permissionless": dict(new_bank_vaults("nb"), bank="nb", sol_pool="new:solpool",
                                                 stake_pool="new:stakepool",
                                                 _al=["nb=pda[marginfi;k:gA;k:m1;n8:7]"], _mode="val"),
    "lending_pool_force_tokenless_repay_complete": {"bank": "bkT"},
    "lending_pool_clone_emode": {"signer": "emo", "copy_from_bank": "bk1", "copy_to_bank": "bk2"},
    "lending_pool_setup_emissions": {"bank": "bk2", "emissions_auth": "pda[marginfi;s:emissions_auth_seed;k:bk2;k:em]",
                                     "emissions_token_account": "pda[marginfi;s:emissions_token_account_seed;k:bk2;k:em]",
                                     "emissions_funding_account": "emi.tem"},
    "lending_pool_update_emissions_parameters": {"emissions_funding_account": "emi.tem"},
    "lending_pool_handle_bankruptcy": {"signer": "rsk", "bank": "bk2", "marginfi_account": "accBad"},
    "marginfi_account_initialize": {"marginfi_account": "new:acc"},
    "marginfi_account_init_liq_record": {"marginfi_account": "accL", "liquidation_record": "pda[marginfi;s:liq_record;k:accL]"},
    "marginfi_account_initialize_pda": {"marginfi_account": "pda[marginfi;s:marginfi_account;k:gA;k:u;n2:3;n2:0]"},
    "lending_account_repay": {"bank": "bk2", "signer_token_account": "u.t2"},
    "lending_account_borrow": {"bank": "bk2", "destination_token_account": "u.t2"},
    "lending_account_close_balance": {"bank": "bk3"},
    "lending_account_withdraw_emissions": {"destination_account": "u.tem"},
    "lending_account_liquidate": {"asset_bank": "bk1", "liab_bank": "bk2", "liquidator_marginfi_account": "accL",
                                  "authority": "liq", "liquidatee_marginfi_account": "accU", "_bank": "bk2"},
    "marginfi_account_update_emissions_destination_account": {"destination_account": "u.tem"},
    "lending_pool_collect_bank_fees": {"fee_ata": "fwal.ata1"},
    "lending_pool_withdraw_fees": {"dst_token_account": "adm.t1"},
    "lending_pool_withdraw_fees_permissionless": {"fees_destination_account": "adm.t1"},
    "lending_pool_update_fees_destination_account": {"destination_account": "adm.t1"},
    "lending_pool_withdraw_insurance": {"dst_token_account": "adm.t1"},
    "lending_pool_close_bank": {"bank": "bkE"},
    "transfer_to_new_account": {"old_marginfi_account": "accA", "new_marginfi_account": "new:acc", "new_authority": "nu"},
    "transfer_to_new_account_pda": {"old_marginfi_account": "accA", "new_authority": "nu",
                                    "new_marginfi_account": "pda[marginfi;s:marginfi_account;k:gA;k:nu;n2:3;n2:0]"},
    "marginfi_account_close": {"marginfi_account": "accE"},
    # end_flashloan runs alone on an account whose IN_FLASHLOAN flag is set (start_flashloan is a separate cell)
    "lending_account_end_flashloan": {"_tw": ["aflag:accA:2:1", "aflag:accB:2:1"]},
    "lending_account_withdraw_emissions_permissionless": {"destination_account": "u.ataem"},
    "init_global_fee_state": {"_tw": ["del:fs"]},
    "init_staked_settings": {"_tw": ["del:ssA"]},
    "start_liquidation": {"marginfi_account": "accU", "liquidation_record": "accU.rec", "liquidation_receiver": "liq"},
    "end_liquidation": {"marginfi_account": "accU", "liquidation_record": "accU.rec", "liquidation_receiver": "liq",
                        "_mtw": ["aflag:accU:16:1", "recv:accU.rec:liq"]},
    "start_deleverage": {"marginfi_account": "accU", "liquidation_record": "accU.rec"},
    "end_deleverage": {"marginfi_account": "accU", "liquidation_record": "accU.rec",
                       "_mtw": ["aflag:accU:16:1", "aflag:accU:32:1", "recv:accU.rec:rsk"]},
    "panic_unpause": {"_tw": ["fspause:1:-100:1:1"]},
    "panic_unpause_permissionless": {"_tw": ["fspause:1:-2000:1:1"]},
    "init_bank_metadata": {"bank": "bk2", "metadata": "pda[marginfi;s:metadata;k:bk2]"},
    "purge_deleverage_balance": {"marginfi_account": "accT", "bank": "bkT"},
}

NB = "pda[marginfi;k:gA;k:m1;n8:7]"
NBLVA = "pda[marginfi;s:liquidity_vault_auth;k:nb]"
KAMINO_COMMON = {"lending_market": "klm", "integration_acc_1": "kres", "kamino_program": "PROG:kamino",
                 "farms_program": "PROG:farms", "collateral_token_program": "PROG:token",
                 "liquidity_token_program": "PROG:token", "reserve_liquidity_mint": "m1"}
DRIFT_COMMON = {"integration_acc_1": "dsm", "drift_program": "PROG:drift"}
SOLEND_COMMON = {"integration_acc_1": "sres", "solend_program": "PROG:solend", "reserve_liquidity_supply": "s.t1",
                 "reserve_collateral_supply": "s.t2"}
OVERRIDES.update({
    "kamino_init_obligation": dict(KAMINO_COMMON, bank="bkK0", signer_token_account="payer.t1",
                                   integration_acc_2="bkK0.kobl", reserve_liquidity_supply="s.t1",
                                   reserve_destination_deposit_collateral="s.t2"),
    "kamino_deposit": dict(KAMINO_COMMON, bank="bkK", integration_acc_2="bkK.kobl"),
    "kamino_withdraw": dict(KAMINO_COMMON, bank="bkK", integration_acc_2="bkK.kobl"),
    "lending_pool_add_bank_kamino": dict(new_bank_vaults("nb"), bank="nb", integration_acc_1="kres",
                                         integration_acc_2="pda[kamino;n1:0;n1:0;k:nblva;k:klm;k:PROG:system;k:PROG:system]",
                                         _al=["nb=" + NB, "nblva=" + NBLVA]),
    "kamino_harvest_reward": {"bank": "bkK", "destination_token_account": "fwal.ataem", "reward_mint": "em",
                              "farms_program": "PROG:farms"},
    "lending_pool_add_bank_drift": dict(new_bank_vaults("nb"), bank="nb", integration_acc_1="dsm",
                                        integration_acc_2="pda[drift;s:user;k:nblva;n2:0]",
                                        integration_acc_3="pda[drift;s:user_stats;k:nblva]",
                                        _al=["nb=" + NB, "nblva=" + NBLVA]),
    "drift_init_user": dict(DRIFT_COMMON, bank="bkD0", signer_token_account="payer.t1", integration_acc_2="bkD0.duser",
                            integration_acc_3="bkD0.dstats"),
    "drift_deposit": dict(DRIFT_COMMON, bank="bkD", integration_acc_2="bkD.duser", integration_acc_3="bkD.dstats"),
    "drift_withdraw": dict(DRIFT_COMMON, bank="bkD", integration_acc_2="bkD.duser", integration_acc_3="bkD.dstats"),
    "drift_harvest_reward": {"bank": "bkDh", "integration_acc_2": "bkDh.duser", "integration_acc_3": "bkDh.dstats",
                             "intermediary_token_account": "bkDh.lva.ataem", "destination_token_account": "fwal.ataem",
                             "harvest_drift_spot_market": "dsm2", "reward_mint": "em", "drift_program": "PROG:drift"},
    "lending_pool_add_bank_solend": dict(new_bank_vaults("nb"), bank="nb", integration_acc_1="sres",
                                         integration_acc_2="pda[marginfi;s:solend_obligation;k:nb]", _al=["nb=" + NB]),
    "solend_init_obligation": dict(SOLEND_COMMON, bank="bkS0", signer_token_account="payer.t1", integration_acc_2="bkS0.sobl"),
    "solend_deposit": dict(SOLEND_COMMON, bank="bkS", integration_acc_2="bkS.sobl"),
    "solend_withdraw": dict(SOLEND_COMMON, bank="bkS", integration_acc_2="bkS.sobl"),
    "propagate_staked_settings": {"bank": "bkSt"},
})

VENUE = ("kamino_", "drift_", "solend_", "lending_pool_add_bank_kamino", "lending_pool_add_bank_drift",
         "lending_pool_add_bank_solend")


def is_venue(ix):
    return ix.startswith(VENUE)


def base(ix):
    """base transaction of `ix`: {"fields": [(name, obj)], "tw": [...], "al": [...], "mode": str}"""
    e = entry(ix)
    ov = OVERRIDES.get(ix, {})
    bank = ov.get("_bank", ov.get("bank", DEFAULTS["bank"]))
    acct = ov.get("marginfi_account", DEFAULTS["marginfi_account"])
    fields = []
    for f in e["fields"]:
        n = f["name"]
        if n in ov:
            o = ov[n]
        elif n in VAULT_SUFFIX:
            o = f"{bank}.{VAULT_SUFFIX[n]}"
        elif n == "liquidation_record":
            o = f"{acct}.rec"
        elif n in DEFAULTS:
            o = DEFAULTS[n]
        elif f["opt"]:
            o = "NONE"
        elif f["w"] in ("WUnchecked", "WSystemAccount") and f["seeds"] is None and f["address"] is None and not f["has_one"]:
            o = "new:" + n          # a pass-through account of a venue CPI: any (non-existent) key
        else:
            raise KeyError(f"no base object for field {ix}.{n}")
        fields.append((n, o))
    return {"ix": ix, "fields": fields, "tw": list(ov.get("_tw", [])), "al": list(ov.get("_al", [])),
            "mtw": list(ov.get("_mtw", [])),
            "mode": ov.get("_mode", "val" if is_venue(ix) else "full")}


def flags(ix, fields, nosign=None, readonly=None):
    """signer / writable bit strings from the table (Signer wrapper; mut; init accounts that are not PDAs
    sign for their own creation)"""
    e = entry(ix)
    sg, wr = "", ""
    for f, (n, o) in zip(e["fields"], fields):
        s = f["w"] == "WSigner" or (f["init"] and f["seeds"] is None)
        if o == "NONE":
            s, w = False, False
        else:
            w = f["mut"]
        if nosign == n:
            s = False
        if readonly == n:
            w = False
        sg += "1" if s else "0"
        wr += "1" if w else "0"
    return sg, wr


def line(cell, t=0, nosign=None, readonly=None):
    ix = cell["ix"]
    sg, wr = flags(ix, cell["fields"], nosign, readonly)
    a = ",".join(f"{n}:{o}" for n, o in cell["fields"])
    ar = ",".join(f"{k}:{v}" for k, v in ARGS.items())
    tw = ";".join(cell["tw"]) if cell["tw"] else "-"
    al = "|".join(cell["al"]) if cell["al"] else "-"
    mtw = ";".join(cell.get("mtw", [])) if cell.get("mtw") else "-"
    return f"X ix={ix} m={cell['mode']} t={t} a={a} sg={sg} wr={wr} ar={ar} al={al} tw={tw} mtw={mtw}"


def with_field(cell, name, obj):
    c = dict(cell)
    c["fields"] = [(n, obj if n == name else o) for n, o in cell["fields"]]
    return c


def with_tweak(cell, tw):
    c = dict(cell)
    c["tw"] = cell["tw"] + [tw]
    return c


def instructions():
    return [e["ix"] for e in table()["entries"]]
