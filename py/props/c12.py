"""C12 — least privilege: each admin role changes only what it is entitled to."""
from fractions import Fraction
import gen_bank as G
import gen_hops as H
from props import c13 as K
from props import txgen as TG
from props import c10 as C10

ID = "C12"
MANIFEST = {
    "text": ("Kernel-checked frame theorems over the model of every delegated-administrator instruction (interest-only, limits-only, "
             "e-mode configure/clone, emissions setup/update, metadata write, force-tokenless-complete, and the admin's configure / oracle / "
             "fixed-price on frozen banks): after a successful instruction every field outside the role's remit is unchanged, for all "
             "arguments incl. all flag words (bit-mask lemmas over all integers, no enumeration); the emissions admin changes only rate, "
             "mint, remaining amount and bits 1|2 of the flag word, a word with any other bit is refused; a frozen bank only lets "
             "deposit/borrow limits through and stays frozen under ANY sequence of instructions by any signers. Forced deleverage: the "
             "transaction model [start, withdraw*, repay*, end] gives post-health >= pre-health and both receivership flags cleared; the "
             "daily window invariant (sum of whole dollars accepted since the last reset <= limit, resets >= 86400 s apart) is proved by "
             "induction over any list of withdrawals of any value, assuming only a configured (non-zero, u32) limit. The four defects found "
             "in round 1 (F1, F2, u32 wrap and saturation of the window) are repaired in /repo (db069f3a, a59dfe5a, f9ac4dbc); their oracle "
             "keys stay armed. Tied to the real code by level-C differential execution of every instruction through marginfi::entry in the "
             "sim runtime with a byte-exact, field-by-field diff of the bank (table tiling all 1856 bytes incl. paddings), group and "
             "metadata accounts and a whole-store diff of every other account, and by whole deleverage transactions. Who HOLDS a role "
             "(model/GroupRoles.v): a successful marginfi_group_configure was signed by the current admin and stores each requested key under "
             "the role of the same name; no history without the admin's signature changes the role table; every holder of a role at the "
             "end of any history was appointed to exactly that role by the admin of that moment - corresponded with the real configure "
             "(distinct keys per role, arbitrary signers) and with six delegated instructions probed through the entry point."),
    "design_ref": "DESIGN.md §7 C12 (§8 F1 F2 repaired)",
    "technique": "Coq proofs (frame equations via field erasers, Z.land/Z.lor/Z.ldiff bit lemmas by Z.bits_inj', induction over withdrawal lists) + model/implementation correspondence at level C (real handlers, byte-level field diff)",
}
THEOREMS = [
    "C12_curve_admin_frame", "C12_limit_admin_frame", "C12_emode_admin_frame", "C12_metadata_admin_frame",
    "C12_risk_admin_frame", "C12_emissions_admin_frame", "C12_emissions_foreign_flags_rejected",
    "C12_configure_touches_only_its_three_flags", "C12_frozen", "C12_freeze_sticky",
    "C12_unauthorized_signer_rejected",
    "C12_deleverage_health_not_worse", "C12_deleverage_bracket", "C12_deleverage_only_risk_admin",
    "C12_daily_limit", "C12_daily_resets_spaced", "C12_deleverage_tx_window", "C12_purge_guard",
    "C12_roles_assigned_exactly_by_admin", "C12_roles_frozen_without_admin", "C12_role_holder_appointed_by_admin",
]
RULE = ("privsim: 1-6 real admin instructions per case on two fixture banks (frozen in ~45% of the cases) by the entitled signer (88%) or "
        "another role; arguments: every Option combination, flag words = subsets of the 7 defined bits, single bits 0..63, the masks "
        "EMISSION_FLAGS / GROUP_FLAGS and their complements, all-ones, random 64-bit, and words that keep the bank's non-emissions bits; "
        "amounts 0, small, the funding balance +-1, u64::MAX; metadata lengths 0, 1, cap-1, cap, cap+1. delevsim: scripted worlds "
        "(lender, borrower, limit configured) followed by 2-7 deleverage transactions with withdrawn dollars around the remaining "
        "limit (+-1 dollar), repayments around the health-neutral amount, clock steps around 86400 s after the last reset, plus "
        "random transactions (wrong signer, withdraw_all / repay_all, several withdrawals, no limit, limit u32::MAX, single "
        "withdrawals around 2^32 dollars), tokenless repayments and lending_account_purge_delev_balance with and without the COMPLETE flag. Non-trivial = at least one successful instruction that changed something; distinct = different case line")
ASSUMPTIONS = [
    "the bytes of a bank outside the modelled fields are one opaque token of the model (pb_rest); that the real handlers leave them alone is what the level-C byte diff checks (paddings included), not a theorem",
    "validate_oracle_setup (oracle accounts) and the existence of the emissions token account are external inputs of the model (tabulated from the real handler for the privsim world)",
    "account validation other than the role check (seeds, ownership, group membership) is C08",
    "lending_account_purge_delev_balance is modelled (guards, balance closed, shares removed) and differentially executed; its frame is checked by the world dump of delevsim, not by a byte diff",
    "deleverage: banks use Fixed-price oracles (as suite hops); the transaction shape enforced by instruction introspection is built into the model; the integration withdraw instructions (kamino / drift / solend) are not modelled",
    "the health compared by end_deleverage is the one the real risk engine computes at the two instants; equal-price assumptions are not needed",
]
OBSERVATIONS = [
    "propagate_staked_settings (permissionless, not among the instructions anchored by C12) overwrites asset weights, deposit limit, collateral-value cap, oracle key/max age and risk tier of a FROZEN staked bank from the group's StakedSettings (lemma propagate_ignores_freeze, privsim step PR)",
    "lending_pool_configure_bank_oracle and lending_pool_set_fixed_oracle_price panic on a frozen bank (transaction fails): the freeze is respected",
    "lending_pool_configure_bank_emode / lending_pool_clone_emode do not look at FREEZE_SETTINGS: e-mode settings of a frozen bank can change (e-mode is not in the property's list of frozen items)",
    "configure_deleverage_withdrawal_limit (group admin) moves last_daily_reset_timestamp to now without clearing withdrawn_today: it can only postpone a reset",
    "CLOSE_ENABLED_FLAG is outside GROUP_FLAGS and EMISSION_FLAGS: only Bank::new sets it and (since db069f3a / a59dfe5a) no admin instruction can change it",
    "update_withdrawn_equity with daily_limit = 0 (no limit) clamps withdrawn_today at u32::MAX; nothing is claimed for that case",
]

ONE = 1 << 48
U32 = (1 << 32) - 1
U64 = (1 << 64) - 1
NOW = 1_700_000_000
FUNDING = 1 << 62
EMISSION_FLAGS, GROUP_FLAGS, FREEZE, TOKENLESS_ALLOWED, TOKENLESS_COMPLETE = 3, 108, 8, 32, 64
DAY = 86400
KNOWN_KEYS = ()   # nothing is tolerated: the four round-1 findings are repaired in /repo, their oracle keys stay armed
ROLE = {"admin": 0, "emode": 1, "curve": 2, "limit": 3, "emissions": 4, "metadata": 5, "risk": 6, "stranger": 7}
ENTITLED = {"CFG": (0,), "IRO": (2,), "LIM": (3,), "EM": (1,), "CL": (0, 1), "ORA": (0,), "FIX": (0,), "ESET": (4,),
            "EUPD": (4,), "META": (5,), "FTC": (6,)}
PRIV_KINDS = ("CFG", "IRO", "LIM", "EM", "CL", "ORA", "FIX", "ESET", "EUPD", "META", "FTC", "SSI", "PR")
line = K.line

# ------------------------------------------------------------------------------------------------ privsim generators


def gen_flags(rng):
    m = rng.random()
    if m < 0.25:
        return rng.choice([0, 16, 16, 24, 8, 20, 48, 112, 56, 127, 19, 1, 2, 3])
    if m < 0.45:
        return rng.randrange(0, 128)
    if m < 0.6:
        return 1 << rng.randrange(64)
    if m < 0.7:
        return rng.choice([3, 108, U64 ^ 3, U64 ^ 108, U64, U64 ^ 8, U64 ^ 16, 1 << 63])
    if m < 0.85:
        return rng.getrandbits(64)
    return rng.randrange(0, 128) | (rng.getrandbits(57) << 7)


def gen_bank_flags(rng):
    m = rng.random()
    if m < 0.35:
        f = rng.choice([16, 16, 0, 20, 48, 112, 17, 18, 19])
    elif m < 0.8:
        f = rng.randrange(0, 128)
    else:
        f = gen_flags(rng)
    if rng.random() < 0.4:
        f |= FREEZE
    return f


def gen_amount(rng):
    return rng.choice([0, 0, 1, 5, 10 ** 6, 10 ** 9, FUNDING, FUNDING - 1, FUNDING + 1, FUNDING // 2, U64, rng.randrange(0, U64),
                       rng.randrange(0, FUNDING)])


def hexbytes(rng, n):
    return "".join("%02x" % rng.randrange(256) for _ in range(n)) if n else "-"


def gen_bank_hdr(rng, staked=False):
    c = K.gen_cfg(rng, rng.random() < 0.93, tag_std=True)
    if staked:
        c["tag"] = 2
    elif rng.random() < 0.05:
        c["tag"] = rng.choice([2, 3, 77])
    c["okey"] = rng.choice([3, 3, 3, 0, 1, 2])
    osetup = rng.choice([3, 3, 3, 3, 4, 5, 8, 0, 6]) if not staked else rng.choice([5, 5, 3, 8])
    fixed = rng.choice([0, ONE, rng.randrange(0, 1 << 70)])
    flags = gen_bank_flags(rng)
    return c, K.cfg_toks(c) + [osetup, fixed, flags], flags


def set_last3(opt_toks, rng, frozen):
    """replace the three trailing boolean options (pbd, freeze, tokenless) of a BankConfigOpt token list"""
    t = list(opt_toks)
    for _ in range(3):
        if t[-1] == "N":
            t = t[:-1]
        else:
            t = t[:-2]
    def ob(p, v=None):
        if rng.random() < p:
            return ["S", str(rng.randrange(2) if v is None else v)]
        return ["N"]
    t += ob(0.3)
    # try to lift the freeze of a frozen bank often, freeze an unfrozen one sometimes
    t += ob(0.6, 0) if frozen else ob(0.3)
    t += ob(0.3)
    return t


def gen_priv_case(rng):
    staked1 = rng.random() < 0.12
    c0, h0, f0 = gen_bank_hdr(rng)
    c1, h1, f1 = gen_bank_hdr(rng, staked1)
    em0 = rng.randrange(2)
    rate0 = rng.choice([0, 1, 10 ** 6, rng.randrange(0, U64)])
    rem0 = rng.choice([0, 5 * ONE + 7, rng.randrange(0, 1 << 100), (1 << 127) - 1, (1 << 127) - 1 - 3 * ONE, rng.randrange(0, 1 << 112) * ONE // ONE])
    cur = {0: f0, 1: f1}          # the generator's idea of the flag words (for relative choices only)
    cfgs = {0: c0, 1: c1}
    has_em = {0: em0 == 1, 1: False}
    n = rng.choice([1, 2, 3, 4, 5, 6])
    pool = ["CFG", "CFG", "IRO", "IRO", "LIM", "LIM", "EM", "CL", "ORA", "FIX", "ESET", "ESET", "EUPD", "EUPD", "EUPD", "EUPD",
            "META", "FTC", "FTC"]
    kinds = [rng.choice(pool) for _ in range(n)]
    if rng.random() < 0.35 and not has_em[0]:
        kinds = ["ESET"] + kinds          # reach the update instruction quickly
    if staked1 and rng.random() < 0.8:
        kinds = ["SSI", "PR"] + kinds
    steps = []
    for k in kinds:
        i = 1 if (k == "PR" and staked1) else rng.choice([0, 0, 0, 0, 1])
        frozen = cur[i] & FREEZE == FREEZE
        if k in ENTITLED:
            s = rng.choice(ENTITLED[k]) if rng.random() < 0.88 else rng.randrange(8)
        if k == "CFG":
            t = K.gen_opt(rng, cfgs[i], rng.random() < 0.8)
            steps.append(line("CFG", s, i, set_last3(t, rng, frozen)))
        elif k == "IRO":
            steps.append(line("IRO", s, i, K.gen_ir_opt(rng, rng.random() < 0.8)))
        elif k == "LIM":
            steps.append(line("LIM", s, i, K.o(rng, 0.6, lambda: [rng.choice([0, U64, rng.randrange(0, U64)])]),
                              K.o(rng, 0.6, lambda: [rng.choice([0, U64, rng.randrange(0, U64)])]),
                              K.o(rng, 0.6, lambda: [rng.choice([0, U64, rng.randrange(0, U64)])])))
        elif k == "EM":
            es = K.gen_entries(rng, cfgs[i]["lwi"], cfgs[i]["lwm"], K.CAP_I, K.CAP_M, rng.random() < 0.8)
            steps.append(line("EM", s, i, rng.choice([0, 5, 7, 65535]), K.entries_toks(es)))
        elif k == "CL":
            steps.append(line("CL", s, i, 1 - i))
        elif k == "ORA":
            m = rng.random()
            if m < 0.45:
                setup, key, rem = rng.choice([3, 3, 5]), 3, 1
            elif m < 0.8:
                setup, key, rem = rng.choice([0, 1, 2, 3, 4, 5, 6, 7, 8, 9, 10, 11, 12]), rng.choice([0, 1, 2, 3]), rng.randrange(2)
            else:
                setup, key, rem = rng.choice([13, 14, 100, 255]), rng.choice([0, 3]), rng.randrange(2)
            steps.append(line("ORA", s, i, setup, key, rem))
        elif k == "FIX":
            steps.append(line("FIX", s, i, rng.choice([0, 1, ONE, -1, -ONE, rng.randrange(0, 1 << 100), (1 << 127) - 1, -(1 << 127)])))
        elif k == "ESET":
            fl = rng.choice([0, 1, 2, 3, 3, 2]) if rng.random() < 0.8 else gen_flags(rng)
            steps.append(line("ESET", s, i, fl, rng.choice([0, 1, 10 ** 6, U64, rng.randrange(0, U64)]), gen_amount(rng)))
            if s == 4 and not has_em[i] and fl & 3 == fl:
                cur[i] = fl
                has_em[i] = True
        elif k == "EUPD":
            m = rng.random()
            if m < 0.3:
                of = ["N"]
            elif m < 0.6:
                x = (cur[i] & ~3 & U64) | rng.randrange(4)       # keeps the non-emissions bits (as far as the generator knows)
                of = ["S", x]
            else:
                x = gen_flags(rng)
                of = ["S", x]
            mint = 1 if rng.random() < (0.85 if has_em[i] else 0.35) else 2
            steps.append(line("EUPD", s, i, mint, of, K.o(rng, 0.5, lambda: [rng.choice([0, 1, U64, rng.randrange(0, U64)])]),
                              K.o(rng, 0.4, lambda: [gen_amount(rng)])))
            if s == 4 and has_em[i] and of[0] == "S" and mint == 1:
                cur[i] = of[1]
        elif k == "META":
            def ob(cap):
                m = rng.random()
                if m < 0.35:
                    return ["N"]
                n_ = rng.choice([0, 1, 3, cap - 1, cap, cap, cap + 1, rng.randrange(0, cap + 3)])
                return ["S", hexbytes(rng, n_)]
            steps.append(line("META", s, i, ob(64), ob(128)))
        elif k == "FTC":
            steps.append(line("FTC", s, i))
        elif k == "SSI":
            steps.append(line("SSI", K.gen_staked(rng, rng.random() < 0.9)))
        elif k == "PR":
            steps.append(line("PR", i))
    return line(NOW, h0, em0, rate0, rem0, h1, len(steps), steps)


def priv_finding_lines():
    """fixed regression lines of the repaired findings F1 (update wrote the whole word) and F2 (setup replaced the word), and a
    frozen staked bank that gets propagated"""
    c = K._std_compact(ONE, ONE)
    c["okey"] = 3
    h = K.cfg_toks(c) + [3, ONE]
    cs = dict(c)
    cs["tag"] = 2
    hs = K.cfg_toks(cs) + [5, ONE]
    f1 = line(NOW, h, 24, 1, 1000, 5 * ONE, h, 16, 2, line("EUPD", 4, 0, 1, "S", 0, "N", "N"), line("EUPD", 4, 0, 1, "S", U64, "N", "N"))
    f2 = line(NOW, h, 24, 0, 0, 0, h, 16, 1, line("ESET", 4, 0, 2, 1000, 5000))
    st = [3, K.fx(Fraction(1, 2)), K.fx(Fraction(3, 5)), 12345, 678, 60, 0]
    pr = line(NOW, h, 16, 0, 0, 0, hs, 24, 2, line("SSI", st), line("PR", 1))
    return [f1, f2, pr]


# ------------------------------------------------------------------------------------------------ delevsim generators

def plain_bank(rng, now, dec=None, price=None, awm=None, flags=0, tokprog=None):
    t, info = H.gen_hbank(rng, now, "plain")
    t[8] = t[9] = U64                       # no caps
    t[12] = flags
    t[10] = 0
    t[17] = 1
    if dec is not None:
        t[11] = dec
        info["dec"] = dec
    base = G.BANK_TOKS
    t[base + 4] = 0                          # tier collateral
    t[base + 5] = 0                          # no init limit
    if price is not None:
        t[base + 6] = price
        info["price"] = price
    tp = tokprog if tokprog is not None else rng.choice([0, 0, 0, 1])
    t[base + 7], t[base + 8], t[base + 9] = tp, 0, 0
    t[base + 10] = 0                         # no origination fee
    if awm is not None:
        t[base + 0] = min(t[base + 0], awm)
        t[base + 1] = awm
    info["awm"] = Fraction(t[base + 1], ONE)
    info["lwm"] = Fraction(t[base + 3], ONE)
    return t, info


def gen_delev_case(rng):
    """banks: 0 = collateral the risk admin withdraws from, 1 = the borrower's liability bank, 2 = (optional) further collateral.
    account 0 lends, account 1 is the borrower that gets deleveraged"""
    mode = rng.choice(["std", "std", "std", "std", "big", "sat", "tokenless"])
    nb = 3 if mode in ("big", "sat") else rng.choice([2, 2, 3])
    na = 2
    now = NOW + rng.randrange(0, 10 ** 6)
    pf = [rng.randrange(2), G.fx(Fraction(rng.randrange(0, 200), 10000)), G.fx(Fraction(rng.randrange(0, 500), 10000))]
    banks, info = [], []
    for b in range(nb):
        if mode in ("big", "sat") and b == 0:
            # huge position with a one-bit asset weight: taking it out barely moves the health
            t, i = plain_bank(rng, now, dec=rng.choice([0, 2]) if mode == "big" else 0,
                              price=rng.choice([ONE, 1000 * ONE]) if mode == "big" else 1000 * ONE, awm=1, tokprog=0)
            t[G.BANK_TOKS + 0] = 1
        else:
            t, i = plain_bank(rng, now)
            if i["price"] < ONE // 1000:
                t[G.BANK_TOKS + 6] = i["price"] = ONE
            if b != 1 and t[G.BANK_TOKS + 0] == 0 and rng.random() < 0.85:
                t[G.BANK_TOKS + 0] = t[G.BANK_TOKS + 1] = K.fx(Fraction(1, 2))
                i["awm"] = Fraction(1, 2)
        banks.append(t)
        info.append(i)

    def usd(b, amt):
        return Fraction(amt * info[b]["price"], ONE * 10 ** info[b]["dec"])

    def amt_for(b, dollars):
        return max(0, int(Fraction(dollars) * 10 ** info[b]["dec"] * ONE / max(1, info[b]["price"])))

    ops = []
    c, d = 0, 1
    for b in range(1, nb):
        ops.append([1, 0, b, 10 ** 15, 0])
    if mode == "big":
        coll_usd = rng.choice([1 << 33, (1 << 33) + 12345])
    elif mode == "sat":
        coll_usd = 10 ** 10
    else:
        coll_usd = rng.choice([10 ** 3, 10 ** 4, 10 ** 5, rng.randrange(100, 10 ** 6)])
    camt = amt_for(c, coll_usd) + 1
    ops.append([1, 1, c, min(camt, 1 << 61), 0])
    backing = c
    if mode in ("big", "sat") or (nb > 2 and rng.random() < 0.4):
        backing = 2
        ops.append([1, 1, 2, amt_for(2, rng.choice([1000, 10 ** 5])) + 1, 0])
    borrowed = 0
    awi = Fraction(banks[backing][G.BANK_TOKS + 0], ONE)
    if awi > 0 and rng.random() < 0.93:
        lwi = Fraction(banks[d][G.BANK_TOKS + 2], ONE)
        held = amt_for(backing, 1000) if backing == 2 else camt
        cap = usd(backing, held) * awi / lwi
        borrowed = amt_for(d, cap * rng.choice([Fraction(1, 2), Fraction(8, 10), Fraction(95, 100)]))
        if borrowed > 0:
            ops.append([3, 1, d, borrowed])
    if mode == "tokenless":
        ops.append([32, d, TOKENLESS_ALLOWED | rng.choice([0, 16])])
    if mode == "sat":
        limit = U32
    elif mode == "big":
        limit = rng.choice([1000, 10 ** 6, U32 - 1, 5])
    else:
        limit = rng.choice([10, 100, 1000, 5000, rng.randrange(1, 10 ** 5), 0, 0])
    if limit == 0 and rng.random() < 0.5:
        ops.append([30, 0, 0])               # ZeroWithdrawalLimit
    elif limit:
        ops.append([30, 0 if rng.random() < 0.9 else 1, limit])
    if rng.random() < 0.3:
        f = rng.choice([Fraction(9, 10), Fraction(7, 10), Fraction(1, 2)])
        info[c]["price"] = max(1, int(info[c]["price"] * f))
        ops.append([19, c, info[c]["price"]])
    used = 0
    last_reset = now
    ntx = rng.randrange(2, 8)
    for _ in range(ntx):
        r = rng.random()
        if r < 0.45:
            step = rng.choice([0, 1, 60, 3600, DAY // 2, DAY - 1, DAY, DAY + 1, 2 * DAY])
            if rng.random() < 0.4:
                step = max(0, last_reset + DAY - now + rng.choice([-2, -1, 0, 1]))
            now += step
            ops.append([0, now])
            if now - last_reset >= DAY:
                used, last_reset = 0, now
        who = 0 if rng.random() < 0.93 else 1
        left = max(0, (limit if limit else 10 ** 4) - used)
        if mode == "big":
            dollars = rng.choice([(1 << 32) + rng.choice([0, 1, 5, 999, 1001]), (1 << 32) - 1, (1 << 32) - 2, 1 << 31, (1 << 33) - 7, left, left + 1])
        elif mode == "sat":
            dollars = rng.choice([3 * 10 ** 9, 2 * 10 ** 9, U32, U32 - 1, 10 ** 9])
        else:
            dollars = rng.choice([left, left, left + 1, max(0, left - 1), left // 2, max(1, left // 3), 1, 0, 2 * left + 3])
        wamt = amt_for(c, dollars)
        if rng.random() < 0.5:
            wamt += rng.choice([0, 1, -1 if wamt > 0 else 0])       # around the dollar boundary in native units
        allw = 1 if rng.random() < 0.07 else 0
        ws = [[c, max(0, min(wamt, 1 << 61)), allw]]
        if backing == 2 and rng.random() < 0.1:
            ws.append([2, rng.choice([0, 1, 1000]), 0])
        if rng.random() < 0.08:
            half = ws[0][1] // 2
            ws = [[c, half, 0], [c, ws[0][1] - half, 0]]
        rs = []
        if borrowed > 0 and rng.random() < 0.9:
            need = usd(c, sum(x[1] for x in ws if x[0] == c)) * info[c]["awm"] / max(info[d]["lwm"], Fraction(1, 100))
            f = rng.choice([Fraction(1), Fraction(1), Fraction(101, 100), Fraction(101, 100), Fraction(2), Fraction(99, 100), Fraction(1, 2)])
            ramt = amt_for(d, need * f) + rng.choice([0, 1, 2])
            allr = 1 if rng.random() < (0.5 if mode == "tokenless" else 0.06) else 0
            rs.append([d, max(0, min(ramt, 1 << 61)), allr])
        ops.append([31, who, 1, len(ws)] + [x for w_ in ws for x in w_] + [len(rs)] + [x for r_ in rs for x in r_])
        if who == 0:
            used += int(usd(c, ws[0][1]))     # rough: the generator does not know whether the transaction passed
        if rng.random() < (0.25 if mode == "tokenless" else 0.03):
            # purge a lender's balance (needs TOKENLESS_REPAYMENTS_COMPLETE on the bank, the risk admin's signature)
            pb = rng.choice([d, d, c])
            if rng.random() < 0.5:
                ops.append([32, pb, rng.choice([TOKENLESS_ALLOWED | TOKENLESS_COMPLETE, TOKENLESS_COMPLETE | 16, TOKENLESS_ALLOWED])])
            ops.append([33, 0 if rng.random() < 0.85 else 1, rng.choice([0, 0, 1]), pb])
    toks = [nb, na] + pf + [banks[0][7]]
    for bk in banks:
        toks += bk
    toks.append(len(ops))
    for o_ in ops:
        toks += o_
    return " ".join(map(str, toks))


def delev_finding_lines(rng):
    """fixed regression lines: one withdrawal of 2^32 + 5 dollars under a limit of 1000; limit u32::MAX with 3e9 + 3e9 dollars.
    Bank 0 holds the huge position with a one-bit asset weight, bank 2 the collateral backing a small loan from bank 1."""
    out = []
    for kind in ("wrap", "sat"):
        now = NOW
        t0, _ = plain_bank(rng, now, dec=0, price=ONE, awm=1, tokprog=0)
        t0[G.BANK_TOKS + 0] = 1
        t1, _ = plain_bank(rng, now, dec=6, price=ONE, tokprog=0)
        t2, _ = plain_bank(rng, now, dec=6, price=ONE, awm=K.fx(Fraction(4, 5)), tokprog=0)
        t2[G.BANK_TOKS + 0] = K.fx(Fraction(4, 5))
        for t in (t0, t1, t2):
            t[0] = t[1] = ONE
            t[7] = now
            t[18:] = t[18:]
        pre = [[1, 0, 1, 10 ** 12, 0], [1, 1, 2, 1000 * 10 ** 6, 0], [3, 1, 1, 100 * 10 ** 6]]
        if kind == "wrap":
            ops = pre + [[1, 1, 0, (1 << 33), 0], [30, 0, 1000], [31, 0, 1, 1, 0, (1 << 32) + 5, 0, 1, 1, 10 ** 6, 0]]
        else:
            ops = pre + [[1, 1, 0, 10 ** 10, 0], [30, 0, U32], [31, 0, 1, 1, 0, 3 * 10 ** 9, 0, 1, 1, 10 ** 6, 0],
                         [31, 0, 1, 1, 0, 3 * 10 ** 9, 0, 1, 1, 10 ** 6, 0]]
        toks = [3, 2, 0, 0, 0, now] + t0 + t1 + t2 + [len(ops)]
        for o_ in ops:
            toks += o_
        out.append(" ".join(map(str, toks)))
    return out


def suites(rng, tier):
    npv = {"quick": 2600, "thorough": 30000, "search": 6000}[tier]
    ndv = {"quick": 900, "thorough": 10000, "search": 2000}[tier]
    lp = priv_finding_lines() + [gen_priv_case(rng) for _ in range(npv)]
    dp = {}
    for l in lp:
        for tok in l.split():
            if tok in PRIV_KINDS:
                dp[tok] = dp.get(tok, 0) + 1
    frozen0 = sum(1 for l in lp if int(l.split()[1 + 34 + 2]) & FREEZE)
    dp["bank0_frozen_at_start"] = frozen0
    ld = delev_finding_lines(rng) + [gen_delev_case(rng) for _ in range(ndv)]
    dd = {"cases": len(ld)}
    lr = [gen_roles_case(rng) for _ in range({"quick": 500, "thorough": 8000, "search": 2000}[tier])]
    return [{"suite": "roles", "name": "role-assignment", "lines": lr, "incoq": {"sample": 60, "to_v": roles_to_v, "ints": roles_ints},
             "distribution": {"cases": len(lr), "note": "histories of marginfi_group_configure with distinct keys per role and arbitrary signers, each followed by probes of the delegated instructions (configure_bank, configure_bank_emode, interest-only, limits-only, update_emissions_parameters, force_tokenless_repay_complete) signed by the new holder, the previous holder and the holders of the neighbouring roles"}},
            {"suite": "privsim", "name": "privsim-levelC", "lines": lp, "distribution": dp},
            {"suite": "delevsim", "name": "delevsim-levelC", "lines": ld, "distribution": dd},
            {"suite": "txval", "name": "deleverage-bracket-shapes",
             "lines": TG.val_exhaustive(rng, "delev", 4 if tier != "thorough" else 5) + TG.val_exhaustive(rng, "delev2", 5 if tier != "thorough" else 6),
             "distribution": {"alphabet": TG.ALPHABETS["delev"], "note": "'bracketed like a liquidation': every instruction list up to the bound over start/end_deleverage, withdraw, repay, record init, borrow, compute budget, Kamino refresh, Jupiter and a liquidation end, given to the real validate_instructions with the deleverage discriminators; accepted lists must be skippable* start listed* end"}}]


# ------------------------------------------------------------------------------------------------ role assignment
ONE_FX = 1 << 48
ROLE_PROBES = (0, 1, 2, 3, 4, 6)


def gen_roles_case(rng):
    t0 = 1_700_000_000 + rng.randrange(10 ** 6)
    keys = [1] * 7
    ops = []
    for _ in range(rng.randrange(2, 7)):
        k = rng.random()
        if k < 0.55:
            signer = keys[0] if rng.random() < 0.7 else rng.choice([rng.randrange(1, 10)] + keys[1:])
            style = rng.random()
            if style < 0.5:
                new = rng.sample(range(1, 10), 7)          # seven DIFFERENT keys
            elif style < 0.8:
                new = [rng.randrange(1, 10) for _ in range(7)]
            else:
                new = list(keys); i, j = rng.sample(range(7), 2); new[i], new[j] = new[j], new[i]
            if rng.random() < 0.6:
                new[0] = keys[0] if rng.random() < 0.7 else new[0]   # mostly keep the admin, so that histories go on
            capv = lambda: rng.choice([None, None, ONE_FX - 1, ONE_FX, 2 * ONE_FX, 15 * ONE_FX, 20 * ONE_FX, 100 * ONE_FX, 100 * ONE_FX + 1, rng.randrange(0, 120 * ONE_FX)])
            ci, cm = capv(), capv()
            cs = lambda v: "N" if v is None else f"S {v}"
            ops.append(f"1 {signer} {' '.join(map(str, new))} {cs(ci)} {cs(cm)}")
            prev = list(keys)
            vi, vm = (15 * ONE_FX if ci is None else ci), (20 * ONE_FX if cm is None else cm)
            accepted = signer == keys[0] and ONE_FX <= vi <= 100 * ONE_FX and ONE_FX <= vm <= 100 * ONE_FX and vi < vm
            if accepted:
                keys = new
            # probes: new holder, previous holder, neighbours' holders
            for r in rng.sample(ROLE_PROBES, 3):
                for s in sorted({new[r], prev[r], new[(r + 1) % 7], new[(r - 1) % 7]}):
                    ops.append(f"2 {r} {s}")
        elif k < 0.85:
            ops.append(f"2 {rng.choice(ROLE_PROBES)} {rng.randrange(1, 10)}")
        else:
            ops.append(f"3 {rng.choice([0, 1, 60, 86400, rng.randrange(0, 10 ** 6)])}")
    return f"{t0} {len(ops)} " + " ".join(ops)


ROLE_CTOR = {0: "GAdmin", 1: "GEmode", 2: "GCurve", 3: "GLimit", 4: "GEmissions", 5: "GMetadata", 6: "GRisk"}


def roles_to_v(lines):
    """sampled `roles` cases as Gallina terms for vm_compute (the model's own gr_fixture / gr_trace)"""
    out = ["Require Import Base Constants ConfigGen Fixed Curve Config Emode ConfigPaths GroupRoles.", "Local Open Scope Z_scope."]
    for l in lines:
        ops, _ = parse_roles(l, "")
        t0 = l.split()[0]
        terms = []
        for o in ops:
            if o[0] == 1:
                cap = lambda v: "None" if v is None else f"(Some ({v}))"
                terms.append(f"GOConfigure {o[1]} (mkGC {' '.join(map(str, o[2]))} {cap(o[3][0])} {cap(o[3][1])})")
            elif o[0] == 2:
                terms.append(f"GOProbe {ROLE_CTOR[o[1]]} {o[2]}")
            else:
                terms.append(f"GOTick ({o[1]})")
        out.append(f"Eval vm_compute in match gr_fixture {t0} with Ok g => gr_trace g {t0} [{'; '.join(terms)}] | Err _ => [] end.")
    return "\n".join(out) + "\n"


def roles_ints(model_line):
    res = []
    for sg in model_line.split(" | "):
        x = sg.split()
        r = x.pop(0)
        res.append(0 if r == "OK" else -1 if r == "PANIC" else -2 if r == "NONE" else int(r[1:]) if r.startswith("E") else int(r))
        res += [int(y) for y in x]
    return res


def parse_roles(case, impl):
    t = case.split()
    n = int(t[1]); i = 2
    ops = []
    for _ in range(n):
        c = int(t[i])
        if c == 1:
            signer = int(t[i + 1]); new = [int(x) for x in t[i + 2:i + 9]]; i += 9
            caps = []
            for _ in range(2):
                if t[i] == "N": caps.append(None); i += 1
                else: caps.append(int(t[i + 1])); i += 2
            ops.append((1, signer, new, caps))
        elif c == 2:
            ops.append((2, int(t[i + 1]), int(t[i + 2]))); i += 3
        else:
            ops.append((3, int(t[i + 1]))); i += 2
    return ops, impl.split(" | ")


def oracle_roles(case, impl):
    """judged on the real instructions alone: the role table changes only when the admin of that moment signs, each key lands
    in the field of its own role, and a delegated instruction recognises exactly the holder of its role"""
    if impl.startswith(("PANIC", "DRIVER")):
        return None
    ops, outs = parse_roles(case, impl)
    if len(outs) != len(ops):
        return {"key": "oracle-error", "what": "roles: output / op count mismatch"}
    keys = [1] * 7
    for op, o in zip(ops, outs):
        if op[0] == 1:
            x = o.split()
            got = [int(v) for v in x[1:8]]
            if x[0] == "OK":
                if op[1] != keys[0]:
                    return {"key": "roles-changed-without-admin", "what": f"marginfi_group_configure signed by wallet {op[1]} succeeded; the admin is {keys[0]}"}
                if got != op[2]:
                    return {"key": "role-key-in-wrong-field", "what": f"configure requested {op[2]} (admin emode curve limit emissions metadata risk) but the group stores {got}"}
                keys = got
            elif got != keys:
                return {"key": "failed-configure-changed-roles", "what": f"configure failed ({x[0]}) but the table went {keys} -> {got}"}
        elif op[0] == 2:
            r, s = op[1], op[2]
            if (o == "1") != (keys[r] == s):
                return {"key": "role-not-recognised-as-assigned",
                        "what": f"role {r} is held by wallet {keys[r]}; its instruction signed by wallet {s} was {'accepted' if o == '1' else 'refused as Unauthorized'}"}
    return None

# ------------------------------------------------------------------------------------------------ oracles
CFG_TOKS = 34            # tokens of a config dump
FLAGS_AT = 1 + CFG_TOKS  # index of the flag word in "B<i> <cfg> flags <emode> osetup fixed rate rem mint"
PDUMP_TOKS = 1 + CFG_TOKS + 1 + 43 + 5

ALLOWED_D = {
    "IRO": {"cfg.ir"},
    "LIM": {"cfg.dep", "cfg.bor", "cfg.lim"},
    "EM": {"emode.tag", "emode.ts", "emode.flags", "emode.entries"},
    "CL": {"emode.tag", "emode.ts", "emode.flags", "emode.entries"},
    "ESET": {"flags", "emissions_rate", "emissions_remaining", "emissions_mint"},
    "EUPD": {"flags", "emissions_rate", "emissions_remaining", "emissions_mint"},
    "META": set(),
    "FTC": {"flags"},
}
FROZEN_OPS = ("CFG", "IRO", "LIM", "ORA", "FIX")
META_FIELDS = {"ticker", "description", "end_ticker_byte", "end_description_byte"}


def step_lens(t, k):
    """number of tokens of the step starting at t[k]"""
    def opt_len(j, body):
        return 1 if t[j] == "N" else 1 + body

    op = t[k]
    if op == "SSI":
        return 8
    if op == "PR":
        return 2
    j = k + 3
    if op == "CFG":
        for _ in range(6):
            j += opt_len(j, 1)
        j += opt_len(j, 1)                     # operational state
        if t[j] == "N":
            j += 1
        else:
            j += 1
            for _ in range(7):
                j += opt_len(j, 1)
            j += opt_len(j, 10)
        for _ in range(8):
            j += opt_len(j, 1)
        return j - k
    if op == "IRO":
        for _ in range(7):
            j += opt_len(j, 1)
        j += opt_len(j, 10)
        return j - k
    if op == "LIM":
        for _ in range(3):
            j += opt_len(j, 1)
        return j - k
    if op == "EM":
        return 3 + 1 + 40
    if op == "CL":
        return 4
    if op == "ORA":
        return 6
    if op == "FIX":
        return 4
    if op == "ESET":
        return 6
    if op == "EUPD":
        j += 1
        for _ in range(3):
            j += opt_len(j, 1)
        return j - k
    if op == "META":
        for _ in range(2):
            j += opt_len(j, 1)
        return j - k
    if op == "FTC":
        return 3
    raise ValueError("unknown step " + op)


def parse_priv_steps(case):
    t = case.split()
    k = 1 + (CFG_TOKS + 3) + 3 + (CFG_TOKS + 3)
    n = int(t[k])
    k += 1
    steps = []
    for _ in range(n):
        ln = step_lens(t, k)
        steps.append(t[k:k + ln])
        k += ln
    if k != len(t):
        raise ValueError("case not fully parsed")
    return steps


def parse_step_out(s):
    """-> (status, bank index, dump tokens, D set, A list)"""
    t = s.split()
    if t[0] != "OK" or len(t) == 1:
        return t[0], None, None, None, None
    d = t.index("D", 1 + PDUMP_TOKS)
    a = t.index("A", d)
    end = t.index("M", a) if "M" in t[a:] else len(t)
    dump = t[1:1 + PDUMP_TOKS]
    dn = [x for x in t[d + 1:a] if x != "-"]
    an = [x for x in t[a + 1:end] if x != "-"]
    return "OK", int(dump[0][1:]), dump, dn, an


def oracle_privsim(case, impl):
    parts = impl.split(" | ")
    steps = parse_priv_steps(case)
    if len(parts) != 2 + len(steps):
        return {"key": "oracle-error", "what": "output has %d parts for %d steps" % (len(parts), len(steps))}
    flags = {0: int(parts[0].split()[FLAGS_AT]), 1: int(parts[1].split()[FLAGS_AT])}
    viol = []
    for st, outp in zip(steps, parts[2:]):
        op = st[0]
        status, j, dump, dn, an = parse_step_out(outp)
        if status != "OK" or dump is None:
            continue
        before, after = flags[j], int(dump[FLAGS_AT])
        flags[j] = after
        changed = before ^ after
        frozen = before & FREEZE == FREEZE
        where = "%s on bank %d (flags %#x -> %#x)" % (op, j, before, after)
        if op in ENTITLED:
            signer = int(st[1])
            if signer not in ENTITLED[op]:
                viol.append({"key": "unauthorized-signer-accepted:" + op, "what": "role %d ran %s" % (signer, where)})
        # flag bits
        if op == "EUPD" and changed & ~EMISSION_FLAGS:
            viol.append({"key": "emissions-admin-changes-foreign-flags",
                         "what": "lending_pool_update_emissions_parameters changed non-emissions flag bits %#x: %s" % (changed & ~EMISSION_FLAGS, where)})
        elif op == "ESET" and changed & ~EMISSION_FLAGS:
            viol.append({"key": "setup-emissions-clears-flags",
                         "what": "lending_pool_setup_emissions changed non-emissions flag bits %#x: %s" % (changed & ~EMISSION_FLAGS, where)})
        elif op == "FTC" and (changed & ~TOKENLESS_COMPLETE or (changed and not before & TOKENLESS_ALLOWED)):
            viol.append({"key": "risk-admin-foreign-flags", "what": where})
        elif frozen and not after & FREEZE and op not in ("EUPD", "ESET"):
            viol.append({"key": "freeze-lifted:" + op, "what": where})
        # fields
        if op in ALLOWED_D:
            extra = [x for x in dn if x not in ALLOWED_D[op]]
            if extra:
                viol.append({"key": "role-writes-outside-remit:" + op, "what": "%s changed %s" % (where, " ".join(extra))})
        if frozen and op in FROZEN_OPS:
            extra = [x for x in dn if x not in ("cfg.dep", "cfg.bor")]
            if extra:
                viol.append({"key": "frozen-bank-config-changed:" + op, "what": "%s changed %s" % (where, " ".join(extra))})
        # other accounts
        if op in ("ESET", "EUPD"):
            bad = [x for x in an if not (x.startswith("emvault%d" % j) or x.startswith("funding") or (op == "ESET" and x == "wallet:emissions"))]
        elif op == "META":
            bad = [x for x in an if not (x.startswith("meta%d:" % j) and set(x.split(":")[1].split("+")) <= META_FIELDS)]
        elif op in ALLOWED_D:
            bad = an
        else:
            bad = [x for x in an if x.startswith(("liqvault", "insvault", "feevault", "acct?", "group"))]
        if bad:
            viol.append({"key": "role-touches-foreign-account:" + op, "what": "%s changed accounts %s" % (where, " ".join(bad))})
    return pick(viol)


def pick(viol):
    """prefer a violation that is not a known finding, so that a known one never masks a new one"""
    for v in viol:
        if v["key"] not in KNOWN_KEYS:
            return v
    return viol[0] if viol else None


def parse_delev_case(case):
    t = list(map(int, case.split()))
    nb, na = t[0], t[1]
    i = 6
    banks = []
    for _ in range(nb):
        f = t[i:i + G.BANK_TOKS]
        i += G.BANK_TOKS
        x = t[i:i + H.HB_EXTRA]
        i += H.HB_EXTRA + 4 * x[12]
        banks.append({"dec": f[11], "price": x[6]})
    nops = t[i]
    i += 1
    ops = []
    for _ in range(nops):
        op = t[i]
        if op == 0:
            ln = 2
        elif op in (1, 2, 4):
            ln = 5
        elif op == 3:
            ln = 4
        elif op in (19, 30, 32):
            ln = 3
        elif op == 33:
            ln = 4
        elif op == 31:
            nw = t[i + 3]
            nr = t[i + 4 + 3 * nw]
            ln = 5 + 3 * nw + 3 * nr
        else:
            raise ValueError("bad op")
        ops.append(t[i:i + ln])
        i += ln
    if i != len(t):
        raise ValueError("case not fully parsed")
    return nb, na, banks, ops


def parse_delev_bank_flags(case, nb):
    t = list(map(int, case.split()))
    i = 6
    out = []
    for _ in range(nb):
        f = t[i:i + G.BANK_TOKS]
        i += G.BANK_TOKS
        x = t[i:i + H.HB_EXTRA]
        i += H.HB_EXTRA + 4 * x[12]
        out.append(f)
    return out


def parse_delev_out(s, nb):
    """-> status, H (4 ints or None), vault balances per bank, account flags list, (limit, withdrawn, last_reset), D names"""
    secs = s.split(" # ")
    head = secs[0].split()
    hv = [int(x) for x in head[2:6]] if len(head) >= 6 and head[1] == "H" else None
    vaults = [int(b.split()[13]) for b in secs[1].split(" ; ")]
    aflags = []
    for a in secs[2].split(" ; "):
        tt = a.split()
        aflags.append(int(tt[1]))
    g = tuple(int(x) for x in secs[4].split()[1:4])
    dn = [x for x in secs[5].split()[1:] if x != "-"]
    return head[0], hv, vaults, aflags, g, dn


def oracle_delevsim(case, impl):
    nb, na, banks, ops = parse_delev_case(case)
    parts = impl.split(" | ")
    if len(parts) != len(ops):
        return {"key": "oracle-error", "what": "output has %d parts for %d ops" % (len(parts), len(ops))}
    viol = []
    vault_prev = [0] * nb
    bflags_prev = [banks_tok[12] for banks_tok in parse_delev_bank_flags(case, nb)]
    g_prev = (0, 0, 0)
    window = []            # whole dollars of the withdrawals accepted since the last reset
    last_reset_by_tx = None
    for o_, outp in zip(ops, parts):
        status, hv, vaults, aflags, g, dn = parse_delev_out(outp, nb)
        op = o_[0]
        if op == 19:
            banks[o_[1]]["price"] = o_[2]
        # who may write the group's window
        if dn:
            if op == 31 and status == "OK" and o_[1] == 0 and set(dn) <= {"g.win.withdrawn", "g.win.last_reset"}:
                pass
            elif op == 30 and status == "OK" and o_[1] == 0 and set(dn) <= {"g.win.limit", "g.win.last_reset"}:
                pass
            else:
                viol.append({"key": "group-written-outside-remit", "what": "op %r changed group fields %s" % (o_[:3], " ".join(dn))})
        if op == 31 and status == "OK":
            who, a = o_[1], o_[2]
            if who != 0:
                viol.append({"key": "deleverage-by-non-risk-admin", "what": "a deleverage transaction signed by the account authority succeeded"})
            if aflags[a] & (16 | 32):
                viol.append({"key": "deleverage-bracket-left-open", "what": "account flags %#x after end_deleverage" % aflags[a]})
            if hv is None:
                viol.append({"key": "oracle-error", "what": "no health numbers"})
            elif hv[2] - hv[3] < hv[0] - hv[1]:
                viol.append({"key": "deleverage-worse-health",
                             "what": "maintenance health %d before, %d after a successful deleverage" % (hv[0] - hv[1], hv[2] - hv[3])})
            # whole dollars leaving the vaults in this transaction, per withdrawal
            nw = o_[3]
            ws = [o_[4 + 3 * k:7 + 3 * k] for k in range(nw)]
            per_bank = {}
            for b, amt, allf in ws:
                per_bank.setdefault(b, []).append((amt, allf))
            dollars = []
            for b, lst_ in per_bank.items():
                out_native = vault_prev[b] - vaults[b]
                if len(lst_) == 1:
                    amts = [out_native]
                else:
                    amts = [x for x, _ in lst_]
                    if any(f for _, f in lst_) or sum(amts) != out_native:
                        amts = [out_native]
                for x in amts:
                    dollars.append(x * banks[b]["price"] // (ONE * 10 ** banks[b]["dec"]))
            limit = g[0]
            if g[2] != g_prev[2]:
                # the window was reset by this transaction
                if g[2] - g_prev[2] < DAY and (g_prev[2] != 0 or g_prev != (0, 0, 0)):
                    viol.append({"key": "daily-window-reset-early", "what": "reset at %d, previous at %d" % (g[2], g_prev[2])})
                window = []
            window += dollars
            if limit != 0 and sum(window) > limit:
                if any(x > U32 for x in window):
                    key = "daily-limit-u32-wrap"
                    what = ("update_withdrawn_equity converts the withdrawn dollars with to_num::<u32>(), which wraps: a single deleverage "
                            "withdrawal worth >= 2^32 dollars is counted modulo 2^32 (window %r dollars, limit %d)" % (window, limit))
                elif limit == U32:
                    key = "daily-limit-u32-saturation"
                    what = ("withdrawn_today saturates at u32::MAX, which a limit of u32::MAX accepts: window %r dollars, limit %d" % (window, limit))
                else:
                    key = "daily-limit-exceeded"
                    what = "withdrawals of %r whole dollars since the last reset exceed the daily limit %d" % (window, limit)
                viol.append({"key": key, "what": what})
        if op == 33 and status == "OK":
            if o_[1] != 0:
                viol.append({"key": "purge-by-non-risk-admin", "what": "lending_account_purge_delev_balance signed by the account authority succeeded"})
            if not bflags_prev[o_[3]] & TOKENLESS_COMPLETE:
                viol.append({"key": "purge-without-complete-flag", "what": "bank flags %#x" % bflags_prev[o_[3]]})
        vault_prev = vaults
        bflags_prev = [int(b.split()[11]) for b in outp.split(" # ")[1].split(" ; ")]
        g_prev = g
    return pick(viol)


def oracle(suite, case, impl):
    if suite == "roles":
        return oracle_roles(case, impl)
    if suite == "txval":
        return C10.oracle_val(case, impl)
    if suite == "privsim":
        return oracle_privsim(case, impl)
    return oracle_delevsim(case, impl)


def nontrivial(suite, case, impl):
    if suite == "roles":
        return any(o.startswith("OK ") for o in impl.split(" | "))
    if suite == "txval":
        return "OK" in TG.parse_val(case, impl)["VD"]
    if suite == "privsim":
        for p in impl.split(" | ")[2:]:
            if p.startswith("OK B") and (" D - A -" not in p):
                return True
        return False
    return any(p.startswith("OK H") for p in impl.split(" | "))


def broken_explained_by_known(b, known_keys):
    return False
