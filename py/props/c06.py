"""C06 — interest accrual conserves value, is monotone, and is always applied first."""
import gen_bank as G
import gen_hops as H
import hops_oracles as O
ID = "C06"
MANIFEST = {
    "text": ("Kernel-checked theorems about Bank::accrue_interest for all banks, fee settings, elapsed times and magnitudes: share "
             "values and fee buckets never decrease, program fees are zero when disabled, accruing twice at one time is a no-op, and "
             "what is credited to depositors plus fees never exceeds what borrowers are charged beyond an explicit fixed-point "
             "allowance, and conversely the charge never exceeds the credit plus fees beyond a second explicit allowance (valid seven-point curves; "
             "the conservation clause is proved two-sided). Tied to the real accrue_interest by differential execution on banks with "
             "random totals, share values, curves, fees and clock advances; the oracle re-checks every statement (both "
             "conservation directions) on the real bank state in exact integers."),
    "design_ref": "DESIGN.md §7 C06",
    "technique": "Coq proof (inversion of accrue_interest + chained floor inequalities) + model/implementation correspondence on the bank state machine",
}
THEOREMS = ["C06_monotone_nonneg_fees_program_fee_off", "C06_idempotent", "C06_credit_le_charge_partial", "C06_charge_le_credit",
            "C06_deposit_accrues_first", "C06_withdraw_accrues_first", "C06_borrow_accrues_first", "C06_repay_accrues_first",
            "C06_close_balance_accrues_first", "C06_bankruptcy_accrues_first", "C06_liquidation_accrues_both_banks_first"]
# handler-level freshness theorems are added to this list when props/C06.v gains them
RULE = ("banks with random non-zero totals (10^3..10^18 native units), utilisation 0..100%, share values 1/accrued/post-loss, "
        "valid seven-point curves, fee settings zero/typical, program fees on/off; sequences of clock advances (1 s .. 1 year) "
        "interleaved with accrue (including repeated accrue at the same time) and user operations. Non-trivial = at least one "
        "accrual that changed a share value; distinct = different case line")
ASSUMPTIONS = [
    "conservation theorem assumes an accepted seven-point curve (then the base rate is >= 0); with a negative base rate fees could exceed the charge — configs are validated on every write path (C13)",
    "'applied first in every handler' is checked at handler level (suite hops: Bank.last_update == clock after every successful user instruction)",
]
OBSERVATIONS = [
    "both conservation directions are proved (C06_credit_le_charge_partial, C06_charge_le_credit); the oracle evaluates both on the real bank state with allowances of the same form (multiples of the asset and liability amounts per elapsed year plus the share totals)",
    "accrual on a bank whose total assets or total liabilities amount is 0 only moves last_update",
]
ONE = G.ONE
YEAR = G.YEAR


def gen_case(rng):
    nb = rng.choice([1, 2])
    na = rng.choice([1, 2])
    now = 1_700_000_000 + rng.randrange(0, 10 ** 7)
    pf = [rng.randrange(2), G.fx(rng.randrange(0, 200) / 10000), G.fx(rng.randrange(0, 500) / 10000)]
    banks = [G.gen_bank(rng, now, fresh=(rng.random() < 0.15), limits="none", emissions=False) for _ in range(nb)]
    ops = []
    for _ in range(rng.randrange(2, 14)):
        r = rng.random()
        b = rng.randrange(nb)
        if r < 0.4:
            now += rng.choice([0, 1, 1, 2, 60, 3600, 86400, YEAR // 12, YEAR, rng.randrange(0, 10 ** 7)])
            ops.append([0, now])
            ops.append([10, b])
        elif r < 0.6:
            ops.append([10, b])
        elif r < 0.8:
            ops.append([1, rng.randrange(na), b, G.gen_amount(rng) * ONE])
        elif r < 0.9:
            ops.append([3, rng.randrange(na), b, G.gen_amount(rng) * ONE])
        else:
            ops.append([4, rng.randrange(na), b, G.gen_amount(rng) * ONE])
    return G.case_line(nb, na, pf, now0(banks, now), banks, ops) if False else G.case_line(nb, na, pf, now_start(ops, now), banks, ops)


def now_start(ops, now_end):
    # the case's initial clock is the first clock value minus nothing: use the banks' creation time
    return min([o[1] for o in ops if o[0] == 0] + [now_end]) - 0


def now0(banks, now):
    return now


from props import c12 as C12


def admin_clock_suite(rng, n):
    """'interest is applied first, with the time since the last update': NO administrative instruction accrues, so none may move a
    bank's accrual clock (last_update) - otherwise the interest of the period since the last accrual is silently dropped. C12's
    generator of administrator instructions (configure, interest-only, limits-only, e-mode, oracle, emissions, metadata ...) on
    fixture banks that are in use and were last accrued a day ago, through the real entry point"""
    lines = [C12.gen_priv_case(rng) for _ in range(n)]
    return {"suite": "privsim", "name": "admin-instructions-leave-the-accrual-clock", "lines": lines, "distribution": {"cases": n}}


def oracle_admin_clock(case, impl):
    parts = impl.split(" | ")
    steps = C12.parse_priv_steps(case)
    if len(parts) != 2 + len(steps):
        return None
    for st, outp in zip(steps, parts[2:]):
        status, j, dump, dn, an = C12.parse_step_out(outp)
        if status != "OK" or dn is None:
            continue
        if "last_update" in dn:
            return {"key": "accrual-clock-moved-without-accrual:" + st[0],
                    "what": f"{st[0]} (an administrative instruction, which does not accrue) changed last_update of bank {j}: "
                            "the interest of the period since the previous accrual is never applied"}
    return None


def suites(rng, tier):
    n = {"quick": 2500, "thorough": 60000, "search": 30000}[tier]
    lines = [gen_case2(rng) for _ in range(n)]
    m = {"quick": 500, "thorough": 10000, "search": 8000}[tier]
    hl = [H.gen_case(rng) for _ in range(m)] + [H.gen_close_balance_case(rng) for _ in range(max(40, m // 10))]
    return [{"suite": "bankops", "name": "bankops-accrual", "lines": lines, "distribution": {"cases": n}},
            {"suite": "hops", "name": "hops-handlers", "lines": hl, "distribution": {"cases": len(hl), "close_balance_after_time": max(40, m // 10)}},
            {"suite": "hopsref", "name": "hops-freshness-reference", "lines": hl, "impl_only": True,
             "distribution": {"cases": len(hl), "note": "same cases; adds the real accrue_interest applied in isolation as reference"}},
            admin_clock_suite(rng, {"quick": 300, "thorough": 8000, "search": 3000}[tier])]


def gen_case2(rng):
    nb = rng.choice([1, 2])
    na = rng.choice([1, 2])
    start = 1_700_000_000 + rng.randrange(0, 10 ** 7)
    now = start
    pf = [rng.randrange(2), G.fx(rng.randrange(0, 200) / 10000), G.fx(rng.randrange(0, 500) / 10000)]
    banks = [G.gen_bank(rng, start, fresh=(rng.random() < 0.15), limits="none", emissions=False) for _ in range(nb)]
    ops = []
    for _ in range(rng.randrange(2, 14)):
        r = rng.random()
        b = rng.randrange(nb)
        if r < 0.4:
            now += rng.choice([0, 1, 1, 2, 60, 3600, 86400, YEAR // 12, YEAR, rng.randrange(0, 10 ** 7)])
            ops.append([0, now])
            ops.append([10, b])
        elif r < 0.6:
            ops.append([10, b])
        elif r < 0.8:
            ops.append([1, rng.randrange(na), b, G.gen_amount(rng) * ONE])
        elif r < 0.9:
            ops.append([3, rng.randrange(na), b, G.gen_amount(rng) * ONE])
        else:
            ops.append([4, rng.randrange(na), b, G.gen_amount(rng) * ONE])
    return G.case_line(nb, na, pf, start, banks, ops)


def nontrivial(suite, case, impl):
    if suite == "privsim":
        return C12.nontrivial(suite, case, impl)
    if suite in ("hops", "hopsref"):
        tr = O.Trace(case, impl)
        for op, res, b0, a0, b1, a1, now, prices in O.walk(tr):
            if res == "OK" and op[0] in (1, 2, 3, 4, 7, 17, 18):
                k = op[2] if op[0] != 17 else op[4]
                if b1[k]["lsv"] != b0[k]["lsv"]:
                    return True
        return False
    c = G.parse_case(case)
    outs = G.parse_out(impl)
    st = [dict(b) for b in c["banks"]]
    for op, (res, bank, _) in zip(c["ops"], outs):
        if op[0] == 10 and res[0] == "OK" and bank and (bank["asv"] != st[op[1]]["asv"] or bank["lsv"] != st[op[1]]["lsv"]):
            return True
        if bank is not None and len(op) >= 2 and op[0] != 0:
            bi = op[1] if op[0] in (10, 11, 15) else op[2]
            st[bi].update(bank)
    return False


def oracle(suite, case, impl):
    if suite == "privsim":
        return oracle_admin_clock(case, impl)
    if suite in ("hops", "hopsref"):
        return O.oracle_c06_fresh(O.Trace(case, impl))
    c = G.parse_case(case)
    outs = G.parse_out(impl)
    st = [dict(b) for b in c["banks"]]
    now = c["now"]
    prog_on = c["pf"][0]
    last_accrue = {}
    for op, (res, bank, _) in zip(c["ops"], outs):
        k = op[0]
        if k == 0:
            now = op[1]
            continue
        if bank is None:
            continue
        bi = op[1] if k in (10, 11, 15) else op[2]
        old = st[bi]
        if k == 10 and res[0] == "OK":
            new = bank
            if new["asv"] < old["asv"] or new["lsv"] < old["lsv"]:
                return {"key": "share-value-decreased", "what": f"accrue lowered a share value: {old['asv']},{old['lsv']} -> {new['asv']},{new['lsv']}"}
            for f in ("ins", "grp", "prog"):
                if new[f] < old[f]:
                    return {"key": "negative-fee", "what": f"accrue decreased fee bucket {f}"}
            if not prog_on and new["prog"] != old["prog"]:
                return {"key": "program-fee-while-disabled", "what": "program fees booked although disabled for the group"}
            if new["tas"] != old["tas"] or new["tls"] != old["tls"]:
                return {"key": "accrue-changed-totals", "what": "accrue changed total shares"}
            if new["last_update"] != now:
                return {"key": "last-update-not-now", "what": f"last_update {new['last_update']} != clock {now}"}
            if last_accrue.get(bi) == now and any(new[f] != old[f] for f in ("asv", "lsv", "ins", "grp", "prog")):
                return {"key": "not-idempotent", "what": "second accrue at the same time changed the bank"}
            dD = old["tas"] * (new["asv"] - old["asv"])
            dL = old["tls"] * (new["lsv"] - old["lsv"])
            dF = (new["ins"] - old["ins"]) + (new["grp"] - old["grp"]) + (new["prog"] - old["prog"])
            Lq = old["tls"] * old["lsv"] // ONE
            A = old["tas"] * old["asv"] // ONE
            irl = (new["asv"] * ONE // old["asv"] - ONE + 2) if old["asv"] > 0 else 0
            if dD + dF * ONE > dL + Lq + old["tls"] + irl + 1:
                return {"key": "credit>charge", "what": f"accrual credited {dD + dF*ONE} > charged {dL} + allowance"}
            dt = max(0, now - old["last_update"])
            allow2 = (A + Lq) * (12 * (dt // YEAR + 1)) + old["tas"] + old["tls"] + 4 * ONE
            if dL - (dD + dF * ONE) > allow2:
                return {"key": "charge>credit", "what": f"accrual charged {dL} but credited only {dD + dF*ONE}"}
            last_accrue[bi] = now
        if res[0] == "OK" or True:
            st[bi].update(bank)
    return None
