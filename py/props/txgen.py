"""Shared generators / parsers / independent reference predicates for C10 and C11 (suites txval, txsim,
txend).  Case formats: harness/src/suites/tx.rs.  Everything random derives from the rng passed in."""
import itertools

ONE = 1 << 48
U = 10**6
MASK_FL, MASK_RECV, MASK_DELEV, MASK_DISABLED, MASK_FROZEN = 2, 16, 32, 1, 64
U64_MAX = (1 << 64) - 1

# ------------------------------------------------------------------------------------------------
# level A: instruction kinds (program code, discriminator symbol or number, data length, account code:
# 0 = no accounts, c < 100 = [c], c >= 100 = [c % 100, c // 100])
KINDS = {
    "cb": (0, "2", 5, 0), "cb9": (0, "SL", 9, 0),
    "SL1": (1, "SL", 8, 1), "SL2": (1, "SL", 8, 2), "SL1x": (1, "SL", 9, 1), "SL2x": (1, "SL", 12, 2), "EL2x": (1, "EL", 9, 2), "EL1": (1, "EL", 8, 1), "EL2": (1, "EL", 8, 2),
    "SD1": (1, "SD", 8, 1), "ED1": (1, "ED", 8, 1), "SD2": (1, "SD", 8, 2), "ED2": (1, "ED", 8, 2),
    "WD": (1, "WD", 17, 7), "RP": (1, "RP", 17, 7), "IR": (1, "IR", 8, 1), "KW": (1, "KW", 16, 7), "DW": (1, "DW", 16, 7),
    "BR": (1, "BR", 16, 7), "DP": (1, "DP", 17, 7), "LQ": (1, "LQ", 18, 7), "SE": (1, "SE", 8, 1), "SW": (1, "SW", 16, 7),
    "SF1": (1, "SF", 16, 1), "SF2": (1, "SF", 16, 2), "EF1": (1, "EF", 8, 1), "EF2": (1, "EF", 8, 2), "EF0": (1, "EF", 8, 0),
    "EF21": (1, "EF", 8, 102), "EF12": (1, "EF", 8, 201),      # two accounts: [2, 1] (other account first) and [1, 2]
    "EFs": (1, "EF", 7, 1), "ms3": (1, "SL", 3, 1), "ms0": (1, "0", 0, 0), "munk": (1, "12345", 8, 1),
    "krr": (2, "KRR", 8, 0), "kro": (2, "KRO", 8, 0), "kx": (2, "777", 8, 0), "ks": (2, "KRR", 4, 0),
    "dus": (3, "DUS", 8, 0), "dx": (3, "888", 16, 0),
    "jup": (4, "999", 24, 0), "jupSL": (4, "SL", 8, 1), "jupEL": (4, "EL", 8, 1), "jupEF": (4, "EF", 8, 1), "titan": (5, "5", 8, 0),
    "ata": (6, "1", 1, 0), "ata8": (6, "1", 8, 0),
    "sys": (7, "2", 12, 0), "tok": (8, "3", 9, 0), "frn": (9, "4", 8, 0), "frnEF": (9, "EF", 8, 1),
}
ALLOWED_PROGS = {0, 1, 2, 3, 4, 5, 6}
ALLOWED_PRE = {(2, "KRR"), (2, "KRO"), (1, "IR"), (3, "DUS")}
START = {"liq": "SL", "delev": "SD"}
END = {"liq": "EL", "delev": "ED"}

ALPHABETS = {
    "liq": ["cb", "SL1", "EL1", "WD", "RP", "IR", "BR", "krr", "jup"],
    "liq2": ["SL1", "EL1", "jupEL", "SD1", "ED1", "ata", "sys", "ms3", "kx"],
    "liq3": ["SL1", "SL2x", "SL1x", "EL2", "EL2x", "WD", "cb"],
    "fl": ["cb", "SF1", "EF1", "EF2", "BR", "jupEF", "frnEF", "EF0", "EFs"],
    "small": ["cb", "SL1", "EL1", "WD"],
    "small_fl": ["SF1", "EF1", "BR", "jup"],
    "fl_accts": ["SF1", "EF1", "EF21", "EF12", "EF2", "BR"],
    "delev": ["cb", "SD1", "ED1", "WD", "RP", "IR", "BR", "krr", "jup", "EL1"],
    "delev2": ["SD1", "SD2", "ED1", "ED2", "WD", "RP"],          # two accounts: a second start naming another account
}
VAL_CFGS = [
    "1 SL EL 4 2 KRR 2 KRO 1 IR 3 DUS 7 SL EL IR WD RP KW DW",
    "1 SD ED 4 2 KRR 2 KRO 1 IR 3 DUS 7 SD ED IR WD RP KW DW",
    "1 SL EL 0 2 SL EL",
    "4 999 999 1 1 SL 1 999",
    "1 EF EF 1 1 SF 3 SF EF BR",
]
VAL_FLAGS = [0, 0, 0, 1, 2, 16, 64, 18, 4, 8, 32, 127]


def first_acct(code):
    return code % 100 if code >= 100 else code


def val_line(rng, kinds):
    cfg = rng.choice(VAL_CFGS)
    flags = rng.choice(VAL_FLAGS)
    body = " ".join("%d %s %d %d" % KINDS[k] for k in kinds)
    return "%s %d %d %s" % (cfg, flags, len(kinds), body)


def val_exhaustive(rng, alpha, maxlen):
    out = []
    for n in range(0, maxlen + 1):
        for ks in itertools.product(ALPHABETS[alpha], repeat=n):
            out.append(val_line(rng, ks))
    return out


def val_sampled(rng, count, lo, hi):
    names = list(KINDS)
    out = []
    for _ in range(count):
        n = rng.randrange(lo, hi + 1)
        r = rng.random()
        if r < 0.45:    # bracket-shaped liquidation / deleverage lists with a few intruders
            k = rng.choice(["liq", "delev"])
            s, e = ("SL1", "EL1") if k == "liq" else ("SD1", "ED1")
            pre = [rng.choice(["cb", "krr", "kro", "IR", "dus", "cb9"]) for _ in range(rng.randrange(0, 3))]
            mid = [rng.choice(["WD", "RP", "KW", "DW", "IR", "cb", "jup", "titan", "kx", "dx", "ata8"]) for _ in range(max(0, n - len(pre) - 2))]
            ks = pre + [s] + mid + [e]
            for _ in range(rng.choice([0, 0, 1, 1, 2])):
                pos = rng.randrange(0, len(ks) + 1)
                ks.insert(pos, rng.choice(names))
            if rng.random() < 0.15:
                ks.pop(rng.randrange(len(ks)))
        elif r < 0.8:   # flash-loan shaped
            pre = [rng.choice(["cb", "jup", "DP"]) for _ in range(rng.randrange(0, 3))]
            mid = [rng.choice(["BR", "WD", "RP", "DP", "jup", "sys", "tok", "cb"]) for _ in range(max(0, n - len(pre) - 2))]
            ks = pre + ["SF1"] + mid + [rng.choice(["EF1", "EF1", "EF1", "EF2", "EF0", "EFs", "jupEF", "frnEF", "EF21", "EF12"])]
            if rng.random() < 0.3:
                ks.insert(rng.randrange(0, len(ks) + 1), rng.choice(names))
        else:
            ks = [rng.choice(names) for _ in range(n)]
        out.append(val_line(rng, ks))
    return out


def parse_val(case, impl):
    """-> dict(pid, exp, end, allowed, excl, flags, ixs=[(prog, disc, len, acct0)], first, last, excl_r, VL, VD, FL{(cur,e):r})"""
    t = case.split()
    i = 0
    pid, exp, end = int(t[0]), t[1], t[2]
    na = int(t[3]); i = 4
    allowed = [(int(t[i + 2 * k]), t[i + 2 * k + 1]) for k in range(na)]
    i += 2 * na
    nx = int(t[i]); i += 1
    excl = t[i:i + nx]; i += nx
    flags = int(t[i]); n = int(t[i + 1]); i += 2
    ixs = [(int(t[i + 4 * k]), t[i + 4 * k + 1], int(t[i + 4 * k + 2]), int(t[i + 4 * k + 3])) for k in range(n)]
    o = impl.split()
    first, last, excl_r = o[0], o[1], o[2]
    assert o[3] == "|"
    vl = o[4:4 + n]
    assert o[4 + n] == "|"
    vd = o[5 + n:5 + 2 * n]
    assert o[5 + 2 * n] == "|"
    rest = o[6 + 2 * n:]
    fl = {}
    k = 0
    for cur in range(n):
        for e in range(n + 2):
            fl[(cur, e)] = rest[k]; k += 1
    if n > 0:
        fl[(0, U64_MAX)] = rest[k]; k += 1
    assert k == len(rest)
    return dict(pid=pid, exp=exp, end=end, allowed=allowed, excl=excl, flags=flags, ixs=ixs,
                first=first, last=last, excl_r=excl_r, VL=vl, VD=vd, FL=fl)


def in_bracket_language(ixs, kind):
    """Independent statement of the language of C10: (prog, disc, len, acct0) list is
       skippable* start listed* end, all programs allow-listed, start unique, end last."""
    n = len(ixs)
    if n < 2:
        return False
    if any(p not in ALLOWED_PROGS for p, _, _, _ in ixs):
        return False
    s = None
    for j, (p, d, ln, _) in enumerate(ixs):
        if p == 0:
            continue
        if ln < 8:
            return False
        if p == 1 and d == START[kind]:
            s = j
            break
        if (p, d) not in ALLOWED_PRE:
            return False
    if s is None or s >= n - 1:
        return False
    for j in range(s + 1, n):
        p, d, ln, _ = ixs[j]
        if p == 0:
            continue
        if ln < 8:
            return False
        if p == 1 and d not in (END[kind], "IR", "WD", "RP", "KW", "DW"):
            return False
    # marginfi instructions before the start are record-inits only (they passed ALLOWED_PRE above)
    p, d, ln, _ = ixs[-1]
    return p == 1 and ln >= 8 and d == END[kind]


# ------------------------------------------------------------------------------------------------
# level D: transactions
ACCTS = {1: 11, 2: 12, 3: 13, 4: 14}     # account code -> authority code
P10, P20 = 10 * ONE, 20 * ONE
FEE10 = ONE // 10


def cfg_line(pC=P10, fee=FEE10, flags=(0, 0, 0, 0)):
    return "%d %d %d %d %d %d" % ((pC, fee) + tuple(flags))


def tx_line(cfg, ixs):
    return cfg + " ; " + " ; ".join(ixs)


def sym_of_ix(tok):
    """symbolic (prog, disc, len, acct0) of a level-D instruction token string (top-level view)"""
    t = tok.split()
    k = t[0]
    if k == "CB":
        return (0, "2", 5, 0)
    if k == "FG":
        return (int(t[1]), t[2], int(t[3]), 0)
    if k == "PX":
        return (int(t[1]), "PROXY", 48, 0)
    acct0 = int(t[1]) if k in ("SL", "EL", "SD", "ED", "SF", "EF", "EFX", "EFN", "IR") else 7
    return (1, "EF" if k in ("EFX", "EFN") else k, 8, acct0)


def parse_sim(case, impl):
    parts = [p.strip() for p in case.split(";")]
    cfg = parts[0].split()
    pC, fee = int(cfg[0]), int(cfg[1])
    flags0 = [int(x) for x in cfg[2:6]]
    ixs = [p for p in parts[1:] if p]
    o = impl.split()
    if o[0] == "OK":
        res = ("OK", None, None); rest = o[1:]
    else:
        res = ("ERR", int(o[1]), o[2]); rest = o[3:]
    accts = {}
    for a in rest:
        f = a.split(":")
        code = int(f[0][1:])
        if f[1] == "-":
            accts[code] = None
            continue
        bal = {}
        if f[5]:
            for b in f[5].split(","):
                bc, v = b.split("=")
                au, lu = v.split("/")
                bal[int(bc)] = (au, lu)
        ref = None if f[6] in ("-",) or "x" in f[6] else [int(x) for x in f[6].split(",")]
        accts[code] = dict(flags=int(f[1]), recv=int(f[2]), rec=int(f[3]), cache=[int(x) for x in f[4].split(",")],
                           bal=bal, ref=ref)
    return dict(pC=pC, fee=fee, flags0=flags0, ixs=ixs, res=res, accts=accts)


WD_C = [1 * U, 5 * U, 10 * U, 50 * U, 100 * U, 100 * U + 1]
RP_L = [0, 10 * U, 37_499_999, 37_500_000, 45_454_545, 45_454_546, 47_619_047, 47_619_048, 60 * U, 87_500_000, 87_500_001,
        100 * U, 800 * U, 800 * U + 1]
FEES = [FEE10, 0, 14073748835533, 14073748835532, ONE // 5, ONE]
PRICES = [P10, P10, P10, P20, 10 * ONE + 1, 3002399751580330, 3002399751580331, 3002399751580332]
# 3002399751580331 ~ 10.6667: A's maintenance health crosses zero there


def liq_tx(rng, kind="liq"):
    """a receivership (or deleverage) transaction with random legal / illegal variations"""
    S, E = ("SL", "EL") if kind == "liq" else ("SD", "ED")
    who = 20 if kind == "liq" else 21
    a = rng.choice([1, 1, 1, 1, 4, 4, 2, 3])
    r = rng.choice([who] * 6 + [22, 11, 21, 20])
    pC = rng.choice(PRICES)
    fee = rng.choice(FEES)
    flags = [0, 0, 0, 0]
    if rng.random() < 0.12:
        flags[rng.randrange(4)] = rng.choice([1, 64, 2, 16, 48, 65])
    pre = [rng.choice(["CB", "FG 2 KRR 8", "FG 2 KRO 8", "FG 3 DUS 8", "IR 3", "FG 2 777 8", "FG 5 5 1", "DP 2 12 31 %d" % U])
           for _ in range(rng.choice([0, 0, 1, 1, 2]))]
    mid = []
    nm = rng.choice([0, 1, 2, 2, 3, 4])
    signer = rng.choice([who, who, who, 22, ACCTS.get(a, 11)])
    x = rng.choice(WD_C) if a != 4 else rng.choice([100_000, 400_000, 400_001])
    y = rng.choice(RP_L) if a != 4 else rng.choice([0, 200_000, 3_000_000, 3_200_000, 3_200_001])
    base = ["WD %d %d 31 %d" % (a, signer, x), "RP %d %d 32 %d" % (a, signer, y)]
    rng.shuffle(base)
    for j in range(nm):
        q = rng.random()
        if j < 2 and q < 0.75:
            mid.append(base[j])
        elif q < 0.82:
            mid.append(rng.choice(["CB", "FG 4 999 24", "FG 5 5 8", "IR 3", "FG 2 777 8", "FG 3 888 16"]))
        elif q < 0.90:
            zb = (33, 34) if a == 1 else (31, 31)       # only account 1 holds the zero-weight / zero-price collateral
            mid.append(rng.choice(["WD %d %d %d %d" % (a, signer, zb[0], U), "WD %d %d %d %d" % (a, signer, zb[1], U),
                                   "WD 2 12 31 %d" % U, "RP 2 12 32 %d" % U, "RP %d 22 32 %d" % (a, 10 * U),
                                   "WD %d 22 31 %d" % (a, U)]))
        else:
            mid.append(rng.choice(["BR 2 12 32 %d" % U, "DP 2 12 31 %d" % U, "SF 3 13 9", "EF 3 13", "%s %d %d" % (E, a, r),
                                   "%s %d %d" % (S, a, r), "%s 2 %d" % (S, who), "FG 9 4 8", "FG 10 3 9", "FG 5 5 1", "FG 1 12345 8",
                                   "FG 1 SL 3", "TR 2 12", "LQ 2 12 3", "HB 2 21", "PX 4 BR 2 12 32 %d" % U,
                                   "PX 4 %s %d %d" % (E, a, r), "PX 4 WD %d %d 31 %d" % (a, who, U), "PX 5 RP %d %d 32 %d" % (a, who, 10 * U),
                                   "SD 1 21" if kind == "liq" else "SL 1 20", "ED 1 21" if kind == "liq" else "EL 1 20",
                                   "PX 4 SF 3 13 9", "PX 9 DP 2 12 31 %d" % U]))
    q = rng.random()
    if q < 0.8:
        tail = ["%s %d %d" % (E, a, r)]
    elif q < 0.86:
        tail = ["%s %d %d" % (E, rng.choice([1, 2, 4]), rng.choice([who, 22]))]
    elif q < 0.9:
        tail = []
    elif q < 0.95:
        tail = ["%s %d %d" % (E, a, r), rng.choice(["CB", "FG 4 999 24", "RP %d %d 32 %d" % (a, who, U)])]
    elif q < 0.975:
        tail = ["PX 4 %s %d %d" % (E, a, r)]
    else:
        tail = ["FG 4 %s 8" % E]                  # the end discriminator under another (allow-listed) program
    start = "%s %d %d" % (S, a, r)
    if rng.random() < 0.04:
        start = "PX 4 " + start
    return tx_line(cfg_line(pC, fee, flags), pre + [start] + mid + tail)


BR_F = [1, 100 * U, 400 * U, 400 * U + 1, 900 * U]


def fl_tx(rng):
    """a flash-loan transaction with random legal / illegal variations"""
    a = rng.choice([3, 3, 3, 3, 2, 1, 4])
    s = ACCTS[a] if rng.random() < 0.92 else rng.choice([22, 20, 21])
    pC = rng.choice([P10, P10, P20])
    flags = [0, 0, 0, 0]
    if rng.random() < 0.15:
        flags[a - 1] = rng.choice([1, 64, 2, 16, 65])
    pre = [rng.choice(["CB", "FG 4 999 24", "DP %d %d 31 %d" % (a, ACCTS[a], U), "FG 9 4 8"]) for _ in range(rng.choice([0, 0, 1, 2]))]
    mid = []
    for _ in range(rng.choice([0, 1, 1, 2, 3, 4])):
        q = rng.random()
        if q < 0.35:
            mid.append("BR %d %d 32 %d" % (a, s, rng.choice(BR_F)))
        elif q < 0.5:
            mid.append("WD %d %d 31 %d" % (a, s, rng.choice([U, 50 * U, 100 * U, 100 * U + 1])))
        elif q < 0.65:
            mid.append("RP %d %d 32 %d" % (a, s, rng.choice([1, 100 * U, 400 * U, 900 * U])))
        elif q < 0.75:
            mid.append(rng.choice(["DP %d %d 31 %d" % (a, s, 50 * U), "CB", "FG 4 999 24", "FG 10 3 9", "BR 2 12 32 %d" % U]))
        else:
            other, other_s = (2, 12) if a != 2 else (3, 13)      # never liquidator == liquidatee (same-account double borrow)
            mid.append(rng.choice(["LQ %d %d %d" % (other, other_s, a), "LQ %d %d %d" % (a, s, other), "HB %d 21" % a, "TR %d %d" % (a, s), "SL %d 20" % a, "SD %d 21" % a,
                                   "SF %d %d 9" % (a, s), "EF %d %d" % (a, s), "SF 2 12 9", "EF 2 12", "PX 4 BR %d %d 32 %d" % (a, s, rng.choice(BR_F)),
                                   "PX 4 EF %d %d" % (a, s), "PX 4 SF %d %d 9" % (a, s), "FG 1 12345 8", "FG 1 EF 7", "IR %d" % a]))
    n_pre = len(pre)
    end_pos = n_pre + 1 + len(mid)
    q = rng.random()
    if q < 0.75:
        tail = ["EF %d %d" % (a, s)]
    elif q < 0.80:
        tail = ["EF %d %d" % (rng.choice([2, 3]), rng.choice([12, 13]))]
    elif q < 0.82:
        # the end instruction of ANOTHER account that lists this one among its trailing accounts / the right end with a passenger
        o2 = 2 if a != 2 else 3
        tail = [rng.choice(["EFX %d %d %d" % (o2, ACCTS[o2], a), "EFX %d %d %d" % (o2, ACCTS[o2], a), "EFX %d %d %d" % (a, s, o2)])]
    elif q < 0.85:
        tail = ["EFN %d %d" % (a, s)]       # the end instruction omits its risk (bank / oracle) accounts
    elif q < 0.89:
        tail = []
    elif q < 0.92:
        tail = ["PX 4 EF %d %d" % (a, s)]
    elif q < 0.94:
        tail = ["FG 4 EF 8"]
    else:
        tail = ["EF %d %d" % (a, s), rng.choice(["CB", "BR %d %d 32 %d" % (a, s, 900 * U), "SF %d %d 9" % (a, s)])]
    e = rng.choice([end_pos] * 8 + [end_pos - 1, end_pos + 1, 0, n_pre, n_pre + 1, len(pre) + len(mid) + len(tail) + 1, U64_MAX])
    start = "SF %d %d %d" % (a, s, e)
    if rng.random() < 0.04:
        start = "PX 4 " + start
    ixs = pre + [start] + mid + tail
    if rng.random() < 0.1:   # a second complete flash loan afterwards
        k = len(ixs)
        ixs += ["SF 3 13 %d" % (k + 2), "BR 3 13 32 %d" % U, "EF 3 13"]
    return tx_line(cfg_line(pC, FEE10, flags), ixs)


def fl_liq_inside(rng):
    """'liquidation ... impossible while the flag is set': the account borrows itself under water INSIDE its own flash-loan
    bracket, another account liquidates it there, it repays and ends healthy - every instruction but the liquidation is
    legal, so the transaction commits iff the liquidation of a flagged account is let through"""
    pC = rng.choice([P10, P20])
    X = rng.choice([900, 1000, 1100, 1500, 2000, 3000, 5000]) * U
    liq = rng.choice([(2, 12), (2, 12), (1, 11), (4, 14)])
    Y = X - rng.choice([30, 50, 100, 300]) * U
    pre = [rng.choice(["CB", "FG 4 999 24"])] if rng.random() < 0.3 else []
    k = len(pre)
    ixs = pre + ["SF 3 13 %d" % (k + 4), "BR 3 13 32 %d" % X, "LQ %d %d 3" % liq, "RP 3 13 32 %d" % Y, "EF 3 13"]
    return tx_line(cfg_line(pC, FEE10, [0, 0, 0, 0]), ixs)


def sim_enumerated(kind):
    """small exhaustive family: every transaction of length <= 3 over a 6-symbol alphabet"""
    if kind == "liq":
        alpha = ["CB", "SL 1 20", "EL 1 20", "WD 1 20 31 %d" % (5 * U), "RP 1 20 32 %d" % (60 * U), "BR 2 12 32 %d" % U]
    else:
        alpha = ["CB", "SF 3 13 2", "EF 3 13", "BR 3 13 32 %d" % (100 * U), "RP 3 13 32 %d" % (100 * U), "SF 3 13 3", "EFN 3 13", "BR 3 13 32 %d" % (900 * U)]
    out = []
    for n in range(1, 4):
        for ks in itertools.product(alpha, repeat=n):
            out.append(tx_line(cfg_line(), list(ks)))
    return out
