"""Scenario generators for the `risk` suite (C04 / C05). All randomness from the rng passed in.
A scenario = a world (banks with Fixed or Pyth oracles), a funding prefix (lender funds every bank, the
borrower posts collateral and takes some debt), optional events (price moves, oracle going stale, wrong
oracle account, bank set to reduce-only) and a probe: a DESCENDING family of amounts around the
analytically predicted accept / reject boundary of a borrow, a withdrawal or a liquidation. Failed
instructions roll back, so the family is evaluated on one and the same pre-state until the first accept:
a reject at n+1 followed by an accept at n exhibits the exact boundary."""
from fractions import Fraction
import gen_bank as G
import gen_hops as H
from props import risklib as R

ONE = R.ONE
U64 = R.U64
NOW0 = R.NOW0


def pick_weights(rng, strong=False):
    awi = Fraction(rng.choice([30, 50, 65, 80, 90, 100] if strong else [0, 30, 50, 65, 80, 90, 100]), 100)
    awm = min(Fraction(1), awi + Fraction(rng.choice([0, 5, 10]), 100))
    lwi = Fraction(rng.choice([100, 100, 110, 125, 150]), 100)
    lwm = max(Fraction(1), lwi - Fraction(rng.choice([0, 5, 10]), 100))
    return awi, awm, lwi, lwm


def gen_bank(rng, now, i, feats):
    awi, awm, lwi, lwm = pick_weights(rng, strong=True)
    m = rng.random()
    if m < 0.5:
        asv = lsv = ONE
    else:
        asv = ONE + rng.randrange(0, ONE // 2)
        lsv = asv + rng.randrange(0, ONE // 4)
    dec = rng.choice([0, 2, 6, 6, 6, 8, 9])
    b = {"asv": asv, "lsv": lsv, "last_update": now, "dep": U64, "bor": U64, "tag": rng.choice([0, 0, 0, 1]),
         "dec": dec, "flags": rng.choice([0, 0, 0, 0, 4, 8, 16, 28, 64]), "op_state": 1,
         "ir": R.flat_ir() if rng.random() < 0.7 else R.slope_ir(rng),
         "awi": R.fxr(awi), "awm": R.fxr(awm), "lwi": R.fxr(lwi), "lwm": R.fxr(lwm), "tier": 0,
         "tavil": 0, "price": ONE, "tokprog": rng.choice([0, 0, 0, 0, 1]), "bps": 0, "maxfee": 0,
         "orig": rng.choice([0, 0, 0, 0, R.fxr(Fraction(1, 100))]), "etag": 0, "emode": []}
    # oracle
    usd = rng.choice([Fraction(1), Fraction(1), Fraction(2), Fraction(1, 2), Fraction(100), Fraction(25123, 1000),
                      Fraction(rng.randrange(1, 10 ** 6), 1000)])
    if rng.random() < feats.get("pyth", 0.6):
        expo = rng.choice([-8, -8, -6, -5, -3, 0])
        p = max(1, int(usd / Fraction(10) ** expo))
        cpct = rng.choice([0, 0, Fraction(1, 1000), Fraction(1, 100), Fraction(2, 100), Fraction(4, 100)])
        epct = rng.choice([0, 0, Fraction(1, 1000), Fraction(1, 100), Fraction(3, 100)])
        ema = max(1, int(p * rng.choice([Fraction(1), Fraction(1), Fraction(99, 100), Fraction(101, 100), Fraction(9, 10), Fraction(11, 10)])))
        o = {"max_age": rng.choice([0, 30, 60, 120, 600]), "max_conf": rng.choice([0, 0, 0, R.U32 // 20, R.U32 // 5]),
             "price": p, "conf": int(p * cpct), "expo": expo, "ema": ema, "ema_conf": int(ema * epct), "publish": now}
        b["price"] = 0
    else:
        o = None
        b["price"] = R.fxr(usd)
    return b, o


def add_emode(rng, banks, coll, debt):
    """collateral banks get tags, debt banks get entries that lift the weight of some tags"""
    for c in coll:
        if rng.random() < 0.7:
            banks[c]["etag"] = rng.choice([1, 2, 3])
    for d in debt:
        ents = []
        if len(debt) > 1 and rng.random() < 0.3:
            banks[d]["emode"] = ents          # a plain debt bank among e-mode ones: it must cancel the e-mode benefit wherever it sorts
            continue
        for tag in sorted(rng.sample([1, 2, 3], rng.choice([1, 2, 3]))):
            wi = Fraction(rng.choice([70, 85, 90, 95]), 100)
            wm = min(Fraction(99, 100), wi + Fraction(rng.choice([0, 3]), 100))
            ents.append([tag, rng.choice([0, 1]), R.fxr(wi), R.fxr(wm)])
        banks[d]["emode"] = ents


def native(b, o, usd_value):
    """native amount worth about usd_value"""
    if o is None:
        price = Fraction(max(1, b["price"]), ONE)
    else:
        price = o["price"] * Fraction(10) ** o["expo"]
    return max(1, int(usd_value * 10 ** b["dec"] / price))


def family(n, rng, lo=1, hi=(1 << 61)):
    """descending amounts around n"""
    ds = rng.choice([[3, 2, 1, 0, -1, -2], [2, 1, 0, -1], [1, 0], [5, 1, 0, -1, -5], [1000, 1, 0, -1]])
    out = []
    for d in ds:
        v = n + d
        if lo <= v <= hi and v not in out:
            out.append(v)
    return out


def refresh_ops(pred, now, skip=()):
    """re-publish every Pyth oracle at `now` except those in skip"""
    ops = []
    for k, o in enumerate(pred.orc):
        if o is not None and k not in skip:
            o["publish"] = now
            ops.append([20, k, o["price"], o["conf"], o["ema"], o["ema_conf"], now])
    return ops


def gen_gate_case(rng, dist, big_portfolio=False):
    """C04 scenario"""
    feats = {"pyth": rng.choice([0.0, 0.5, 0.8, 1.0])}
    if big_portfolio:
        nb = 17
        n_coll = rng.choice([15, 14, 12, 8])
        n_debt = rng.choice([1, 2]) if n_coll >= 14 else 16 - n_coll
    else:
        nb = rng.choice([2, 3, 3, 4, 5, 6])
        n_coll = rng.randrange(1, nb)
        n_debt = rng.randrange(1, nb - n_coll + 1)
    now = NOW0 + rng.randrange(0, 10 ** 6)
    banks, orcs = [], []
    for i in range(nb):
        b, o = gen_bank(rng, now, i, feats)
        banks.append(b)
        orcs.append(o)
    idx = list(range(nb))
    rng.shuffle(idx)
    coll = idx[:n_coll]
    debt = idx[n_coll:n_coll + n_debt]
    spare = idx[n_coll + n_debt:]
    feat = rng.choice(["plain", "plain", "emode", "emode", "isolated", "two_isolated", "reduce_only", "stale", "wrong_oracle", "discount",
                       "conf_too_wide", "price_move", "liab_stale"])
    if feat == "two_isolated" and len(debt) < 2:
        feat = "isolated"
    dist[feat] = dist.get(feat, 0) + 1
    if big_portfolio:
        dist["16-positions"] = dist.get("16-positions", 0) + 1
    if feat == "emode" or rng.random() < 0.25:
        add_emode(rng, banks, coll, debt)
    if feat == "discount":
        c = rng.choice(coll)
        banks[c]["tavil"] = rng.choice([1, 10, 1000, 10 ** 5])
    iso_bank = None
    if feat == "isolated":
        # an isolated-tier bank: as a debt bank (exclusivity) or as worthless collateral
        if rng.random() < 0.6:
            iso_bank = rng.choice(debt)
        else:
            iso_bank = rng.choice(coll)
        banks[iso_bank]["tier"] = 1
        if rng.random() < 0.7:
            banks[iso_bank]["awi"] = banks[iso_bank]["awm"] = 0
    if feat == "two_isolated":
        # two isolated-tier debt banks (one already borrowed from, the other probed), sometimes an ordinary one as well:
        # a second isolated debt must be refused whatever the order of the banks in the account
        banks[debt[0]]["tier"] = 1
        banks[debt[-1]]["tier"] = 1
    na = 3
    pf = [rng.randrange(2), G.fx(Fraction(rng.randrange(0, 200), 10000)), G.fx(Fraction(rng.randrange(0, 500), 10000))]
    pred = R.Pred(banks, orcs, na, now)
    ops = []
    # lender funds the debt banks (and spares)
    for d in debt + spare:
        amt = native(banks[d], orcs[d], Fraction(10 ** rng.choice([8, 9, 10])))
        amt = min(amt, 1 << 60)
        ops.append([1, 0, d, amt, 0])
        pred.deposit(0, d, amt)
    # borrower posts collateral
    for c in coll:
        amt = native(banks[c], orcs[c], Fraction(rng.choice([1, 10, 100, 1000, 12345, 10 ** 5])) * rng.choice([1, 1, 3, 7]))
        amt = min(amt, 1 << 58)
        ops.append([1, 1, c, amt, 0])
        pred.deposit(1, c, amt)
    # takes some debt in all but the last debt bank (well inside the limit)
    h, st = pred.init_health(1)
    room = max(h, Fraction(0))
    probe_bank = debt[-1]
    for d in debt[:-1]:
        share = room * Fraction(rng.choice([1, 5, 10, 20]), 100) / max(1, len(debt))
        lw = Fraction(banks[d]["lwi"], ONE)
        amt = native(banks[d], orcs[d], share / lw)
        if amt >= 1:
            ops.append([3, 1, d, amt])
            pred.borrow(1, d, amt)
    # events
    if feat == "reduce_only":
        c = rng.choice(coll)
        ops.append([22, c, 2])
        pred.banks[c]["op_state"] = 2
    elif feat in ("stale", "liab_stale"):
        victim = [k for k in (coll if feat == "stale" else debt) if orcs[k] is not None]
        dt = rng.choice([61, 121, 601, 3600])
        pred.now = now + dt
        ops.append([0, pred.now])
        keep = [rng.choice(victim)] if victim else []
        # the victim keeps its old publish time: stale if dt exceeds its max age
        ops += refresh_ops(pred, pred.now, skip=keep)
    elif feat == "wrong_oracle":
        victim = [k for k in coll + debt if orcs[k] is not None]
        if victim:
            k = rng.choice(victim)
            ops.append([21, k, 1])
            pred.bogus[k] = True
    elif feat == "conf_too_wide":
        victim = [k for k in coll + debt if orcs[k] is not None]
        if victim:
            k = rng.choice(victim)
            o = pred.orc[k]
            o["ema_conf"] = int(o["ema"] * rng.choice([Fraction(6, 100), Fraction(20, 100)]))
            o["conf"] = int(o["price"] * rng.choice([Fraction(0), Fraction(6, 100)]))
            ops.append([20, k, o["price"], o["conf"], o["ema"], o["ema_conf"], o["publish"]])
    elif feat == "price_move":
        k = rng.choice(coll + debt)
        f = rng.choice([Fraction(1, 2), Fraction(9, 10), Fraction(11, 10), Fraction(2)])
        if pred.orc[k] is None:
            pred.fixed[k] = max(1, int(pred.fixed[k] * f))
            ops.append([19, k, pred.fixed[k]])
        else:
            o = pred.orc[k]
            o["price"] = max(1, int(o["price"] * f))
            o["ema"] = max(1, int(o["ema"] * f))
            o["conf"] = int(o["conf"] * f)
            o["ema_conf"] = int(o["ema_conf"] * f)
            ops.append([20, k, o["price"], o["conf"], o["ema"], o["ema_conf"], o["publish"]])
    # probe
    kind = rng.choice(["borrow", "borrow", "withdraw"])
    if kind == "borrow":
        d = probe_bank

        def okb(n):
            f = n * ONE * pred.cfg[d]["orig"] // ONE
            hh, _ = pred.init_health(1, {d: (0, pred.lshares(d, n * ONE + f))})
            return hh >= 0
        nmax = R.bisect_max(okb, 1 << 60)
        if nmax < 1:
            nmax = rng.choice([1, 10, 1000])
        for n in family(nmax, rng):
            ops.append([3, 1, d, n])
    else:
        c = rng.choice(coll)
        have = pred.pos[1].get(c, [0, 0])[0] * pred.banks[c]["asv"] // (ONE * ONE)

        def okw(n):
            sh = pred.ashares(c, n)
            hh, _ = pred.init_health(1, {c: (-sh, 0)}, {c: -sh})
            return hh >= 0
        nmax = R.bisect_max(okw, max(0, have))
        if nmax < 1:
            nmax = max(1, have)
        fam = family(nmax, rng, hi=max(1, have + 3))
        for n in fam:
            ops.append([2, 1, c, n, 0])
        if rng.random() < 0.2:
            ops.append([2, 1, c, 0, 1])
    if big_portfolio and spare and rng.random() < 0.5:
        # a 17th position: slots are full
        ops.append([1, 1, spare[0], 5, 0])
    return R.case_line(nb, na, pf, now, banks, orcs, ops)


def gen_reduce_only_case(rng, dist):
    """C14 valuation scenario: the borrower's collateral sits (wholly or partly) in a bank that is then set reduce-only;
    an e-mode entry of the debt bank(s) usually lifts that bank's tag. Probes: borrows around the boundary predicted with
    the reduce-only deposits counted as nothing, then (sometimes) a withdrawal of the other collateral."""
    feats = {"pyth": rng.choice([0.0, 0.5, 1.0])}
    nb = rng.choice([2, 3, 3, 4])
    now = NOW0 + rng.randrange(0, 10 ** 6)
    banks, orcs = [], []
    for i in range(nb):
        b, o = gen_bank(rng, now, i, feats)
        banks.append(b)
        orcs.append(o)
    idx = list(range(nb))
    rng.shuffle(idx)
    ro = idx[0]
    debt = [idx[1]] + ([idx[2]] if nb >= 4 and rng.random() < 0.5 else [])
    other = [k for k in idx[1:] if k not in debt][:1]
    shape = rng.choice(["emode_all", "emode_all", "emode_all", "emode_some", "no_emode"])
    dist["ro:" + shape] = dist.get("ro:" + shape, 0) + 1
    if shape != "no_emode":
        tag = rng.choice([1, 2, 3])
        banks[ro]["etag"] = tag
        for j, d in enumerate(debt):
            if shape == "emode_some" and j == len(debt) - 1 and len(debt) > 1:
                banks[d]["emode"] = [[tag % 3 + 1, 0, R.fxr(Fraction(9, 10)), R.fxr(Fraction(95, 100))]]
                continue
            wi = Fraction(rng.choice([70, 85, 90, 95]), 100)
            banks[d]["emode"] = [[tag, rng.choice([0, 1]), R.fxr(wi), R.fxr(min(Fraction(99, 100), wi + Fraction(3, 100)))]]
        for o in other:
            if rng.random() < 0.5:
                banks[o]["etag"] = tag
    na = 3
    pf = [rng.randrange(2), G.fx(Fraction(rng.randrange(0, 200), 10000)), G.fx(Fraction(rng.randrange(0, 500), 10000))]
    pred = R.Pred(banks, orcs, na, now)
    ops = []
    for d in debt:
        amt = min(native(banks[d], orcs[d], Fraction(10 ** rng.choice([8, 9]))), 1 << 60)
        ops.append([1, 0, d, amt, 0])
        pred.deposit(0, d, amt)
    amt = min(native(banks[ro], orcs[ro], Fraction(rng.choice([10, 100, 1000, 12345]))), 1 << 58)
    ops.append([1, 1, ro, amt, 0])
    pred.deposit(1, ro, amt)
    for o in other:
        if rng.random() < 0.6:
            amt = min(native(banks[o], orcs[o], Fraction(rng.choice([1, 10, 100]))), 1 << 58)
            ops.append([1, 1, o, amt, 0])
            pred.deposit(1, o, amt)
    # some debt taken while the bank was still operational
    if rng.random() < 0.5:
        h, _ = pred.init_health(1)
        for d in (debt[:-1] if len(debt) > 1 else debt):
            lw = Fraction(banks[d]["lwi"], ONE)
            a0 = native(banks[d], orcs[d], max(h, Fraction(0)) * Fraction(rng.choice([5, 20, 50]), 100) / lw)
            if a0 >= 1:
                ops.append([3, 1, d, a0])
                pred.borrow(1, d, a0)
    ops.append([22, ro, 2])
    pred.banks[ro]["op_state"] = 2
    d = debt[-1]

    def okb(n):
        f = n * ONE * pred.cfg[d]["orig"] // ONE
        hh, _ = pred.init_health(1, {d: (0, pred.lshares(d, n * ONE + f))})
        return hh >= 0
    nmax = R.bisect_max(okb, 1 << 60)
    fam = family(nmax, rng) if nmax >= 1 else []
    for n in fam:
        ops.append([3, 1, d, n])
    if nmax < 1 or rng.random() < 0.3:
        for n in rng.sample([1, 7, 1000, native(banks[d], orcs[d], Fraction(5))], 2):
            ops.append([3, 1, d, max(1, n)])
    if other and other[0] in pred.pos[1] and rng.random() < 0.4:
        ops.append([2, 1, other[0], rng.choice([1, 3]), 0])
    return R.case_line(nb, na, pf, now, banks, orcs, ops)


def pythify(rng, line):
    """a hops case as a risk case; some Fixed banks become Pyth banks with the same spot price. Fixed-price
    changes of such banks become rewrites of the Pyth account; after a clock advance the Pyth accounts are
    usually re-published (else they go stale)."""
    c = H.parse_case(line)
    t = line.split()
    i = 6
    for b in c["banks"]:
        i += G.BANK_TOKS + H.HB_EXTRA + 4 * len(b["emode"])
    ot = []
    st = {}
    for k, b in enumerate(c["banks"]):
        if b["tag"] in (0, 1) and b["price"] > 0 and rng.random() < 0.5:
            p = max(1, b["price"] * 10 ** 8 // ONE)
            cf = rng.choice([0, Fraction(1, 100), Fraction(3, 100)])
            st[k] = cf
            ot += [1, rng.choice([0, 60, 600]), 0, p, int(p * cf), -8, p, int(p * cf), c["now"]]
        else:
            ot += [0] * R.ORACLE_TOKS
    now = c["now"]
    cur = {k: max(1, c["banks"][k]["price"] * 10 ** 8 // ONE) for k in st}
    ops = []
    for o in c["ops"]:
        if o[0] in (30, 31, 32, 33, 34, 35, 36, 37, 38):
            continue          # fixture ops of the hops suite (risk admin / bank flags) do not exist in the risk suite
        if o[0] == 19 and o[1] in st:
            p = max(1, o[2] * 10 ** 8 // ONE)
            if p >= 1 << 62:
                p = (1 << 62) - 1
            cur[o[1]] = p
            ops.append([20, o[1], p, int(p * st[o[1]]), p, int(p * st[o[1]]), now])
        elif o[0] == 0:
            now = o[1]
            ops.append(o)
            for k in st:
                if rng.random() < 0.7:
                    ops.append([20, k, cur[k], int(cur[k] * st[k]), cur[k], int(cur[k] * st[k]), now])
        else:
            ops.append(o)
    out = [len(ops)]
    for o in ops:
        out += o
    return " ".join(t[:i] + list(map(str, ot)) + list(map(str, out)))


# ------------------------------------------------------------------------------------------------
# C05 scenarios
# Retagging a bank as a venue bank (op 23): Fixed-price banks take any venue tag (a Fixed oracle needs no further account);
# Pyth-priced banks become DriftPythPull banks with a spot-market account (Kamino / Solend reserves are not built by the fixture).
VENUE_COLLATERAL = True


def gen_liq_case(rng, dist, reduce_only_asset=False):
    feats = {"pyth": rng.choice([0.0, 0.5, 1.0])}
    nb = rng.choice([2, 2, 3, 4])
    now = NOW0 + rng.randrange(0, 10 ** 6)
    banks, orcs = [], []
    for i in range(nb):
        b, o = gen_bank(rng, now, i, feats)
        b["orig"] = 0
        banks.append(b)
        orcs.append(o)
    idx = list(range(nb))
    rng.shuffle(idx)
    ab, lb = idx[0], idx[1]
    others = idx[2:]
    # liquidation needs maint weights that make repayment improve health
    if rng.random() < 0.3:
        add_emode(rng, banks, [ab], [lb])
    na = 3
    pf = [rng.randrange(2), G.fx(Fraction(rng.randrange(0, 200), 10000)), G.fx(Fraction(rng.randrange(0, 500), 10000))]
    pred = R.Pred(banks, orcs, na, now)
    ops = []
    feat = rng.choice(["plain", "plain", "plain", "over_liquidation", "too_severe", "liquidator_boundary", "healthy",
                       "stale_asset_oracle", "extra_positions", "liquidator_small_deposit", "liquidator_swap", "liquidator_swap",
                       "stale_extra_collateral", "stale_extra_collateral"])
    if feat == "liquidator_swap" and not others:
        feat = "liquidator_boundary"
    if feat == "stale_extra_collateral" and not any(orcs[k] is not None for k in others):
        feat = "extra_positions"
    dist[feat] = dist.get(feat, 0) + 1
    # lender = liquidator (0) funds the debt bank; thin liquidator (2) has little collateral
    amt = min(native(banks[lb], orcs[lb], Fraction(10 ** rng.choice([6, 8]))), 1 << 60)
    ops.append([1, 0, lb, amt, 0])
    pred.deposit(0, lb, amt)
    liqor = 0
    if feat == "liquidator_small_deposit":
        # the liquidator holds a deposit in the debt bank that is smaller than what it has to pay: its payment first drains
        # the deposit and books the remainder as a debt (both legs of the wrapper in one call)
        liqor = 2
        cb = rng.choice(others) if others else ab
        a2 = native(banks[cb], orcs[cb], Fraction(rng.choice([10 ** 5, 10 ** 6])))
        ops.append([1, 2, cb, a2, 0])
        pred.deposit(2, cb, a2)
        small = rng.choice([1, 2, 1000, native(banks[lb], orcs[lb], Fraction(rng.choice([1, 5, 50])))])
        ops.append([1, 2, lb, max(1, small), 0])
        pred.deposit(2, lb, max(1, small))
    if feat == "liquidator_boundary":
        liqor = 2
        cb = rng.choice(others) if others else ab
        a2 = native(banks[cb], orcs[cb], Fraction(rng.choice([5, 50, 500])))
        ops.append([1, 2, cb, a2, 0])
        pred.deposit(2, cb, a2)
    if feat == "liquidator_swap":
        # the liquidator pays out of a DEPOSIT in the debt bank (it ends with no debt there), owes another bank and sits
        # near its initial margin: swapping the well-weighted deposit for the seized collateral can push it under
        liqor = 2
        ob = others[0]
        banks[ob]["tier"] = 0
        x = min(native(banks[ob], orcs[ob], Fraction(10 ** 7)), 1 << 60)
        ops.append([1, 0, ob, x, 0])
        pred.deposit(0, ob, x)
        dep = min(native(banks[lb], orcs[lb], Fraction(rng.choice([200, 1000, 5000]))), 1 << 58)
        ops.append([1, 2, lb, dep, 0])
        pred.deposit(2, lb, dep)

        def okq(n):
            f = n * ONE * pred.cfg[ob]["orig"] // ONE
            hh, _ = pred.init_health(2, {ob: (0, pred.lshares(ob, n * ONE + f))})
            return hh >= 0
        qmax = R.bisect_max(okq, 1 << 60)
        if qmax >= 1:
            q = max(1, int(qmax * rng.choice([Fraction(1), Fraction(999, 1000), Fraction(99, 100), Fraction(9, 10)])))
            ops.append([3, 2, ob, q])
            pred.borrow(2, ob, q)
    # liquidatee: collateral in ab (and maybe others), debt in lb near the init limit
    cval = Fraction(rng.choice([10, 100, 1000, 54321]))
    camt = min(native(banks[ab], orcs[ab], cval), 1 << 58)
    ops.append([1, 1, ab, camt, 0])
    pred.deposit(1, ab, camt)
    if feat == "stale_extra_collateral":
        # a SECOND collateral that carries the account: healthy with it, under water without it. Its oracle goes stale
        # below; a maintenance check that values it at 0 instead of failing makes a healthy account liquidatable
        k = [j for j in others if orcs[j] is not None][0]
        x = min(native(banks[k], orcs[k], cval * rng.choice([1, 2, 5])), 1 << 58)
        ops.append([1, 1, k, x, 0])
        pred.deposit(1, k, x)
    if feat == "extra_positions" and others:
        for k in others:
            x = native(banks[k], orcs[k], Fraction(rng.choice([1, 10, 100])))
            ops.append([1, 1, k, x, 0])
            pred.deposit(1, k, x)

    def okb(n):
        hh, _ = pred.init_health(1, {lb: (0, pred.lshares(lb, n * ONE))})
        return hh >= 0
    nmax = R.bisect_max(okb, 1 << 60)
    if nmax < 2:
        return gen_liq_case(rng, dist, reduce_only_asset)
    bamt = max(1, int(nmax * rng.choice([Fraction(999, 1000), Fraction(95, 100), Fraction(8, 10), Fraction(1)])))
    ops.append([3, 1, lb, bamt])
    pred.borrow(1, lb, bamt)
    if reduce_only_asset:
        # the collateral bank goes reduce-only once the debt exists: its deposits still count at maintenance
        ops.append([22, ab, 2])
        pred.banks[ab]["op_state"] = 2
    tag0 = banks[ab]["tag"]
    if VENUE_COLLATERAL and not reduce_only_asset and tag0 == 0 and rng.random() < 0.3:
        # the collateral sits in a bank of a third-party venue (Kamino 3, Drift 4, Solend 5; Drift balances are 9-decimal
        # scaled units whatever the mint's decimals): valuation and the liquidation quantities must use the bank's BALANCE
        # decimals. A Pyth-priced bank becomes a real DriftPythPull bank: Pyth account + spot market, prices scaled by the
        # market's cumulative deposit interest
        vt = rng.choice([4, 4, 4, 3, 5]) if orcs[ab] is None else 4
        cum = rng.choice([10 ** 10, 10 ** 10, 10 ** 10 + 1, 10500000000, 12345678901, 2 * 10 ** 10, 5 * 10 ** 9]) if orcs[ab] is not None else 0
        ops.append([23, ab, vt, cum, (now + 10 ** 8) if orcs[ab] is not None else 0])
        if orcs[ab] is not None:
            pred.drift[ab] = cum
        banks[ab]["tag"] = vt
        pred.cfg[ab]["tag"] = vt
        dist["venue_collateral"] = dist.get("venue_collateral", 0) + 1
    # price move against the borrower (unless "healthy"): the mildest drop of the collateral price that makes
    # the predicted maintenance health negative (sometimes one step further)
    if feat not in ("healthy", "stale_extra_collateral"):
        k = ab
        cands = [Fraction(99, 100), Fraction(97, 100), Fraction(95, 100), Fraction(9, 10), Fraction(8, 10), Fraction(7, 10),
                 Fraction(1, 2), Fraction(3, 10), Fraction(1, 10)]
        saved = (pred.fixed[k], dict(pred.orc[k]) if pred.orc[k] else None)

        def apply(f):
            if saved[1] is None:
                pred.fixed[k] = max(1, int(saved[0] * f))
            else:
                o = pred.orc[k]
                o["price"] = max(1, int(saved[1]["price"] * f))
                o["ema"] = max(1, int(saved[1]["ema"] * f))
                o["conf"] = int(saved[1]["conf"] * f)
                o["ema_conf"] = int(saved[1]["ema_conf"] * f)
        pick = None
        for j, f in enumerate(cands):
            apply(f)
            hh, _ = pred.maint_health(1)
            if hh < 0:
                pick = j
                break
        if pick is None:
            pick = len(cands) - 1
        elif rng.random() < 0.3:
            pick = min(len(cands) - 1, pick + 1)
        f = cands[pick]
        apply(Fraction(1))
        if pred.orc[k] is None:
            pred.fixed[k] = max(1, int(pred.fixed[k] * f))
            ops.append([19, k, pred.fixed[k]])
        else:
            o = pred.orc[k]
            o["price"] = max(1, int(o["price"] * f))
            o["ema"] = max(1, int(o["ema"] * f))
            o["conf"] = int(o["conf"] * f)
            o["ema_conf"] = int(o["ema_conf"] * f)
            ops.append([20, k, o["price"], o["conf"], o["ema"], o["ema_conf"], o["publish"]])
    if feat == "stale_asset_oracle" and pred.orc[ab] is not None:
        pred.now = now + 4000
        ops.append([0, pred.now])
        ops += refresh_ops(pred, pred.now, skip=[ab])
    if feat == "stale_extra_collateral":
        k = [j for j in others if pred.orc[j] is not None][0]
        pred.now = now + 4000
        ops.append([0, pred.now])
        ops += refresh_ops(pred, pred.now, skip=[k])
    have = pred.pos[1].get(ab, [0, 0])[0] * pred.banks[ab]["asv"] // (ONE * ONE)
    px = pred.px()
    # seize amounts
    def post_health(n):
        """predicted maintenance health of the liquidatee after seizing n"""
        if px[ab]["err"] or px[lb]["err"] or not isinstance(px[ab]["rt"], tuple) or not isinstance(px[lb]["rt"], tuple):
            return None
        da = 9 if banks[ab]["tag"] == 4 else banks[ab]["dec"]
        dl = 9 if banks[lb]["tag"] == 4 else banks[lb]["dec"]
        v = Fraction(n) * px[ab]["rt"][0] / 10 ** da
        q = v * 10 ** dl / px[lb]["rt"][1]
        relief = int(q * Fraction(95, 100) * ONE)
        if feat == "too_severe" and pred.lshares(lb, relief) >= pred.pos[1].get(lb, [0, 0])[1]:
            return Fraction(1)          # the debt would be exhausted (positions are clamped at 0): outside the bisected region
        hh, _ = pred.maint_health(1, {ab: (-pred.ashares(ab, n), 0), lb: (0, -pred.lshares(lb, relief))})
        return hh
    fams = []
    if feat == "over_liquidation":
        fams = [have + 2, have + 1, have, max(1, have - 1)]
    elif feat == "too_severe":
        nsev = max(1, R.bisect_max(lambda n: (post_health(n) is not None and post_health(n) <= 0), max(1, have)))
        # fine and coarse steps: the predicted boundary is exact only up to the engine's rounding
        fams = []
        for v in (nsev + nsev // 1000 + 2, nsev + nsev // 10 ** 6 + 2, nsev + 2, nsev + 1, nsev, nsev - 1, nsev - 2,
                  nsev - nsev // 10 ** 6 - 2, nsev - nsev // 1000 - 2):
            if 1 <= v <= have + 2 and v not in fams:
                fams.append(v)
    elif feat == "liquidator_swap":
        def oks(n):
            if post_health(n) is None:
                return False
            da = 9 if banks[ab]["tag"] == 4 else banks[ab]["dec"]
            dl = 9 if banks[lb]["tag"] == 4 else banks[lb]["dec"]
            v = Fraction(n) * px[ab]["rt"][0] / 10 ** da
            q = int(v * 10 ** dl / px[lb]["rt"][1] * Fraction(975, 1000))
            hh, _ = pred.init_health(2, {ab: (pred.ashares(ab, n), 0), lb: (-pred.ashares(lb, q), 0)})
            return hh >= 0
        ns = R.bisect_max(oks, max(1, have))
        fams = family(max(1, ns), rng, hi=max(1, have + 2)) + [max(1, have // 2), max(1, have // 10)]
    elif feat == "liquidator_boundary":
        def okl(n):
            if post_health(n) is None:
                return False
            da = 9 if banks[ab]["tag"] == 4 else banks[ab]["dec"]
            dl = 9 if banks[lb]["tag"] == 4 else banks[lb]["dec"]
            v = Fraction(n) * px[ab]["rt"][0] / 10 ** da
            q = int(v * 10 ** dl / px[lb]["rt"][1] * Fraction(975, 1000) * ONE)
            hh, _ = pred.init_health(2, {ab: (pred.ashares(ab, n), 0), lb: (0, pred.lshares(lb, q))})
            return hh >= 0
        nl = R.bisect_max(okl, max(1, have))
        fams = family(max(1, nl), rng, hi=max(1, have + 2))
    else:
        fams = [rng.choice([1, max(1, have // 1000), max(1, have // 100), max(1, have // 10), max(1, have // 3), max(1, have // 2), max(1, have)])]
        if rng.random() < 0.3:
            fams.append(max(1, have // 50))
    for n in fams:
        ops.append([17, liqor, 1, ab, lb, min(n, 1 << 61)])
    if rng.random() < 0.2:
        ops.append([17, liqor, 1, lb, ab, 1])       # wrong way round
    banks[ab]["tag"] = tag0        # the bank is CREATED with its original tag (op 23 retags it once the positions exist)
    return R.case_line(nb, na, pf, now, banks, orcs, ops)
