"""C15 — emergency pause is bounded."""
from props import authlib as A
ID = "C15"
MANIFEST = {
    "text": ("Kernel-checked theorems over the pause state machine for every operation sequence of any length "
             "(induction + invariant), tied to the real PanicState methods by differential execution on generated "
             "and boundary-directed schedules; property oracles evaluated on the implementation trace."),
    "design_ref": "DESIGN.md §7 C15",
    "technique": "Coq proof by invariant over op lists + model/implementation correspondence (extracted model vs real PanicState)",
}
THEOREMS = [
    "C15_pause_extends_at_most_30min", "C15_other_ops_never_extend", "C15_horizon_60min",
    "C15_blocked_iff_before_paused_until", "C15_daily_limit", "C15_expired_pause_does_not_block",
    "C15_cache_open_within_60min", "C15_permissionless_unpause_iff_expired", "C15_admin_unpause_total",
]
RULE = ("schedules of PanicState method calls (pause/unpause/unpause_if_expired/is_expired/can_pause/cache) "
        "from the zero state with non-decreasing clocks whose increments are boundary-directed "
        "(0,1,1799,1800,1801,86399,86400,86401,random), each op followed by an is_expired probe at now+3600; "
        "plus a malformed stream (arbitrary states and i64 times). Non-trivial = at least one successful and one "
        "refused pause in the schedule; distinct = different case line")
ASSUMPTIONS = [
    "clock values in [0, 2^62) (Solana's unix_timestamp is a non-negative i64 far below 2^62)",
    "fee state starts zero-initialised (init_global_fee_state)",
    "handler-level steps (panic_pause/unpause/unpause_permissionless/propagate) are modelled from their source; "
    "the method-level functions they call are what the correspondence executes",
    "transaction rollback on error is a property of the Solana runtime (modelled as 'state unchanged')",
]
OBSERVATIONS = []

DELTAS = [0, 1, 2, 1799, 1800, 1801, 3599, 3600, 3601, 86399, 86400, 86401]
I64_MIN, I64_MAX = -2**63, 2**63 - 1


def gen_valid(rng, nops):
    now = rng.choice([0, 1, 1000, 86400, 1_700_000_000, 2**40, rng.randrange(0, 2**50)])
    ops = []
    if rng.random() < 0.15:
        # scripted: pause, extend it while it runs (the state's start moves into the future), propagate, unpause WITHOUT
        # propagating, pause again before the first window would have ended, propagate, then ask the group's cache around
        # the end of the pause that is actually in force and around the end of the stale window
        t0 = now
        g1 = rng.choice([1, 60, 600, 1799])
        tp = t0 + g1 + rng.choice([0, 1, 30])
        tu = tp + rng.choice([0, 1, 60])
        t2 = tu + rng.choice([0, 1, 100, 400])
        tq = t2 + rng.choice([0, 1, 10])
        ops += [(0, t0), (0, t0 + g1), (5, tp), (1, tu), (0, t2), (5, tq)]
        for q in (t2 + 1799, t2 + 1800, t2 + 1801, t2 + 2400, t0 + 3599, t0 + 3600, t0 + g1 + 3600):
            ops.append((6, q))
        now = t2
    for _ in range(nops):
        r = rng.random()
        if r < 0.5:
            now += rng.choice(DELTAS)
        elif r < 0.8:
            now += rng.randrange(0, 4000)
        else:
            now += rng.randrange(0, 200000)
        k = rng.random()
        if k < 0.55:
            op = 0
        elif k < 0.65:
            op = 1
        elif k < 0.8:
            op = 2
        elif k < 0.87:
            op = 3
        elif k < 0.90:
            op = 4
        else:
            op = 5
        if op in (0, 1, 2) and rng.random() < 0.4:
            # the INSTRUCTION instead of the method: 7 panic_pause (= unpause_if_expired; pause), 8 panic_unpause (admin),
            # 9 panic_unpause_permissionless — real handlers through the entry point
            op = {0: 7, 1: 8, 2: 9}[op]
        ops.append((op, now))
        if op in (0, 5, 7) and rng.random() < 0.5:
            # cache propagation orderings: propagate right after a pause / extension, then ask the group's cache
            # around the two candidate expiry seconds (propagation time + 1800, pause start + 1800)
            if op in (0, 7):
                now += rng.choice([0, 1, 600, 1799])
                ops.append((5, now))
            for dt in rng.sample([1, 1799, 1800, 1801, 2400, 2999, 3000, 3599, 3600], 3):
                ops.append((6, now + dt))
        ops.append((3, now + 3600))   # horizon probe (pure query)
    return "0 0 0 0 0 %d %s" % (len(ops), " ".join(f"{o} {t}" for o, t in ops))


def gen_malformed(rng, nops):
    def t():
        return rng.choice([0, -1, 1, I64_MIN, I64_MAX, I64_MAX - 1800, I64_MIN + 1, rng.randrange(I64_MIN, I64_MAX),
                           rng.randrange(-10**6, 10**6), rng.randrange(0, 2**40)])
    st = [rng.choice([0, 1, 2, 3, 255, rng.randrange(256)]), rng.choice([0, 1, 2, 3, 4, 254, 255]),
          rng.choice([0, 1, 2, 3, 254, 255]), t(), t()]
    ops = [(rng.randrange(0, 7), t()) for _ in range(nops)]
    return "%s %d %s" % (" ".join(map(str, st)), len(ops), " ".join(f"{o} {x}" for o, x in ops))


def suites(rng, tier):
    n_valid, n_mal, length = {"quick": (1500, 500, 24), "thorough": (40000, 10000, 60), "search": (20000, 0, 40)}[tier]
    valid = [gen_valid(rng, rng.randrange(4, length)) for _ in range(n_valid)]
    out = [{"suite": "panic", "name": "panic-valid", "lines": valid,
            "distribution": {"schedules": n_valid, "max_ops": length, "delta_set": DELTAS}}]
    if n_mal:
        mal = [gen_malformed(rng, rng.randrange(1, 12)) for _ in range(n_mal)]
        out.append({"suite": "panic", "name": "panic-malformed", "lines": mal,
                    "distribution": {"cases": n_mal}})
    out.append(instruction_cells(rng, {"quick": 60, "thorough": 2000, "search": 300}[tier]))
    return out


PANIC_IXS = ("panic_pause", "panic_unpause", "panic_unpause_permissionless")


def instruction_cells(rng, n_random):
    """the three pause instructions through the real entry point: global pause flag set / clear, pause started at S, clock at T
    around the exact expiry second (enumerated) plus random (S, T): the permissionless unpause works iff a pause is set
    and has run out; the admin's unpause never fails while the flag is set"""
    lines = []
    combos = [(1000, 999), (1000, 1000), (1000, 2799), (1000, 2800), (1000, 2801), (0, 1800), (0, 1799), (5, 100000)]
    for _ in range(n_random):
        S = rng.randrange(0, 5000)
        combos.append((S, S + rng.choice([0, 1, 1799, 1800, 1801, rng.randrange(0, 4000)])))
    for ix in PANIC_IXS:
        for S, T in combos:
            for paused in (1, 0):
                c = A.with_tweak(A.base(ix), f"fspause:{paused}:{S}:1:1")
                lines.append(A.line(c, t=T) + f" k=panic S={S} T={T} p={paused}")
    return {"suite": "auth", "name": "pause-instructions-timing", "lines": lines, "impl_only": True,
            "distribution": {"instructions": list(PANIC_IXS), "cells": len(lines),
                             "note": "implementation only (the handler bodies around PanicState are glue: the state machine itself is modelled and corresponded at level A); the oracle evaluates the property on the real outcome"}}


def kvs(l):
    return dict(t.split("=", 1) for t in l.split()[1:] if "=" in t)


def oracle_cells(case, impl):
    k = kvs(case)
    ix, S, T, paused = k["ix"], int(k["S"]), int(k["T"]), k["p"] == "1"
    ok = impl.startswith("OK")
    if ix == "panic_unpause_permissionless":
        if ok and not (paused and T - S >= 1800):
            return {"key": "permissionless-unpause-before-expiry",
                    "what": f"panic_unpause_permissionless succeeded {T - S}s after the pause start (flag set: {paused})"}
        if not ok and paused and T - S >= 1800:
            return {"key": "expired-pause-cannot-be-cleared",
                    "what": f"panic_unpause_permissionless refused ({impl[:40]}) {T - S}s after the pause start"}
    if ix == "panic_unpause" and paused and not ok:
        return {"key": "unpause-failed-while-paused", "what": f"panic_unpause by the global fee admin failed although the pause flag is set: {impl[:40]}"}
    return None


def parse(case, impl):
    t = case.split()
    st = list(map(int, t[:5]))
    n = int(t[5])
    ops = [(int(t[6 + 2 * i]), int(t[7 + 2 * i])) for i in range(n)]
    outs = []
    for seg in impl.split(" | "):
        f = seg.split()
        outs.append((f[0], list(map(int, f[1:6])), list(map(int, f[6:9]))))
    return st, ops, outs


def nontrivial(suite, case, impl):
    if suite == "auth":
        return impl.startswith(("OK", "B "))
    if not case.startswith("0 0 0 0 0 "):
        return False
    try:
        st, ops, outs = parse(case, impl)
    except Exception:
        return False
    ok = any(o in (0, 7) and r == "OK" for (o, _), (r, _, _) in zip(ops, outs))
    refused = any(o in (0, 7) and r.startswith("E") for (o, _), (r, _, _) in zip(ops, outs))
    return ok and refused


def until(st, now):
    return max(now, st[3] + 1800) if st[0] & 1 else now


def oracle(suite, case, impl):
    """Evaluate C15 directly on the implementation trace (valid stream only)."""
    if suite == "auth":
        return oracle_cells(case, impl)
    if not case.startswith("0 0 0 0 0 "):
        return None
    if impl.startswith("PANIC") or impl.startswith("DRIVER"):
        return {"key": "panic", "what": "harness aborted on a valid schedule"}
    st, ops, outs = parse(case, impl)
    since = 0
    last_reset = st[4]
    propagated_after_last_change = False
    for (op, now), (r, st2, cache) in zip(ops, outs):
        if op in (0, 1, 2, 7, 8, 9) and r == "OK" and st2 != st:
            propagated_after_last_change = False
        if op == 5:
            propagated_after_last_change = True
        if op == 6 and propagated_after_last_change and r in ("B0", "B1"):
            # the group's cache was refreshed after the last change of the global state: the group must be
            # paused exactly while the global pause is in force (C14: refused while in force, accepted on expiry)
            in_force = (st[0] & 1) != 0 and now < st[3] + 1800
            if in_force and r == "B1":
                return {"key": "group-open-while-pause-in-force",
                        "what": f"at {now} the refreshed group cache reports the pause expired although it runs until {st[3] + 1800}"}
            if not in_force and r == "B0":
                return {"key": "group-blocked-after-expiry",
                        "what": f"at {now} the refreshed group cache still reports a pause that ended at {st[3] + 1800}"}
        if op in (8, 9) and r != "OK" and (st[0] & 1):
            # 'unpausing never fails while a pause flag is set' (admin); 'anyone may clear a pause that has run out'
            if op == 8:
                return {"key": "unpause-failed-while-paused", "what": f"panic_unpause at {now} failed ({r}) although the pause flag is set"}
            if now >= st[3] + 1800:
                return {"key": "expired-pause-cannot-be-cleared", "what": f"panic_unpause_permissionless at {now} failed ({r}) although the pause ended at {st[3] + 1800}"}
        if op == 9 and r == "OK" and not ((st[0] & 1) and now >= st[3] + 1800):
            return {"key": "permissionless-unpause-before-expiry", "what": f"panic_unpause_permissionless succeeded at {now}; pause start {st[3]}, flag {st[0]}"}
        if op in (0, 7) and r == "OK":
            if until(st2, now) > until(st, now) + 1800:
                return {"key": "extend>30min", "what": f"pause at {now} moved paused-until from {until(st, now)} to {until(st2, now)}"}
            if st2[4] != last_reset:
                if st2[4] - last_reset < 86400:
                    return {"key": "reset<24h", "what": f"daily counter reset at {st2[4]} only {st2[4]-last_reset}s after {last_reset}"}
                last_reset = st2[4]
                since = 1
            else:
                since += 1
            if since > 3:
                return {"key": "daily>3", "what": f"{since} pauses succeeded since the reset at {last_reset}"}
        elif op in (0, 7) and r == "PANIC":
            return {"key": "pause-abort", "what": f"pause aborted at {now}"}
        elif op in (1, 2, 8, 9):
            if until(st2, now) > until(st, now):
                return {"key": "unpause-extends", "what": "unpause moved paused-until forward"}
        elif op == 3:
            # horizon probe: probes are issued at (time of previous op)+3600
            pass
        st = st2
    # horizon: every probe `3 t+3600` directly after an op at time t must report expired
    for i in range(1, len(ops)):
        if ops[i][0] == 3 and ops[i][1] == ops[i - 1][1] + 3600 and ops[i - 1][0] != 3:
            if outs[i][0] != "B1":
                return {"key": "horizon>60min", "what": f"still paused at {ops[i][1]}, 3600s after op at {ops[i-1][1]}"}
    return None
