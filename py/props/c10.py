"""C10 — receivership liquidation is bracketed, restricted, and cannot worsen health."""
from . import txgen as G
from .txgen import ONE, U

ID = "C10"
MANIFEST = {
    "text": ("Kernel-checked theorems over a model of the instruction introspection (validate_ix_first / _last / _exclusive / "
             "validate_instructions), of start/end liquidation and deleverage, of the flag guards of every handler that can run "
             "inside the bracket, and of atomic transactions with CPI: for transactions of ANY length the accepted language is "
             "characterised exactly; no committed transaction leaves IN_RECEIVERSHIP / IN_DELEVERAGE / a recorded receiver behind; "
             "a committed transaction containing a start has the shape skippable* start listed* end with the end on the SAME account, "
             "and the end-time conditions (health not worse, not positive unless assets < $5, seized <= repaid*(1+max(fee,5%))) hold "
             "relative to the start snapshot; start/end never run via CPI; third parties can act only in receivership; zero-weight / "
             "zero-price collateral cannot be withdrawn. Valuation and bookkeeping are abstract parameters. Tied to the code by level A "
             "(real validators on real sysvar bytes, exhaustive shape enumeration), level D (whole transactions through the real "
             "handlers incl. CPI, reference health by the real risk engine) and level C (real end handlers on arbitrary snapshots)."),
    "design_ref": "DESIGN.md §7 C10 (+ deleverage bracket of C12)",
    "technique": ("Coq proof by invariant over instruction lists (induction on exec_from) + exact language characterisations; "
                  "model/implementation correspondence at levels A, C, D (extracted model vs real ix_utils / handlers)"),
}
THEOREMS = [
    "C10_validate_ix_first_language", "C10_validate_ix_last_language", "C10_validate_ixes_exclusive_language",
    "C10_validate_instructions_language", "C10_accepted_shape", "C10_no_marker_survives", "C10_bracket",
    "C10_start", "C10_end", "C10_end_conditions", "C10_not_via_cpi", "C10_third_party_needs_receivership",
    "C10_withdraw_guard", "C10_receivership_blocks", "C10_discriminators_agree", "C10_none_via_cpi_refuted",
]
RULE = ("txval: every instruction list up to length 4 (quick) / 5 (thorough) over 9-symbol alphabets (and up to 7 over a 4-symbol one), "
        "plus sampled bracket-shaped and random lists up to length 12 over 43 instruction kinds x 10 programs; each line calls the three "
        "real validators with varied parameters and the real validate_instructions at every current index for both bracket kinds. "
        "txsim: receivership and deleverage transactions through World::exec_tx with legal and illegal variations (wrong/missing/CPI'd "
        "end, intruding instructions, third-party signers, zero-weight/zero-price collateral, boundary repay amounts at the premium and "
        "health thresholds, fee-state premiums 0/5%/10%/20%/100%, prices at the health-zero crossing, frozen/disabled/pre-flagged "
        "accounts) plus every transaction of length <= 3 over a 6-symbol alphabet. txend: end_liquidation / end_deleverage on snapshots "
        "placed +-1 ulp around every threshold and on overflowing values. Non-trivial: txval = at least one acceptance in the line; "
        "txsim = committed or failed after at least one successful instruction; txend = accepted or refused by a property check "
        "(6068/6072/6090). Distinct = different case line")
ASSUMPTIONS = [
    "Solana runtime: transactions are atomic, the instructions sysvar is authentic, get_stack_height() is 1 exactly for top-level instructions",
    "frame: set_flag/unset_flag with IN_RECEIVERSHIP / IN_DELEVERAGE / IN_FLASHLOAN occur only in liquidate_start.rs, liquidate_end.rs, flashloan.rs; "
    "liquidation_receiver and the record cache are written only there (and zero-initialised by init_liquid_record.rs); account_flags is otherwise only "
    "copied by transfer_account.rs after its guards (checked by grep over programs/marginfi/src; every other instruction is modelled as an arbitrary "
    "`patch` that cannot touch these fields)",
    "valuation (e_maint, e_equity, e_init_check), bookkeeping (e_op) and the bodies of classic liquidation / bankruptcy are arbitrary functions in the "
    "theorems; the correspondence instantiates them with the fixed-price, share-value-1 toy instance of model/TxToy.v, which the harness fixture realises",
    "C10_end_conditions: the premium inequality is stated under 0 <= fee < 2^64 and |repaid| <= 2^100 (no wrap of the unchecked I80F48 `*`)",
    "third-party programs on the allow-list (Kamino, Drift, Jupiter, Titan, ATA) are not assumed to refrain from CPI into marginfi: inner calls are modelled "
    "and start/end are proved to fail there; the allow-list itself is part of the model",
]
OBSERVATIONS = [
    "KNOWN FINDING mfi-cpi-inside-bracket (known_findings.json, Coq: C10_none_via_cpi_refuted): marginfi instructions invoked by CPI from an allow-listed "
    "program are NOT restricted by the introspection (the code comment in validate_instructions says so): e.g. [start(A), jupiter{CPI borrow(B)}, repay, "
    "end(A)] commits in the sim. Start/end themselves cannot run via CPI (proved, and observed). C10_bracket is the statement restricted to top-level instructions.",
    "between start and end the exclusive list also admits init_liq_record, kamino_withdraw, drift_withdraw and further end instructions, not only "
    "withdraw/repay; a premature end(A) makes the final end fail, so it cannot commit",
    "withdraw / repay in receivership accept ANY signer, not only the recorded liquidation_receiver (is_signer_authorized(.., allow_receivership = true)); "
    "only the end instruction is tied to the receiver",
    "ASSOCIATED_TOKEN_KEY is allow-listed, but every real ATA instruction has < 8 data bytes and is rejected by validate_ix_first (StartNotFirst) wherever it "
    "appears in the transaction; likewise a trailing compute-budget instruction after the end breaks validate_ix_last (EndNotLast)",
    "validate_instructions does not check that the current index is the start it found (only that it is a marginfi instruction and not the last one); "
    "harmless because only the start handlers call it and a second start is refused",
    "deleverage: withdraw under IN_DELEVERAGE also updates the group's daily withdrawn-equity window; that bookkeeping is part of the abstract e_op (C12)",
]

LIQ_END_ERR = {"E6068", "E6072", "E6090"}
MIN_FEE = 14073748835533


def suites(rng, tier):
    n = {"quick": dict(ex=4, ex2=3, small=0, samp=600, liq=3000, dlv=800, end=1500),
         "thorough": dict(ex=5, ex2=4, small=7, samp=8000, liq=20000, dlv=5000, end=10000),
         "search": dict(ex=0, ex2=0, small=0, samp=3000, liq=6000, dlv=1500, end=3000)}[tier]
    out = []
    if n["ex"]:
        lines = G.val_exhaustive(rng, "liq", n["ex"])
        out.append({"suite": "txval", "name": "txval-liq-exhaustive", "lines": lines,
                    "distribution": {"alphabet": G.ALPHABETS["liq"], "max_len": n["ex"], "lists": len(lines)}})
        lines = G.val_exhaustive(rng, "liq2", n["ex2"])
        out.append({"suite": "txval", "name": "txval-liq2-exhaustive", "lines": lines,
                    "distribution": {"alphabet": G.ALPHABETS["liq2"], "max_len": n["ex2"], "lists": len(lines)}})
    if n["ex"]:
        lines = G.val_exhaustive(rng, "liq3", n["ex"])
        out.append({"suite": "txval", "name": "txval-liq3-trailing-bytes", "lines": lines,
                    "distribution": {"alphabet": G.ALPHABETS["liq3"], "max_len": n["ex"], "lists": len(lines),
                                     "note": "start / end instructions whose data carries bytes after the 8-byte discriminator (Anchor still dispatches them)"}})
    if n["small"]:
        lines = G.val_exhaustive(rng, "small", n["small"])
        out.append({"suite": "txval", "name": "txval-small-exhaustive", "lines": lines,
                    "distribution": {"alphabet": G.ALPHABETS["small"], "max_len": n["small"], "lists": len(lines)}})
    lines = G.val_sampled(rng, n["samp"], 2, 12)
    out.append({"suite": "txval", "name": "txval-sampled", "lines": lines,
                "distribution": {"kinds": len(G.KINDS), "len": "2..12(+intruders)", "lists": len(lines)}})
    lines = [G.liq_tx(rng, "liq") for _ in range(n["liq"])] + [G.liq_tx(rng, "delev") for _ in range(n["dlv"])]
    if tier != "search":
        lines += G.sim_enumerated("liq")
    out.append({"suite": "txsim", "name": "txsim-receivership", "lines": lines,
                "distribution": {"liquidation": n["liq"], "deleverage": n["dlv"], "enumerated_len<=3": len(G.sim_enumerated("liq")) if tier != "search" else 0,
                                 "repay_amounts": G.RP_L, "withdraw_amounts": G.WD_C, "fees": G.FEES, "prices": G.PRICES}})
    lines = [end_case(rng) for _ in range(n["end"])]
    out.append({"suite": "txend", "name": "txend", "lines": lines, "distribution": {"cases": len(lines)}})
    from props import c09 as C09
    k = {"quick": 500, "thorough": 8000, "search": 3000}[tier]
    out.append({"suite": "oraclerisk", "name": "receivership-assessment-with-bad-oracles",
                "lines": [C09.gen_risk_case(rng, "valid" if rng.random() < 0.5 else "malformed", {}) for _ in range(k)],
                "distribution": {"cases": k, "note": "start_liquidation / start_deleverage open a bracket only on an account that is unhealthy at MAINTENANCE: the Maintenance valuation (real RiskEngine) of positions whose oracle is stale, foreign, wrongly owned or too uncertain must FAIL, never count the collateral as worth nothing (C09's generator; only the Maintenance verdicts are judged here)"}})
    return out


I128_MAX = (1 << 127) - 1
I128_MIN = -(1 << 127)


def end_case(rng):
    kind = rng.choice([0, 0, 0, 1])
    pC = rng.choice([G.P10, G.P10, G.P10, G.P20, 3002399751580331])
    fee = rng.choice(G.FEES + [ONE * 3, -1, I128_MAX])
    # post values of account A (100 C, 50 Z at $10, 50 P at $0, debt 800 L): maint (75*pC/10, 800), equity (100*pC/... + 500, 800)
    qa = 100 * U * ONE * 3 // 4 * pC // ONE // U          # approximate; only used to aim at the boundaries
    ql = 800 * ONE
    qae = 100 * pC + 500 * ONE
    qle = 800 * ONE
    d = rng.choice([0, 0, 1, -1, ONE, -ONE, 7, -7, 1000 * ONE, -1000 * ONE])
    r = rng.random()
    if r < 0.08:     # overflow / wrap probes
        vals = [rng.choice([I128_MAX, I128_MIN, -1, 0, 1 << 126, -(1 << 126), I128_MAX - 1]) for _ in range(4)]
        return "%d %d %d %d %d %d %d" % ((kind, pC, fee) + tuple(vals))
    am = qa + rng.choice([0, 0, ONE, -ONE, 50 * ONE])
    lm = am - (qa - ql) + d                      # pre health = post health - d
    if r < 0.2:      # close-out boundary on the equity snapshot
        ae = rng.choice([5 * ONE - 1, 5 * ONE, 5 * ONE + 1, 0, 4 * ONE])
        le = rng.choice([qle, qle + ONE, qle + 100 * ONE])
    else:
        rep = rng.choice([0, 1, ONE, 10 * ONE, 100 * ONE, 45454546 * ONE // U, rng.randrange(0, 500 * ONE), -ONE, 1 << 100, (1 << 100) + 1])
        m = ONE + max(fee if -ONE < fee < (1 << 70) else 0, MIN_FEE)
        lim = rep * m // ONE
        sz = lim + rng.choice([0, 0, 1, -1, 2, -ONE, ONE])
        ae = qae + sz
        le = qle + rep
    clamp = lambda v: max(I128_MIN, min(I128_MAX, v))
    return "%d %d %d %d %d %d %d" % (kind, pC, fee, clamp(am), clamp(lm), clamp(ae), clamp(le))


def nontrivial(suite, case, impl):
    try:
        if suite == "oraclerisk":
            from props import c09 as C09
            return C09.nontrivial(suite, case, impl)
        if suite == "txval":
            p = G.parse_val(case, impl)
            return "OK" in p["VL"] or "OK" in p["VD"] or (p["first"] == "OK" and p["last"] == "OK")
        if suite == "txsim":
            p = G.parse_sim(case, impl)
            return p["res"][0] == "OK" or (p["res"][1] or 0) >= 1
        if suite == "txend":
            o = impl.split()
            return o[0] == "OK" or o[1] in LIQ_END_ERR
    except Exception:
        return False
    return False


def _v(key, what):
    return {"key": key, "what": what}


def oracle_val(case, impl):
    p = G.parse_val(case, impl)
    n = len(p["ixs"])
    for kind, res in (("liq", p["VL"]), ("delev", p["VD"])):
        for cur in range(n):
            if res[cur] != "OK":
                continue
            if not G.in_bracket_language(p["ixs"], kind):
                return _v("shape-accepted-outside-language",
                          f"validate_instructions({kind}) accepted at index {cur} a list outside skippable* start listed* end")
            if p["ixs"][cur][0] != 1 or cur >= n - 1:
                return _v("cpi-or-last-accepted", f"validate_instructions({kind}) accepted with current index {cur} (not marginfi / last)")
    return None


def _bracket_of(p, committed_ixs):
    """(kind, index, account, receiver) of every top-level start token"""
    out = []
    for i, tok in enumerate(committed_ixs):
        t = tok.split()
        if t[0] in ("SL", "SD"):
            out.append(("liq" if t[0] == "SL" else "delev", i, int(t[1]), int(t[2])))
    return out


def oracle_sim(case, impl):
    p = G.parse_sim(case, impl)
    if impl.startswith("FIXTURE-FAILED") or impl.startswith("PANIC"):
        return _v("harness", "harness could not run the case: " + impl[:80])
    if p["res"][0] != "OK":
        return None
    ixs = p["ixs"]
    clean0 = all(f & (G.MASK_FL | G.MASK_RECV | G.MASK_DELEV) == 0 for f in p["flags0"])
    # (a) markers never survive
    if clean0:
        for code, a in p["accts"].items():
            if a and (a["flags"] & (G.MASK_RECV | G.MASK_DELEV) or a["recv"] != 0):
                return _v("marker-survives", f"account {code} ends a committed transaction with flags {a['flags']} receiver {a['recv']}")
    # (b) start / end never via CPI
    for tok in ixs:
        t = tok.split()
        if t[0] == "PX" and t[2] in ("SL", "EL", "SD", "ED"):
            return _v("bracket-op-via-cpi", f"committed transaction contains {t[2]} invoked by CPI")
    if not clean0:
        return None
    starts = _bracket_of(p, ixs)
    sym = [G.sym_of_ix(t) for t in ixs]
    if len(starts) > 1:
        return _v("two-starts", "committed transaction with two start instructions")
    # (c) third parties act only inside a bracket
    for i, tok in enumerate(ixs):
        t = tok.split()
        if t[0] == "PX":
            t = t[2:]
        if t[0] in ("WD", "RP"):
            a, s = int(t[1]), int(t[2])
            frozen = p["flags0"][a - 1] & G.MASK_FROZEN if 1 <= a <= 4 else 0
            if s != G.ACCTS.get(a) and not (frozen and s == 21):
                ok = any(b[2] == a and b[1] < i < len(ixs) - 1 for b in starts)
                if not ok:
                    return _v("third-party-outside-receivership", f"signer {s} acted on account {a} at index {i} outside a bracket")
    # (c') zero-weight (bank 33) / zero-price (bank 34) collateral is never withdrawn in receivership
    for i, tok in enumerate(ixs):
        t = tok.split()
        if t[0] == "PX":
            t = t[2:]
        if t[0] == "WD" and int(t[3]) in (33, 34) and any(b[2] == int(t[1]) and b[1] < i for b in starts):
            return _v("worthless-collateral-seized", f"{tok} executed inside the bracket (bank {t[3]} has zero weight / zero price)")
    if not starts:
        return None
    kind, i, a, r = starts[0]
    # (d) shape
    if not G.in_bracket_language(sym, kind):
        return _v("committed-outside-language", f"committed transaction with a start at {i} is outside skippable* start listed* end")
    last = ixs[-1].split()
    if last[0] != G.END[kind] or int(last[1]) != a:
        return _v("end-mismatch", f"start on account {a} but last instruction is {ixs[-1]}")
    if sym.index((1, G.START[kind], 8, a)) != i:
        return _v("start-not-first", "the start is not the first non-skipped instruction")
    # (e) start-time and end-time conditions on the real snapshot and the real reference health
    acc = p["accts"].get(a)
    if not acc or acc["ref"] is None:
        return _v("no-reference-health", f"no reference health for account {a}")
    am, lm, ae, le = acc["cache"]
    ia, il, qa, ql, qae, qle = acc["ref"]
    if kind == "liq" and am - lm > 0:
        return _v("started-healthy", f"liquidation started at maintenance health {am - lm} > 0")
    if qa - ql < am - lm:
        return _v("health-worse", f"maintenance health went from {am - lm} to {qa - ql}")
    if kind == "liq" and ae >= 5 * ONE:
        if qa - ql > 0:
            return _v("ended-healthy", f"liquidation ended at maintenance health {qa - ql} > 0 (assets were >= $5)")
        seized, repaid = ae - qae, le - qle
        fee = p["fee"]
        if 0 <= fee < (1 << 64) and abs(repaid) <= (1 << 100):
            if seized * ONE > repaid * (ONE + max(fee, MIN_FEE)):
                return _v("premium-too-high", f"seized {seized} > repaid {repaid} * (1 + max(fee {fee}, 5%))")
    # (c'') "none via CPI", read literally: no marginfi instruction runs by CPI between start and end.
    #       The code only restricts TOP-LEVEL instructions (comment in validate_instructions), so this
    #       is reported under its own stable key (see known_findings.json).
    for j, tok in enumerate(ixs):
        t = tok.split()
        if t[0] == "PX" and i < j < len(ixs) - 1:
            return _v("mfi-cpi-inside-bracket",
                      f"marginfi instruction {' '.join(t[2:])} ran via CPI from program {t[1]} at index {j}, between start ({i}) and end")
    return None


def oracle_end(case, impl):
    t = [int(x) for x in case.split()]
    kind, pC, fee, am, lm, ae, le = t
    o = impl.split()
    if o[0] != "OK":
        return None
    flags, recv = int(o[1]), int(o[2])
    qa, ql, qae, qle = [int(x) for x in o[3:7]]
    if flags & (G.MASK_RECV | G.MASK_DELEV) or recv != 0:
        return _v("end-leaves-marker", f"end succeeded but flags {flags} receiver {recv}")
    if qa - ql < am - lm:
        return _v("health-worse", f"end accepted maintenance health {qa - ql} < snapshot {am - lm}")
    if kind == 0 and ae >= 5 * ONE:
        if qa - ql > 0:
            return _v("ended-healthy", f"end_liquidation accepted health {qa - ql} > 0 with snapshot assets >= $5")
        seized, repaid = ae - qae, le - qle
        if 0 <= fee < (1 << 64) and abs(repaid) <= (1 << 100) and seized * ONE > repaid * (ONE + max(fee, MIN_FEE)):
            return _v("premium-too-high", f"seized {seized} > repaid {repaid} * (1 + max(fee {fee}, 5%))")
    return None


def oracle(suite, case, impl):
    if suite == "txval":
        return oracle_val(case, impl)
    if suite == "txsim":
        return oracle_sim(case, impl)
    if suite == "txend":
        return oracle_end(case, impl)
    if suite == "oraclerisk":
        from props import c09 as C09
        v = C09.oracle(suite, case, impl)
        if v and v["what"].startswith("Maintenance"):
            return {"key": "receivership-opened-on-" + v["key"], "what": v["what"]}
        return None
    return None
