"""C19 — fees and emissions reach only their destinations, in exactly accrued amounts."""
import gen_bank as G
import gen_hops as H
import hops_oracles as O
from props import c08 as C08
from props import authlib as A
ID = "C19"
MANIFEST = {
    "text": ("Kernel-checked theorems over the handler/wrapper model: collect_bank_fees moves exactly the whole-token part of each "
             "fee bucket (insurance, group, program in that order, limited by available liquidity) from the liquidity vault to the "
             "insurance vault, fee vault and global fee ATA and reduces the buckets by the same amounts; emissions credited to a "
             "position are taken exactly from, and never exceed, the funded remaining amount; settlement pays whole tokens and keeps "
             "the fraction. Tied to the real collect_bank_fees handler (sim runtime, SPL / Token-2022 / transfer-fee mints) and to the "
             "real claim/settle emissions code by differential execution. Instruction level (model/Payout.v: withdraw_fees, "
             "withdraw_fees_permissionless, update_fees_destination_account, withdraw_insurance, withdraw_emissions(_permissionless), "
             "settle_emissions, update_emissions_destination_account with their account constraints and token transfers): the fee vault is "
             "drawn down only by the group admin or into the destination the admin fixed, the insurance vault only by the admin, emissions "
             "are paid (whole-token part of the credit, all into one account) only to the account named by an authorized signer or to the "
             "ATA of the wallet the authority registered, destinations change only by their owner, and over EVERY history the emissions "
             "vault covers remaining + outstanding and token supplies are conserved; corresponded with the real instructions through the "
             "entry point on generated histories (suite payout)."),
    "design_ref": "DESIGN.md §7 C19",
    "technique": "Coq proof (handler inversion + exact integer identities) + model/implementation correspondence at handler and wrapper level",
}
THEOREMS = ["C19_collect_fees_exact", "C19_emissions_conserved_and_capped", "C19_settle_pays_whole_tokens",
            "C19_emissions_withdrawn_only_by_authority", "C19_emissions_destination_set_only_by_authority",
            "C19_emissions_funding_covers_recorded",
            "C19_fee_vault_drawn_only_by_admin_or_to_fixed_destination", "C19_insurance_vault_drawn_only_by_admin",
            "C19_destinations_changed_only_by_their_owner", "C19_emissions_paid_only_to_chosen_destination",
            "C19_payout_histories_keep_vaults_covered"]
RULE = ("level C: handler sequences with fee buckets that are fractional, zero, or larger than the vault's liquidity, on SPL, "
        "Token-2022 and transfer-fee mints, interleaved with user activity and accrual; level B: sequences with emission flags, "
        "rates, remaining amounts and clock advances, with claim/settle operations. Non-trivial = a collect_fees that moved tokens "
        "or a claim that credited emissions; distinct = different case line")
ASSUMPTIONS = [
    "destination accounts of collect_bank_fees (insurance/fee vault PDAs, canonical ATA of the global fee wallet) are enforced by account constraints and the in-handler ATA check: covered by C08's table and by the level-C run (a wrong ATA is rejected with InvalidFeeAta)",
    "the payout model (Payout.v) has one bank, one account with one position, SPL / Token-2022 emission mints WITHOUT transfer fee, and abstracts the protocol pause (C15); the associated-token-account derivation is an injective function of the wallet",
]
OBSERVATIONS = []
ONE = G.ONE


def gen_fee_case(rng):
    line = H.gen_case(rng, max_ops=18)
    t = line.split()
    if rng.random() < 0.25:
        t[3] = t[4] = "0"          # global fee state with both program fee parameters zero (buckets may still hold fees)
    c = H.parse_case(line)
    # give every bank random starting fee buckets (solvency is not asserted here)
    i = 6
    for b in c["banks"]:
        for k, v in ((4, rng.choice([0, ONE // 2, 3 * ONE + 7, rng.randrange(0, 10 ** 9) * ONE + rng.randrange(ONE)])),
                     (5, rng.choice([0, ONE, rng.randrange(0, 10 ** 6) * ONE + rng.randrange(ONE)])),
                     (6, rng.choice([0, ONE - 1, rng.randrange(0, 10 ** 4) * ONE + rng.randrange(ONE)]))):
            t[i + k] = str(v)
        i += G.BANK_TOKS + H.HB_EXTRA + 4 * len(b["emode"])
    # more collect_fees operations
    return " ".join(t)


def add_collects(rng, line):
    c = H.parse_case(line)
    t = line.split()
    extra = []
    nx = 0
    rotate_at = rng.randrange(0, 3) if rng.random() < 0.3 else -1
    for j in range(rng.randrange(1, 4) + (2 if rotate_at >= 0 else 0)):
        if j == rotate_at:
            # the fee admin rotates the global fee wallet (real edit_global_fee_state; the group's cache is NOT refreshed):
            # from here on fees must go to the new wallet's token account and the previous wallet's must be refused
            extra += [39]
            nx += 1
            continue
        if rotate_at >= 0 and j > rotate_at and rng.random() < 0.5:
            extra += [40, rng.randrange(c["nb"])]
            nx += 1
            continue
        if rng.random() < 0.3:
            # a fee ATA that belongs to somebody else: must be refused whatever the fee parameters are
            extra += [32, rng.randrange(c["nb"]), rng.randrange(c["na"])]
        else:
            extra += [16, rng.randrange(c["nb"])]
        nx += 1
    # ops count token position: recompute
    i = 6
    for b in c["banks"]:
        i += G.BANK_TOKS + H.HB_EXTRA + 4 * len(b["emode"])
    t[i] = str(int(t[i]) + nx)
    return " ".join(t + list(map(str, extra)))


def suites(rng, tier):
    n = {"quick": 600, "thorough": 12000, "search": 8000}[tier]
    a = [add_collects(rng, gen_fee_case(rng)) for _ in range(n)]
    m = {"quick": 600, "thorough": 12000, "search": 8000}[tier]
    b = [G.gen_case(rng, max_ops=24, limits="none", emissions=True) for _ in range(m)]
    return [{"suite": "hops", "name": "hops-fees", "lines": a, "distribution": {"cases": n}},
            {"suite": "bankops", "name": "bankops-emissions", "lines": b, "distribution": {"cases": m}},
            destinations_suite(), payout_suite(rng, {"quick": 40, "thorough": 1500, "search": 300}[tier]),
            funding_suite(rng, {"quick": 300, "thorough": 6000, "search": 1500}[tier]),
            payout_history_suite(rng, {"quick": 400, "thorough": 8000, "search": 3000}[tier])]


U64 = (1 << 64) - 1


def funding_suite(rng, n):
    """the two instructions that FUND emissions (setup_emissions, update_emissions_parameters with a top-up) through the real
    entry point: SPL, Token-2022 and transfer-fee emission mints (incl. a pending fee change around its activation epoch);
    what the emissions vault receives is compared with what the bank records as funded"""
    lines = []
    for _ in range(n):
        tokprog = rng.choice([0, 1, 2, 2, 2])
        bps = rng.choice([0, 1, 5, 100, 500, 9999, 10000]) if tokprog == 2 else 0
        mx = rng.choice([0, 1, 1000, 10 ** 9, U64]) if tokprog == 2 else 0
        if tokprog == 2 and rng.random() < 0.5:
            ob, om = rng.choice([0, 1, 100, 1000, 10000]), rng.choice([0, 5, 10 ** 6, U64])
            en = rng.choice([1, 2, 600])
            ep = rng.choice([en - 1, en, en, en + 1])
        else:
            ob = om = en = ep = 0
        dec = rng.choice([0, 6, 9])
        amt = lambda: rng.choice([0, 1, 999, 10 ** 6, 10 ** 9, 10 ** 12, rng.randrange(0, 10 ** 15), int(10 ** (rng.random() * 19.2)), U64 // 2])
        lines.append(f"{tokprog} {bps} {mx} {ob} {om} {en} {ep} {dec} {min(U64, amt())} {rng.choice([0, 1, 5, 10 ** 6])} {min(U64, amt())}")
    return {"suite": "emfund", "name": "emissions-funding", "lines": lines,
            "distribution": {"cases": n, "mints": "SPL / Token-2022 / Token-2022 with transfer fee (half of them with a pending fee change)"}}



# ------------------------------------------------------------------------------------------------ payout histories
PAY_BANK_TOKS = (10, 11, 12)
PAY_EM_TOKS = (20, 1000, 1001, 1002)
PAY_TOKS = PAY_BANK_TOKS + PAY_EM_TOKS


def gen_payout_case(rng):
    """a history of the eight instructions that draw down / redirect the fee, insurance and emissions vaults (model
    coq/model/Payout.v), by the group admin (1), the account authority (2) and a stranger (3), with clock advances and
    account-flag changes (frozen 64, disabled 1) in between"""
    emprog = rng.choice([0, 1])
    emdec = rng.choice([0, 6, 9])
    dep = rng.choice([10 ** 6, 10 ** 9, 10 ** 12, rng.randrange(1, 10 ** 13)])
    rate = rng.choice([0, 1, 1000, 10 ** 6, 10 ** 6, 10 ** 9, rng.randrange(1, 10 ** 10)])
    total = rng.choice([0, 1, 1000, 10 ** 6, 10 ** 9, 10 ** 12, rng.randrange(1, 10 ** 14)])
    fee0 = rng.choice([0, 1, 10 ** 6, rng.randrange(0, 10 ** 12)])
    ins0 = rng.choice([0, 1, 10 ** 6, rng.randrange(0, 10 ** 12)])
    t0 = 1_700_000_000 + rng.randrange(10 ** 6)
    ops = []
    amt = lambda v: rng.choice([0, 1, v, v + 1, max(0, v - 1), v // 2, rng.randrange(0, 2 * v + 2)])
    fv, iv = fee0, ins0
    signer = lambda good: good if rng.random() < 0.6 else rng.choice([1, 2, 3])
    for _ in range(rng.randrange(4, 26)):
        k = rng.random()
        if k < 0.10:
            ops.append([1, signer(1), rng.choice(PAY_BANK_TOKS + ((20,) if rng.random() < 0.1 else ())), amt(fv)])
        elif k < 0.22:
            ops.append([2, rng.choice(PAY_BANK_TOKS), amt(fv)])
        elif k < 0.34:
            ops.append([3, signer(1), rng.choice(PAY_BANK_TOKS + ((1001, 20) if rng.random() < 0.2 else ()))])
        elif k < 0.44:
            ops.append([4, signer(1), rng.choice(PAY_BANK_TOKS), amt(iv)])
        elif k < 0.56:
            # (a destination of the bank's mint: refused by the token program - MintMismatch under SPL Token; under Token-2022 the
            #  refusal is IncorrectProgramId because the destination belongs to the other token program: not modelled, not generated)
            ops.append([5, signer(2), rng.choice(PAY_EM_TOKS + ((11,) if emprog == 0 and rng.random() < 0.08 else ()))])
        elif k < 0.70:
            ops.append([6, rng.choice(PAY_EM_TOKS)])
        elif k < 0.75:
            ops.append([7])
        elif k < 0.85:
            ops.append([8, signer(2), rng.choice([0, 1, 1, 2])])
        elif k < 0.95:
            ops.append([9, rng.choice([0, 1, 60, 3600, 86400, 86400 * 30, 86400 * 365, rng.randrange(0, 10 ** 8)])])
        else:
            ops.append([10, rng.choice([0, 0, 64, 1, 65, 2, 16])])
    flat = " ".join(" ".join(map(str, o)) for o in ops)
    return f"{emprog} {emdec} {dep} {rate} {total} {fee0} {ins0} {t0} {len(ops)} {flat}"


def payout_history_suite(rng, n):
    lines = [gen_payout_case(rng) for _ in range(n)]
    kinds = {}
    for l in lines:
        t = l.split()[9:]
        i = 0
        while i < len(t):
            c = int(t[i]); kinds[c] = kinds.get(c, 0) + 1
            i += 1 + {1: 3, 4: 3, 2: 2, 3: 2, 5: 2, 8: 2, 6: 1, 9: 1, 10: 1, 7: 0}[c]
    return {"suite": "payout", "name": "payout-histories", "lines": lines,
            "incoq": {"sample": 40, "to_v": payout_to_v, "ints": payout_ints},
            "distribution": {"cases": n, "ops_by_code": {str(k): v for k, v in sorted(kinds.items())},
                             "codes": "1 withdraw_fees 2 withdraw_fees_permissionless 3 update_fees_destination 4 withdraw_insurance "
                                      "5 withdraw_emissions 6 withdraw_emissions_permissionless 7 settle_emissions "
                                      "8 update_emissions_destination 9 clock 10 account flags"}}


def payout_to_v(lines):
    """the sampled payout cases as Gallina terms, evaluated by vm_compute with the model's own pay_fixture / pay_trace"""
    out = ["Require Import Base Constants TxConstants Fixed Curve Bank Payout.", "Local Open Scope Z_scope."]
    for l in lines:
        t = l.split()
        dep, rate, total, fee0, ins0, t0 = t[2:8]
        ops, _ = parse_payout_ops(l)
        terms = []
        for o in ops:
            c = o[0]
            z = lambda v: f"({v})"
            if c == 1: terms.append(f"({o[1]}, YWithdrawFees {z(o[2])} {z(o[3])})")
            elif c == 2: terms.append(f"(3, YWithdrawFeesPermissionless {z(o[1])} {z(o[2])})")
            elif c == 3: terms.append(f"({o[1]}, YUpdateFeesDest {z(o[2])})")
            elif c == 4: terms.append(f"({o[1]}, YWithdrawInsurance {z(o[2])} {z(o[3])})")
            elif c == 5: terms.append(f"({o[1]}, YWithdrawEmissions {z(o[2])})")
            elif c == 6: terms.append(f"(3, YWithdrawEmissionsPermissionless {z(o[1])})")
            elif c == 7: terms.append("(3, YSettle)")
            elif c == 8: terms.append(f"({o[1]}, YUpdateEmissionsDest {z(o[2])})")
            elif c == 9: terms.append(f"(0, YTick {z(o[1])})")
            else: terms.append(f"(0, YSetFlags {z(o[1])})")
        out.append(f"Eval vm_compute in let w := pay_fixture {dep} {rate} {total} {fee0} {ins0} {t0} in "
                   f"(0, pay_obs w) :: pay_trace w [{'; '.join(terms)}].")
    return "\n".join(out) + "\n"


def payout_ints(model_line):
    """the extracted model's output line as the same flat integer list (OK -> 0, E<n> -> n, PANIC -> -1, NONE -> -2)"""
    res = []
    for j, sg in enumerate(model_line.split(" | ")):
        x = sg.split()
        if j == 0:
            res.append(0)
        else:
            r = x.pop(0)
            res.append(0 if r == "OK" else -1 if r == "PANIC" else -2 if r == "NONE" else int(r[1:]))
        res += [int(y) for y in x]
    return res


def parse_payout_ops(case):
    t = case.split()
    ops = []
    i = 9
    while i < len(t):
        c = int(t[i]); n = {1: 3, 4: 3, 2: 2, 3: 2, 5: 2, 8: 2, 6: 1, 9: 1, 10: 1, 7: 0}[c]
        ops.append([c] + [int(x) for x in t[i + 1:i + 1 + n]])
        i += 1 + n
    return ops, i


def parse_payout(case, impl):
    t = case.split()
    ops = []
    i = 9
    while i < len(t):
        c = int(t[i]); n = {1: 3, 4: 3, 2: 2, 3: 2, 5: 2, 8: 2, 6: 1, 9: 1, 10: 1, 7: 0}[c]
        ops.append([c] + [int(x) for x in t[i + 1:i + 1 + n]])
        i += 1 + n
    segs = impl.split(" | ")
    states = []
    for j, sg in enumerate(segs):
        x = sg.split()
        res = "INIT" if j == 0 else x[0]
        v = [int(y) for y in (x if j == 0 else x[1:])]
        states.append({"res": res, "fv": v[0], "iv": v[1], "ev": v[2], "fdest": v[3], "wallet": v[4], "alast": v[5],
                       "out": v[6], "rem": v[7], "blast": v[8], "toks": dict(zip(PAY_TOKS, v[9:16]))})
    return ops, states


def oracle_payout_history(case, impl):
    """the property, judged on the real handlers' outcomes alone: who drew which vault down and where the tokens went"""
    if impl.startswith(("PANIC", "DRIVER")):
        return None
    ops, st = parse_payout(case, impl)
    flags = 0
    for op, a, b in zip(ops, st, st[1:]):
        code = op[0]
        if code == 10:
            flags = op[1]
            continue
        if b["res"] != "OK":
            if any(a[k] != b[k] for k in ("fv", "iv", "ev", "fdest", "wallet", "out", "rem", "toks")):
                return {"key": "failed-payout-instruction-changed-state", "what": f"op {op} failed with {b['res']} but state changed"}
            continue
        gained = {k: b["toks"][k] - a["toks"][k] for k in PAY_TOKS if b["toks"][k] != a["toks"][k]}
        dfv, div, dev = a["fv"] - b["fv"], a["iv"] - b["iv"], a["ev"] - b["ev"]
        if dfv < 0 or div < 0 or dev < 0:
            return {"key": "payout-vault-grew", "what": f"op {op}: vault deltas {dfv} {div} {dev}"}
        if sum(gained.values()) != dfv + div + dev or any(v < 0 for v in gained.values()):
            return {"key": "payout-tokens-not-conserved", "what": f"op {op}: vaults paid {dfv}+{div}+{dev}, accounts gained {gained}"}
        if dfv > 0:
            if code == 1 and op[1] == 1 and gained == {op[2]: dfv}:
                pass
            elif code == 2 and a["fdest"] == op[1] and a["fdest"] != 0 and gained == {op[1]: dfv}:
                pass
            else:
                return {"key": "fee-vault-drawn-by-non-admin-or-to-other-destination",
                        "what": f"op {op}: fee vault paid {dfv} to {gained}; fixed destination {a['fdest']}"}
        if div > 0 and not (code == 4 and op[1] == 1 and gained == {op[2]: div}):
            return {"key": "insurance-vault-drawn-by-non-admin", "what": f"op {op}: insurance vault paid {div} to {gained}"}
        if b["fdest"] != a["fdest"] and not (code == 3 and op[1] == 1 and b["fdest"] == op[2] and op[2] in PAY_BANK_TOKS):
            return {"key": "fee-destination-changed-by-non-admin", "what": f"op {op}: fees destination {a['fdest']} -> {b['fdest']}"}
        if b["wallet"] != a["wallet"] and not (code == 8 and op[1] == 2 and b["wallet"] == op[2] and not flags & 65):
            return {"key": "emissions-destination-changed-by-non-authority", "what": f"op {op}: wallet {a['wallet']} -> {b['wallet']} (flags {flags})"}
        if dev > 0:
            frozen, disabled = bool(flags & 64), bool(flags & 1)
            ok = False
            if code == 5 and not disabled and op[1] == (1 if frozen else 2) and gained == {op[2]: dev}:
                ok = True
            if code == 6 and not disabled and not frozen and a["wallet"] != 0 and op[1] == 1000 + a["wallet"] and gained == {op[1]: dev}:
                ok = True
            if not ok:
                return {"key": "emissions-paid-to-unchosen-destination",
                        "what": f"op {op}: emissions vault paid {dev} to {gained}; registered wallet {a['wallet']}, flags {flags}"}
            # exactly the accrued amount: whole tokens of (outstanding + newly credited), fraction kept
            credited = a["rem"] - b["rem"]
            if credited < 0 or dev * ONE + b["out"] != a["out"] + credited or not (0 <= b["out"] < ONE):
                return {"key": "emissions-payout-not-accrued-amount",
                        "what": f"op {op}: paid {dev}, outstanding {a['out']} -> {b['out']}, remaining {a['rem']} -> {b['rem']}"}
        else:
            if b["rem"] > a["rem"] or (b["out"] - a["out"]) != (a["rem"] - b["rem"]):
                return {"key": "emissions-credit-not-from-remaining",
                        "what": f"op {op}: outstanding {a['out']} -> {b['out']}, remaining {a['rem']} -> {b['rem']}"}
        if b["ev"] * ONE < b["rem"] + b["out"]:
            return {"key": "emissions-vault-does-not-cover", "what": f"after op {op}: vault {b['ev']} < remaining {b['rem'] / ONE} + outstanding {b['out'] / ONE}"}
    return None


def oracle_funding(case, impl):
    for what, seg in zip(("setup_emissions", "update_emissions_parameters"), impl.split(" | ")):
        t = seg.split()
        if t[0] != "OK":
            if len(t) == 4 and any(int(x) for x in t[1:]):
                return {"key": "funding-failed-but-moved", "what": f"{what} failed ({t[0]}) yet balances changed: {seg}"}
            continue
        sent, recv, rec = map(int, t[1:4])
        if recv < rec:
            return {"key": "emissions-underfunded",
                    "what": f"{what}: the bank recorded {rec} funded emission tokens but the emissions vault received {recv} (sent {sent})"}
        if recv > sent or sent < 0:
            return {"key": "emissions-funding-flow", "what": f"{what}: sent {sent}, vault received {recv}"}
    return None


def payout_suite(rng, n):
    """the two instructions that PAY emissions out, through the real entry point on the fixture's funded emissions bank, at
    different times after the last claim (implementation only; the claim / settle arithmetic itself is modelled at level B).
    The harness reports the position's outstanding emissions before / after, and the changes of the emissions vault, of the
    destination token account and of the bank's funded remaining amount"""
    lines = []
    times = [0, 1, 60, 3600, 86400, 86400 * 30] + [rng.randrange(0, 10 ** 7) for _ in range(n)]
    for ix in ("lending_account_withdraw_emissions", "lending_account_withdraw_emissions_permissionless"):
        for t in times:
            c = A.base(ix)
            c["mode"] = "emis"
            lines.append(A.line(c, t=t) + f" k=emis T={t}")
    lines += unregistered_destination_cells()
    return {"suite": "auth", "name": "emissions-payout", "lines": lines, "impl_only": True,
            "distribution": {"cells": len(lines), "note": "implementation only: handler glue around settle_emissions (token transfer amount, vault, destination)"}}


def unregistered_destination_cells():
    """the permissionless payout is legitimate only because the authority registered a destination wallet beforehand: on an
    account that never did (the state of every new account), it must be refused whatever token account is passed - in
    particular the associated token account of the DEFAULT pubkey, which anybody can create and nobody controls"""
    out = []
    ix = "lending_account_withdraw_emissions_permissionless"
    for dest in ("zero.ataem", "u.ataem"):
        for t in (0, 3600, 86400 * 30):
            c = A.base(ix)
            c["mode"] = "emis"
            c = A.with_tweak(c, "edest0:accA")
            c = A.with_field(c, "destination_account", dest)
            out.append(A.line(c, t=t) + f" k=emis0 T={t}")
    return out


def oracle_payout(case, impl):
    if " k=emis0 " in case:
        if impl.startswith("OK"):
            return {"key": "emissions-paid-without-registered-destination",
                    "what": "lending_account_withdraw_emissions_permissionless paid out on an account that never registered an emissions destination: " + impl[:120]}
        return None
    if " E " not in impl:
        return None
    pre_out, post_out, dvault, ddest, drem = map(int, impl.split(" E ")[1].split()[:5])
    ix = C08.kvs(case)["ix"]
    if ddest != -dvault:
        return {"key": "emissions-vault-destination-mismatch", "what": f"{ix}: emissions vault changed by {dvault}, destination by {ddest}"}
    if ddest < 0 or drem > 0:
        return {"key": "emissions-flow-reversed", "what": f"{ix}: destination {ddest}, remaining {drem}"}
    if not (0 <= post_out < G.ONE):
        return {"key": "emissions-outstanding-not-settled", "what": f"{ix}: {post_out / G.ONE} tokens of emissions still outstanding after the payout"}
    if ddest * G.ONE + post_out != pre_out - drem:
        return {"key": "emissions-payout-not-accrued-amount",
                "what": f"{ix}: paid {ddest} tokens + {post_out} outstanding != {pre_out} outstanding before + {-drem} newly accrued"}
    return None


FEE_EMISSION_IXS = ("lending_pool_setup_emissions", "lending_pool_update_emissions_parameters", "lending_account_withdraw_emissions",
                    "lending_account_settle_emissions", "marginfi_account_update_emissions_destination_account",
                    "lending_pool_collect_bank_fees", "lending_pool_withdraw_fees", "lending_pool_withdraw_fees_permissionless",
                    "lending_pool_update_fees_destination_account", "lending_pool_withdraw_insurance",
                    "lending_account_withdraw_emissions_permissionless")


def destinations_suite():
    """'only to their destinations': the cells of the authorization matrix (C08: every signer role x every account flag word,
    every single account substitution) of the instructions that pay out or redirect fees, insurance and emissions, executed
    through the real entry point — who may trigger a payout and to which token account it can go"""
    lines = [l for l in C08.matrix() if C08.kvs(l)["ix"] in FEE_EMISSION_IXS]
    return {"suite": "auth", "name": "fee-and-emission-destinations", "lines": lines,
            "distribution": {"instructions": len(FEE_EMISSION_IXS), "cells": len(lines)}}


def nontrivial(suite, case, impl):
    if suite == "payout":
        ops, st = parse_payout(case, impl)
        return any(b["res"] == "OK" and (a["fv"], a["iv"], a["ev"]) != (b["fv"], b["iv"], b["ev"]) for a, b in zip(st, st[1:]))
    if suite == "emfund":
        return any(seg.startswith("OK ") and int(seg.split()[3]) > 0 for seg in impl.split(" | "))
    if suite == "auth" and " k=emis0 " in case:
        return True
    if suite == "auth" and " k=emis " in case:
        return " E " in impl
    if suite == "auth":
        return C08.nontrivial(suite, case, impl)
    if suite == "hops":
        c = H.parse_case(case)
        tr = O.Trace(case, impl)
        for op, res, b0, a0, b1, a1, now, prices in O.walk(tr):
            if op[0] == 16 and res == "OK" and b1[op[1]]["vault"] != b0[op[1]]["vault"]:
                return True
        return False
    c = G.parse_case(case)
    outs = G.parse_out(impl)
    prev = {}
    for op, (res, bank, acct) in zip(c["ops"], outs):
        if bank and res[0] == "OK" and len(op) >= 2:
            bi = op[1] if op[0] in (10, 11, 15) else (op[2] if len(op) > 2 else None)
            if bi is not None:
                if bi in prev and prev[bi] != bank["em_rem"]:
                    return True
                prev[bi] = bank["em_rem"]
    return False


def oracle(suite, case, impl):
    if suite == "payout":
        return oracle_payout_history(case, impl)
    if suite == "emfund":
        return oracle_funding(case, impl)
    if suite == "auth" and (" k=emis " in case or " k=emis0 " in case):
        return oracle_payout(case, impl)
    if suite == "auth":
        return C08.oracle(suite, case, impl)
    if suite == "hops":
        return O.oracle_c19(O.Trace(case, impl))
    # emissions conservation on the wrapper state machine
    c = G.parse_case(case)
    outs = G.parse_out(impl)
    rem = [b["em_rem"] for b in c["banks"]]
    held = {}     # (acct, bank) -> outstanding
    # 'in proportion to position size, time and rate': what a single operation credits is bounded by the position's amount
    # before it x rate x the time since the LAST operation on that position (every operation claims first)
    now = c.get("now", 0)
    svs = [(b["asv"], b["lsv"]) for b in c["banks"]]
    touch = {}    # (acct, bank) -> (time of the last successful operation on the position, asset shares, liability shares)
    for op, (res, bank, acct) in zip(c["ops"], outs):
        k = op[0]
        if k == 0:
            now = op[1]
        if res[0] == "OK" and bank is not None and k not in (0, 14) and len(op) >= 3 and k not in (10, 11, 15):
            a_i0, b_i0 = op[1], op[2]
            t0 = touch.get((a_i0, b_i0))
            credited0 = rem[b_i0] - bank["em_rem"] if 0 <= b_i0 < len(rem) else 0
            if credited0 > 0:
                if t0 is None:
                    bound = 0
                else:
                    asv0, lsv0 = svs[b_i0]
                    amt_bits = max(t0[1] * asv0, t0[2] * lsv0) // ONE            # amount in I80F48 bits
                    dt = max(0, now - t0[0])
                    dec = 9 if c["banks"][b_i0]["tag"] == 4 else c["banks"][b_i0]["decimals"]      # (staked banks: the harness fixes 9 decimals)
                    bound = amt_bits * dt * c["banks"][b_i0]["em_rate"] // (G.YEAR * 10 ** dec)
                    bound += bound // 10 ** 9 + (1 << 20)
                if credited0 > bound:
                    return {"key": "emissions-not-proportional",
                            "what": f"{G.OPN[k]} credited {credited0} bits of emissions; bound from the position before it "
                                    f"(time since its last operation, its amount, the rate) is {bound}"}
        if res[0] == "OK" and bank is not None and k in (10, 11) and len(op) >= 2 and 0 <= op[1] < len(svs):
            svs[op[1]] = (bank["asv"], bank["lsv"])
        if res[0] == "OK" and bank is not None and acct is not None and k not in (0, 10, 11, 14, 15) and len(op) >= 3:
            sl = [x for x in acct if x["bank"] == op[2] + 1]
            touch[(op[1], op[2])] = (now, sl[0]["a"], sl[0]["l"]) if sl else None
            if 0 <= op[2] < len(svs):
                svs[op[2]] = (bank["asv"], bank["lsv"])
        if res[0] != "OK" or bank is None or k in (0, 14, 10, 11, 15):
            if bank is not None and k in (10, 11, 15) and res[0] == "OK" and bank["em_rem"] != rem[op[1]]:
                return {"key": "emissions-changed-by-bank-op", "what": f"{G.OPN[k]} changed emissions_remaining"}
            continue
        a_i, b_i = op[1], op[2]
        new_rem = bank["em_rem"]
        old_held = sum(v for (aa, bb), v in held.items() if aa == a_i and bb == b_i)
        new_slots = [s for s in (acct or []) if s["bank"] == b_i + 1]
        new_held = new_slots[0]["em"] if new_slots else 0
        paid = int(res[1]) * ONE if k == 13 and len(res) > 1 else 0
        closed = (k in (5, 6, 7)) and not new_slots
        if new_rem < 0:
            return {"key": "emissions-remaining-negative", "what": f"emissions_remaining {new_rem} < 0 after {G.OPN[k]}"}
        if not closed:
            if rem[b_i] - new_rem != (new_held + paid) - old_held:
                return {"key": "emissions-not-conserved", "what": f"{G.OPN[k]}: remaining fell by {rem[b_i] - new_rem} but position+payout rose by {(new_held + paid) - old_held}"}
            if (new_held + paid) - old_held > max(0, rem[b_i]):
                return {"key": "emissions-over-remaining", "what": "credited more emissions than remained funded"}
        else:
            # a closed position may only abandon < 1 token of outstanding emissions
            credited = rem[b_i] - new_rem
            if old_held + credited >= ONE:
                return {"key": "closed-with-emissions", "what": "position closed with >= 1 token of outstanding emissions"}
        rem[b_i] = new_rem
        held[(a_i, b_i)] = new_held
        # refresh other slots of this account (sorting does not change amounts)
    return None
