"""Shared by C04 / C05: the level-C suite `risk` (real handlers in the sim runtime on banks with Fixed or
Pyth push oracles), its scenario generators, its parser, and an independent reference of the risk
engine in exact Fractions (prices with confidence bands, EMA vs spot, stale / wrong oracle accounts,
e-mode reconciliation, init-limit discount, isolated tier, reduce-only). Nothing here calls the model."""
from fractions import Fraction
import gen_bank as G
import gen_hops as H

ONE = G.ONE
U64 = G.U64_MAX
U32 = (1 << 32) - 1
NOW0 = 1_700_000_000
ORACLE_TOKS = 9
OPLEN = dict(H.OPLEN)
OPLEN.update({20: 7, 21: 3, 22: 3, 23: 5})
OPN = dict(H.OPN)
OPN.update({20: "set_oracle", 21: "swap_oracle_account", 22: "set_op_state", 23: "set_asset_tag"})
EPS = Fraction(1, 10 ** 7)
CONF_MULT = Fraction(212, 100)       # 95% interval from Pyth's one-sigma confidence
CONF_CAP = Fraction(5, 100)          # the band never exceeds 5% of the price
DEFAULT_MAX_CONF = Fraction(1, 10)   # oracle_max_confidence = 0 means 10%
MAX_PYTH_AGE = 60


def fxr(x):
    return int(Fraction(x) * ONE)


# ------------------------------------------------------------------------------------------------
# case construction
def flat_ir():
    """seven-point curve with all rates zero and no fees: accrual never changes share values"""
    return [1, 0, 0, 0, 0, 0, 0, 0, 0, 0] + [0, 0] * 5


def slope_ir(rng):
    zero, hundred, pts = G.gen_curve(rng)
    f = [fxr(Fraction(rng.randrange(0, 200), 10000)) if rng.random() < 0.5 else 0 for _ in range(4)]
    t = [1, 0, 0, 0] + f + [zero, hundred]
    for u, r in pts:
        t += [u, r]
    return t


def bank_tokens(b):
    """b: dict with asv lsv dep bor tag dec flags op_state ir awi awm lwi lwm tier tavil price tokprog bps maxfee orig etag emode"""
    core = [b["asv"], b["lsv"], 0, 0, 0, 0, 0, b["last_update"], b["dep"], b["bor"], b["tag"], b["dec"], b["flags"],
            0, 0, 0, 0, b["op_state"]] + b["ir"]
    extra = [b["awi"], b["awm"], b["lwi"], b["lwm"], b["tier"], b["tavil"], b["price"], b["tokprog"], b["bps"],
             b["maxfee"], b["orig"], b["etag"], len(b["emode"])]
    for e in b["emode"]:
        extra += list(e)
    return core + extra


def oracle_tokens(o):
    if o is None:
        return [0] * ORACLE_TOKS
    return [1, o["max_age"], o["max_conf"], o["price"], o["conf"], o["expo"], o["ema"], o["ema_conf"], o["publish"]]


def case_line(nb, na, pf, now0, banks, oracles, ops):
    toks = [nb, na] + pf + [now0]
    for b in banks:
        toks += bank_tokens(b)
    for o in oracles:
        toks += oracle_tokens(o)
    toks.append(len(ops))
    for o in ops:
        toks += list(o)
    return " ".join(map(str, toks))


def parse_case(line):
    t = list(map(int, line.split()))
    nb, na = t[0], t[1]
    pf = t[2:5]
    now = t[5]
    i = 6
    banks = []
    for _ in range(nb):
        f = t[i:i + G.BANK_TOKS]
        i += G.BANK_TOKS
        x = t[i:i + H.HB_EXTRA]
        i += H.HB_EXTRA
        n_em = x[12]
        em = [t[i + 4 * k:i + 4 * k + 4] for k in range(n_em)]
        i += 4 * n_em
        banks.append({"asv": f[0], "lsv": f[1], "dep_limit": f[8], "bor_limit": f[9], "tag": f[10], "decimals": f[11],
                      "flags": f[12], "op_state": f[17], "ir": f[18:], "awi": x[0], "awm": x[1], "lwi": x[2], "lwm": x[3],
                      "tier": x[4], "tavil": x[5], "price": x[6], "tokprog": x[7], "bps": x[8], "maxfee": x[9],
                      "orig": x[10], "etag": x[11], "emode": em, "last_update": f[7]})
    oracles = []
    for _ in range(nb):
        o = t[i:i + ORACLE_TOKS]
        i += ORACLE_TOKS
        oracles.append(None if o[0] == 0 else
                       {"max_age": o[1], "max_conf": o[2], "price": o[3], "conf": o[4], "expo": o[5], "ema": o[6],
                        "ema_conf": o[7], "publish": o[8]})
    n = t[i]
    i += 1
    ops = []
    for _ in range(n):
        k = t[i]
        ops.append(t[i:i + OPLEN[k]])
        i += OPLEN[k]
    return {"nb": nb, "na": na, "pf": pf, "now": now, "banks": banks, "oracles": oracles, "ops": ops}


def hops_to_risk(line):
    """a `hops` case line as a `risk` case line (all oracles Fixed)"""
    c = H.parse_case(line)
    t = line.split()
    i = 6
    for b in c["banks"]:
        i += G.BANK_TOKS + H.HB_EXTRA + 4 * len(b["emode"])
    return " ".join(t[:i] + ["0"] * (ORACLE_TOKS * c["nb"]) + t[i:])


# ------------------------------------------------------------------------------------------------
# reference oracle adapter
def pyth_prices(o, now, bogus):
    """{'err': None | 'keys' | 'stale', 'rt': (lo, hi, mid) | 'conf' | 'amb', 'tw': ...}"""
    if bogus:
        return {"err": "keys"}
    age = o["max_age"] if o["max_age"] != 0 else MAX_PYTH_AGE
    if now > o["publish"] + age:
        return {"err": "stale"}
    out = {"err": None}
    scale = Fraction(10) ** o["expo"]
    maxf = Fraction(o["max_conf"], U32) if o["max_conf"] > 0 else DEFAULT_MAX_CONF
    for name, p, c in (("rt", o["price"], o["conf"]), ("tw", o["ema"], o["ema_conf"])):
        P = p * scale
        C = c * scale * CONF_MULT
        lim = P * maxf
        if P <= 0:
            out[name] = "amb"
        elif abs(C - lim) <= lim * Fraction(1, 10 ** 6) + Fraction(1, 10 ** 12):
            out[name] = "amb"
        elif C > lim:
            out[name] = "conf"
        else:
            ci = min(C, P * CONF_CAP)
            out[name] = (P - ci, P + ci, P)
    return out


def fixed_prices(price):
    p = Fraction(price, ONE)
    return {"err": None, "rt": (p, p, p), "tw": (p, p, p)}


def reconcile(cfgs):
    if not cfgs:
        return {}
    merged = {}
    for cfg in cfgs:
        for (tag, flags, wi, wm) in cfg:
            if tag == 0:
                continue
            if tag in merged:
                m = merged[tag]
                merged[tag] = [min(m[0], flags), min(m[1], wi), min(m[2], wm), m[3] + 1]
            else:
                merged[tag] = [flags, wi, wm, 1]
    return {t: m for t, m in merged.items() if m[3] == len(cfgs)}


def health(cfg, banks, slots, px, req):
    A, L, st, _ = health_q(cfg, banks, slots, px, req)
    return A, L, st


def health_q(cfg, banks, slots, px, req):
    """like health, plus the price-quantisation allowance: every price the engine uses is an I80F48 number
    (2^-48 dollars resolution, the adapter truncates: C09), so each position's value may differ from the exact
    rational by value * 4 * 2^-48 / price.
    cfg: static bank configs; banks: dynamic bank dumps; slots: the account's positions;
    px: per-bank reference prices. Returns (A, L, status): status 'ok' | 'fail' (the engine must
    return an error) | 'amb' (reference undefined: confidence at its threshold, non-positive price)."""
    key = "tw" if req in ("init", "equity") else "rt"
    borrowing = [s for s in slots if s["l"] >= ONE]
    em = reconcile([cfg[s["bank"] - 1]["emode"] for s in borrowing])
    A = Fraction(0)
    L = Fraction(0)
    status = "ok"
    quant = Fraction(0)
    for s in slots:
        k = s["bank"] - 1
        cf, bk, p = cfg[k], banks[k], px[k]
        dec = 9 if cf["tag"] == 4 else cf["decimals"]
        if s["l"] >= ONE:
            if p["err"] or p[key] == "conf":
                return A, L, "fail", quant
            if p[key] == "amb":
                status = "amb"
                continue
            w = {"init": cf["lwi"], "maint": cf["lwm"], "equity": ONE}[req]
            amt = Fraction(s["l"] * bk["lsv"], ONE * ONE)
            L += amt * Fraction(w, ONE) * p[key][1] / 10 ** dec
            quant += amt * Fraction(w, ONE) * Fraction(4, ONE) / 10 ** dec
        elif s["a"] >= ONE:
            if cf["tier"] == 1:
                continue
            if bk["op_state"] == 2 and req == "init":
                continue
            if p["err"]:
                if req == "init":
                    continue
                return A, L, "fail", quant
            if p[key] == "conf":
                return A, L, "fail", quant
            if p[key] == "amb":
                status = "amb"
                continue
            w = {"init": cf["awi"], "maint": cf["awm"], "equity": ONE}[req]
            if cf["etag"] != 0 and cf["etag"] in em and req != "equity":
                w = max(w, em[cf["etag"]][1 if req == "init" else 2])
            w = Fraction(w, ONE)
            lo = p[key][0]
            if req == "init" and cf["tavil"] != 0:
                tot = Fraction(bk["tas"] * bk["asv"], ONE * ONE) * lo / 10 ** dec
                if tot > cf["tavil"]:
                    w = w * Fraction(cf["tavil"]) / tot
            amt = Fraction(s["a"] * bk["asv"], ONE * ONE)
            A += amt * w * lo / 10 ** dec
            quant += amt * w * Fraction(4, ONE) / 10 ** dec * (2 if (req == "init" and cf["tavil"] != 0) else 1)
    return A, L, status, quant


def tol(A, L):
    return (abs(A) + abs(L)) * EPS + Fraction(1, 10 ** 9)


def isolated_ok(cfg, slots):
    liabs = [s for s in slots if s["l"] >= ONE]
    iso = [s for s in liabs if cfg[s["bank"] - 1]["tier"] == 1]
    return len(iso) == 0 or len(liabs) == 1


# ------------------------------------------------------------------------------------------------
# traces
class Trace:
    def __init__(self, case, impl):
        self.c = parse_case(case)
        self.nb = self.c["nb"]
        self.ok = not (impl.startswith("PANIC") or impl.startswith("DRIVER"))
        raw = H.parse_out(impl, self.nb) if self.ok else []
        self.steps = [x[:3] for x in raw]
        self.cfg = [dict(b) for b in self.c["banks"]]

    def init_banks(self):
        return [{"asv": b["asv"], "lsv": b["lsv"], "tas": 0, "tls": 0, "ins": 0, "grp": 0, "prog": 0,
                 "last_update": b["last_update"], "flags": b["flags"], "op_state": b["op_state"],
                 "vault": 0, "insv": 0, "feev": 0, "feeata": 0, "lend_cnt": 0, "bor_cnt": 0} for b in self.c["banks"]]

    def init_accts(self):
        return [{"slots": [], "flags": 0, "tok": [1 << 62] * self.nb} for _ in range(self.c["na"])]


DRIFT_PRECISION = 10 ** 10


def drift_adjust(o, cum):
    """MinimalSpotMarket::adjust_i64 / adjust_u64 on the four numbers of a Pyth message (floor)"""
    if cum is None:
        return o
    return dict(o, price=o["price"] * cum // DRIFT_PRECISION, conf=o["conf"] * cum // DRIFT_PRECISION,
                ema=o["ema"] * cum // DRIFT_PRECISION, ema_conf=o["ema_conf"] * cum // DRIFT_PRECISION)


def walk(tr):
    """yields (op, res, banks_before, accts_before, banks_after, accts_after, now, px) — px = reference prices
    in force while the op executed"""
    banks = tr.init_banks()
    accts = tr.init_accts()
    now = tr.c["now"]
    fixed = [b["price"] for b in tr.c["banks"]]
    orc = [dict(o) if o else None for o in tr.c["oracles"]]
    bogus = [False] * tr.nb
    drift = {}
    for k in range(tr.nb):
        tr.cfg[k]["tag"] = tr.c["banks"][k]["tag"]     # (op 23 retags a bank while the trace is walked)
    for op, (res, nbanks, naccts) in zip(tr.c["ops"], tr.steps):
        if op[0] == 0:
            now = op[1]
        elif op[0] == 19 and res == "OK":
            fixed = list(fixed)
            fixed[op[1]] = op[2]
        elif op[0] == 20 and orc[op[1]] is not None:
            orc = list(orc)
            orc[op[1]] = dict(orc[op[1]], price=op[2], conf=op[3], ema=op[4], ema_conf=op[5], publish=op[6])
        elif op[0] == 21:
            bogus = list(bogus)
            bogus[op[1]] = op[2] == 1
        elif op[0] == 23:
            tr.cfg[op[1]]["tag"] = op[2]       # from here on the bank is a venue bank (Drift: 9-decimal scaled balances)
            if op[2] == 4 and orc[op[1]] is not None:
                drift = dict(drift)
                drift[op[1]] = op[3]           # DriftPythPull: price and confidence scaled by cumulative_deposit_interest / 10^10
        px = [pyth_prices(drift_adjust(orc[k], drift.get(k)), now, bogus[k]) if orc[k] is not None else fixed_prices(fixed[k]) for k in range(tr.nb)]
        yield op, res, banks, accts, nbanks, naccts, now, px
        banks, accts = nbanks, naccts


# ------------------------------------------------------------------------------------------------
# predicted state (only used to aim generated amounts at the accept / reject boundary)
class Pred:
    def __init__(self, banks, oracles, na, now):
        self.cfg = [{"tag": b["tag"], "decimals": b["dec"], "awi": b["awi"], "awm": b["awm"], "lwi": b["lwi"], "lwm": b["lwm"],
                     "tier": b["tier"], "tavil": b["tavil"], "etag": b["etag"], "emode": b["emode"], "orig": b["orig"]} for b in banks]
        self.banks = [{"asv": b["asv"], "lsv": b["lsv"], "tas": 0, "tls": 0, "op_state": b["op_state"]} for b in banks]
        self.fixed = [b["price"] for b in banks]
        self.orc = [dict(o) if o else None for o in oracles]
        self.bogus = [False] * len(banks)
        self.drift = {}
        self.now = now
        self.pos = [dict() for _ in range(na)]      # bank index -> [a_shares, l_shares]

    def px(self):
        return [pyth_prices(drift_adjust(self.orc[k], self.drift.get(k)), self.now, self.bogus[k]) if self.orc[k] is not None
                else fixed_prices(self.fixed[k]) for k in range(len(self.banks))]

    def slots(self, a, extra=None):
        pos = dict(self.pos[a])
        if extra:
            for k, (da, dl) in extra.items():
                cur = pos.get(k, [0, 0])
                pos[k] = [cur[0] + da, cur[1] + dl]
        return [{"bank": k + 1, "a": max(0, v[0]), "l": max(0, v[1])} for k, v in sorted(pos.items(), reverse=True)]

    def deposit(self, a, b, amt):
        bk = self.banks[b]
        sh = amt * ONE * ONE // bk["asv"] if bk["asv"] else 0
        cur = self.pos[a].setdefault(b, [0, 0])
        cur[0] += sh
        bk["tas"] += sh

    def ashares(self, b, amt):
        bk = self.banks[b]
        return amt * ONE * ONE // bk["asv"] if bk["asv"] else 0

    def lshares(self, b, amt_fx):
        return amt_fx * ONE // self.banks[b]["lsv"]

    def borrow(self, a, b, amt):
        f = amt * ONE * self.cfg[b]["orig"] // ONE
        sh = self.lshares(b, amt * ONE + f)
        cur = self.pos[a].setdefault(b, [0, 0])
        cur[1] += sh
        self.banks[b]["tls"] += sh

    def withdraw(self, a, b, amt):
        sh = self.ashares(b, amt)
        cur = self.pos[a].setdefault(b, [0, 0])
        cur[0] -= sh
        self.banks[b]["tas"] -= sh

    def init_health(self, a, extra=None, bank_delta=None):
        banks = self.banks
        if bank_delta:
            banks = [dict(x) for x in banks]
            for k, d in bank_delta.items():
                banks[k]["tas"] += d
        A, L, st = health(self.cfg, banks, self.slots(a, extra), self.px(), "init")
        return A - L, st

    def maint_health(self, a, extra=None):
        A, L, st = health(self.cfg, self.banks, self.slots(a, extra), self.px(), "maint")
        return A - L, st


def bisect_max(f, hi):
    """largest n in [0, hi] with f(n) true, f monotone (true for small n); -1 if f(0) is false"""
    if not f(0):
        return -1
    lo = 0
    if f(hi):
        return hi
    while hi - lo > 1:
        mid = (lo + hi) // 2
        if f(mid):
            lo = mid
        else:
            hi = mid
    return lo


# ------------------------------------------------------------------------------------------------
# property oracles on `risk` traces (exact Fractions on the implementation's dumped state)
def _slot(slots, bank):
    for s in slots:
        if s["bank"] == bank + 1:
            return s
    return None


def hypothetical_after(tr, op, b0, a0):
    """the account's positions and the bank totals a borrow / partial withdrawal WOULD have produced
    (used only for the converse direction: rejected although healthy). None if not computable here."""
    k = op[0]
    a, b, n = op[1], op[2], op[3]
    cf, bk = tr.cfg[b], b0[b]
    if cf["tokprog"] == 2:
        return None                       # transfer-fee mints gross the amount up
    slots = [dict(s) for s in a0[a]["slots"]]
    banks = [dict(x) for x in b0]
    s = _slot(slots, b)
    if k == 3:
        fee = n * ONE * cf["orig"] // ONE
        sh = (n * ONE + fee) * ONE // bk["lsv"]
        if s is None:
            slots.append({"bank": b + 1, "a": 0, "l": sh, "tag": cf["tag"]})
        else:
            if s["a"] * bk["asv"] // ONE >= THR:
                return None               # borrow against an existing deposit is a different error
            s["l"] += sh
        banks[b]["tls"] += sh
    else:
        if s is None or op[4] == 1 or bk["asv"] == 0:
            return None
        sh = n * ONE * ONE // bk["asv"]
        if sh > s["a"]:
            return None
        s["a"] -= sh
        banks[b]["tas"] -= sh
    slots.sort(key=lambda x: -x["bank"])
    return slots, banks


THR = 28147497671


def oracle_gate(tr):
    """C04 on a risk trace"""
    if not tr.ok:
        return None
    for op, res, b0, a0, b1, a1, now, px in walk(tr):
        if op[0] not in (2, 3):
            continue
        a = op[1]
        if res == "OK":
            A, L, st, qn = health_q(tr.cfg, b1, a1[a]["slots"], px, "init")
            if st == "fail":
                return {"key": "risk-gate-passed-with-unusable-price",
                        "what": f"{OPN[op[0]]} succeeded although a debt oracle is stale/wrong or a confidence band is too wide"}
            if st == "ok" and A - L < -(tol(A, L) + qn):
                return {"key": "risk-gate-passed-unhealthy",
                        "what": f"{OPN[op[0]]} succeeded with init health {float(A - L)} (assets {float(A)}, liabs {float(L)})"}
            if not isolated_ok(tr.cfg, a1[a]["slots"]):
                return {"key": "isolated-not-exclusive", "what": "isolated-tier debt is not the account's only debt"}
        elif res in ("E6009", "E6029"):
            if b0[op[2]]["last_update"] != now and b0[op[2]]["tas"] != 0 and b0[op[2]]["tls"] != 0:
                continue                  # interest would accrue first: share values of the would-be state unknown here
            hyp = hypothetical_after(tr, op, b0, a0)
            if hyp is None:
                continue
            slots, banks = hyp
            A, L, st, qn = health_q(tr.cfg, banks, slots, px, "init")
            if st != "ok":
                continue
            unit = Fraction(3) * max((p["tw"][1] if isinstance(p.get("tw"), tuple) else 0) / 10 ** (9 if c["tag"] == 4 else c["decimals"])
                                     for p, c in zip(px, tr.cfg))
            if res == "E6009" and A - L > 2 * tol(A, L) + unit * 2 + qn:
                return {"key": "rejected-while-healthy",
                        "what": f"{OPN[op[0]]} rejected with RiskEngineInitRejected although the resulting init health would be {float(A - L)}"}
            if res == "E6029" and isolated_ok(tr.cfg, slots):
                return {"key": "isolated-rejected-wrongly", "what": "IsolatedAccountIllegalState although the isolated debt would be the only debt"}
    return None


def gate_nontrivial(tr):
    """a borrow / withdrawal decided by the health comparison: accepted with debt present, or rejected 6009"""
    if not tr.ok:
        return False
    for op, res, b0, a0, b1, a1, now, px in walk(tr):
        if op[0] in (2, 3):
            if res == "E6009":
                return True
            if res == "OK" and any(s["l"] >= ONE for s in a1[op[1]]["slots"]):
                return True
    return False


def boundary_pairs(tr):
    """number of (reject at n+1, accept at n) pairs of consecutive probes on one pre-state"""
    if not tr.ok:
        return 0
    cnt = 0
    prev = None
    for op, res, b0, a0, b1, a1, now, px in walk(tr):
        cur = (tuple(op[:3]) if op[0] in (2, 3) else tuple(op[:5]) if op[0] == 17 else None, op[3] if op[0] in (2, 3) else op[5] if op[0] == 17 else None, res)
        if prev and cur[0] and prev[0] == cur[0] and prev[2] != "OK" and cur[2] == "OK" and prev[1] == cur[1] + 1:
            cnt += 1
        prev = cur if cur[0] else None
    return cnt


def oracle_liq(tr):
    """C05 on a risk trace"""
    if not tr.ok:
        return None
    for op, res, b0, a0, b1, a1, now, px in walk(tr):
        if op[0] != 17 or res != "OK":
            continue
        liqor, liqee, ab, lb, amt = op[1:6]
        pa, pl = px[ab], px[lb]
        if pa["err"] or pl["err"] or pa["rt"] == "conf" or pl["rt"] == "conf":
            return {"key": "liquidated-with-unusable-price", "what": "liquidation succeeded with a stale/wrong oracle or too wide a confidence band"}
        if pa["rt"] == "amb" or pl["rt"] == "amb":
            continue
        if pa["rt"][0] <= 0 or pl["rt"][1] <= 0:
            return {"key": "liquidated-at-nonpositive-price", "what": "liquidation succeeded with a non-positive price"}
        pre = a0[liqee]["slots"]
        A0, L0, s0, q0 = health_q(tr.cfg, b1, pre, px, "maint")
        A1, L1, s1, q1 = health_q(tr.cfg, b1, a1[liqee]["slots"], px, "maint")
        if s0 == "fail" or s1 == "fail":
            return {"key": "liquidated-with-unusable-price", "what": "liquidation succeeded although a position of the liquidatee has no usable price"}
        if s0 == "ok" and s1 == "ok":
            t = tol(A0, L0) + tol(A1, L1) + q0 + q1
            if A0 - L0 > t:
                return {"key": "liquidated-healthy-account", "what": f"liquidation succeeded on an account with maintenance health {float(A0 - L0)}"}
            if A1 - L1 > t:
                return {"key": "over-liquidated", "what": f"post-liquidation maintenance health {float(A1 - L1)} > 0"}
            if (A1 - L1) - (A0 - L0) < -t:
                return {"key": "liquidation-worsened-health", "what": "health after liquidation is lower than before"}
        ee_l = _slot(a1[liqee]["slots"], lb)
        ee_l0 = _slot(pre, lb)
        if ee_l is not None and ee_l0 is not None and ee_l["l"] >= ee_l0["l"]:
            # 'strictly better afterwards', decided exactly: collateral was seized (>= 1 native unit) while the debt shares did
            # not go down, so in the engine's own arithmetic (same prices, same accrued share values before and after) the
            # health cannot have improved
            return {"key": "liquidation-without-debt-relief",
                    "what": f"liquidation succeeded but the liquidatee's debt shares went from {ee_l0['l']} to {ee_l['l']}: collateral taken, health not strictly better"}
        if ee_l is None or ee_l["l"] < ONE or ee_l["a"] >= ONE:
            return {"key": "liquidation-flipped-debt", "what": "liquidatee debt position exhausted or flipped into a deposit"}
        ee_a = _slot(a1[liqee]["slots"], ab)
        ee_a0 = _slot(pre, ab)
        if ee_a is not None and ee_a["l"] >= ONE:
            return {"key": "liquidation-flipped-collateral", "what": "seized collateral flipped into a debt"}
        if ee_a0 is None or amt * ONE > ee_a0["a"] * b1[ab]["asv"] // ONE:
            return {"key": "over-liquidation-guard", "what": "seized more than the liquidatee's collateral position"}
        Ar, Lr, sr, qr = health_q(tr.cfg, b1, a1[liqor]["slots"], px, "init")
        if sr == "fail":
            return {"key": "liquidator-unhealthy", "what": "liquidator passed although one of its debts has no usable price"}
        if sr == "ok" and Ar - Lr < -(tol(Ar, Lr) + qr):
            return {"key": "liquidator-unhealthy", "what": f"liquidator left with init health {float(Ar - Lr)}"}
        if not isolated_ok(tr.cfg, a1[liqor]["slots"]):
            return {"key": "liquidator-isolated", "what": "liquidator left with a non-exclusive isolated debt"}
        da = 9 if tr.cfg[ab]["tag"] == 4 else tr.cfg[ab]["decimals"]
        dl = 9 if tr.cfg[lb]["tag"] == 4 else tr.cfg[lb]["decimals"]
        v = Fraction(amt) * pa["rt"][0] / 10 ** da
        q = v * 10 ** dl / pl["rt"][1]

        def net_liab(slots, banks):
            s = _slot(slots, lb)
            return Fraction((s["l"] * banks[lb]["lsv"] - s["a"] * banks[lb]["asv"]) if s else 0, ONE * ONE)
        relief = net_liab(pre, b1) - net_liab(a1[liqee]["slots"], b1)
        paid = net_liab(a1[liqor]["slots"], b1) - net_liab(a0[liqor]["slots"], b1)
        # allowance = the proved rounding bound of one quantity (C05_quantity_rounding_bound), in tokens:
        # (1 + (10^da + 1 + p_a) * 10^dl / (p_l * 10^da)) * 2^-48, plus share rounding of the wrapper legs
        # (one share-value ulp each) and the repay-only dust threshold
        bound = (1 + (Fraction(10) ** da + 1 + pa["rt"][0]) * 10 ** dl / (pl["rt"][1] * 10 ** da)) / ONE
        share_ulp = Fraction(2 * (b1[lb]["lsv"] + b1[lb]["asv"]) + 4 * ONE, ONE * ONE)
        # and the 2^-48 resolution of the two prices themselves (the adapter truncates: C09)
        rt = bound + share_ulp + Fraction(1, 10 ** 4) + q * (Fraction(1, 10 ** 9) + Fraction(4, ONE) / pa["rt"][0] + Fraction(4, ONE) / pl["rt"][1])
        if abs(relief - q * Fraction(95, 100)) > rt:
            return {"key": "liquidation-relief-not-95pct", "what": f"debt relief {float(relief)} vs 95% of {float(q)} (allowance {float(rt)})"}
        if abs(paid - q * Fraction(975, 1000)) > rt:
            return {"key": "liquidator-payment-not-97.5pct", "what": f"liquidator paid {float(paid)} vs 97.5% of {float(q)} (allowance {float(rt)})"}
        moved = b0[lb]["vault"] - b1[lb]["vault"]
        got = b1[lb]["insv"] - b0[lb]["insv"]
        fee = q * Fraction(25, 1000)
        if abs(Fraction(moved) - fee) > 2 * rt + 1:
            return {"key": "insurance-fee-not-2.5pct", "what": f"{moved} tokens left the vault for insurance vs 2.5% of {float(q)}"}
        if got > moved or (tr.cfg[lb]["tokprog"] != 2 and got != moved):
            return {"key": "insurance-vault-miscredited", "what": f"insurance vault received {got}, liquidity vault gave {moved}"}
        dins = Fraction(b1[lb]["ins"] - b0[lb]["ins"], ONE)
        # exact split: what the liquidator paid beyond the liquidatee's relief = whole tokens moved + fraction booked
        # (only checkable when no interest accrued inside the instruction)
        if b0[lb]["last_update"] == now:
            if not (0 <= dins < 1):
                return {"key": "insurance-dust-wrong", "what": f"outstanding insurance fees changed by {float(dins)}"}
            if abs((paid - relief) - (Fraction(moved) + dins)) > share_ulp + Fraction(2, 10 ** 4):
                return {"key": "insurance-split-not-exact",
                        "what": f"liquidator paid {float(paid)}, relief {float(relief)}, but vault->insurance {moved} + booked fraction {float(dins)}"}
        for k in range(tr.nb):
            if k != lb and (b1[k]["vault"], b1[k]["insv"]) != (b0[k]["vault"], b0[k]["insv"]):
                return {"key": "liquidation-moved-other-vault", "what": f"vaults of bank {k} changed"}
            if (b1[k]["feev"], b1[k]["feeata"]) != (b0[k]["feev"], b0[k]["feeata"]):
                return {"key": "liquidation-moved-fee-vault", "what": f"fee destinations of bank {k} changed"}
    return None


def liq_nontrivial(tr):
    if not tr.ok:
        return False
    return any(op[0] == 17 and res == "OK" for op, (res, _, _) in zip(tr.c["ops"], tr.steps))
