"""C11 — flash loans are bracketed: health is enforced before the transaction ends."""
from . import txgen as G
from .txgen import ONE, U

ID = "C11"
MANIFEST = {
    "text": ("Kernel-checked theorems over the same transaction model as C10: check_flashloan_can_start is characterised exactly "
             "(later index, in range, marginfi program, end_flashloan discriminator, same account, not CPI, not disabled / already in a "
             "flash loan / in receivership / frozen); for transactions of ANY length (including instructions that CPI into marginfi) no "
             "committed transaction leaves IN_FLASHLOAN set, and no account ends with a risk-increasing action whose initial-margin check "
             "was skipped and not followed by a passed one (ghost bit invariant); the end instruction runs the full initial-margin check "
             "on the final portfolio and cannot run via CPI; liquidation (both designs), bankruptcy, transfer and nesting fail while the "
             "flag is set. Tied to the code by level A (real check_flashloan_can_start on real sysvar bytes for every current index and "
             "every end_index in [0, len+1] and u64::MAX) and level D (whole transactions through the real handlers incl. CPI, reference "
             "health at commit by the real risk engine)."),
    "design_ref": "DESIGN.md §7 C11",
    "technique": ("Coq proof by invariant over instruction lists (pending-end invariant + ghost bit) + exact characterisation of the start check; "
                  "model/implementation correspondence at levels A and D"),
}
THEOREMS = [
    "C11_start_checks", "C11_start", "C11_no_flag_survives", "C11_end_enforces_init_health", "C11_not_via_cpi",
    "C11_flashloan_blocks", "C11_end_without_risk_accounts_only_if_empty",
]
RULE = ("txval: every instruction list up to length 4 (quick) / 5 (thorough) over a 9-symbol flash-loan alphabet (start, end for the same / "
        "another / no account, short end data, end discriminator under foreign programs, borrow, compute budget) and up to 5/7 over a 4-symbol "
        "one, plus sampled lists up to length 12; for each list the real check_flashloan_can_start runs at every current index with every "
        "end_index in [0, len+1] and u64::MAX, for account flags drawn from {0,1,2,16,64,18,4,8,32,127}. txsim: flash-loan transactions "
        "through World::exec_tx with borrow / withdraw amounts at the initial-margin boundary (400 vs 400.000001 L against 500 $ of weighted "
        "collateral), wrong / missing / CPI'd end, wrong end index (incl. own index, out of range, u64::MAX), nesting, liquidate / bankruptcy "
        "/ transfer / start_liquidation attempts inside the bracket, frozen / disabled / pre-flagged accounts, a second bracket after the "
        "first, plus every transaction of length <= 3 over a 6-symbol alphabet. Non-trivial: txval = at least one accepted start in the "
        "line; txsim = committed or failed after at least one successful instruction. Distinct = different case line")
ASSUMPTIONS = [
    "Solana runtime: transactions are atomic (a failing instruction reverts everything), the instructions sysvar is authentic, "
    "get_stack_height() is 1 exactly for top-level instructions, the instruction at index k of the sysvar is the k-th instruction executed",
    "frame: IN_FLASHLOAN is set only by lending_account_start_flashloan and cleared only by lending_account_end_flashloan (grep over "
    "programs/marginfi/src; transfer_account copies account_flags only after refusing flagged accounts); every other instruction is an arbitrary patch",
    "risk-increasing actions whose check is skipped under the flag: borrow, withdraw (incl. kamino/drift/solend withdraw), acting as classic liquidator "
    "(the callers of RiskEngine::check_account_init_health); valuation and bookkeeping are arbitrary functions in the theorems",
    "'negative initial health caused by actions inside the bracket' is formalised by the ghost bit: at commit no account has an unchecked "
    "risk-increasing action; price moves and other accounts' actions are outside the statement",
]
OBSERVATIONS = [
    "end_flashloan does not require the flag to be set: on an unflagged account it is a plain initial-margin check",
    "a flash loan may contain marginfi instructions invoked by CPI (e.g. a borrow through a proxy program): they skip the health check like "
    "top-level ones and are covered by the end check; start and end themselves cannot run via CPI",
    "check_flashloan_can_start panics (slice index) instead of returning IllegalFlashloan when the named end instruction has fewer than 8 data "
    "bytes; the transaction aborts either way",
]


def suites(rng, tier):
    n = {"quick": dict(ex=4, small=5, samp=500, fl=4500),
         "thorough": dict(ex=5, small=7, samp=8000, fl=25000),
         "search": dict(ex=0, small=0, samp=3000, fl=8000)}[tier]
    out = []
    if n["ex"]:
        lines = G.val_exhaustive(rng, "fl", n["ex"])
        out.append({"suite": "txval", "name": "txval-fl-exhaustive", "lines": lines,
                    "distribution": {"alphabet": G.ALPHABETS["fl"], "max_len": n["ex"], "lists": len(lines)}})
        lines = G.val_exhaustive(rng, "fl_accts", n["ex"] + 1)
        out.append({"suite": "txval", "name": "txval-fl-account-lists", "lines": lines,
                    "distribution": {"alphabet": G.ALPHABETS["fl_accts"], "max_len": n["ex"] + 1, "lists": len(lines)}})
        lines = G.val_exhaustive(rng, "small_fl", n["small"])
        out.append({"suite": "txval", "name": "txval-smallfl-exhaustive", "lines": lines,
                    "distribution": {"alphabet": G.ALPHABETS["small_fl"], "max_len": n["small"], "lists": len(lines)}})
    lines = G.val_sampled(rng, n["samp"], 2, 12)
    out.append({"suite": "txval", "name": "txval-sampled", "lines": lines,
                "distribution": {"kinds": len(G.KINDS), "len": "2..12(+intruders)", "lists": len(lines)}})
    lines = [G.fl_tx(rng) for _ in range(n["fl"])] + [G.fl_liq_inside(rng) for _ in range(80)]
    if tier != "search":
        lines += G.sim_enumerated("fl")
    out.append({"suite": "txsim", "name": "txsim-flashloan", "lines": lines,
                "distribution": {"flashloan": n["fl"], "enumerated_len<=3": len(G.sim_enumerated("fl")) if tier != "search" else 0,
                                 "borrow_amounts": G.BR_F}})
    return out


def nontrivial(suite, case, impl):
    try:
        if suite == "txval":
            p = G.parse_val(case, impl)
            return "OK" in p["FL"].values()
        if suite == "txsim":
            p = G.parse_sim(case, impl)
            return p["res"][0] == "OK" or (p["res"][1] or 0) >= 1
    except Exception:
        return False
    return False


def _v(key, what):
    return {"key": key, "what": what}


def oracle_val(case, impl):
    p = G.parse_val(case, impl)
    ixs = p["ixs"]
    n = len(ixs)
    for (cur, e), r in p["FL"].items():
        if r != "OK":
            continue
        if not (cur < e < n):
            return _v("start-accepts-bad-index", f"check_flashloan_can_start accepted end_index {e} at current index {cur} of {n}")
        if ixs[cur][0] != 1:
            return _v("start-accepted-in-cpi", f"current instruction {cur} is not a marginfi instruction")
        pe, de, le, ae = ixs[e]
        if pe != 1 or de != "EF" or le < 8 or G.first_acct(ae) != 1:
            return _v("start-accepts-wrong-end", f"instruction {e} = {ixs[e]} is not end_flashloan of this program for this account")
        if p["flags"] & (G.MASK_DISABLED | G.MASK_FL | G.MASK_RECV | G.MASK_FROZEN):
            return _v("start-accepts-flagged", f"flash loan started on an account with flags {p['flags']}")
    return None


def oracle_sim(case, impl):
    p = G.parse_sim(case, impl)
    if impl.startswith("FIXTURE-FAILED") or impl.startswith("PANIC"):
        return _v("harness", "harness could not run the case: " + impl[:80])
    if p["res"][0] != "OK":
        return None
    ixs = p["ixs"]
    n = len(ixs)
    clean0 = all(f & (G.MASK_FL | G.MASK_RECV | G.MASK_DELEV) == 0 for f in p["flags0"])
    if clean0:
        for code, a in p["accts"].items():
            if a and a["flags"] & G.MASK_FL:
                return _v("flag-survives", f"account {code} ends a committed transaction IN_FLASHLOAN")
    for tok in ixs:
        t = tok.split()
        if t[0] == "PX" and t[2] in ("SF", "EF"):
            return _v("flashloan-op-via-cpi", f"committed transaction contains {t[2]} invoked by CPI")
    if not clean0:
        return None
    brackets = []
    for i, tok in enumerate(ixs):
        t = tok.split()
        if t[0] != "SF":
            continue
        a, s, e = int(t[1]), int(t[2]), int(t[3])
        if not (i < e < n):
            return _v("start-bad-index", f"start at {i} names end index {e} of {n}")
        te = ixs[e].split()
        if te[0] not in ("EF", "EFX", "EFN") or int(te[1]) != a:
            return _v("start-wrong-end", f"start for account {a} names instruction {e} = {ixs[e]}")
        if p["flags0"][a - 1] & (G.MASK_DISABLED | G.MASK_FROZEN):
            return _v("start-on-disabled-or-frozen", f"flash loan committed on account {a} with flags {p['flags0'][a - 1]}")
        # the flag is cleared by the first end for a after i
        close = next(j for j in range(i + 1, n) if ixs[j].split()[0] in ("EF", "EFX", "EFN") and int(ixs[j].split()[1]) == a)
        brackets.append((a, i, close))
    for a, i, close in brackets:
        for j in range(i + 1, close):
            t = ixs[j].split()
            if t[0] == "PX":
                t = t[2:]
            bad = (t[0] == "LQ" and int(t[3]) == a) or (t[0] in ("HB", "TR", "SL", "SD", "SF") and int(t[1]) == a)
            if bad:
                return _v("blocked-op-inside-bracket", f"{ixs[j]} executed at {j} while account {a} was in a flash loan")
        acc = p["accts"].get(a)
        if not acc or acc["ref"] is None:
            return _v("no-reference-health", f"no reference health for account {a}")
        ia, il = acc["ref"][0], acc["ref"][1]
        if ia < il:
            return _v("negative-init-health-at-commit", f"account {a} ends the transaction with initial health {ia - il} < 0")
    return None


def oracle(suite, case, impl):
    if suite == "txval":
        return oracle_val(case, impl)
    if suite == "txsim":
        return oracle_sim(case, impl)
    return None
