"""Generators for the level-B `bankops` suite (shared by C01/C02/C03/C06/C16/C17/C19).
All randomness comes from the rng passed in."""
from fractions import Fraction

ONE = 1 << 48
U32 = (1 << 32) - 1
U64_MAX = (1 << 64) - 1
I128_MAX = (1 << 127) - 1
YEAR = 31_536_000

OPN = {0: "clock", 1: "deposit", 2: "withdraw", 3: "borrow", 4: "repay", 5: "withdraw_all", 6: "repay_all",
       7: "close_balance", 8: "deposit_ignore_cap", 9: "withdraw_ignore_cap", 10: "accrue", 11: "socialize",
       12: "claim", 13: "settle", 14: "sort", 15: "capacity"}


def fx(x):
    return int(Fraction(x) * ONE)


def gen_curve(rng):
    """valid seven-point curve tokens: zero hundred 5x(util rate)"""
    k = rng.choice([0, 1, 2, 3, 5])
    zero = rng.choice([0, rng.randrange(0, U32 // 200)])
    hundred = rng.choice([U32 // 10, rng.randrange(zero, U32 // 2 + 1), U32])
    utils = sorted(rng.sample(range(1, U32), k))
    rates = sorted(rng.randrange(zero, hundred + 1) for _ in range(k))
    if zero == 0 and k and rng.random() < 0.25:
        # "free until x% utilisation": the first used points carry rate 0 (legal, and must be honoured by the calculator)
        j = rng.randrange(1, k + 1)
        rates = [0] * j + rates[j:]
    pts = list(zip(utils, rates)) + [(0, 0)] * (5 - k)
    return zero, hundred, pts


def gen_ir(rng, fees="typical"):
    zero, hundred, pts = gen_curve(rng)
    if fees == "zero":
        f = [0, 0, 0, 0]
    else:
        f = [fx(Fraction(rng.randrange(0, 300), 10000)) if rng.random() < 0.8 else 0 for _ in range(4)]
    toks = [1, 0, 0, 0] + f + [zero, hundred]
    for u, r in pts:
        toks += [u, r]
    return toks


def gen_bank(rng, now, fresh=True, limits="mixed", tag=None, sv="mixed", emissions=True):
    if sv == "one":
        asv = lsv = ONE
    else:
        m = rng.random()
        if m < 0.3:
            asv, lsv = ONE, ONE
        elif m < 0.8:
            asv = ONE + rng.randrange(0, 2 * ONE)
            lsv = asv + rng.randrange(0, ONE)
        elif m < 0.9:
            asv = rng.randrange(1, ONE)            # after socialised loss
            lsv = ONE + rng.randrange(0, ONE)
        else:
            asv = rng.choice([1, 2, ONE // 1000, 1000 * ONE])
            lsv = rng.choice([ONE, 7 * ONE + 3])
    if fresh:
        tas = tls = 0
    else:
        mag = rng.choice([10 ** 3, 10 ** 6, 10 ** 9, 10 ** 12, 10 ** 15, 10 ** 18])
        tas = rng.randrange(0, mag) * ONE + rng.randrange(0, ONE)
        ur = Fraction(rng.randrange(0, 1001), 1000)
        tls = int(tas * asv * ur / lsv) if lsv else 0
    dep = {"none": U64_MAX}.get(limits)
    if dep is None:
        dep = rng.choice([U64_MAX, U64_MAX, 10 ** rng.randrange(0, 15), rng.randrange(0, 10 ** 9), 0, 1])
    bor = U64_MAX if limits == "none" else rng.choice([U64_MAX, U64_MAX, 10 ** rng.randrange(0, 15), rng.randrange(0, 10 ** 9), 0, 1])
    tg = tag if tag is not None else rng.choice([0, 0, 0, 1, 2, 3, 4, 5])
    dec = rng.randrange(0, 13)
    flags = rng.choice([0, 0, 1, 2, 3]) if emissions else 0
    flags |= rng.choice([0, 0, 16, 4, 8])
    em_rate = rng.choice([0, 1, 10 ** 6, rng.randrange(0, 10 ** 9)]) if flags & 3 else 0
    em_rem = rng.choice([0, rng.randrange(0, 10 ** 9) * ONE, 5 * ONE + 7, 10 ** 15 * ONE]) if flags & 3 else 0
    last_update = now - rng.choice([0, 0, 1, 60, 3600])
    toks = [asv, lsv, tas, tls, rng.choice([0, rng.randrange(0, 10 * ONE)]), rng.choice([0, rng.randrange(0, 10 * ONE)]),
            rng.choice([0, rng.randrange(0, 10 * ONE)]), last_update, dep, bor, tg, dec, flags, em_rate, em_rem, 0, 0, 1]
    return toks + gen_ir(rng)


AMOUNTS = [1, 2, 3, 10, 999, 1000, 10 ** 6, 10 ** 6 + 1, 10 ** 9, 123456789, 10 ** 12, 10 ** 15, 10 ** 18]


def gen_amount(rng, hint=None):
    m = rng.random()
    if hint and m < 0.45:
        return max(0, hint + rng.choice([-1, 0, 0, 1]))
    if hint and m < 0.6:
        return rng.randrange(0, hint + 1)
    if m < 0.9:
        return rng.choice(AMOUNTS)
    if m < 0.97:
        return int(10 ** (rng.random() * 18))
    return rng.choice([0, U64_MAX, U64_MAX - 1])


def gen_ops(rng, nb, na, nops, now, liq_ops=True, loss_ops=False, frac_amounts=False):
    """ops as token lists; keeps a rough ledger to bias towards valid operations"""
    led = {}
    ops = []
    for _ in range(nops):
        r = rng.random()
        a = rng.randrange(na)
        b = rng.randrange(nb)
        pos = led.get((a, b), 0)
        amt = None
        if r < 0.10:
            now += rng.choice([0, 1, 1, 60, 3600, 86400, YEAR // 12, rng.randrange(0, 10 ** 6)])
            ops.append([0, now])
            continue
        elif r < 0.32:
            k = 1
            amt = gen_amount(rng)
            led[(a, b)] = pos + amt if pos >= 0 else pos
        elif r < 0.46:
            k = 2
            amt = gen_amount(rng, pos if pos > 0 else None)
            if 0 < amt <= pos:
                led[(a, b)] = pos - amt
        elif r < 0.58:
            k = 3
            amt = gen_amount(rng)
            if pos <= 0:
                led[(a, b)] = pos - amt
        elif r < 0.68:
            k = 4
            amt = gen_amount(rng, -pos if pos < 0 else None)
            if pos < 0 and amt <= -pos:
                led[(a, b)] = pos + amt
        elif r < 0.73:
            k = 5
            led[(a, b)] = 0 if pos > 0 else pos
        elif r < 0.78:
            k = 6
            led[(a, b)] = 0 if pos < 0 else pos
        elif r < 0.81:
            k = 7
        elif r < 0.84 and liq_ops:
            k = 8
            amt = gen_amount(rng)
            led[(a, b)] = pos + amt
        elif r < 0.87 and liq_ops:
            k = 9
            amt = gen_amount(rng, pos if pos > 0 else None)
            led[(a, b)] = pos - amt
        elif r < 0.92:
            ops.append([10, b])
            continue
        elif r < 0.93 and loss_ops:
            ops.append([11, b, rng.choice([1, ONE, 1000 * ONE, rng.randrange(0, 10 ** 9) * ONE])])
            continue
        elif r < 0.95:
            ops.append([12, a, b])
            continue
        elif r < 0.96:
            ops.append([13, a, b])
            continue
        elif r < 0.98:
            ops.append([14, a])
            continue
        else:
            ops.append([15, b])
            continue
        if k in (5, 6, 7):
            ops.append([k, a, b, 0])
        else:
            bits = amt * ONE
            if frac_amounts and rng.random() < 0.3:
                bits += rng.randrange(0, ONE)
            ops.append([k, a, b, bits])
    return ops


def case_line(nb, na, pf, now, banks, ops):
    toks = [nb, na] + list(pf) + [now]
    for bk in banks:
        toks += bk
    toks.append(len(ops))
    for o in ops:
        toks += o
    return " ".join(map(str, toks))


def gen_case(rng, max_ops=30, **kw):
    nb = rng.choice([1, 2, 3])
    na = rng.choice([1, 2, 3, 4])
    now = rng.choice([1_700_000_000, 1_800_000_000 + rng.randrange(0, 10 ** 8), 1681989983, 1681989982])
    pf = [rng.randrange(2), fx(Fraction(rng.randrange(0, 200), 10000)), fx(Fraction(rng.randrange(0, 500), 10000))]
    bkw = {k: v for k, v in kw.items() if k in ("fresh", "limits", "tag", "sv", "emissions")}
    okw = {k: v for k, v in kw.items() if k in ("liq_ops", "loss_ops", "frac_amounts")}
    banks = [gen_bank(rng, now, **bkw) for _ in range(nb)]
    ops = gen_ops(rng, nb, na, rng.randrange(3, max_ops), now, **okw)
    return case_line(nb, na, pf, now, banks, ops)


# ---------------------------------------------------------------------------------------------
# parsing of case / output lines (for oracles)
BANK_TOKS = 18 + 20


def parse_case(line):
    t = list(map(int, line.split()))
    nb, na = t[0], t[1]
    pf = t[2:5]
    now = t[5]
    i = 6
    banks = []
    for _ in range(nb):
        f = t[i:i + BANK_TOKS]
        i += BANK_TOKS
        banks.append({"asv": f[0], "lsv": f[1], "tas": f[2], "tls": f[3], "ins": f[4], "grp": f[5], "prog": f[6],
                      "last_update": f[7], "dep_limit": f[8], "bor_limit": f[9], "tag": f[10], "decimals": f[11],
                      "flags": f[12], "em_rate": f[13], "em_rem": f[14], "lend_cnt": f[15], "bor_cnt": f[16],
                      "op_state": f[17], "ir": f[18:]})
    n = t[i]
    i += 1
    ops = []
    for _ in range(n):
        k = t[i]
        ln = {0: 2, 10: 2, 11: 3, 12: 3, 13: 3, 14: 2, 15: 2}.get(k, 4)
        ops.append(t[i:i + ln])
        i += ln
    return {"nb": nb, "na": na, "pf": pf, "now": now, "banks": banks, "ops": ops}


def parse_out(line):
    """[(res_tokens, bank_dump or None, acct_dump (list of slots) or None)]"""
    out = []
    for seg in line.split(" | "):
        res, bd, ad = [x.strip() for x in seg.split("#")]
        bank = None
        if bd != "-":
            f = list(map(int, bd.split()))
            bank = dict(zip(["asv", "lsv", "tas", "tls", "ins", "grp", "prog", "last_update", "em_rem", "lend_cnt", "bor_cnt"], f))
        acct = None
        if ad != "-" or True:
            acct = []
            if ad != "-":
                for s in ad.split(","):
                    g = list(map(int, s.split(":")))
                    acct.append(dict(zip(["slot", "bank", "tag", "a", "l", "em", "last"], g)))
        out.append((res.split(), bank, acct if ad != "-" or True else None))
    return out
