#!/usr/bin/env python3
"""Writes MANIFEST.json from the table below (kept next to the code so it cannot drift)."""
import json, os
VERIF = os.path.dirname(os.path.dirname(os.path.abspath(__file__)))
BASELINE = "cd /repo && cargo test --workspace --no-fail-fast --offline"
NOTE = ("Trusted base: Coq 8.16.1 kernel (full .vo build; no axioms declared, Print Assumptions allow-list empty); my translator "
        "(gen/*.py + `mfi consts`, regenerated from /repo on every run); extraction via ExtrOcamlBasic only + driver.ml; the Rust "
        "correspondence harness (path-dependency on /repo, on-chain profile flags). The theorem is about the hand-written Gallina "
        "model; the correspondence run (real code vs extracted model on the same cases) is what ties it to /repo.")
import importlib, sys
sys.path.insert(0, os.path.join(VERIF, "py"))
CLAIMED = {}
for _f in sorted(os.listdir(os.path.join(VERIF, "py", "props"))):
    if _f.startswith("c") and _f.endswith(".py"):
        _m = importlib.import_module("props." + _f[:-3])
        if getattr(_m, "MANIFEST", None):
            CLAIMED[_m.ID] = _m.MANIFEST
ALL = [f"C{i:02d}" for i in range(1, 21)]
PENDING_REASON = "not claimed yet: model/theorems for this property are still being built (see DESIGN.md status table)"

def main():
    checks = []
    for pid in ALL:
        if pid not in CLAIMED:
            continue
        c = CLAIMED[pid]
        checks.append({
            "property_id": pid,
            "quick_cmd": f"bin/check {pid} quick",
            "thorough_cmd": f"bin/check {pid} thorough",
            "evidence_file": f"evidence/{pid}.json",
            "replay_cmd_template": f"bin/check {pid} --replay {{path}}",
            "engine": "coq-model+correspondence",
            "level_claimed": {"category": "proof", "text": c["text"], "design_ref": c["design_ref"]},
            "level_note": c.get("note", NOTE),
            "technique": c["technique"],
        })
    m = {
        "version": 1,
        "setup_cmd": "bin/setup",
        "hooks": {"guard": "mrgnlabs_marginfi_v2_verif", "enable": "none needed: no hooks were added to /repo (every function the harness calls is already pub)",
                  "baseline_off_cmd": BASELINE, "source_commits": [], "add_only": True},
        "engines": [{"name": "coq-model+correspondence", "path": "coq/ harness/ py/",
                     "serves_properties": sorted(CLAIMED),
                     "kind_free_text": "Coq 8.16 model + theorems; regenerated constants/tables; Rust harness running the real code; extracted OCaml model; Python orchestration and oracles"}],
        "checks": checks,
        "not_applicable": [{"property_id": p, "reason": PENDING_REASON} for p in ALL if p not in CLAIMED],
        "notes": "See DESIGN.md. bin/check <id> quick|thorough; bin/check <id> --replay <file>.",
    }
    json.dump(m, open(os.path.join(VERIF, "MANIFEST.json"), "w"), indent=1)

if __name__ == "__main__":
    main()
