#!/usr/bin/env python3
"""Writes MANIFEST.json from the table below (kept next to the code so it cannot drift)."""
import json, os
VERIF = os.path.dirname(os.path.dirname(os.path.abspath(__file__)))
BASELINE = "cd /repo && cargo test --workspace --no-fail-fast --offline"
NOTE = ("Trusted base: Coq 8.16.1 kernel (full .vo build; no axioms declared, Print Assumptions allow-list empty); my translator "
        "(gen/*.py + `mfi consts`, regenerated from /repo on every run); extraction via ExtrOcamlBasic only + driver.ml; the Rust "
        "correspondence harness (path-dependency on /repo, on-chain profile flags). The theorem is about the hand-written Gallina "
        "model; the correspondence run (real code vs extracted model on the same cases) is what ties it to /repo.")
CLAIMED = {
    "C15": {
        "text": ("Kernel-checked theorems over the pause state machine for every operation sequence of any length "
                 "(induction + invariant), tied to the real PanicState methods by differential execution on generated "
                 "and boundary-directed schedules; property oracles evaluated on the implementation trace."),
        "design_ref": "DESIGN.md §7 C15",
        "technique": "Coq proof by invariant over op lists + model/implementation correspondence (extracted model vs real PanicState)",
    },
}
CLAIMED["C18"] = {
    "text": ("Kernel-checked theorems: for every configuration accepted by validate_seven_point (any number of points) and every "
             "utilisation bit pattern the base rate is defined, lies in [zero,hundred], is monotone and interpolates the configured "
             "points; borrow >= base, lend <= base on [0,1]; calc_interest_rate total for bounded non-negative fees; legacy curve "
             "defined/bounded/monotone on [0,1]. Tied to the real InterestRateConfig::validate / InterestRateCalc by differential "
             "execution with utilisations at every breakpoint +-2 ulp."),
    "design_ref": "DESIGN.md §7 C18",
    "technique": "Coq proof by induction over the point list + model/implementation correspondence (extracted model vs real calc_interest_rate)",
}
ALL = [f"C{i:02d}" for i in range(1, 21)]
PENDING_REASON = "not claimed yet: model/theorems for this property are still being built (see DESIGN.md status table)"

def main():
    checks = []
    for pid in ALL:
        if pid not in CLAIMED:
            continue
        c = CLAIMED[pid]
        checks.append({
            "property_id": pid,
            "quick_cmd": f"bin/check {pid} quick",
            "thorough_cmd": f"bin/check {pid} thorough",
            "evidence_file": f"evidence/{pid}.json",
            "replay_cmd_template": f"bin/check {pid} --replay {{path}}",
            "engine": "coq-model+correspondence",
            "level_claimed": {"category": "proof", "text": c["text"], "design_ref": c["design_ref"]},
            "level_note": c.get("note", NOTE),
            "technique": c["technique"],
        })
    m = {
        "version": 1,
        "setup_cmd": "bin/setup",
        "hooks": {"guard": "mrgnlabs_marginfi_v2_verif", "enable": "none needed: no hooks were added to /repo (every function the harness calls is already pub)",
                  "baseline_off_cmd": BASELINE, "source_commits": [], "add_only": True},
        "engines": [{"name": "coq-model+correspondence", "path": "coq/ harness/ py/",
                     "serves_properties": sorted(CLAIMED),
                     "kind_free_text": "Coq 8.16 model + theorems; regenerated constants/tables; Rust harness running the real code; extracted OCaml model; Python orchestration and oracles"}],
        "checks": checks,
        "not_applicable": [{"property_id": p, "reason": PENDING_REASON} for p in ALL if p not in CLAIMED],
        "notes": "See DESIGN.md. bin/check <id> quick|thorough; bin/check <id> --replay <file>.",
    }
    json.dump(m, open(os.path.join(VERIF, "MANIFEST.json"), "w"), indent=1)

if __name__ == "__main__":
    main()
