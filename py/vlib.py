"""vlib — shared machinery of /verif checks.

Pipeline of one check (see DESIGN.md §3):
  1. regenerate translator outputs (error table, Constants.v, tables) from /repo's working tree
  2. cargo build the harness (path-dependency on /repo => always the current tree)
  3. make the Coq closure of props/<id>.vo (kernel re-checks every theorem against regenerated files)
  4. gates: forbidden-token grep, Print Assumptions allow-list, pinned theorem names present
  5. correspondence: same case files through the real code (Rust harness) and the extracted model
  6. property oracles on the implementation outputs (exact integer arithmetic in Python)
  7. on any break: search for a failing input; report VIOLATION (with or without replay input)
"""
import fcntl, hashlib, json, os, random, re, shutil, subprocess, sys, time

VERIF = os.path.dirname(os.path.dirname(os.path.abspath(__file__)))
REPO = os.environ.get("VERIF_REPO", "/repo")
CACHE = os.path.join(VERIF, ".cache")
COQ = os.path.join(VERIF, "coq")
HARNESS = os.path.join(VERIF, "harness")
# one cargo target dir per repository path: cargo does not re-link the final binary when only the
# *path* of a path-dependency flips back and forth, so sharing a target dir between /repo and a
# scratch copy (VERIF_REPO) could leave a stale `mfi`.
TARGET_DIR = os.path.join(CACHE, "harness-target" if REPO == "/repo" else
                          "harness-target-" + hashlib.sha256(REPO.encode()).hexdigest()[:8])
MFI = os.path.join(TARGET_DIR, "debug", "mfi")
DRIVER_DIR = os.path.join(CACHE, "driver")
DRIVER = os.path.join(DRIVER_DIR, "driver")
WORK = os.path.join(CACHE, "work")
REPLAYS = os.path.join(VERIF, "replays")
EVIDENCE = os.path.join(VERIF, "evidence")

ENV = dict(os.environ)
ENV.update({"CARGO_NET_OFFLINE": "true", "CARGO_TARGET_DIR": TARGET_DIR})

ALLOWED_AXIOMS = set()  # names that may appear in Print Assumptions output (none needed so far)

FORBIDDEN = re.compile(
    r"\b(Admitted|admit|Axiom|Axioms|Parameter|Parameters|Conjecture|Conjectures|Hypothesis|Hypotheses|Variable|Variables"
    r"|Unset\s+Guard|bypass_check|Admit\s+Obligations|type-in-type|impredicative-set|Unset\s+Universe|Unset\s+Positivity)\b")


class Broken(Exception):
    """A proof obligation, generated file or correspondence no longer checks."""

    def __init__(self, what, detail=""):
        super().__init__(what)
        self.what = what
        self.detail = detail


def log(*a):
    print(*a, file=sys.stderr, flush=True)


def sh(cmd, cwd=None, timeout=None, env=None):
    t0 = time.time()
    p = subprocess.run(cmd, cwd=cwd, env=env or ENV, stdout=subprocess.PIPE, stderr=subprocess.STDOUT,
                       timeout=timeout, text=True, errors="replace")
    return p.returncode, p.stdout, time.time() - t0


class Lock:
    def __enter__(self):
        os.makedirs(CACHE, exist_ok=True)
        self.f = open(os.path.join(CACHE, "lock"), "w")
        fcntl.flock(self.f, fcntl.LOCK_EX)
        return self

    def __exit__(self, *a):
        fcntl.flock(self.f, fcntl.LOCK_UN)
        self.f.close()


# ------------------------------------------------------------------------------------------------
# in-Coq evaluation of sampled cases: the model's own definitions are run by the kernel's vm_compute (no extraction, no
# OCaml driver) and the integers they print are compared with the integers of the extracted model's output
def run_incoq(pid, suite, vsrc):
    """vsrc: a Coq source whose `Eval vm_compute in …` commands print one value per sampled case. Returns the list of
    integer lists, one per `=` answer."""
    import re
    d = os.path.join(CACHE, "incoq")
    os.makedirs(d, exist_ok=True)
    f = os.path.join(d, f"{pid}_{suite}.v")
    open(f, "w").write(vsrc)
    args = ["coqc", "-noglob", "-w", "-notation-overridden,-deprecated-hint-without-locality,-deprecated-instance-without-locality"]
    for sub in ("gen", "model", "lemmas"):
        args += ["-R", os.path.join(COQ, sub), "MF"]
    rc, out, dt = sh(args + [f], cwd=d, timeout=900)
    if rc != 0:
        raise Broken(f"incoq:{suite}", out[-3000:])
    answers = []
    for chunk in re.split(r"^\s*= ", out, flags=re.M)[1:]:
        body = chunk.split("\n     : ")[0]
        answers.append([int(x) for x in re.findall(r"-?\d+", body.replace("%Z", ""))])
    return answers


# ------------------------------------------------------------------------------------------------
# build steps

def build_harness():
    """translator (error table) + cargo build. Raises Broken if the harness no longer compiles
    against /repo (a renamed/removed item the model depends on)."""
    rc, out, dt = sh([sys.executable, os.path.join(VERIF, "gen", "gen_errs.py"),
                      os.path.join(HARNESS, "src", "gen_errs.rs")])
    if rc != 0:
        raise Broken("translator:gen_errs", out)
    tmpl = open(os.path.join(HARNESS, "Cargo.toml.in")).read().replace("@REPO@", REPO)
    ct = os.path.join(HARNESS, "Cargo.toml")
    if not os.path.exists(ct) or open(ct).read() != tmpl:
        open(ct, "w").write(tmpl)
    lock = os.path.join(HARNESS, "Cargo.lock")
    if not os.path.exists(lock):
        shutil.copy(os.path.join(REPO, "Cargo.lock"), lock)
    # marginfi is a cdylib+lib, so its rlib has no hash in the file name: two package ids (two
    # repository paths) in one target dir would overwrite each other's libmarginfi.rlib while cargo
    # believes both are fresh. One target dir per repository path avoids it; this guard removes
    # leftovers of other paths should they ever appear.
    fpd = os.path.join(TARGET_DIR, "debug", ".fingerprint")
    if os.path.isdir(fpd):
        libs = [d for d in os.listdir(fpd) if re.match(r"marginfi-[0-9a-f]{16}$", d)
                and any(f.startswith("lib-") for f in os.listdir(os.path.join(fpd, d)))]
        if len(libs) > 1:
            for d in os.listdir(fpd):
                if d.startswith(("marginfi-", "marginfi_type_crate-", "marginfi-type-crate-", "mfi-harness-")):
                    shutil.rmtree(os.path.join(fpd, d), ignore_errors=True)
    rc, out, dt = sh(["cargo", "build", "--offline"], cwd=HARNESS, timeout=3000)  # CARGO_TARGET_DIR from ENV
    if rc != 0:
        raise Broken("harness:cargo-build", out[-6000:])
    return dt


def gen_constants():
    os.makedirs(os.path.join(COQ, "gen"), exist_ok=True)
    dst = os.path.join(COQ, "gen", "Constants.v")
    tmp = dst + ".new"
    rc, out, dt = sh([MFI, "consts", tmp])
    if rc != 0:
        raise Broken("translator:consts", out)
    if not os.path.exists(dst) or open(dst).read() != open(tmp).read():
        os.replace(tmp, dst)
    else:
        os.remove(tmp)


def run_generators():
    """All translator steps that produce coq/gen/*.v ."""
    gen_constants()
    for script in sorted(os.listdir(os.path.join(VERIF, "gen"))):
        if script.startswith("coqgen_") and script.endswith(".py"):
            rc, out, dt = sh([sys.executable, os.path.join(VERIF, "gen", script), os.path.join(COQ, "gen")])
            if rc != 0:
                raise Broken("translator:" + script, out[-4000:])


def coq_make(targets, timeout=2400):
    rc, out, dt = sh(["sh", os.path.join(COQ, "regen.sh")])
    if rc != 0:
        raise Broken("coq:regen", out)
    rc, out, dt = sh(["make", "-j16"] + targets, cwd=COQ, timeout=timeout)
    return rc, out, dt


def grep_gate():
    bad = []
    for sub in ("model", "lemmas", "props", "extract", "gen"):
        d = os.path.join(COQ, sub)
        for fn in sorted(os.listdir(d)):
            if not fn.endswith(".v"):
                continue
            src = open(os.path.join(d, fn)).read()
            src_nc = strip_coq_comments(src)
            for m in FORBIDDEN.finditer(src_nc):
                bad.append(f"{sub}/{fn}: {m.group(0)}")
    proj = open(os.path.join(COQ, "_CoqProject.in")).read()
    if "type-in-type" in proj or "impredicative" in proj:
        bad.append("_CoqProject.in: forbidden flag")
    return bad


def strip_coq_comments(s):
    out = []
    depth = 0
    i = 0
    while i < len(s):
        if s.startswith("(*", i):
            depth += 1
            i += 2
        elif s.startswith("*)", i) and depth > 0:
            depth -= 1
            i += 2
        else:
            if depth == 0:
                out.append(s[i])
            i += 1
    return "".join(out)


def prove(prop_id, theorems):
    """Build props/<id>.vo from the current generated files; check gates.
    Returns dict(obligations, discharged, assumptions, wall_s, cmd). Raises Broken."""
    target = f"props/{prop_id}.vo"
    # force re-check of the property file itself so that Print Assumptions output is captured
    vo = os.path.join(COQ, target)
    if os.path.exists(vo):
        os.remove(vo)
    rc, out, dt = coq_make([target])
    if rc != 0:
        m = re.search(r'File "\./([^"]+)", line (\d+)', out)
        where = f"{m.group(1)}:{m.group(2)}" if m else "?"
        raise Broken(f"coq:{target} (failed at {where})", out[-6000:])
    bad = grep_gate()
    if bad:
        raise Broken("coq:forbidden-token", "\n".join(bad))
    src = strip_coq_comments(open(os.path.join(COQ, "props", prop_id + ".v")).read())
    declared = re.findall(r"\b(?:Theorem|Lemma|Corollary)\s+([A-Za-z0-9_']+)", src)
    missing = [t for t in theorems if t not in declared]
    if missing:
        raise Broken("coq:pinned-theorem-missing", ", ".join(missing))
    printed = re.findall(r"Print Assumptions\s+([A-Za-z0-9_']+)", src)
    unprinted = [t for t in theorems if t not in printed]
    if unprinted:
        raise Broken("coq:no-Print-Assumptions", ", ".join(unprinted))
    # parse assumptions output
    closed = out.count("Closed under the global context")
    axioms = []
    for m in re.finditer(r"Axioms:\n((?:.+\n)+?)(?=\S|\Z)", out):
        for l in m.group(1).splitlines():
            mm = re.match(r"^([A-Za-z0-9_.']+)\s*:", l)
            if mm:
                axioms.append(mm.group(1))
    foreign = [a for a in axioms if a not in ALLOWED_AXIOMS]
    if foreign:
        raise Broken("coq:axiom-outside-allow-list", ", ".join(sorted(set(foreign))))
    if closed + (1 if axioms else 0) < len(printed) and not axioms:
        raise Broken("coq:assumption-output-missing", out[-2000:])
    return {"obligations": len(theorems), "discharged": len(theorems), "theorems": theorems,
            "assumptions": sorted(set(axioms)) or ["Closed under the global context"],
            "wall_s": round(dt, 1),
            "cmd": f"make -C coq -j16 {target}  (coqc 8.16.1, full .vo build)"}


def build_driver():
    """Separate Extraction writes one <Module>.ml/.mli per Coq file next to coq/Makefile; they are
    copied with the hand-written drv_*.ml into .cache/driver and compiled in dependency order."""
    stamp_ex = os.path.join(COQ, "extract", "Extract.vo")
    rc, out, dt = coq_make(["extract/Extract.vo"])
    if rc != 0:
        raise Broken("coq:extract/Extract.vo", out[-4000:])
    gen = sorted(f for f in os.listdir(COQ) if f.endswith((".ml", ".mli")))
    if not gen:
        # generated files were cleaned while Extract.vo is up to date: force re-extraction
        os.remove(stamp_ex)
        rc, out, dt = coq_make(["extract/Extract.vo"])
        if rc != 0:
            raise Broken("coq:extract/Extract.vo", out[-4000:])
        gen = sorted(f for f in os.listdir(COQ) if f.endswith((".ml", ".mli")))
    os.makedirs(DRIVER_DIR, exist_ok=True)
    ex = os.path.join(COQ, "extract")
    suites = sorted(f for f in os.listdir(ex) if f.startswith("drv_") and f.endswith(".ml") and f != "drv_common.ml")
    hand = ["drv_common.ml"] + suites + ["driver.ml"]
    srcs = [os.path.join(COQ, f) for f in gen] + [os.path.join(ex, f) for f in hand]
    h = hashlib.sha256(b"".join(open(f, "rb").read() for f in srcs)).hexdigest()
    stamp = os.path.join(DRIVER_DIR, "stamp")
    if os.path.exists(DRIVER) and os.path.exists(stamp) and open(stamp).read() == h:
        return
    for f in os.listdir(DRIVER_DIR):
        if f.endswith((".ml", ".mli", ".cmi", ".cmx", ".o")):
            os.remove(os.path.join(DRIVER_DIR, f))
    for f in srcs:
        shutil.copy(f, DRIVER_DIR)
    rc, out, dt = sh(["ocamlfind", "ocamldep", "-sort"] + gen, cwd=DRIVER_DIR, timeout=300)
    if rc != 0:
        raise Broken("extract:ocamldep", out[-2000:])
    order = out.split() + hand
    rc, out, dt = sh(["ocamlfind", "ocamlopt", "-package", "zarith", "-linkpkg", "-w", "-a", "-inline", "100"]
                     + order + ["-o", "driver"], cwd=DRIVER_DIR, timeout=1200)
    if rc != 0:
        raise Broken("extract:ocaml-compile", out[-4000:])
    open(stamp, "w").write(h)


# ------------------------------------------------------------------------------------------------
# correspondence

def run_suite(suite, lines, tag):
    """Run `lines` through implementation and model. Returns (impl_out, model_out)."""
    os.makedirs(WORK, exist_ok=True)
    cases = os.path.join(WORK, f"{tag}.{suite}.cases")
    io = os.path.join(WORK, f"{tag}.{suite}.impl")
    mo = os.path.join(WORK, f"{tag}.{suite}.model")
    with open(cases, "w") as f:
        for l in lines:
            f.write(l + "\n")
    # shard for parallelism
    n = len(lines)
    shards = min(16, max(1, n // 200))
    if shards == 1:
        p1 = subprocess.Popen([MFI, "run", suite, cases, io], stdout=subprocess.DEVNULL, stderr=subprocess.PIPE, env=ENV)
        p2 = subprocess.Popen([DRIVER, suite, cases, mo], stdout=subprocess.DEVNULL, stderr=subprocess.PIPE, env=ENV)
        e1 = p1.communicate()[1]
        e2 = p2.communicate()[1]
        if p1.returncode != 0:
            raise Broken(f"harness:run:{suite}", e1.decode(errors="replace")[-3000:])
        if p2.returncode != 0:
            raise Broken(f"driver:run:{suite}", e2.decode(errors="replace")[-3000:])
        return open(io).read().splitlines(), open(mo).read().splitlines()
    procs = []
    per = (n + shards - 1) // shards
    for k in range(shards):
        part = lines[k * per:(k + 1) * per]
        if not part:
            continue
        cf = f"{cases}.{k}"
        with open(cf, "w") as f:
            f.write("\n".join(part) + "\n")
        procs.append((k, cf,
                      subprocess.Popen([MFI, "run", suite, cf, f"{io}.{k}"], stdout=subprocess.DEVNULL, stderr=subprocess.PIPE, env=ENV),
                      subprocess.Popen([DRIVER, suite, cf, f"{mo}.{k}"], stdout=subprocess.DEVNULL, stderr=subprocess.PIPE, env=ENV)))
    impl, model = [], []
    for k, cf, p1, p2 in procs:
        e1 = p1.communicate()[1]
        e2 = p2.communicate()[1]
        if p1.returncode != 0:
            raise Broken(f"harness:run:{suite}", e1.decode(errors="replace")[-3000:])
        if p2.returncode != 0:
            raise Broken(f"driver:run:{suite}", e2.decode(errors="replace")[-3000:])
        impl += open(f"{io}.{k}").read().splitlines()
        model += open(f"{mo}.{k}").read().splitlines()
        for f in (cf, f"{io}.{k}", f"{mo}.{k}"):
            os.remove(f)
    return impl, model


def run_impl_only(suite, lines, tag):
    os.makedirs(WORK, exist_ok=True)
    cases = os.path.join(WORK, f"{tag}.{suite}.cases")
    io = os.path.join(WORK, f"{tag}.{suite}.impl")
    with open(cases, "w") as f:
        f.write("\n".join(lines) + "\n")
    rc, out, dt = sh([MFI, "run", suite, cases, io])
    if rc != 0:
        raise Broken(f"harness:run:{suite}", out[-3000:])
    return open(io).read().splitlines()


def run_model_only(suite, lines, tag):
    os.makedirs(WORK, exist_ok=True)
    cases = os.path.join(WORK, f"{tag}.{suite}.mcases")
    mo = os.path.join(WORK, f"{tag}.{suite}.monly")
    with open(cases, "w") as f:
        f.write("\n".join(lines) + "\n")
    rc, out, dt = sh([DRIVER, suite, cases, mo])
    if rc != 0:
        raise Broken(f"driver:run:{suite}", out[-3000:])
    return open(mo).read().splitlines()


def diff(lines, impl, model):
    """indices where implementation and model disagree"""
    if len(impl) != len(lines) or len(model) != len(lines):
        raise Broken("correspondence:line-count", f"cases={len(lines)} impl={len(impl)} model={len(model)}")
    return [i for i in range(len(lines)) if impl[i] != model[i]]


# ------------------------------------------------------------------------------------------------
# reporting

def write_replay(prop_id, name, payload):
    os.makedirs(REPLAYS, exist_ok=True)
    h = hashlib.sha256(json.dumps(payload, sort_keys=True, default=str).encode()).hexdigest()[:12]
    path = os.path.join(REPLAYS, f"{prop_id}-{name}-{h}.json")
    with open(path, "w") as f:
        json.dump(payload, f, indent=1, default=str)
    return os.path.relpath(path, VERIF)


def write_evidence(prop_id, tier, seed, coverage, assumptions, wall_s, violations):
    os.makedirs(EVIDENCE, exist_ok=True)
    ev = {"property_id": prop_id, "tier": tier, "seed": seed, "level": "proof", "coverage": coverage,
          "assumptions": assumptions, "wall_s": round(wall_s, 1), "violations": violations}
    with open(os.path.join(EVIDENCE, f"{prop_id}.json"), "w") as f:
        json.dump(ev, f, indent=1, default=str)


def load_known_findings():
    p = os.path.join(VERIF, "known_findings.json")
    if not os.path.exists(p):
        return {"findings": [], "fixed": []}
    return json.load(open(p))


TRUSTED_BASE = [
    "Coq 8.16.1 kernel (coqc, full .vo build; vm_compute used inside finite-table proofs; no native_compute)",
    "no axioms declared; Print Assumptions of every pinned theorem must be 'Closed under the global context' or in the allow-list",
    "translator: gen/gen_errs.py + `mfi consts` (constants/error codes dumped from the compiled /repo crates) + gen/coqgen_*.py",
    "extraction: ExtrOcamlBasic directives only (bool, option, unit, list, prod, sumbool, sumor), no Extract Constant; OCaml 4.13.1; driver.ml (parsing/printing via zarith)",
    "correspondence harness /verif/harness (Rust, path-dependency on /repo, on-chain profile: overflow-checks on, debug-assertions off)",
]
