#!/usr/bin/env python3
"""check <Cnn> quick|thorough   |   check <Cnn> --replay <file>"""
import importlib, json, os, random, sys, time, traceback
sys.path.insert(0, os.path.dirname(os.path.abspath(__file__)))
import vlib
from vlib import Broken, log


def main():
    if len(sys.argv) < 3:
        print(__doc__)
        return 2
    pid = sys.argv[1]
    mod = importlib.import_module("props." + pid.lower())
    if sys.argv[2] == "--replay":
        with vlib.Lock():
            return replay(pid, mod, sys.argv[3])
    tier = sys.argv[2]
    if os.environ.get("VERIF_TIER") in ("quick", "thorough") and tier not in ("quick", "thorough"):
        tier = os.environ["VERIF_TIER"]
    seed = int(os.environ.get("VERIF_SEED", "1"))
    with vlib.Lock():
        return run(pid, mod, tier, seed)


def oracle_all(mod, suite, lines, impl):
    viol = []
    for i, (c, o) in enumerate(zip(lines, impl)):
        try:
            v = mod.oracle(suite, c, o)
        except Exception as e:  # an oracle that cannot parse the output is a broken tie, not a pass
            v = {"key": "oracle-error", "what": f"oracle raised {e!r}"}
        if v:
            v.update({"suite": suite, "case": c, "impl": o})
            viol.append(v)
    return viol


def run(pid, mod, tier, seed):
    t0 = time.time()
    rng = random.Random(seed * 1000003 + sum(map(ord, pid)))
    broken = []       # proof / tie obligations that no longer check
    violations = []   # concrete failing inputs (dicts)
    cov = {"trusted_base": list(vlib.TRUSTED_BASE), "suites": {}, "samples": []}
    proof = None
    impl_ok = True
    gen_ok = True
    try:
        dt = vlib.build_harness()
        cov["harness_build_s"] = round(dt, 1)
    except Broken as b:
        broken.append(b)
        impl_ok = False
    if impl_ok:
        try:
            vlib.run_generators()
        except Broken as b:
            # a translator that no longer understands the source: the generated model files are stale, so nothing is
            # proved or corresponded in this run - but the implementation still runs, and the oracles still search it
            broken.append(b)
            gen_ok = False
    if impl_ok:
        driver_ok = gen_ok
        if gen_ok:
            try:
                proof = vlib.prove(pid, mod.THEOREMS)
            except Broken as b:
                broken.append(b)
            try:
                vlib.build_driver()
            except Broken as b:
                broken.append(b)
                driver_ok = False
        evals = 0
        nontriv = set()
        try:
            specs = list(mod.suites(rng, tier))
        except Exception as e:          # a suite generator that needs the (stale) generated tables
            if gen_ok:
                raise
            specs = []
            broken.append(Broken("suites", f"suite generation failed after a translator failure: {e!r}"))
        for spec in specs:
            suite, lines = spec["suite"], spec["lines"]
            if spec.get("model_only"):
                # a statistic computed by the extracted model alone (e.g. how many generated worlds satisfy the
                # hypotheses of the theorems): reported in the evidence, never a source of violations
                if driver_ok:
                    try:
                        mo = vlib.run_model_only(suite, lines, pid)
                        cov["suites"][spec.get("name", suite)] = {
                            "cases": len(lines), "model_only": True,
                            "satisfied": sum(1 for x in mo if spec["count"](x)),
                            "distribution": spec.get("distribution", {})}
                    except Broken as b:
                        broken.append(b)
                continue
            try:
                if driver_ok and not spec.get("impl_only"):
                    impl, model = vlib.run_suite(suite, lines, pid)
                    bad = vlib.diff(lines, impl, model)
                else:
                    impl = vlib.run_impl_only(suite, lines, pid)
                    model, bad = None, []
            except Broken as b:
                broken.append(b)
                continue
            evals += len(lines)
            nt = [i for i in range(len(lines)) if mod.nontrivial(suite, lines[i], impl[i])]
            for i in nt:
                nontriv.add((suite, lines[i]))
            cov["suites"][spec.get("name", suite)] = {
                "cases": len(lines), "nontrivial": len(nt), "disagreements": len(bad),
                "distribution": spec.get("distribution", {})}
            if lines:
                k = nt[0] if nt else 0
                cov["samples"].append({"suite": suite, "case": lines[k][:400], "impl": impl[k][:400],
                                       "model": (model[k][:400] if model else None)})
            if bad:
                i = bad[0]
                broken.append(Broken(f"correspondence:{suite}",
                                     json.dumps({"case": lines[i], "impl": impl[i], "model": model[i],
                                                 "n_disagreements": len(bad)})))
            violations += oracle_all(mod, suite, lines, impl)
            if spec.get("incoq") and model is not None and gen_ok:
                # the same sampled cases evaluated INSIDE Coq (vm_compute over the model's own definitions): checks the
                # extraction and the hand-written OCaml driver glue against the kernel's evaluation
                ic = spec["incoq"]
                k = min(ic["sample"], len(lines))
                try:
                    got = vlib.run_incoq(pid, suite, ic["to_v"](lines[:k]))
                    want = [ic["ints"](m) for m in model[:k]]
                    badc = [i for i in range(k) if i >= len(got) or got[i] != want[i]]
                    cov["suites"][spec.get("name", suite)]["evaluated_inside_coq"] = {"cases": k, "disagreements": len(badc)}
                    if badc:
                        i = badc[0]
                        broken.append(Broken(f"incoq:{suite}", json.dumps({"case": lines[i], "extracted_model": model[i],
                                                                            "vm_compute": got[i] if i < len(got) else None})))
                except Broken as b:
                    broken.append(b)
        cov["evaluations"] = evals
        cov["distinct_nontrivial"] = len(nontriv)
        cov["traces_validated_against_impl"] = evals
        cov["rule"] = mod.RULE
        # a broken obligation is not yet a violation: search the implementation for a failing input
        if broken and not violations:
            log(f"[{pid}] obligation broken ({broken[0].what}); searching for a failing input")
            try:
                for spec in mod.suites(rng, "search"):
                    impl = vlib.run_impl_only(spec["suite"], spec["lines"], pid + ".search")
                    violations += oracle_all(mod, spec["suite"], spec["lines"], impl)
                    if violations:
                        break
            except Broken as b:
                broken.append(b)
    if proof:
        cov.update({"obligations": proof["obligations"], "discharged": proof["discharged"],
                    "checker_cmd": proof["cmd"], "theorems": proof["theorems"],
                    "print_assumptions": proof["assumptions"], "coq_wall_s": proof["wall_s"]})
    else:
        cov.update({"obligations_attempted": len(mod.THEOREMS), "obligations_discharged": 0})
    cov.setdefault("evaluations", 0)
    cov.setdefault("distinct_nontrivial", 0)
    cov["exhaustive"] = False
    cov["observations"] = getattr(mod, "OBSERVATIONS", [])

    # classify
    known = vlib.load_known_findings()
    known_keys = {f["key"]: f for f in known.get("findings", []) if f["property"] == pid}
    rc = 0
    reported = set()
    new_viol = 0
    for v in violations:
        if v["key"] in known_keys:
            if v["key"] not in reported:
                print(f"KNOWN-FINDING: property={pid} {known_keys[v['key']]['what']}")
                reported.add(v["key"])
            continue
        if ("V", v["key"]) in reported:
            continue
        reported.add(("V", v["key"]))
        new_viol += 1
        path = vlib.write_replay(pid, "input", v)
        print(f"VIOLATION property={pid} replay={path}")
        rc = 1
    if broken and new_viol == 0:
        # broken obligation(s) and no (new) failing input found
        explained = bool(violations) and all(v["key"] in known_keys for v in violations) and \
            all(getattr(mod, "broken_explained_by_known", lambda b, ks: False)(b, set(known_keys)) for b in broken)
        if not explained:
            payload = {"property": pid, "no_failing_input_found": True,
                       "broken": [{"what": b.what, "detail": b.detail[-3000:]} for b in broken]}
            path = vlib.write_replay(pid, "obligation", payload)
            print(f"VIOLATION property={pid} replay={path} no-failing-input-found")
            rc = 1
    cov["broken_obligations"] = [b.what for b in broken]
    vlib.write_evidence(pid, tier if tier in ("quick", "thorough") else "quick", seed, cov,
                        getattr(mod, "ASSUMPTIONS", []), time.time() - t0, new_viol + (1 if rc and not new_viol else 0))
    log(f"[{pid}] tier={tier} rc={rc} wall={time.time()-t0:.1f}s evals={cov['evaluations']} "
        f"broken={[b.what for b in broken]}")
    return rc


def replay(pid, mod, path):
    payload = json.load(open(path))
    if payload.get("no_failing_input_found"):
        print("replay names broken obligations only:")
        for b in payload["broken"]:
            print(" -", b["what"])
        return 1
    vlib.build_harness()
    impl = vlib.run_impl_only(payload["suite"], [payload["case"]], pid + ".replay")
    v = mod.oracle(payload["suite"], payload["case"], impl[0])
    print("case :", payload["case"])
    print("impl :", impl[0])
    if v:
        print(f"VIOLATION property={pid} replay={path}")
        print("what :", v["what"])
        return 1
    print("property holds on this input now")
    return 0


if __name__ == "__main__":
    sys.exit(main())
