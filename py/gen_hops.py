"""Generators / parsers for the level-C `hops` suite: real instruction handlers in the sim runtime
(shared by C01 C02 C04 C05 C06 C07 C16 C17 C19)."""
from fractions import Fraction
import gen_bank as G

ONE = G.ONE
U64_MAX = G.U64_MAX
OPN = {0: "clock", 1: "deposit", 2: "withdraw", 3: "borrow", 4: "repay", 7: "close_balance", 10: "accrue",
       16: "collect_fees", 17: "liquidate", 18: "bankruptcy", 19: "set_price",
       30: "fixture_risk_admin", 31: "fixture_bank_flags",
       32: "collect_fees_foreign_ata", 33: "fixture_account_flags", 34: "borrow_without_risk_accounts", 35: "withdraw_without_risk_accounts",
       36: "close_bank_probe", 37: "liquidate_without_risk_accounts", 38: "fixture_pending_fee_change",
       39: "rotate_global_fee_wallet", 40: "collect_fees_previous_wallet_ata"}
HB_EXTRA = 13  # tokens after the 38 bankops tokens, before e-mode entries


def fxr(x):
    return int(Fraction(x) * ONE)


def gen_hbank(rng, now, kind="mixed"):
    toks = G.gen_bank(rng, now, fresh=True, limits="mixed" if rng.random() < 0.4 else "none",
                      tag=rng.choice([0, 0, 0, 0, 1, 2]) if kind == "mixed" else 0,
                      sv="mixed" if rng.random() < 0.5 else "one", emissions=False)
    toks[4] = toks[5] = toks[6] = 0            # fee buckets start empty (vault starts empty)
    if toks[0] < ONE // 1000 or toks[0] > 100 * ONE:
        toks[0] = ONE
    toks[11] = rng.choice([0, 2, 6, 6, 6, 8, 9])   # decimals
    toks[12] = rng.choice([0, 0, 0, 0, 16, 4, 8, 32, 48])      # flags
    toks[7] = now                                    # last_update
    toks[17] = rng.choice([1, 1, 1, 1, 1, 1, 1, 1, 1, 2, 0]) if kind == "mixed" else 1   # op state
    awi = Fraction(rng.choice([0, 30, 50, 65, 80, 90, 100]), 100)
    awm = min(Fraction(2), awi + Fraction(rng.choice([0, 0, 5, 10, 20]), 100))
    lwi = Fraction(rng.choice([100, 100, 110, 125, 150]), 100)
    lwm = max(Fraction(1), lwi - Fraction(rng.choice([0, 0, 5, 10]), 100))
    tier = rng.choice([0, 0, 0, 0, 0, 1]) if kind == "mixed" else rng.choice([0, 0, 0, 0, 0, 0, 0, 1])
    if tier == 1:
        awi = awm = Fraction(0)
    tavil = rng.choice([0, 0, 0, 10 ** rng.randrange(0, 7)])
    price = rng.choice([ONE, ONE, 2 * ONE, ONE // 2, 100 * ONE, 25 * ONE + 12345, fxr(Fraction(rng.randrange(1, 10 ** 6), 1000))])
    tokprog = rng.choice([0, 0, 0, 1, 2])
    bps = rng.choice([0, 1, 10, 100, 500]) if tokprog == 2 else 0
    mx = rng.choice([0, 5, 10 ** 4, 10 ** 9, U64_MAX]) if tokprog == 2 else 0
    orig = rng.choice([0, 0, 0, fxr(Fraction(1, 100)), fxr(Fraction(1, 1000))])
    etag = rng.choice([0, 0, 0, 1, 2, 3])
    n_em = rng.choice([0, 0, 0, 1, 2])
    em = []
    for k in range(n_em):
        tag = rng.choice([1, 2, 3])
        if tag in [e[0] for e in em]:
            continue
        wi = Fraction(rng.choice([50, 70, 85, 90]), 100)
        wm = min(Fraction(99, 100), wi + Fraction(rng.choice([0, 5]), 100))
        em.append([tag, rng.choice([0, 1]), fxr(wi), fxr(wm)])
    em.sort()
    extra = [fxr(awi), fxr(awm), fxr(lwi), fxr(lwm), tier, tavil, price, tokprog, bps, mx, orig, etag, len(em)]
    for e in em:
        extra += e
    return toks + extra, {"dec": toks[11], "price": price, "awi": awi, "lwi": lwi, "tag": toks[10], "tier": tier}


AMT_POS = {1: 3, 2: 3, 3: 3, 4: 3, 17: 5, 34: 3, 35: 3, 37: 5}


def clamp_op(o):
    o = list(o)
    i = AMT_POS.get(o[0])
    if i is not None:
        o[i] = max(0, min(int(o[i]), 1 << 61))
    if o[0] == 19:
        o[2] = max(0, min(int(o[2]), 1 << 100))
    return o


def gen_case_random(rng, max_ops=26, kind="mixed"):
    nb = rng.choice([2, 2, 3])
    na = rng.choice([2, 3, 4])
    now = 1_700_000_000 + rng.randrange(0, 10 ** 7)
    pf = [rng.randrange(2), G.fx(Fraction(rng.randrange(0, 200), 10000)), G.fx(Fraction(rng.randrange(0, 500), 10000))]
    banks, info = [], []
    for _ in range(nb):
        t, i = gen_hbank(rng, now, kind)
        banks.append(t)
        info.append(i)
    ops = []
    led = {}     # (a,b) -> signed native amount (approx)

    def usd(b, amt):
        return Fraction(amt * info[b]["price"], ONE * 10 ** info[b]["dec"])

    def amt_for(b, value):
        return max(1, int(value * 10 ** info[b]["dec"] * ONE / max(1, info[b]["price"])))

    nops = rng.randrange(6, max_ops)
    # opening deposits
    for a in range(na):
        if rng.random() < 0.85:
            b = rng.randrange(nb)
            amt = rng.choice([10 ** 3, 10 ** 6, 10 ** 9, 10 ** 12, rng.randrange(1, 10 ** 10)])
            ops.append([1, a, b, amt, 0])
            led[(a, b)] = led.get((a, b), 0) + amt
    while len(ops) < nops:
        r = rng.random()
        a = rng.randrange(na)
        b = rng.randrange(nb)
        pos = led.get((a, b), 0)
        if r < 0.08:
            now += rng.choice([0, 1, 60, 3600, 86400, G.YEAR // 12, rng.randrange(0, 10 ** 6)])
            ops.append([0, now])
        elif r < 0.22:
            amt = G.gen_amount(rng)
            amt = min(amt, 1 << 61)
            ops.append([1, a, b, amt, 1 if rng.random() < 0.25 else 0])
            if pos >= 0:
                led[(a, b)] = pos + amt
        elif r < 0.36:
            allf = 1 if rng.random() < 0.3 else 0
            amt = G.gen_amount(rng, pos if pos > 0 else None)
            ops.append([2, a, b, min(amt, 1 << 61), allf])
            if pos > 0:
                led[(a, b)] = 0 if allf else max(0, pos - amt)
        elif r < 0.56:
            # borrow near the collateral boundary
            coll = sum(usd(bb, v) * info[bb]["awi"] for (aa, bb), v in led.items() if aa == a and v > 0)
            if coll > 0 and rng.random() < 0.8:
                f = rng.choice([Fraction(1, 2), Fraction(9, 10), Fraction(99, 100), Fraction(1), Fraction(101, 100), Fraction(3, 2)])
                amt = amt_for(b, coll / info[b]["lwi"] * f)
            else:
                amt = G.gen_amount(rng)
            amt = min(amt, 1 << 61)
            ops.append([3, a, b, amt])
            if pos <= 0:
                led[(a, b)] = pos - amt
        elif r < 0.68:
            allf = 1 if rng.random() < 0.35 else 0
            amt = G.gen_amount(rng, -pos if pos < 0 else None)
            ops.append([4, a, b, min(amt, 1 << 61), allf])
            if pos < 0:
                led[(a, b)] = 0 if allf else min(0, pos + amt)
        elif r < 0.71:
            ops.append([7, a, b])
        elif r < 0.77:
            ops.append([10, b])
        elif r < 0.82:
            ops.append([16, b])
        elif r < 0.88:
            f = rng.choice([Fraction(1, 2), Fraction(3, 4), Fraction(9, 10), Fraction(11, 10), Fraction(2), Fraction(1, 10), Fraction(0)])
            newp = int(info[b]["price"] * f)
            info[b]["price"] = max(newp, 0) if rng.random() < 0.1 else max(newp, 1)
            ops.append([19, b, info[b]["price"]])
        elif r < 0.96:
            # liquidation: pick a liquidatee with debt, asset bank where it has collateral
            debtors = [(aa, bb) for (aa, bb), v in led.items() if v < 0]
            if debtors:
                e, lb = rng.choice(debtors)
                abs_ = [bb for (aa, bb), v in led.items() if aa == e and v > 0]
                ab = rng.choice(abs_) if abs_ else rng.randrange(nb)
                liqor = rng.choice([x for x in range(na) if x != e]) if rng.random() < 0.93 else e   # sometimes itself: refused (AccountBorrowFailed)
                have = led.get((e, ab), 0)
                have = max(0, have)
                amt = rng.choice([1, max(1, have // 10), max(1, have // 2), max(1, have), have + 1, G.gen_amount(rng)])
                ops.append([17, liqor, e, ab, lb, min(amt, 1 << 61)])
            else:
                ops.append([10, b])
        else:
            debtors = [(aa, bb) for (aa, bb), v in led.items() if v < 0]
            if debtors and rng.random() < 0.8:
                e, lb = rng.choice(debtors)
                ops.append([18, e, lb])
            else:
                ops.append([18, a, b])
    toks = [nb, na] + pf + [now if False else banks[0][7]]
    for bk in banks:
        toks += bk
    toks.append(len(ops))
    for o in ops:
        toks += clamp_op(o)
    return " ".join(map(str, toks))


def gen_case(rng, max_ops=26, kind="mixed"):
    r = rng.random()
    if r < 0.3:
        line = gen_case_random(rng, max_ops, kind)
    elif r < 0.34:
        line = gen_close_case(rng)
    elif r < 0.37:
        line = gen_close_balance_case(rng)
    else:
        line = gen_case_scenario(rng, max_ops)
    return with_pending_fee_change(rng, line)


def with_pending_fee_change(rng, line, p=0.6):
    """Token-2022 mints with a transfer fee may carry a PENDING fee change (two schedules) while the clock epoch sits just
    before, at, or after the epoch in which the newer schedule starts.  Fixture op 38 (one per fee bank, all with the same
    newer-epoch and clock epoch) is inserted at the start of the history or at a random later position; the bank's
    configured (bps, max) is the NEWER schedule, the older one is drawn here."""
    c = parse_case(line)
    fee_banks = [k for k, b in enumerate(c["banks"]) if b["tokprog"] == 2]
    if not fee_banks or rng.random() >= p:
        return line
    e_new = rng.choice([1, 2, 7, 600])
    cur = rng.choice([e_new - 1, e_new, e_new, e_new, e_new + 1, e_new + 50])
    ops = [list(o) for o in c["ops"]]
    pos = 0 if rng.random() < 0.7 else rng.randrange(0, len(ops) + 1)
    fix = []
    for k in fee_banks:
        b = c["banks"][k]
        old_bps = rng.choice([0, 0, 1, 10, 100, 500, 1000])
        old_max = rng.choice([0, 5, 10 ** 4, 10 ** 9, U64_MAX])
        fix.append([38, k, old_bps, old_max, b["bps"], b["maxfee"], e_new, cur])
    ops[pos:pos] = fix
    t = line.split()
    head = t[:c["ops_index"]]
    out = head + [str(len(ops))]
    for o in ops:
        out += [str(x) for x in o]
    return " ".join(out)


def gen_close_balance_case(rng):
    """lending_account_close_balance that SUCCEEDS after time has passed on a bank that earns interest: a lender, a borrower
    who keeps the bank's share values moving, and a third account whose position is emptied to dust by an exact partial
    withdrawal (or an exact partial repayment) and then closed after a clock advance"""
    nb, na = 2, 3
    now = 1_700_000_000 + rng.randrange(0, 10 ** 7)
    pf = [rng.randrange(2), G.fx(Fraction(rng.randrange(0, 200), 10000)), G.fx(Fraction(rng.randrange(0, 500), 10000))]
    banks = []
    B = G.BANK_TOKS
    for k in range(nb):
        t, _i = gen_hbank(rng, now, "plain")
        t[8] = t[9] = U64_MAX
        t[12] = rng.choice([0, 16])
        t[17] = 1
        t[10] = 0
        t[B + 0] = t[B + 1] = ONE
        t[B + 4] = 0
        t[B + 6] = ONE
        t[11] = 6
        banks.append(t)
    big = rng.choice([10 ** 9, 10 ** 12])
    amt = rng.choice([1, 1000, 10 ** 6, 10 ** 6 + 1])
    ops = [[1, 0, 0, big, 0], [1, 1, 1, 10 ** 15, 0], [3, 1, 0, big // rng.choice([2, 3, 10])]]
    side = rng.random()
    if side < 0.6:
        ops += [[1, 2, 0, amt, 0], [2, 2, 0, amt, 0]]
    else:
        ops += [[1, 2, 1, 10 ** 14, 0], [3, 2, 0, amt], [4, 2, 0, amt, 0]]
    for _ in range(rng.choice([1, 1, 2])):
        now += rng.choice([1, 60, 3600, 86400, 86400 * 30])
        ops.append([0, now])
        if rng.random() < 0.3:
            ops.append([10, rng.randrange(nb)])
    ops.append([7, 2, 0])
    if rng.random() < 0.5:
        now += rng.choice([1, 3600])
        ops += [[0, now], [1, 2, 0, amt, 0], [2, 2, 0, 0, 1]]
    toks = [nb, na] + pf + [banks[0][7]]
    for bk in banks:
        toks += bk
    toks.append(len(ops))
    for o in ops:
        toks += clamp_op(o)
    return " ".join(map(str, toks))


def gen_close_case(rng):
    """closing a bank: a close-enabled bank with a non-trivial share value, a big depositor and a second one who empties
    its position with an exact partial withdrawal (leaving dust shares) and then withdraws 'all'; the admin asks to close
    the bank (op 36, a probe) after every step. The position counters and the totals must both protect the depositors."""
    nb, na = 2, 3
    now = 1_700_000_000 + rng.randrange(0, 10 ** 7)
    pf = [rng.randrange(2), G.fx(Fraction(rng.randrange(0, 200), 10000)), G.fx(Fraction(rng.randrange(0, 500), 10000))]
    banks = []
    for _ in range(nb):
        t, _i = gen_hbank(rng, now, "plain")
        t[8] = t[9] = U64_MAX
        t[12] = rng.choice([16, 16, 16, 0, 16 | 4])
        t[17] = 1
        t[10] = 0
        asv = rng.choice([ONE, 3 * ONE // 2, ONE + 12345, fxr(Fraction(150006, 100000)), ONE + rng.randrange(1, ONE)])
        t[0] = asv
        t[1] = max(t[1], asv)
        banks.append(t)
    bx = 0
    big = rng.choice([10 ** 6, 10 ** 9])
    a = rng.choice([1, 2, 3, 1000, 10 ** 6 + 1])
    ops = [[36, bx], [1, 0, bx, big, 0], [36, bx], [1, 1, bx, a, 0]]
    m = rng.random()
    if m < 0.65:
        # a borrower takes a large part, a little time passes (the second depositor's position becomes worth a hair more
        # than the whole tokens it deposited), the borrower repays everything
        a = rng.choice([1, 2, 3, 7])
        ops[3] = [1, 1, bx, a, 0]
        if rng.random() < 0.7:
            # engineered so that the second depositor's dust is below 0.0001 SHARES but above 0.0001 TOKENS: a flat curve
            # without fees whose rate puts the accrued interest on `a` tokens in the window (1e-4, asv * 1e-4)
            asv_f = rng.choice([Fraction(3, 2), Fraction(2), Fraction(3), Fraction(5, 4)])
            banks[0][0] = int(asv_f * ONE)
            banks[0][1] = max(banks[0][1], banks[0][0])
            big = rng.choice([10 ** 6, 10 ** 9])
            ops[1] = [1, 0, bx, big, 0]
            dt = rng.choice([600, 3600, 86400])
            borrow = big // 2
            util = Fraction(borrow, big + a)
            rho = Fraction(1, 10 ** 4) * (1 + asv_f) / 2
            R = rho / a * G.YEAR / (util * dt)
            z = min(G.U32 if hasattr(G, "U32") else (1 << 32) - 1, int(R / 10 * ((1 << 32) - 1)))
            banks[0][18:18 + 20] = [1, 0, 0, 0, 0, 0, 0, 0, z, z] + [0, 0] * 5
            pf = [0, 0, 0]
            banks[0][G.BANK_TOKS + 10] = 0      # no origination fee
            B = G.BANK_TOKS
            banks[1][B + 0] = banks[1][B + 1] = ONE
            banks[1][B + 4] = 0
            banks[1][B + 6] = ONE
            banks[1][11] = banks[0][11]
            banks[0][B + 4] = 0
            ops += [[1, 2, 1, 10 ** 15, 0], [3, 2, bx, borrow], [0, now + dt], [10, bx], [4, 2, bx, 0, 1],
                    [2, 1, bx, a, 0], [36, bx], [2, 1, bx, 0, 1], [36, bx]]
            now += dt
            if rng.random() < 0.5:
                ops += [[2, 0, bx, 0, 1], [36, bx]]
            toks = [nb, na] + pf + [banks[0][7]]
            for bk in banks:
                toks += bk
            toks.append(len(ops))
            for o in ops:
                toks += clamp_op(o)
            return " ".join(map(str, toks))
        B = G.BANK_TOKS
        banks[1][B + 0] = banks[1][B + 1] = ONE          # collateral bank: full weight, collateral tier, $1
        banks[1][B + 4] = 0
        banks[1][B + 6] = ONE
        banks[1][11] = banks[0][11]
        banks[0][B + 4] = 0
        ops += [[1, 2, 1, 10 ** 15, 0], [3, 2, bx, max(1, big // rng.choice([2, 3, 10]))]]
        now += rng.choice([60, 600, 3600, 3600, 86400])
        ops += [[0, now], [10, bx], [4, 2, bx, 0, 1]]
    elif m < 0.8:
        # a small borrower stays (funds the other side of the guard)
        ops += [[1, 2, 1, 10 ** 9, 0], [3, 2, bx, rng.choice([1, 10])]]
        if rng.random() < 0.5:
            now += rng.choice([3600, 86400 * 30])
            ops += [[0, now], [10, bx]]
    w = rng.choice([a, a, a, max(1, a - 1)])
    ops += [[2, 1, bx, w, 0], [36, bx], [2, 1, bx, 0, 1], [36, bx]]
    if rng.random() < 0.5:
        ops += [[7, 1, bx], [36, bx]]
    if rng.random() < 0.6:
        ops += [[2, 0, bx, 0, 1], [36, bx]]
    if rng.random() < 0.3:
        ops += [[1, 0, bx, 5, 0], [36, bx]]
    toks = [nb, na] + pf + [banks[0][7]]
    for bk in banks:
        toks += bk
    toks.append(len(ops))
    for o in ops:
        toks += clamp_op(o)
    return " ".join(map(str, toks))


def gen_case_scenario(rng, max_ops=26):
    """lender (account 0) funds every bank; borrowers post collateral in one bank and borrow another
    close to the limit; then time passes, prices move, liquidations / bankruptcies / repayments follow."""
    nb = rng.choice([2, 2, 3])
    na = rng.choice([2, 3, 4])
    now = 1_700_000_000 + rng.randrange(0, 10 ** 7)
    pf = [rng.randrange(2), G.fx(Fraction(rng.randrange(0, 200), 10000)), G.fx(Fraction(rng.randrange(0, 500), 10000))]
    banks, info = [], []
    for _ in range(nb):
        t, i = gen_hbank(rng, now, "plain")
        if rng.random() < 0.8:
            t[8] = t[9] = U64_MAX      # no caps
        t[12] = rng.choice([0, 0, 4, 16])
        banks.append(t)
        info.append(i)

    def usd(b, amt):
        return Fraction(amt * info[b]["price"], ONE * 10 ** info[b]["dec"])

    def amt_for(b, value):
        return max(1, int(value * 10 ** info[b]["dec"] * ONE / max(1, info[b]["price"])))

    ops = []
    big = rng.choice([10 ** 9, 10 ** 12, 10 ** 15])
    for b in range(nb):
        ops.append([1, 0, b, big, 0])
    plan = {}
    for a in range(1, na):
        c = rng.randrange(nb)
        d = rng.choice([x for x in range(nb) if x != c])
        camt = rng.choice([10 ** 3, 10 ** 6, 10 ** 9, rng.randrange(1, 10 ** 9)])
        ops.append([1, a, c, camt, 0])
        cap = usd(c, camt) * info[c]["awi"] / info[d]["lwi"]
        f = rng.choice([Fraction(1, 2), Fraction(8, 10), Fraction(8, 10), Fraction(95, 100), Fraction(95, 100), Fraction(999, 1000), Fraction(1), Fraction(1001, 1000), Fraction(12, 10)])
        bamt = amt_for(d, cap * f)
        ops.append([3, a, d, min(bamt, 1 << 61)])
        plan[a] = (c, d, camt, bamt)
    n_more = rng.randrange(4, max(5, max_ops - len(ops)))
    for _ in range(n_more):
        r = rng.random()
        a = rng.randrange(1, na) if na > 1 else 0
        c, d, camt, bamt = plan.get(a, (0, 0, 1, 1))
        if r < 0.15:
            now += rng.choice([1, 60, 3600, 86400, G.YEAR // 12, G.YEAR])
            ops.append([0, now])
            ops.append([10, rng.randrange(nb)])
        elif r < 0.30:
            # move a price against the borrower
            if rng.random() < 0.5:
                f = rng.choice([Fraction(99, 100), Fraction(9, 10), Fraction(7, 10), Fraction(1, 2), Fraction(1, 10), Fraction(1, 1000)])
                info[c]["price"] = max(1, int(info[c]["price"] * f))
                ops.append([19, c, info[c]["price"]])
            else:
                f = rng.choice([Fraction(101, 100), Fraction(11, 10), Fraction(3, 2), Fraction(3), Fraction(100)])
                info[d]["price"] = min(1 << 100, max(1, int(info[d]["price"] * f)))
                ops.append([19, d, info[d]["price"]])
        elif r < 0.55:
            amt = rng.choice([1, max(1, camt // 1000), max(1, camt // 100), max(1, camt // 100), max(1, camt // 10), max(1, camt // 3), max(1, camt // 2), camt, camt + 1])
            if rng.random() < 0.08:
                ops.append([37, 0, a, c, d, amt])        # the same liquidation without anybody's risk accounts
            ops.append([17, 0 if rng.random() < 0.97 else a, a, c, d, amt])
        elif r < 0.63:
            if rng.random() < 0.6:
                # wipe out the collateral first so that the account is really bankrupt
                info[c]["price"] = rng.choice([1, 2, 1000])
                ops.append([19, c, info[c]["price"]])
            ops.append([18, a, d])
        elif r < 0.73:
            allf = rng.randrange(2)
            ops.append([4, a, d, rng.choice([1, max(1, bamt // 2), bamt, bamt + 1, bamt * 2]), allf])
        elif r < 0.81:
            allf = 1 if rng.random() < 0.3 else 0
            if rng.random() < 0.12:
                # the same instruction with its risk (bank / oracle) accounts omitted
                if rng.random() < 0.5:
                    ops.append([35, a, c, rng.choice([1, max(1, camt // 10), max(1, camt // 2), camt]), allf])
                else:
                    ops.append([34, a, d, rng.choice([1, max(1, bamt // 10), bamt])])
            ops.append([2, a, c, rng.choice([1, max(1, camt // 10), max(1, camt // 2), camt]), allf])
        elif r < 0.86:
            ops.append([16, rng.randrange(nb)])
            if rng.random() < 0.2:
                ops.append([36, rng.randrange(nb)])
        elif r < 0.92:
            ops.append([1, a, rng.randrange(nb), G.gen_amount(rng) % (1 << 61), rng.randrange(2)])
        elif r < 0.96:
            ops.append([2, 0, rng.randrange(nb), rng.choice([1, big // 2, big, big + 1]), 1 if rng.random() < 0.3 else 0])
        elif r < 0.975:
            ops.append([7, a, rng.choice([c, d])])
        elif r < 0.99:
            # token-less write-off (sanctioned exception of C01): flag the debt bank, make the borrower's authority the
            # group's risk admin (or not), then repay everything / a part
            ops.append([31, d, banks[d][12] | 32])
            recv = rng.random() < 0.25
            if recv:
                ops.append([33, a, rng.choice([16, 16, 16 | 32])])      # in receivership, signer is NOT the risk admin
            elif rng.random() < 0.8:
                ops.append([30, a])
            ops.append([4, a, d, rng.choice([1, bamt]), 1 if rng.random() < 0.8 else 0])
            if recv:
                ops.append([33, a, 0])
            if rng.random() < 0.5:
                ops.append([30, 255])
            if rng.random() < 0.5:
                ops.append([2, 0, d, rng.choice([1, big // 2, big]), rng.randrange(2)])
        else:
            # open a position, empty it with an exact partial withdrawal, let time pass, close the balance
            bx = rng.randrange(nb)
            amt = rng.choice([1, 1000, 10 ** 6])
            aa = rng.randrange(na)
            ops.append([1, aa, bx, amt, 0])
            ops.append([2, aa, bx, amt, 0])
            now += rng.choice([1, 3600, 86400 * 30])
            ops.append([0, now])
            ops.append([7, aa, bx])
    toks = [nb, na] + pf + [banks[0][7]]
    for bk in banks:
        toks += bk
    toks.append(len(ops))
    for o in ops:
        toks += clamp_op(o)
    return " ".join(map(str, toks))



def gen_tokenless_case(rng):
    """the risk admin's token-less repayment (sunset banks): a borrower with a debt in a bank flagged
    TOKENLESS_REPAYMENTS_ALLOWED repays everything; who signs (the risk admin or not), whether the account is in
    receivership, and the order of the fixtures vary. Only the risk admin's repay_all may skip the token transfer."""
    nb, na = 2, 3
    now = 1_700_000_000 + rng.randrange(0, 10 ** 7)
    pf = [rng.randrange(2), G.fx(Fraction(rng.randrange(0, 200), 10000)), G.fx(Fraction(rng.randrange(0, 500), 10000))]
    banks = []
    B = G.BANK_TOKS
    for k in range(nb):
        t, _i = gen_hbank(rng, now, "plain")
        t[8] = t[9] = U64_MAX
        t[12] = 0
        t[17] = 1
        t[10] = 0
        t[B + 0] = t[B + 1] = ONE
        t[B + 4] = 0
        t[B + 6] = ONE
        t[11] = 6
        t[B + 7] = rng.choice([0, 0, 1, 2])
        banks.append(t)
    c, d = 0, 1
    debt = rng.choice([1, 1000, 10 ** 6, 10 ** 9])
    ops = [[1, 0, d, 10 ** 12, 0], [1, 1, c, 10 ** 13, 0], [3, 1, d, debt]]
    if rng.random() < 0.4:
        now += rng.choice([3600, 86400 * 30])
        ops += [[0, now], [10, d]]
    ops.append([31, d, 32 | rng.choice([0, 0, 16])])
    v = rng.choice(["admin", "admin", "owner", "owner", "receivership", "receivership", "admin_then_reset", "other_admin"])
    allf = 1 if rng.random() < 0.85 else 0
    if v == "admin":
        ops += [[30, 1]]
    elif v == "receivership":
        ops += [[33, 1, rng.choice([16, 16 | 32])]]
    elif v == "admin_then_reset":
        ops += [[30, 1], [30, 255]]
    elif v == "other_admin":
        ops += [[30, 2]]
    ops.append([4, 1, d, rng.choice([1, debt, debt + 5]), allf])
    if v == "receivership":
        ops.append([33, 1, 0])
    if rng.random() < 0.5:
        ops.append([4, 1, d, debt, 1])
    if rng.random() < 0.5:
        ops.append([2, 0, d, rng.choice([1, 10 ** 6, 10 ** 12]), rng.randrange(2)])
    toks = [nb, na] + pf + [banks[0][7]]
    for bk in banks:
        toks += bk
    toks.append(len(ops))
    for o in ops:
        toks += clamp_op(o)
    return " ".join(map(str, toks))

# ---------------------------------------------------------------------------------------------
OPLEN = {0: 2, 1: 5, 2: 5, 3: 4, 4: 5, 7: 3, 10: 2, 16: 2, 17: 6, 18: 3, 19: 3, 30: 2, 31: 3, 32: 3, 33: 3, 34: 4, 35: 5, 36: 2, 37: 6, 38: 8, 39: 1, 40: 2}


def parse_case(line):
    t = list(map(int, line.split()))
    nb, na = t[0], t[1]
    pf = t[2:5]
    now = t[5]
    i = 6
    banks = []
    for _ in range(nb):
        f = t[i:i + G.BANK_TOKS]
        i += G.BANK_TOKS
        x = t[i:i + HB_EXTRA]
        i += HB_EXTRA
        n_em = x[12]
        em = [t[i + 4 * k:i + 4 * k + 4] for k in range(n_em)]
        i += 4 * n_em
        banks.append({"asv": f[0], "lsv": f[1], "tas": f[2], "tls": f[3], "ins": f[4], "grp": f[5], "prog": f[6], "dep_limit": f[8], "bor_limit": f[9], "tag": f[10], "decimals": f[11],
                      "flags": f[12], "op_state": f[17], "ir": f[18:], "awi": x[0], "awm": x[1], "lwi": x[2], "lwm": x[3],
                      "tier": x[4], "tavil": x[5], "price": x[6], "tokprog": x[7], "bps": x[8], "maxfee": x[9],
                      "orig": x[10], "etag": x[11], "emode": em, "last_update": f[7]})
    n = t[i]
    ops_index = i
    i += 1
    ops = []
    for _ in range(n):
        k = t[i]
        ops.append(t[i:i + OPLEN[k]])
        i += OPLEN[k]
    return {"nb": nb, "na": na, "pf": pf, "now": now, "banks": banks, "ops": ops, "ops_index": ops_index}


BANK_F = ["asv", "lsv", "tas", "tls", "ins", "grp", "prog", "last_update", "em_rem", "lend_cnt", "bor_cnt",
          "flags", "op_state", "vault", "insv", "feev", "feeata"]


def parse_out(line, nb, with_refs=False):
    """[(res, [bank dicts], [acct dicts])]"""
    out = []
    for seg in line.split(" | "):
        parts = seg.split(" # ")
        res = parts[0].strip()
        banks = []
        for bd in parts[1].split(" ; "):
            f = list(map(int, bd.split()))
            banks.append(dict(zip(BANK_F, f)))
        accts = []
        for ad in parts[2].split(" ; "):
            f = ad.split()
            slots = []
            if f[0] != "-":
                for s in f[0].split(","):
                    g = list(map(int, s.split(":")))
                    slots.append(dict(zip(["slot", "bank", "tag", "a", "l", "em", "last"], g)))
            accts.append({"slots": slots, "flags": int(f[1]), "tok": list(map(int, f[2:2 + nb]))})
        if len(parts) > 3 and with_refs:
            r = parts[3].strip()
            refs = None
            if r.startswith("R ") and r != "R -":
                refs = []
                for x in r[2:].split(" ; "):
                    a, l = x.split()
                    refs.append(None if a == "X" else (int(a), int(l)))
            out.append((res, banks, accts, refs))
        else:
            out.append((res, banks, accts))
    return out
