#!/usr/bin/env python3
import os, sys, time
sys.path.insert(0, os.path.dirname(os.path.abspath(__file__)))
import vlib
t0 = time.time()
with vlib.Lock():
    try:
        vlib.build_harness()
        vlib.run_generators()
        rc, out, dt = vlib.coq_make([])   # everything
        if rc != 0:
            print(out[-4000:])
            sys.exit(1)
        vlib.build_driver()
    except vlib.Broken as b:
        print("setup failed:", b.what)
        print(b.detail)
        sys.exit(1)
print(f"setup ok in {time.time()-t0:.0f}s")
