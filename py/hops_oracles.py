"""Property oracles evaluated directly on traces of the level-C `hops` suite (real handlers in the sim
runtime). Everything is recomputed from the dumped account/bank/vault state in exact integers or
Fractions — never by calling the Coq model."""
from fractions import Fraction
import gen_hops as H
import gen_bank as G

ONE = G.ONE
U64 = G.U64_MAX
THR = 28147497671            # ZERO_AMOUNT_THRESHOLD raw bits (floor(0.0001 * 2^48))
YEAR = G.YEAR
EPS = Fraction(1, 10 ** 7)   # relative tolerance of the independent health computation


class Trace:
    def __init__(self, case, impl):
        self.c = H.parse_case(case)
        self.nb = self.c["nb"]
        self.ok = not (impl.startswith("PANIC") or impl.startswith("DRIVER"))
        self.with_refs = " # R " in impl
        raw = H.parse_out(impl, self.nb, with_refs=self.with_refs) if self.ok else []
        self.refs = [x[3] if len(x) > 3 else None for x in raw]
        self.steps = [x[:3] for x in raw]
        # static config + mutable price per bank
        self.cfg = [dict(b) for b in self.c["banks"]]

    def init_banks(self):
        out = []
        for b in self.c["banks"]:
            out.append({"asv": b["asv"], "lsv": b["lsv"], "tas": b.get("tas", 0), "tls": b.get("tls", 0),
                        "ins": b.get("ins", 0), "grp": b.get("grp", 0), "prog": b.get("prog", 0),
                        "last_update": b["last_update"], "flags": b["flags"], "op_state": b["op_state"],
                        "vault": 0, "insv": 0, "feev": 0, "feeata": 0, "lend_cnt": 0, "bor_cnt": 0})
        return out

    def init_accts(self):
        return [{"slots": [], "flags": 0, "tok": [1 << 62] * self.nb} for _ in range(self.c["na"])]


def walk(tr):
    """yields (op, res, banks_before, accts_before, banks_after, accts_after, now, prices)"""
    banks = tr.init_banks()
    accts = tr.init_accts()
    now = tr.c["now"]
    prices = [b["price"] for b in tr.c["banks"]]
    for op, (res, nbanks, naccts) in zip(tr.c["ops"], tr.steps):
        if op[0] == 0:
            now = op[1]
        if op[0] == 19 and res == "OK":
            prices = list(prices)
            prices[op[1]] = op[2]
        if op[0] == 38 and tr.cfg[op[1]]["tokprog"] == 2:
            # fixture: pending fee change; from here on the mint charges the schedule in force in the clock epoch
            # (TransferFeeConfig::get_epoch_fee: the newer one from its epoch on)
            new = op[7] >= op[6]
            tr.cfg[op[1]]["bps"], tr.cfg[op[1]]["maxfee"] = (op[4], op[5]) if new else (op[2], op[3])
        yield op, res, banks, accts, nbanks, naccts, now, prices
        banks, accts = nbanks, naccts


# ------------------------------------------------------------------------------------------------
# C01 solvency
def gap(b):
    return b["vault"] * ONE * ONE - (b["tas"] * b["asv"] - b["tls"] * b["lsv"] + (b["ins"] + b["grp"] + b["prog"]) * ONE)


def accrual_allowance(before, after):
    """proved allowance of one accrual (Coq accrual_slack, SolvencyLemmas.v): L + tls + asv'*2^48/asv + 3.
    It applies whenever the bank accrued, also when both share values round to no change (fees are still booked)."""
    lq = before["tls"] * before["lsv"] // ONE
    return lq + before["tls"] + (max(after["asv"], before["asv"]) * ONE // max(1, before["asv"]) + 2) + 1


def oracle_c01(tr):
    if not tr.ok:
        return None
    allow = [0] * tr.nb
    exempt = [False] * tr.nb
    ra = -1
    for op, res, b0, a0, b1, a1, now, prices in walk(tr):
        if op[0] == 30:
            ra = op[1]
        if res != "OK":
            continue
        if op[0] == 4 and op[4] == 1 and ra == op[1] and b0[op[2]]["flags"] & 32:
            exempt[op[2]] = True       # risk admin's token-less repay_all on a flagged bank: sanctioned exception
        for k in range(tr.nb):
            if b1[k]["op_state"] == 3:
                exempt[k] = True           # wiped-out bank: sanctioned exception
            touched = any(b1[k][f] != b0[k][f] for f in ("asv", "lsv", "tas", "tls", "ins", "grp", "prog", "vault"))
            if touched:
                allow[k] += accrual_allowance(b0[k], b1[k]) + 2 * (b1[k]["asv"] + b1[k]["lsv"]) + 2 * ONE
            if not exempt[k] and gap(b1[k]) + allow[k] < 0:
                return {"key": "insolvent", "what": f"after {H.OPN[op[0]]} bank {k}: vault*2^96 - (D - L + F) = {gap(b1[k])} < -allowance {allow[k]}"}
    return None


# ------------------------------------------------------------------------------------------------
# C02 ledger consistency
def sums(accts, nb):
    sa = [0] * nb
    sl = [0] * nb
    for a in accts:
        for s in a["slots"]:
            sa[s["bank"] - 1] += s["a"]
            sl[s["bank"] - 1] += s["l"]
    return sa, sl


def oracle_c02(tr):
    if not tr.ok:
        return None
    dust_a = [0] * tr.nb
    dust_l = [0] * tr.nb
    for op, res, b0, a0, b1, a1, now, prices in walk(tr):
        if res != "OK":
            continue
        for a in a1:
            for s in a["slots"]:
                if s["a"] < 0 or s["l"] < 0:
                    return {"key": "negative-shares", "what": f"negative shares after {H.OPN[op[0]]}"}
        sa0, sl0 = sums(a0, tr.nb)
        sa1, sl1 = sums(a1, tr.nb)
        closing = (op[0] in (2, 35) and op[4] == 1) or (op[0] == 4 and op[4] == 1) or op[0] == 7
        if op[0] == 36 and (sa1[op[1]] >= THR or sl1[op[1]] >= THR):
            return {"key": "bank-closed-with-positions", "what": f"close_bank accepted on bank {op[1]} while accounts hold ({sa1[op[1]]},{sl1[op[1]]}) shares in it"}
        for k in range(tr.nb):
            d_tas = b1[k]["tas"] - b0[k]["tas"]
            d_tls = b1[k]["tls"] - b0[k]["tls"]
            d_sa = sa1[k] - sa0[k]
            d_sl = sl1[k] - sl0[k]
            if not closing:
                if d_tas != d_sa or d_tls != d_sl:
                    return {"key": "total-delta-mismatch", "what": f"{H.OPN[op[0]]}: bank {k} totals changed by ({d_tas},{d_tls}) but positions by ({d_sa},{d_sl})"}
            else:
                # abandoned shares: totals may stay while positions drop, only by dust
                xa = d_tas - d_sa
                xl = d_tls - d_sl
                if xa < 0 or xl < 0:
                    return {"key": "total-below-positions", "what": f"{H.OPN[op[0]]}: bank {k} total fell by more than its positions"}
                if xa * b1[k]["asv"] // ONE >= THR + 1 or xl * b1[k]["lsv"] // ONE >= THR + 1:
                    return {"key": "abandoned-more-than-dust", "what": f"{H.OPN[op[0]]}: bank {k} abandoned ({xa},{xl}) shares worth >= 0.0001"}
                dust_a[k] += xa
                dust_l[k] += xl
            if b1[k]["tas"] < sa1[k] or b1[k]["tls"] < sl1[k]:
                return {"key": "total-below-positions", "what": f"bank {k} totals ({b1[k]['tas']},{b1[k]['tls']}) < sum of positions ({sa1[k]},{sl1[k]})"}
            if b1[k]["tas"] - sa1[k] != dust_a[k] or b1[k]["tls"] - sl1[k] != dust_l[k]:
                return {"key": "excess-not-dust", "what": f"bank {k}: excess of totals over positions is not the abandoned dust"}
    return None


# ------------------------------------------------------------------------------------------------
# C16 account structure
def is_default_like(t):
    return t in (0, 3, 4, 5)


def oracle_c16(tr):
    if not tr.ok:
        return None
    for op, res, b0, a0, b1, a1, now, prices in walk(tr):
        if res != "OK":
            continue
        for ai, a in enumerate(a1):
            sl = a["slots"]
            ids = [s["bank"] for s in sl]
            if len(set(ids)) != len(ids):
                return {"key": "duplicate-position", "what": f"account {ai} holds two positions in one bank after {H.OPN[op[0]]}"}
            if len(sl) > 16:
                return {"key": "too-many-positions", "what": "more than 16 positions"}
            if sum(1 for s in sl if s["tag"] in (3, 4, 5)) > 8:
                return {"key": "too-many-integration-positions", "what": "more than 8 integration positions"}
            tags = [s["tag"] for s in sl]
            if 2 in tags and any(is_default_like(t) for t in tags):
                return {"key": "staked-mixed-with-default", "what": f"account {ai} mixes staked and default-class positions"}
            for s in sl:
                bk = b1[s["bank"] - 1]
                if s["a"] * bk["asv"] // ONE > THR and s["l"] * bk["lsv"] // ONE > THR:
                    return {"key": "both-sides", "what": f"account {ai} has a non-dust deposit and a non-dust debt in bank {s['bank']-1}"}
                if s["tag"] != tr.cfg[s["bank"] - 1]["tag"]:
                    return {"key": "tag-changed", "what": "position tag differs from the tag it was opened with"}
            # the account touched by this instruction must be sorted (descending bank key, slots contiguous)
            touched = {1: [1], 2: [1], 3: [1], 4: [1], 7: [1], 17: [1, 2], 18: []}.get(op[0], [])
            if ai in [op[j] for j in touched]:
                if ids != sorted(ids, reverse=True) or [s["slot"] for s in sl] != list(range(len(sl))):
                    return {"key": "unsorted", "what": f"account {ai} positions not sorted after {H.OPN[op[0]]}: {ids}"}
        if op[0] in (1, 2, 3, 4) and a0[op[1]]["flags"] & 1:
            return {"key": "disabled-account-acted", "what": f"disabled account {op[1]} executed {H.OPN[op[0]]}"}
    return None


# ------------------------------------------------------------------------------------------------
# reference health (C04 / C05 / C07): exact rationals from raw state
def reconcile(cfgs):
    if not cfgs:
        return {}
    merged = {}
    for cfg in cfgs:
        for (tag, flags, wi, wm) in cfg:
            if tag == 0:
                continue
            if tag in merged:
                m = merged[tag]
                merged[tag] = [min(m[0], flags), min(m[1], wi), min(m[2], wm), m[3] + 1]
            else:
                merged[tag] = [flags, wi, wm, 1]
    return {t: m for t, m in merged.items() if m[3] == len(cfgs)}


def health(tr, acct, banks, prices, req):
    """(assets, liabs) as Fractions in dollars; req in init|maint|equity. None if an isolated/odd case
    makes the reference ambiguous (never happens with Fixed oracles)."""
    slots = acct["slots"]
    borrowing = [s for s in slots if s["l"] >= ONE]
    em = reconcile([tr.cfg[s["bank"] - 1]["emode"] for s in borrowing])
    A = Fraction(0)
    L = Fraction(0)
    for s in slots:
        k = s["bank"] - 1
        cf, bk = tr.cfg[k], banks[k]
        dec = 9 if cf["tag"] == 4 else cf["decimals"]
        price = Fraction(prices[k], ONE)
        if s["l"] >= ONE:
            w = {"init": cf["lwi"], "maint": cf["lwm"], "equity": ONE}[req]
            amt = Fraction(s["l"] * bk["lsv"], ONE * ONE)
            L += amt * Fraction(w, ONE) * price / 10 ** dec
        elif s["a"] >= ONE:
            if cf["tier"] == 1:
                continue
            if bk["op_state"] == 2 and req == "init":
                continue
            w = {"init": cf["awi"], "maint": cf["awm"], "equity": ONE}[req]
            if cf["etag"] != 0 and cf["etag"] in em and req != "equity":
                w = max(w, em[cf["etag"]][1 if req == "init" else 2])
            w = Fraction(w, ONE)
            if req == "init" and cf["tavil"] != 0:
                tot = Fraction(bk["tas"] * bk["asv"], ONE * ONE) * price / 10 ** dec
                if tot > cf["tavil"]:
                    w = w * Fraction(cf["tavil"]) / tot
            amt = Fraction(s["a"] * bk["asv"], ONE * ONE)
            A += amt * w * price / 10 ** dec
    return A, L


def tol(A, L):
    return (A + L) * EPS + Fraction(1, 10 ** 9)


def isolated_ok(tr, acct):
    liabs = [s for s in acct["slots"] if s["l"] >= ONE]
    iso = [s for s in liabs if tr.cfg[s["bank"] - 1]["tier"] == 1]
    return len(iso) == 0 or len(liabs) == 1


def oracle_c04(tr):
    if not tr.ok:
        return None
    for op, res, b0, a0, b1, a1, now, prices in walk(tr):
        if op[0] not in (2, 3, 34, 35):
            continue
        a = op[1]
        if res == "OK" and op[0] in (34, 35) and a1[a]["slots"] and not (a1[a]["flags"] & 2):
            return {"key": "risk-check-skipped-without-accounts",
                    "what": f"{H.OPN[op[0]]} succeeded although the account still has active balances and is not in a flash loan"}
        if res == "OK":
            A, L = health(tr, a1[a], b1, prices, "init")
            if A - L < -tol(A, L):
                return {"key": "risk-gate-passed-unhealthy", "what": f"{H.OPN[op[0]]} succeeded with init health {float(A - L)} (assets {float(A)}, liabs {float(L)})"}
            if not isolated_ok(tr, a1[a]):
                return {"key": "isolated-not-exclusive", "what": "isolated-tier debt is not the account's only debt"}
        elif res == "E6009":
            # rejected for health: recompute the post-state the instruction would have produced is not
            # available; use the weaker necessary check on the pre-state for withdrawals of collateral
            pass
    return None


def oracle_c05(tr):
    if not tr.ok:
        return None
    for op, res, b0, a0, b1, a1, now, prices in walk(tr):
        if op[0] == 37 and res == "OK":
            return {"key": "liquidated-without-risk-accounts", "what": "a liquidation that passed nobody's risk accounts succeeded"}
        if op[0] != 17 or res != "OK":
            continue
        liqor, liqee, ab, lb, amt = op[1:6]
        if prices[ab] <= 0 or prices[lb] <= 0:
            return {"key": "liquidated-at-nonpositive-price", "what": "liquidation succeeded with a non-positive price"}
        # health uses the accrued bank state: compare with the post-accrual share values (b1)
        pre_bal = {"slots": a0[liqee]["slots"], "flags": a0[liqee]["flags"]}
        A0, L0 = health(tr, pre_bal, b1, prices, "maint")
        A1, L1 = health(tr, a1[liqee], b1, prices, "maint")
        t = tol(A0, L0) + tol(A1, L1)
        if A0 - L0 > t:
            return {"key": "liquidated-healthy-account", "what": f"liquidation succeeded on an account with maintenance health {float(A0 - L0)}"}
        if A1 - L1 > t:
            return {"key": "over-liquidated", "what": f"post-liquidation maintenance health {float(A1 - L1)} > 0"}
        if (A1 - L1) - (A0 - L0) < -t:
            return {"key": "liquidation-worsened-health", "what": "health after liquidation is lower than before"}
        ee_l = [s for s in a1[liqee]["slots"] if s["bank"] == lb + 1]
        if not ee_l or ee_l[0]["l"] < ONE or ee_l[0]["a"] >= ONE:
            return {"key": "liquidation-flipped-debt", "what": "liquidatee debt position exhausted or flipped into a deposit"}
        ee_a = [s for s in a1[liqee]["slots"] if s["bank"] == ab + 1]
        if ee_a and ee_a[0]["l"] >= ONE:
            return {"key": "liquidation-flipped-collateral", "what": "seized collateral flipped into a debt"}
        Ar, Lr = health(tr, a1[liqor], b1, prices, "init")
        if Ar - Lr < -tol(Ar, Lr):
            return {"key": "liquidator-unhealthy", "what": "liquidator left initially unhealthy"}
        # fee split: value seized v = amt * p_a / 10^da; debt relief 95%, liquidator pays 97.5%, 2.5% to insurance
        da = 9 if tr.cfg[ab]["tag"] == 4 else tr.cfg[ab]["decimals"]
        dl = 9 if tr.cfg[lb]["tag"] == 4 else tr.cfg[lb]["decimals"]
        v = Fraction(amt * prices[ab], ONE * 10 ** da)
        q = v * 10 ** dl / Fraction(prices[lb], ONE)          # in liability tokens
        def liab_amt(acc, banks):
            s = [x for x in acc["slots"] if x["bank"] == lb + 1]
            return Fraction((s[0]["l"] * banks[lb]["lsv"] - s[0]["a"] * banks[lb]["asv"]) if s else 0, ONE * ONE)
        relief = liab_amt(pre_bal, b1) - liab_amt(a1[liqee], b1)
        paid = liab_amt(a1[liqor], b1) - liab_amt({"slots": a0[liqor]["slots"]}, b1)
        rt = q * Fraction(1, 10 ** 6) + Fraction(3)
        if abs(relief - q * Fraction(95, 100)) > rt:
            return {"key": "liquidation-relief-not-95pct", "what": f"debt relief {float(relief)} vs 95% of {float(q)}"}
        if abs(paid - q * Fraction(975, 1000)) > rt:
            return {"key": "liquidator-payment-not-97.5pct", "what": f"liquidator paid {float(paid)} vs 97.5% of {float(q)}"}
        ins_tokens = (b1[lb]["insv"] - b0[lb]["insv"])
        moved = b0[lb]["vault"] - b1[lb]["vault"]
        if abs(Fraction(moved) - q * Fraction(25, 1000)) > rt + 1:
            return {"key": "insurance-fee-not-2.5pct", "what": f"{moved} tokens left the vault for insurance vs 2.5% of {float(q)}"}
        if ins_tokens > moved:
            return {"key": "insurance-vault-overcredited", "what": "insurance vault received more than left the liquidity vault"}
    return None


def oracle_c07(tr):
    if not tr.ok:
        return None
    for op, res, b0, a0, b1, a1, now, prices in walk(tr):
        if op[0] != 18 or res != "OK":
            # killed banks stay killed
            for k in range(tr.nb):
                if b0[k]["op_state"] == 3 and b1[k]["op_state"] != 3:
                    return {"key": "killed-bank-revived", "what": f"bank {k} left the killed state"}
            continue
        a, b = op[1], op[2]
        pre = {"slots": a0[a]["slots"], "flags": a0[a]["flags"]}
        A, L = health(tr, pre, b0, prices, "equity")
        t = tol(A, L)
        if not (A < L + t and A < Fraction(1, 10) + t):
            return {"key": "bankruptcy-of-solvent-account", "what": f"bankruptcy accepted with equity assets {float(A)} liabs {float(L)}"}
        sl = [s for s in a0[a]["slots"] if s["bank"] == b + 1]
        if not sl:
            return {"key": "bankruptcy-no-debt", "what": "no position in the bank"}
        bad = sl[0]["l"] * b1[b]["lsv"] // ONE if False else None
        if not a1[a]["flags"] & 1:
            return {"key": "bankrupt-account-not-disabled", "what": "account not disabled after bankruptcy"}
        post = [s for s in a1[a]["slots"] if s["bank"] == b + 1]
        if post and post[0]["l"] * b1[b]["lsv"] // ONE > 2 * ONE + 2 * b1[b]["lsv"] // ONE:
            return {"key": "bad-debt-not-cleared", "what": "debt remains after bankruptcy"}
        if b1[b]["asv"] < 0:
            return {"key": "negative-share-value", "what": "asset share value negative"}
        # insurance first: either the insurance vault is (nearly) drained or no loss was socialised
        moved = b0[b]["insv"] - b1[b]["insv"]
        loss_sv = b0[b]["asv"] != b1[b]["asv"] and b1[b]["asv"] < b0[b]["asv"]
        # share value drop other than by accrual: compare at equal time (accrual only raises it)
        if loss_sv and b1[b]["insv"] > 1 and tr.cfg[b]["tokprog"] != 2:
            return {"key": "socialised-before-insurance", "what": f"depositors took a loss while {b1[b]['insv']} tokens stayed in the insurance vault"}
        if (b1[b]["asv"] == 0) != (b1[b]["op_state"] == 3) and b0[b]["asv"] != 0:
            return {"key": "kill-mismatch", "what": "bank wiped out without being killed, or killed without being wiped out"}
    return None


# ------------------------------------------------------------------------------------------------
# C06 freshness at handler level
def oracle_c06_fresh(tr):
    """every successful user instruction leaves each bank it transacts in with last_update == clock and
    with exactly the share values that the real accrue_interest yields from the pre-instruction state
    (reference computed by the harness with the real function, suite `hopsref`)"""
    if not tr.ok:
        return None
    i = -1
    for op, res, b0, a0, b1, a1, now, prices in walk(tr):
        i += 1
        if res != "OK":
            continue
        touched = {1: [2], 2: [2], 3: [2], 4: [2], 7: [2], 10: [1], 17: [3, 4], 18: [2]}.get(op[0], [])
        refs = tr.refs[i] if tr.with_refs else None
        for j in touched:
            k = op[j]
            if b1[k]["last_update"] != now:
                return {"key": "stale-interest", "what": f"{H.OPN[op[0]]} succeeded on bank {k} with last_update {b1[k]['last_update']} != clock {now}"}
            if refs and refs[k] is not None:
                ra, rl = refs[k]
                if b1[k]["lsv"] != rl:
                    return {"key": "interest-not-applied-first", "what": f"{H.OPN[op[0]]} left bank {k} with liability share value {b1[k]['lsv']}, accrual to the current time gives {rl}"}
                if op[0] != 18 and b1[k]["asv"] != ra:
                    return {"key": "interest-not-applied-first", "what": f"{H.OPN[op[0]]} left bank {k} with asset share value {b1[k]['asv']}, accrual to the current time gives {ra}"}
        if op[0] == 18:
            # the settlement covers the debt INCLUDING the interest up to now: nothing worth a raw unit stays on the position
            # (a settlement priced before the accrual leaves exactly the period's interest behind)
            k = op[2]
            for sl in a1[op[1]]["slots"]:
                if sl["bank"] - 1 == k and sl["l"] * b1[k]["lsv"] >= ONE + b1[k]["lsv"]:
                    return {"key": "bankruptcy-settled-stale-debt",
                            "what": f"after bankruptcy {sl['l']} liability shares (share value {b1[k]['lsv']}) remain on the settled position: the debt was priced before the interest of the period was applied"}
    return None


# ------------------------------------------------------------------------------------------------
# C19 fee collection
def oracle_c19(tr):
    if not tr.ok:
        return None
    rotated = False
    for op, res, b0, a0, b1, a1, now, prices in walk(tr):
        if op[0] == 32 and res == "OK":
            return {"key": "fees-paid-to-foreign-account",
                    "what": f"collect_bank_fees accepted a fee ATA that is not the global fee wallet's (bank {op[1]}, token account of user {op[2]})"}
        if op[0] == 39:
            rotated = rotated or res == "OK"
            continue            # the fee ATA observed from now on is another (empty) account
        if op[0] == 40 and rotated:
            if res == "OK":
                return {"key": "fees-paid-to-previous-fee-wallet",
                        "what": f"collect_bank_fees (bank {op[1]}) accepted the token account of the PREVIOUS global fee wallet after the fee admin had rotated the wallet"}
            continue
        if op[0] == 16 and rotated and res == "E6045":
            return {"key": "fee-collection-refuses-current-wallet",
                    "what": f"collect_bank_fees (bank {op[1]}) refused the canonical token account of the CURRENT global fee wallet (InvalidFeeAta) after a wallet rotation"}
        if op[0] == 40:
            op = [16] + list(op[1:])
        if op[0] != 16 or res != "OK":
            # fee / insurance vaults only change through collect_fees, liquidation (insurance in), bankruptcy (insurance out)
            if res == "OK":
                for k in range(tr.nb):
                    if b1[k]["feev"] != b0[k]["feev"] or b1[k]["feeata"] != b0[k]["feeata"]:
                        return {"key": "fee-vault-moved", "what": f"{H.OPN[op[0]]} changed a fee destination balance"}
                    if b1[k]["insv"] < b0[k]["insv"] and op[0] != 18:
                        return {"key": "insurance-vault-drained", "what": f"{H.OPN[op[0]]} drew down the insurance vault"}
                    if b1[k]["insv"] > b0[k]["insv"] and op[0] != 17:
                        return {"key": "insurance-vault-credited", "what": f"{H.OPN[op[0]]} credited the insurance vault"}
            continue
        k = op[1]
        o, n = b0[k], b1[k]
        avail = o["vault"] * ONE
        def ipart(x):
            return (x // ONE) * ONE
        m_ins = ipart(min(o["ins"], avail)); avail -= m_ins
        m_grp = ipart(min(o["grp"], avail)); avail -= m_grp
        m_prog = ipart(min(o["prog"], avail)); avail -= m_prog
        if (n["ins"], n["grp"], n["prog"]) != (o["ins"] - m_ins, o["grp"] - m_grp, o["prog"] - m_prog):
            return {"key": "fee-buckets-wrong", "what": "fee buckets not reduced by exactly the whole-token part collected"}
        tot = (m_ins + m_grp + m_prog) // ONE
        if o["vault"] - n["vault"] != tot:
            return {"key": "vault-delta-wrong", "what": f"liquidity vault fell by {o['vault'] - n['vault']}, collected {tot}"}
        fee = tr.cfg[k]["tokprog"] == 2
        for name, m, f in (("insv", m_ins, "insurance vault"), ("feev", m_grp, "fee vault"), ("feeata", m_prog, "global fee ATA")):
            got = n[name] - o[name]
            if (not fee and got != m // ONE) or (fee and not (0 <= got <= m // ONE)):
                return {"key": "fee-destination-wrong", "what": f"{f} received {got}, expected {m // ONE}"}
    return None


# ------------------------------------------------------------------------------------------------
# C08: the token-less repayment is the risk admin's power
def oracle_tokenless_role(tr):
    if not tr.ok:
        return None
    ra = -1
    for op, res, b0, a0, b1, a1, now, prices in walk(tr):
        if op[0] == 30:
            ra = op[1]
        if op[0] != 4 or res != "OK":
            continue
        a, k = op[1], op[2]
        l0 = sum(s["l"] for s in a0[a]["slots"] if s["bank"] == k + 1)
        l1 = sum(s["l"] for s in a1[a]["slots"] if s["bank"] == k + 1)
        repaid_tokens = (l0 - l1) * b1[k]["lsv"] // (ONE * ONE)
        if repaid_tokens >= 1 and b1[k]["vault"] <= b0[k]["vault"] and ra != a:
            return {"key": "tokenless-repay-without-risk-admin",
                    "what": f"repay by account {a} (risk admin is {ra}) cleared {repaid_tokens} tokens of debt in bank {k} "
                            f"without any token reaching the vault (account flags {a0[a]['flags']}, bank flags {b0[k]['flags']})"}
    return None


# ------------------------------------------------------------------------------------------------
# C03 at instruction level: no deposit / withdraw / borrow / repay (incl. the *_all forms) lets the acting user end up with
# more tokens + position value in that bank than before, valued at the post-accrual share values (interest accrued by the
# instruction itself is the bank's doing, not the operation's)
def oracle_c03_instruction(tr):
    if not tr.ok:
        return None
    ra = -1
    for op, res, b0, a0, b1, a1, now, prices in walk(tr):
        if op[0] == 30:
            ra = op[1]
        if res != "OK" or op[0] not in (1, 2, 3, 4, 34, 35):
            continue
        a, k = op[1], op[2]
        if op[0] == 4 and op[4] == 1 and ra == a and b0[k]["flags"] & 32:
            continue            # the risk admin's sanctioned token-less write-off on a sunset bank (C01 / C08 own it)
        asv, lsv = b1[k]["asv"], b1[k]["lsv"]

        def val(acc):
            return sum(s["a"] * asv - s["l"] * lsv for s in acc["slots"] if s["bank"] == k + 1)
        dtok = a1[a]["tok"][k] - a0[a]["tok"][k]
        gain = dtok * ONE * ONE + val(a1[a]) - val(a0[a])
        if gain > asv + lsv + ONE:
            return {"key": "operation-creates-value",
                    "what": f"{H.OPN[op[0]]} {op[1:]}: the user's tokens changed by {dtok} and the position value by "
                            f"{(val(a1[a]) - val(a0[a])) / (ONE * ONE):.6f} tokens: net gain {gain / (ONE * ONE):.6f} tokens"}
    return None
