//! Parsing of case lines and canonical printing of results.
use std::panic::{catch_unwind, AssertUnwindSafe};

pub struct Toks<'a> {
    it: std::str::SplitWhitespace<'a>,
}
impl<'a> Toks<'a> {
    pub fn new(s: &'a str) -> Self {
        Toks { it: s.split_whitespace() }
    }
    pub fn s(&mut self) -> &'a str {
        self.it.next().expect("missing token")
    }
    pub fn i128(&mut self) -> i128 {
        self.s().parse::<i128>().expect("bad i128")
    }
    pub fn u128(&mut self) -> u128 {
        self.s().parse::<u128>().expect("bad u128")
    }
    pub fn i64(&mut self) -> i64 {
        self.s().parse::<i64>().expect("bad i64")
    }
    pub fn u64(&mut self) -> u64 {
        self.s().parse::<u64>().expect("bad u64")
    }
    pub fn u32(&mut self) -> u32 {
        self.s().parse::<u32>().expect("bad u32")
    }
    pub fn u16(&mut self) -> u16 {
        self.s().parse::<u16>().expect("bad u16")
    }
    pub fn u8(&mut self) -> u8 {
        self.s().parse::<u8>().expect("bad u8")
    }
    pub fn i32(&mut self) -> i32 {
        self.s().parse::<i32>().expect("bad i32")
    }
    pub fn usize(&mut self) -> usize {
        self.s().parse::<usize>().expect("bad usize")
    }
    pub fn bool(&mut self) -> bool {
        self.u8() != 0
    }
    pub fn fx(&mut self) -> fixed::types::I80F48 {
        fixed::types::I80F48::from_bits(self.i128())
    }
    pub fn done(&mut self) -> bool {
        let mut c = self.it.clone();
        c.next().is_none()
    }
}

/// Canonical error token for an Anchor error.
pub fn err_tok(e: &anchor_lang::error::Error) -> String {
    use anchor_lang::error::Error;
    match e {
        Error::AnchorError(a) => format!("E{}", a.error_code_number),
        Error::ProgramError(p) => match &p.program_error {
            anchor_lang::prelude::ProgramError::Custom(n) => format!("E{}", n),
            other => format!("PE{}", u64::from(other.clone())),
        },
    }
}

/// Run `f`, mapping a panic to the token "PANIC".
pub fn guarded<F: FnOnce() -> String>(f: F) -> String {
    match catch_unwind(AssertUnwindSafe(f)) {
        Ok(s) => s,
        Err(_) => "PANIC".to_string(),
    }
}

pub fn opt_fx(o: Option<fixed::types::I80F48>) -> String {
    match o {
        Some(v) => format!("{}", v.to_bits()),
        None => "NONE".into(),
    }
}
