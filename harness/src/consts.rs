//! Translator step (Rust half): dump the constants the Coq model depends on, as the compiled
//! program defines them, into coq/gen/Constants.v.
use crate::gen_errs;
use marginfi::constants as mc;
use marginfi_type_crate::constants as tc;
use marginfi_type_crate::types::PanicState;

fn z(name: &str, v: i128) -> String {
    format!("Definition {} : Z := ({})%Z.\n", name, v)
}

pub fn dump() -> String {
    let mut o = String::new();
    o.push_str("(* GENERATED on every run by `mfi consts` (harness linked against /repo). Do not edit. *)\n");
    o.push_str("From Coq Require Import ZArith.\n\n");
    // error codes
    for (n, c) in gen_errs::errs() {
        o.push_str(&z(&format!("E_{}", n), c as i128));
    }
    // error codes of other crates that surface through marginfi (drift deposit-limit scaling, oracle adapter)
    o.push_str(&z(
        "E_DriftMocks_ScalingOverflow",
        u32::from(drift_mocks::DriftMocksError::ScalingOverflow) as i128,
    ));
    o.push_str(&z("E_DriftMocks_MathError", u32::from(drift_mocks::DriftMocksError::MathError) as i128));
    o.push('\n');
    // I80F48 constants as raw bits
    o.push_str(&z("LIQUIDATION_LIQUIDATOR_FEE", tc::LIQUIDATION_LIQUIDATOR_FEE.to_bits()));
    o.push_str(&z("LIQUIDATION_INSURANCE_FEE", tc::LIQUIDATION_INSURANCE_FEE.to_bits()));
    o.push_str(&z("SECONDS_PER_YEAR", tc::SECONDS_PER_YEAR.to_bits()));
    o.push_str(&z("CONF_INTERVAL_MULTIPLE", tc::CONF_INTERVAL_MULTIPLE.to_bits()));
    o.push_str(&z("STD_DEV_MULTIPLE", tc::STD_DEV_MULTIPLE.to_bits()));
    o.push_str(&z("MAX_CONF_INTERVAL", tc::MAX_CONF_INTERVAL.to_bits()));
    o.push_str(&z("U32_MAX_FX", tc::U32_MAX.to_bits()));
    o.push_str(&z("U32_MAX_DIV_10_FX", tc::U32_MAX_DIV_10.to_bits()));
    o.push_str(&z("EMPTY_BALANCE_THRESHOLD", tc::EMPTY_BALANCE_THRESHOLD.to_bits()));
    o.push_str(&z("BANKRUPT_THRESHOLD", tc::BANKRUPT_THRESHOLD.to_bits()));
    o.push_str(&z("ZERO_AMOUNT_THRESHOLD", tc::ZERO_AMOUNT_THRESHOLD.to_bits()));
    o.push_str(&z("LIQUIDATION_BONUS_FEE_MINIMUM", mc::LIQUIDATION_BONUS_FEE_MINIMUM.to_bits()));
    o.push_str(&z(
        "LIQUIDATION_CLOSEOUT_DOLLAR_THRESHOLD",
        mc::LIQUIDATION_CLOSEOUT_DOLLAR_THRESHOLD.to_bits(),
    ));
    o.push_str("Definition EXP_10_I80F48 : list Z := (");
    for (i, v) in tc::EXP_10_I80F48.iter().enumerate() {
        if i > 0 {
            o.push_str(" :: ");
        }
        o.push_str(&format!("{}", v.to_bits()));
    }
    o.push_str(" :: nil)%Z%list.\n");
    o.push_str("Definition EXP_10 : list Z := (");
    for (i, v) in tc::EXP_10.iter().enumerate() {
        if i > 0 {
            o.push_str(" :: ");
        }
        o.push_str(&format!("{}", v));
    }
    o.push_str(" :: nil)%Z%list.\n\n");
    // integers
    o.push_str(&z("DAILY_RESET_INTERVAL", tc::DAILY_RESET_INTERVAL as i128));
    o.push_str(&z("ORACLE_MIN_AGE", tc::ORACLE_MIN_AGE as i128));
    o.push_str(&z("MAX_PYTH_ORACLE_AGE", tc::MAX_PYTH_ORACLE_AGE as i128));
    o.push_str(&z("EMISSIONS_FLAG_BORROW_ACTIVE", tc::EMISSIONS_FLAG_BORROW_ACTIVE as i128));
    o.push_str(&z("EMISSIONS_FLAG_LENDING_ACTIVE", tc::EMISSIONS_FLAG_LENDING_ACTIVE as i128));
    o.push_str(&z(
        "PERMISSIONLESS_BAD_DEBT_SETTLEMENT_FLAG",
        tc::PERMISSIONLESS_BAD_DEBT_SETTLEMENT_FLAG as i128,
    ));
    o.push_str(&z("FREEZE_SETTINGS", tc::FREEZE_SETTINGS as i128));
    o.push_str(&z("CLOSE_ENABLED_FLAG", tc::CLOSE_ENABLED_FLAG as i128));
    o.push_str(&z("TOKENLESS_REPAYMENTS_ALLOWED", tc::TOKENLESS_REPAYMENTS_ALLOWED as i128));
    o.push_str(&z("TOKENLESS_REPAYMENTS_COMPLETE", tc::TOKENLESS_REPAYMENTS_COMPLETE as i128));
    o.push_str(&z("EMISSION_FLAGS", tc::EMISSION_FLAGS as i128));
    o.push_str(&z("GROUP_FLAGS", tc::GROUP_FLAGS as i128));
    o.push_str(&z("MIN_EMISSIONS_START_TIME", tc::MIN_EMISSIONS_START_TIME as i128));
    o.push_str(&z(
        "TOTAL_ASSET_VALUE_INIT_LIMIT_INACTIVE",
        tc::TOTAL_ASSET_VALUE_INIT_LIMIT_INACTIVE as i128,
    ));
    o.push_str(&z("ASSET_TAG_DEFAULT", tc::ASSET_TAG_DEFAULT as i128));
    o.push_str(&z("ASSET_TAG_SOL", tc::ASSET_TAG_SOL as i128));
    o.push_str(&z("ASSET_TAG_STAKED", tc::ASSET_TAG_STAKED as i128));
    o.push_str(&z("ASSET_TAG_KAMINO", tc::ASSET_TAG_KAMINO as i128));
    o.push_str(&z("ASSET_TAG_DRIFT", tc::ASSET_TAG_DRIFT as i128));
    o.push_str(&z("ASSET_TAG_SOLEND", tc::ASSET_TAG_SOLEND as i128));
    o.push_str(&z("MAX_INTEGRATION_POSITIONS", tc::MAX_INTEGRATION_POSITIONS as i128));
    o.push_str(&z(
        "MAX_LENDING_ACCOUNT_BALANCES",
        marginfi_type_crate::types::MAX_LENDING_ACCOUNT_BALANCES as i128,
    ));
    o.push_str(&z("DRIFT_SCALED_BALANCE_DECIMALS", mc::DRIFT_SCALED_BALANCE_DECIMALS as i128));
    // panic state
    o.push_str(&z("FLAG_PAUSED", PanicState::FLAG_PAUSED as i128));
    o.push_str(&z("PAUSE_DURATION_SECONDS", PanicState::PAUSE_DURATION_SECONDS as i128));
    o.push_str(&z("MAX_CONSECUTIVE_PAUSES", PanicState::MAX_CONSECUTIVE_PAUSES as i128));
    o.push_str(&z("MAX_DAILY_PAUSES", PanicState::MAX_DAILY_PAUSES as i128));
    o
}
