//! End-to-end self test of the sim runtime: `run()` builds a world and drives the real handlers.
use fixed::types::I80F48;
use marginfi::errors::MarginfiError;
use marginfi_type_crate::types::{
    Balance, Bank, BankConfigCompact, BankOperationalState, FeeState, InterestRateConfigCompact,
    LiquidationRecord, MarginfiAccount, MarginfiGroup, OracleSetup, RiskTier, ACCOUNT_DISABLED,
    ACCOUNT_IN_FLASHLOAN, ACCOUNT_IN_RECEIVERSHIP,
};
use solana_program::pubkey::Pubkey;

use super::fixtures::*;
use super::ixs;
use super::runtime::{ata_address, ExecError, Ix, World};

macro_rules! ensure {
    ($cond:expr, $($arg:tt)*) => {
        if !($cond) {
            return Err(format!("line {}: {}", line!(), format!($($arg)*)));
        }
    };
}

fn code(e: MarginfiError) -> u32 {
    u32::from(e)
}

fn expect_ok(r: Result<(), (usize, ExecError)>, what: &str) -> Result<(), String> {
    r.map_err(|(i, e)| format!("{}: expected success, got {:?} at ix {}", what, e, i))
}

fn expect_err(r: Result<(), (usize, ExecError)>, idx: usize, want: u32, what: &str) -> Result<(), String> {
    match r {
        Ok(()) => Err(format!("{}: expected error {}, got success", what, want)),
        Err((i, ExecError::Custom(n))) if i == idx && n == want => Ok(()),
        Err((i, e)) => Err(format!("{}: expected Custom({}) at ix {}, got {:?} at ix {}", what, want, idx, e, i)),
    }
}

fn fx(v: impl Into<I80F48>) -> I80F48 {
    v.into()
}

struct User {
    wallet: Pubkey,
    account: Pubkey,
    usdc: Pubkey,
    sol: Pubkey,
    t22: Pubkey,
}

const USDC: u64 = 1_000_000;
const SOL: u64 = 1_000_000_000;
const T22: u64 = 1_000_000;

pub fn run() -> Result<String, String> {
    let mut rep: Vec<String> = Vec::new();
    let mut w = World::new();

    // ------------------------------------------------------------------------------ world setup
    let admin = mk_wallet(&mut w, 100 * SOL);
    let fee_admin = mk_wallet(&mut w, 100 * SOL);
    let fee_wallet = mk_wallet(&mut w, SOL);
    let fee_state = mk_fee_state(
        &mut w,
        fee_admin,
        fee_wallet,
        FeeStateParams {
            bank_init_flat_sol_fee: 10_000,
            liquidation_flat_sol_fee: 5_000,
            program_fee_fixed: I80F48::ZERO,
            program_fee_rate: I80F48::from_num(0.05),
            liquidation_max_fee: I80F48::from_num(0.1),
        },
    );
    ensure!(fee_state == fee_state_key(), "fee state key");
    let group = mk_group(&mut w, admin);

    let usdc_mint = mk_mint(&mut w, 6, TokenProgram::Spl);
    let sol_mint = mk_mint(&mut w, 9, TokenProgram::Spl);
    let t22_mint = mk_mint(&mut w, 6, TokenProgram::T22WithFee { bps: 100, max_fee: 1_000_000_000_000 });

    let now = w.unix_timestamp;
    // $1, $100, $2 with exponent -8
    let usdc_oracle = mk_pyth_push_oracle(&mut w, [1u8; 32], 100_000_000, 0, -8, 100_000_000, 0, now);
    let sol_oracle = mk_pyth_push_oracle(&mut w, [2u8; 32], 10_000_000_000, 0, -8, 10_000_000_000, 0, now);
    let t22_oracle = mk_pyth_push_oracle(&mut w, [3u8; 32], 200_000_000, 0, -8, 200_000_000, 0, now);

    let mut irc = default_interest_rate_config();
    irc.insurance_ir_fee = I80F48::from_num(0.1).into();
    irc.protocol_ir_fee = I80F48::from_num(0.1).into();
    let usdc_bank = mk_bank(
        &mut w,
        group,
        usdc_mint,
        BankParams { interest_rate_config: irc, ..Default::default() }
            .with_pyth(usdc_oracle)
            .with_weights(0.9, 0.95, 1.1, 1.05),
    );
    let sol_bank = mk_bank(
        &mut w,
        group,
        sol_mint,
        BankParams { interest_rate_config: irc, ..Default::default() }
            .with_pyth(sol_oracle)
            .with_weights(0.8, 0.9, 1.2, 1.1),
    );
    let t22_bank = mk_bank(
        &mut w,
        group,
        t22_mint,
        BankParams { interest_rate_config: irc, ..Default::default() }
            .with_pyth(t22_oracle)
            .with_weights(0.5, 0.6, 1.5, 1.25),
    );
    ensure!(w.get::<MarginfiGroup>(&group).unwrap().banks == 3, "group.banks counter");
    let usdc_ctx = bank_ctx(&w, &usdc_bank);
    let sol_ctx = bank_ctx(&w, &sol_bank);
    let t22_ctx = bank_ctx(&w, &t22_bank);
    ensure!(t22_ctx.token_program == spl_token_2022::ID && t22_ctx.mint_prefix.len() == 1, "t22 ctx");
    ensure!(usdc_ctx.token_program == spl_token::ID && usdc_ctx.mint_prefix.is_empty(), "usdc ctx");

    let mk_user = |w: &mut World| -> User {
        let wallet = mk_wallet(w, 10 * SOL);
        User {
            wallet,
            account: mk_marginfi_account(w, group, wallet),
            usdc: mk_token_account(w, usdc_mint, wallet, 200_000 * USDC),
            sol: mk_token_account(w, sol_mint, wallet, 1_000 * SOL),
            t22: mk_token_account(w, t22_mint, wallet, 10_000 * T22),
        }
    };
    let a = mk_user(&mut w);
    let b = mk_user(&mut w);
    let c = mk_user(&mut w);
    let d = mk_user(&mut w);
    rep.push("setup ok: group, fee state, 3 banks (USDC spl, SOL spl, T22 w/ 1% transfer fee), 4 users".into());

    // Small closures building the common user instructions from the bank contexts.
    let deposit = |w: &World, u: &User, bank: &Pubkey, tok: Pubkey, amount: u64| -> Ix {
        let bc = bank_ctx(w, bank);
        ixs::lending_account_deposit(
            group, u.account, u.wallet, *bank, tok, bc.token_program, amount, None, bc.mint_prefix.clone(),
        )
    };
    let borrow = |w: &World, u: &User, bank: &Pubkey, tok: Pubkey, amount: u64| -> Ix {
        let bc = bank_ctx(w, bank);
        let mut rem = bc.mint_prefix.clone();
        rem.extend(remaining_for(w, &u.account, &[*bank]));
        ixs::lending_account_borrow(group, u.account, u.wallet, *bank, tok, bc.token_program, amount, rem)
    };
    let withdraw = |w: &World, u: &User, bank: &Pubkey, tok: Pubkey, amount: u64, all: bool| -> Ix {
        let bc = bank_ctx(w, bank);
        let mut rem = bc.mint_prefix.clone();
        let excl: Vec<Pubkey> = if all { vec![*bank] } else { vec![] };
        rem.extend(remaining_for_ex(w, &u.account, &[], &excl));
        ixs::lending_account_withdraw(
            group, u.account, u.wallet, *bank, tok, bc.token_program, amount, if all { Some(true) } else { None }, rem,
        )
    };
    let repay = |w: &World, u: &User, bank: &Pubkey, tok: Pubkey, amount: u64, all: bool| -> Ix {
        let bc = bank_ctx(w, bank);
        ixs::lending_account_repay(
            group, u.account, u.wallet, *bank, tok, bc.token_program, amount, if all { Some(true) } else { None },
            bc.mint_prefix.clone(),
        )
    };

    // ------------------------------------------------------------------------------ step 1
    // deposit
    let ix = deposit(&w, &a, &usdc_bank, a.usdc, 100_000 * USDC);
    expect_ok(w.exec_tx(&[ix], &[a.wallet]), "A deposit USDC")?;
    ensure!(w.token_balance(&a.usdc) == 100_000 * USDC, "A usdc after deposit {}", w.token_balance(&a.usdc));
    ensure!(w.token_balance(&usdc_ctx.keys.liquidity_vault) == 100_000 * USDC, "usdc vault after deposit");
    let (ash, lsh) = balance_of(&w, &a.account, &usdc_bank).ok_or("A has no usdc balance")?;
    ensure!(ash == I80F48::from_num(100_000 * USDC) && lsh == I80F48::ZERO, "A usdc shares {} {}", ash, lsh);
    let bk: Bank = w.get(&usdc_bank).unwrap();
    ensure!(fx(bk.total_asset_shares) == I80F48::from_num(100_000 * USDC), "bank total asset shares");
    ensure!(bk.lending_position_count == 1, "lending position count");

    let ix = deposit(&w, &b, &sol_bank, b.sol, 100 * SOL);
    expect_ok(w.exec_tx(&[ix], &[b.wallet]), "B deposit SOL")?;
    ensure!(w.token_balance(&sol_ctx.keys.liquidity_vault) == 100 * SOL, "sol vault after deposit");

    // deposit signed by a stranger → Unauthorized, store untouched
    let before = w.accounts.clone();
    let ix = ixs::lending_account_deposit(
        group, a.account, c.wallet, usdc_bank, c.usdc, spl_token::ID, 5 * USDC, None, vec![],
    );
    expect_err(w.exec_tx(&[ix], &[c.wallet]), 0, 6042, "stranger deposit")?;
    ensure!(code(MarginfiError::Unauthorized) == 6042, "Unauthorized != 6042");
    ensure!(w.accounts == before, "store changed after failed stranger deposit");
    // authority named correctly but did not sign → Anchor AccountNotSigner (3010)
    let ix = deposit(&w, &a, &usdc_bank, a.usdc, 5 * USDC);
    expect_err(w.exec_tx(&[ix], &[c.wallet]), 0, 3010, "unsigned deposit")?;
    ensure!(w.accounts == before, "store changed after unsigned deposit");

    // bank of another group → InvalidGroup
    let group2 = mk_group(&mut w, admin);
    let usdc_bank2 = mk_bank(&mut w, group2, usdc_mint, BankParams::default().with_pyth(usdc_oracle));
    let before = w.accounts.clone();
    let ix = ixs::lending_account_deposit(
        group, a.account, a.wallet, usdc_bank2, a.usdc, spl_token::ID, 5 * USDC, None, vec![],
    );
    ensure!(code(MarginfiError::InvalidGroup) == 6093, "InvalidGroup is {}", code(MarginfiError::InvalidGroup));
    expect_err(w.exec_tx(&[ix], &[a.wallet]), 0, 6093, "foreign-group bank deposit")?;
    ensure!(w.accounts == before, "store changed after failed foreign-group deposit");

    // borrow
    let ix = borrow(&w, &a, &sol_bank, a.sol, 50 * SOL);
    expect_ok(w.exec_tx(&[ix], &[a.wallet]), "A borrow SOL")?;
    ensure!(w.token_balance(&a.sol) == 1_050 * SOL, "A sol after borrow");
    ensure!(w.token_balance(&sol_ctx.keys.liquidity_vault) == 50 * SOL, "sol vault after borrow");
    let (_, lsh) = balance_of(&w, &a.account, &sol_bank).ok_or("A has no sol balance")?;
    ensure!(lsh == I80F48::from_num(50 * SOL), "A sol liability shares {}", lsh);
    let acc: MarginfiAccount = w.get(&a.account).unwrap();
    ensure!(acc.health_cache.is_healthy() && acc.health_cache.is_engine_ok(), "health cache flags after borrow");
    // borrowing too much is rejected by the risk engine
    let before = w.accounts.clone();
    let ix = borrow(&w, &a, &sol_bank, a.sol, 51 * SOL);
    expect_err(w.exec_tx(&[ix], &[a.wallet]), 0, code(MarginfiError::IllegalUtilizationRatio), "borrow more than the bank holds")?;
    ensure!(w.accounts == before, "store changed after failed over-borrow");
    // missing risk accounts → error, no state change
    let ix = ixs::lending_account_borrow(group, a.account, a.wallet, sol_bank, a.sol, spl_token::ID, SOL, vec![]);
    ensure!(w.exec_tx(&[ix], &[a.wallet]).is_err(), "borrow without risk accounts must fail");
    ensure!(w.accounts == before, "store changed after failed borrow");

    // withdraw
    let ix = withdraw(&w, &a, &usdc_bank, a.usdc, 100 * USDC, false);
    expect_ok(w.exec_tx(&[ix], &[a.wallet]), "A withdraw USDC")?;
    ensure!(w.token_balance(&a.usdc) == 100_100 * USDC, "A usdc after withdraw");
    // repay
    let ix = repay(&w, &a, &sol_bank, a.sol, SOL, false);
    expect_ok(w.exec_tx(&[ix], &[a.wallet]), "A repay SOL")?;
    ensure!(w.token_balance(&a.sol) == 1_049 * SOL, "A sol after repay");
    let (_, lsh) = balance_of(&w, &a.account, &sol_bank).unwrap();
    ensure!(lsh == I80F48::from_num(49 * SOL), "A sol liability after repay {}", lsh);

    // Token-2022 with transfer fee: deposit 500 → user pays 500/(1-1%) rounded up, vault gets 500
    let ix = deposit(&w, &c, &t22_bank, c.t22, 500 * T22);
    expect_ok(w.exec_tx(&[ix], &[c.wallet]), "C deposit T22")?;
    ensure!(w.token_balance(&t22_ctx.keys.liquidity_vault) == 500 * T22, "t22 vault {}", w.token_balance(&t22_ctx.keys.liquidity_vault));
    ensure!(w.token_balance(&c.t22) == 10_000 * T22 - 505_050_506, "C t22 after deposit {}", w.token_balance(&c.t22));
    let ix = withdraw(&w, &c, &t22_bank, c.t22, 100 * T22, false);
    expect_ok(w.exec_tx(&[ix], &[c.wallet]), "C withdraw T22")?;
    ensure!(w.token_balance(&c.t22) == 10_000 * T22 - 505_050_506 + 100 * T22, "C t22 after withdraw {}", w.token_balance(&c.t22));
    ensure!(w.token_balance(&t22_ctx.keys.liquidity_vault) == 500 * T22 - 101_010_102, "t22 vault after withdraw");
    // T22 deposit without the mint as first remaining account → T22MintRequired
    let ix = ixs::lending_account_deposit(group, c.account, c.wallet, t22_bank, c.t22, spl_token_2022::ID, T22, None, vec![]);
    expect_err(w.exec_tx(&[ix], &[c.wallet]), 0, code(MarginfiError::T22MintRequired), "T22 deposit w/o mint")?;
    rep.push("step 1 ok: deposit/borrow/withdraw/repay (SPL + Token-2022 fee), stranger 6042, unsigned 3010, foreign group 6093, rollbacks byte-identical".into());

    // ------------------------------------------------------------------------------ step 2
    let pre: Bank = w.get(&sol_bank).unwrap();
    w.advance_clock(30 * 24 * 3600);
    for o in [usdc_oracle, sol_oracle, t22_oracle] {
        touch_pyth(&mut w, &o);
    }
    expect_ok(w.exec_tx(&[ixs::lending_pool_accrue_bank_interest(group, sol_bank)], &[]), "accrue")?;
    let post: Bank = w.get(&sol_bank).unwrap();
    ensure!(fx(post.asset_share_value) > fx(pre.asset_share_value), "asset share value did not grow");
    ensure!(fx(post.liability_share_value) > fx(post.asset_share_value), "liab share value should outgrow asset share value");
    ensure!(post.last_update == w.unix_timestamp, "bank.last_update");
    ensure!(fx(post.collected_group_fees_outstanding) > I80F48::ONE, "group fees outstanding");
    ensure!(fx(post.collected_insurance_fees_outstanding) > I80F48::ONE, "insurance fees outstanding");
    ensure!(fx(post.collected_program_fees_outstanding) > I80F48::ONE, "program fees outstanding");
    // conservation: liabilities growth == assets growth + all fees (up to rounding)
    let d_liab = fx(post.liability_share_value) * fx(post.total_liability_shares) - fx(pre.liability_share_value) * fx(pre.total_liability_shares);
    let d_asset = fx(post.asset_share_value) * fx(post.total_asset_shares) - fx(pre.asset_share_value) * fx(pre.total_asset_shares);
    let fees = fx(post.collected_group_fees_outstanding) + fx(post.collected_insurance_fees_outstanding) + fx(post.collected_program_fees_outstanding);
    ensure!((d_liab - d_asset - fees).abs() < I80F48::from_num(10), "interest conservation: {} vs {} + {}", d_liab, d_asset, fees);

    let fee_ata = mk_ata(&mut w, sol_mint, fee_wallet, 0);
    ensure!(fee_ata == ata_address(&fee_wallet, &sol_mint, &spl_token::ID), "fee ata");
    let vault_before = w.token_balance(&sol_ctx.keys.liquidity_vault);
    let ix = ixs::lending_pool_collect_bank_fees(group, sol_bank, fee_ata, spl_token::ID, vec![]);
    expect_ok(w.exec_tx(&[ix], &[]), "collect fees")?;
    let (fv, iv, pa) = (
        w.token_balance(&sol_ctx.keys.fee_vault),
        w.token_balance(&sol_ctx.keys.insurance_vault),
        w.token_balance(&fee_ata),
    );
    ensure!(fv > 0 && iv > 0 && pa > 0, "fees not moved: {} {} {}", fv, iv, pa);
    ensure!(vault_before - w.token_balance(&sol_ctx.keys.liquidity_vault) == fv + iv + pa, "fee conservation");
    let after: Bank = w.get(&sol_bank).unwrap();
    ensure!(fx(after.collected_group_fees_outstanding) < I80F48::ONE, "group fees outstanding after collect");
    // wrong fee ATA
    let ix = ixs::lending_pool_collect_bank_fees(group, sol_bank, a.sol, spl_token::ID, vec![]);
    expect_err(w.exec_tx(&[ix], &[]), 0, code(MarginfiError::InvalidFeeAta), "collect fees wrong ata")?;
    // withdraw fees / insurance by the admin; a non-admin fails
    let admin_sol = mk_token_account(&mut w, sol_mint, admin, 0);
    let ix = ixs::lending_pool_withdraw_fees(group, sol_bank, admin, admin_sol, spl_token::ID, fv, vec![]);
    expect_ok(w.exec_tx(&[ix], &[admin]), "withdraw fees")?;
    let ix = ixs::lending_pool_withdraw_insurance(group, sol_bank, admin, admin_sol, spl_token::ID, iv / 2, vec![]);
    expect_ok(w.exec_tx(&[ix], &[admin]), "withdraw insurance")?;
    ensure!(w.token_balance(&admin_sol) == fv + iv / 2, "admin received fees");
    let ix = ixs::lending_pool_withdraw_insurance(group, sol_bank, a.wallet, a.sol, spl_token::ID, 1, vec![]);
    expect_err(w.exec_tx(&[ix], &[a.wallet]), 0, 6042, "withdraw insurance by stranger")?;
    rep.push(format!("step 2 ok: accrue 30d (asset sv {:.6}, liab sv {:.6}), collect fees (group {}, insurance {}, program {}), withdraw fees/insurance", fx(post.asset_share_value), fx(post.liability_share_value), fv, iv, pa));

    // ------------------------------------------------------------------------------ step 3
    let ix = borrow(&w, &b, &usdc_bank, b.usdc, 6_000 * USDC);
    expect_ok(w.exec_tx(&[ix], &[b.wallet]), "B borrow USDC")?;
    let liq_ix = |w: &World, amount: u64| -> Ix {
        let mut rem = vec![];
        rem.extend(bank_ctx(w, &sol_bank).oracle_metas);
        rem.extend(bank_ctx(w, &usdc_bank).oracle_metas);
        let liquidator = remaining_for(w, &a.account, &[sol_bank, usdc_bank]);
        let liquidatee = remaining_for(w, &b.account, &[]);
        let (n_or, n_ee) = (liquidator.len() as u8, liquidatee.len() as u8);
        rem.extend(liquidator);
        rem.extend(liquidatee);
        ixs::lending_account_liquidate(
            group, sol_bank, usdc_bank, a.account, a.wallet, b.account, spl_token::ID, amount, n_ee, n_or, rem,
        )
    };
    let before = w.accounts.clone();
    let ix = liq_ix(&w, 10 * SOL);
    expect_err(w.exec_tx(&[ix], &[a.wallet]), 0, code(MarginfiError::HealthyAccount), "liquidate healthy")?;
    ensure!(w.accounts == before, "store changed after failed liquidation");
    // SOL drops to $60
    set_pyth_price_simple(&mut w, &sol_oracle, 6_000_000_000);
    let a_usdc_pre = balance_of(&w, &a.account, &usdc_bank).unwrap().0;
    let ins_pre = w.token_balance(&usdc_ctx.keys.insurance_vault);
    let ix = liq_ix(&w, 10 * SOL);
    expect_ok(w.exec_tx(&[ix], &[a.wallet]), "liquidate unhealthy")?;
    let (b_sol_assets, _) = balance_of(&w, &b.account, &sol_bank).unwrap();
    let (_, b_usdc_liab) = balance_of(&w, &b.account, &usdc_bank).unwrap();
    let usdc_b: Bank = w.get(&usdc_bank).unwrap();
    let b_debt = b_usdc_liab * fx(usdc_b.liability_share_value);
    // repaid 10 * 60 * 0.95 = 570 USDC
    ensure!((b_debt - I80F48::from_num(5_430 * USDC)).abs() < I80F48::from_num(USDC / 100), "B debt after liquidation {}", b_debt);
    let sol_b: Bank = w.get(&sol_bank).unwrap();
    let b_sol = b_sol_assets * fx(sol_b.asset_share_value);
    ensure!(b_sol > I80F48::from_num(92 * SOL) && b_sol < I80F48::from_num(93 * SOL), "B sol after liquidation {}", b_sol);
    // liquidator paid 585 USDC out of its deposit, insurance vault got the 15 USDC difference
    let a_usdc_post = balance_of(&w, &a.account, &usdc_bank).unwrap().0;
    let paid = (a_usdc_pre - a_usdc_post) * fx(usdc_b.asset_share_value);
    ensure!((paid - I80F48::from_num(585 * USDC)).abs() < I80F48::from_num(USDC / 100), "liquidator paid {}", paid);
    let ins_fee = w.token_balance(&usdc_ctx.keys.insurance_vault) - ins_pre;
    ensure!(ins_fee == 15 * USDC || ins_fee == 15 * USDC - 1, "insurance fee {}", ins_fee);
    rep.push("step 3 ok: classic liquidation HealthyAccount on healthy account, succeeds after SOL $100 -> $60 (570 repaid, 585 paid, 15 insurance)".into());

    // ------------------------------------------------------------------------------ step 4
    let ix = deposit(&w, &d, &sol_bank, d.sol, 10 * SOL);
    expect_ok(w.exec_tx(&[ix], &[d.wallet]), "D deposit SOL")?;
    let ix = borrow(&w, &d, &usdc_bank, d.usdc, 100 * USDC);
    expect_ok(w.exec_tx(&[ix], &[d.wallet]), "D borrow USDC")?;
    // not bankrupt yet
    let bankrupt_ix = |w: &World, signer: Pubkey| -> Ix {
        ixs::lending_pool_handle_bankruptcy(
            group, signer, usdc_bank, d.account, spl_token::ID, remaining_for(w, &d.account, &[]),
        )
    };
    let ix = bankrupt_ix(&w, admin);
    expect_err(w.exec_tx(&[ix], &[admin]), 0, code(MarginfiError::AccountNotBankrupt), "bankruptcy on solvent account")?;
    // wipe D's collateral (as if it had been fully liquidated): bad debt remains
    let (d_shares, _) = balance_of(&w, &d.account, &sol_bank).unwrap();
    w.update::<MarginfiAccount>(&d.account, |acc| {
        for bal in acc.lending_account.balances.iter_mut() {
            if bal.is_active() && bal.bank_pk == sol_bank {
                *bal = Balance::empty_deactivated();
            }
        }
    });
    w.update::<Bank>(&sol_bank, |bk| {
        bk.total_asset_shares = (fx(bk.total_asset_shares) - d_shares).into();
        bk.lending_position_count -= 1;
    });
    // a stranger may not settle bad debt (flag not set)
    let ix = bankrupt_ix(&w, c.wallet);
    expect_err(w.exec_tx(&[ix], &[c.wallet]), 0, 6042, "bankruptcy by stranger")?;
    let usdc_pre: Bank = w.get(&usdc_bank).unwrap();
    let ins_pre = w.token_balance(&usdc_ctx.keys.insurance_vault);
    let vault_pre = w.token_balance(&usdc_ctx.keys.liquidity_vault);
    let ix = bankrupt_ix(&w, admin);
    expect_ok(w.exec_tx(&[ix], &[admin]), "handle bankruptcy")?;
    let usdc_post: Bank = w.get(&usdc_bank).unwrap();
    let dacc: MarginfiAccount = w.get(&d.account).unwrap();
    ensure!(dacc.account_flags & ACCOUNT_DISABLED != 0, "bankrupt account must be disabled");
    ensure!(balance_of(&w, &d.account, &usdc_bank).map(|(_, l)| l < I80F48::ONE).unwrap_or(true), "bad debt not cleared");
    ensure!(w.token_balance(&usdc_ctx.keys.insurance_vault) == 0, "insurance vault should be drained (had {})", ins_pre);
    ensure!(w.token_balance(&usdc_ctx.keys.liquidity_vault) == vault_pre + ins_pre, "insurance moved to liquidity vault");
    ensure!(fx(usdc_post.asset_share_value) < fx(usdc_pre.asset_share_value), "loss not socialised");
    // socialised = 100 - 15 = 85 USDC over ~93.5k USDC of deposits
    let lost = (fx(usdc_pre.asset_share_value) - fx(usdc_post.asset_share_value)) * fx(usdc_post.total_asset_shares);
    ensure!((lost - I80F48::from_num(85 * USDC)).abs() < I80F48::from_num(USDC), "socialised loss {}", lost);
    ensure!(usdc_post.config.operational_state == BankOperationalState::Operational, "bank must survive");
    // a disabled account cannot deposit
    let ix = deposit(&w, &d, &usdc_bank, d.usdc, USDC);
    expect_err(w.exec_tx(&[ix], &[d.wallet]), 0, code(MarginfiError::AccountDisabled), "deposit into disabled account")?;
    rep.push(format!("step 4 ok: bankruptcy (insurance {} drained, {:.2} USDC socialised, account disabled)", ins_pre, lost / I80F48::from_num(USDC)));

    // ------------------------------------------------------------------------------ step 5
    let c_sol_pre = w.token_balance(&c.sol);
    let fl_borrow = ixs::lending_account_borrow(group, c.account, c.wallet, sol_bank, c.sol, spl_token::ID, 10 * SOL, vec![]);
    let fl_repay = ixs::lending_account_repay(group, c.account, c.wallet, sol_bank, c.sol, spl_token::ID, 0, Some(true), vec![]);
    let fl_end = ixs::lending_account_end_flashloan(c.account, c.wallet, remaining_for(&w, &c.account, &[]));
    let tx = vec![
        ixs::compute_budget(400_000),
        ixs::lending_account_start_flashloan(c.account, c.wallet, 4),
        fl_borrow.clone(),
        fl_repay.clone(),
        fl_end.clone(),
    ];
    expect_ok(w.exec_tx(&tx, &[c.wallet]), "flashloan")?;
    let cacc: MarginfiAccount = w.get(&c.account).unwrap();
    ensure!(cacc.account_flags & ACCOUNT_IN_FLASHLOAN == 0, "flashloan flag must be cleared");
    ensure!(balance_of(&w, &c.account, &sol_bank).is_none(), "flashloan balance must be closed");
    ensure!(w.token_balance(&c.sol) == c_sol_pre, "C sol after flashloan {} vs {}", w.token_balance(&c.sol), c_sol_pre);
    // wrong end index (points at the repay) → IllegalFlashloan at ix 1, the preceding deposit is rolled back
    let before = w.accounts.clone();
    let tx = vec![
        deposit(&w, &c, &t22_bank, c.t22, T22),
        ixs::lending_account_start_flashloan(c.account, c.wallet, 3),
        fl_borrow.clone(),
        fl_repay.clone(),
        fl_end.clone(),
    ];
    expect_err(w.exec_tx(&tx, &[c.wallet]), 1, code(MarginfiError::IllegalFlashloan), "flashloan wrong end index")?;
    ensure!(w.accounts == before, "store changed after failed flashloan (wrong index)");
    // correct index but nothing repaid → end_flashloan health check fails, borrow is rolled back
    let end_with_debt = ixs::lending_account_end_flashloan(c.account, c.wallet, remaining_for(&w, &c.account, &[sol_bank]));
    let tx = vec![
        ixs::lending_account_start_flashloan(c.account, c.wallet, 2),
        ixs::lending_account_borrow(group, c.account, c.wallet, sol_bank, c.sol, spl_token::ID, 30 * SOL, vec![]),
        end_with_debt,
    ];
    expect_err(w.exec_tx(&tx, &[c.wallet]), 2, code(MarginfiError::RiskEngineInitRejected), "flashloan not repaid")?;
    ensure!(w.accounts == before, "store changed after failed flashloan (unhealthy)");
    ensure!(w.token_balance(&c.sol) == c_sol_pre, "borrowed tokens must be rolled back");
    // start without end in the same tx
    let tx = vec![ixs::lending_account_start_flashloan(c.account, c.wallet, 1)];
    ensure!(w.exec_tx(&tx, &[c.wallet]).is_err(), "flashloan without end must fail");
    ensure!(w.accounts == before, "store changed after failed flashloan (no end)");
    rep.push("step 5 ok: flashloan [budget,start,borrow,repay_all,end] succeeds; wrong end index -> IllegalFlashloan, unpaid -> RiskEngineInitRejected, both rolled back atomically".into());

    // ------------------------------------------------------------------------------ step 6
    // B is still unhealthy after the partial classic liquidation. Liquidator = A's wallet.
    let lamports_pre = w.lamports(&a.wallet);
    let ix = ixs::marginfi_account_init_liq_record(b.account, a.wallet);
    expect_ok(w.exec_tx(&[ix], &[a.wallet]), "init liquidation record")?;
    let rec_key = liquidation_record_key(&b.account);
    let rec: LiquidationRecord = w.get(&rec_key).ok_or("no liquidation record")?;
    ensure!(rec.marginfi_account == b.account && rec.record_payer == a.wallet && rec.key == rec_key, "liq record fields");
    ensure!(w.get::<MarginfiAccount>(&b.account).unwrap().liquidation_record == rec_key, "account.liquidation_record");
    ensure!(w.account(&rec_key).unwrap().owner == marginfi::ID, "record owner");
    ensure!(lamports_pre - w.lamports(&a.wallet) == w.lamports(&rec_key), "record rent paid by payer");

    let liquidator = User { wallet: a.wallet, account: b.account, usdc: a.usdc, sol: a.sol, t22: a.t22 };
    let rem_b = remaining_for(&w, &b.account, &[]);
    let rx_withdraw = ixs::lending_account_withdraw(
        group, b.account, liquidator.wallet, sol_bank, liquidator.sol, spl_token::ID, 5 * SOL, None, rem_b.clone(),
    );
    let rx_repay = ixs::lending_account_repay(
        group, b.account, liquidator.wallet, usdc_bank, liquidator.usdc, spl_token::ID, 290 * USDC, None, vec![],
    );
    let fee_wallet_pre = w.lamports(&fee_wallet);
    let (l_sol_pre, l_usdc_pre) = (w.token_balance(&liquidator.sol), w.token_balance(&liquidator.usdc));
    let tx = vec![
        ixs::compute_budget(1_000_000),
        ixs::start_liquidation(b.account, liquidator.wallet, rem_b.clone()),
        rx_withdraw.clone(),
        rx_repay.clone(),
        ixs::end_liquidation(b.account, liquidator.wallet, fee_wallet, rem_b.clone()),
    ];
    expect_ok(w.exec_tx(&tx, &[liquidator.wallet]), "receivership liquidation")?;
    ensure!(w.token_balance(&liquidator.sol) == l_sol_pre + 5 * SOL, "liquidator got SOL");
    ensure!(w.token_balance(&liquidator.usdc) == l_usdc_pre - 290 * USDC, "liquidator paid USDC");
    ensure!(w.lamports(&fee_wallet) == fee_wallet_pre + 5_000, "flat sol fee paid");
    let bacc: MarginfiAccount = w.get(&b.account).unwrap();
    ensure!(bacc.account_flags & ACCOUNT_IN_RECEIVERSHIP == 0, "receivership flag cleared");
    let rec: LiquidationRecord = w.get(&rec_key).unwrap();
    ensure!(rec.liquidation_receiver == Pubkey::default(), "receiver cleared");
    let seized = f64::from_le_bytes(rec.entries[3].asset_amount_seized);
    let repaid = f64::from_le_bytes(rec.entries[3].liab_amount_repaid);
    ensure!((seized - 300.0).abs() < 0.01 && (repaid - 290.0).abs() < 0.01, "record entry seized {} repaid {}", seized, repaid);
    ensure!(rec.entries[3].timestamp == w.unix_timestamp, "record timestamp");
    // too greedy: seize 5 SOL ($300) for 265 USDC (health improves, premium 13% > 10%) → LiquidationPremiumTooHigh at the end ix, all rolled back
    let before = w.accounts.clone();
    let greedy_repay = ixs::lending_account_repay(
        group, b.account, liquidator.wallet, usdc_bank, liquidator.usdc, spl_token::ID, 265 * USDC, None, vec![],
    );
    let tx = vec![
        ixs::start_liquidation(b.account, liquidator.wallet, rem_b.clone()),
        rx_withdraw.clone(),
        greedy_repay,
        ixs::end_liquidation(b.account, liquidator.wallet, fee_wallet, rem_b.clone()),
    ];
    expect_err(w.exec_tx(&tx, &[liquidator.wallet]), 3, code(MarginfiError::LiquidationPremiumTooHigh), "greedy receivership liquidation")?;
    ensure!(w.accounts == before, "store changed after failed receivership liquidation");
    // start without end → StartNotFirst / EndNotLast family error, rolled back
    let tx = vec![ixs::start_liquidation(b.account, liquidator.wallet, rem_b.clone()), rx_withdraw.clone()];
    expect_err(w.exec_tx(&tx, &[liquidator.wallet]), 0, code(MarginfiError::EndNotLast), "start_liquidation without end")?;
    // a forbidden instruction (borrow) inside the liquidation tx
    let tx = vec![
        ixs::start_liquidation(b.account, liquidator.wallet, rem_b.clone()),
        borrow(&w, &a, &t22_bank, a.t22, 1),
        ixs::end_liquidation(b.account, liquidator.wallet, fee_wallet, rem_b.clone()),
    ];
    expect_err(w.exec_tx(&tx, &[liquidator.wallet]), 0, code(MarginfiError::ForbiddenIx), "forbidden ix in liquidation tx")?;
    ensure!(w.accounts == before, "store changed after failed liquidation txs");
    rep.push(format!("step 6 ok: receivership liquidation [init record][budget,start,withdraw,repay,end] seized ${:.2} repaid ${:.2}, flat fee paid; greedy / unterminated / forbidden-ix variants fail and roll back", seized, repaid));

    // ------------------------------------------------------------------------------ step 7
    expect_err(w.exec_tx(&[ixs::panic_pause(admin)], &[admin]), 0, 6042, "panic_pause by non fee-admin")?;
    expect_ok(w.exec_tx(&[ixs::panic_pause(fee_admin)], &[fee_admin]), "panic_pause")?;
    let fs: FeeState = w.get(&fee_state).unwrap();
    ensure!(fs.panic_state.is_paused_flag() && fs.panic_state.pause_start_timestamp == w.unix_timestamp, "fee state paused");
    // not yet propagated: deposits still work
    let ix = deposit(&w, &a, &usdc_bank, a.usdc, USDC);
    expect_ok(w.exec_tx(&[ix.clone()], &[a.wallet]), "deposit before propagation")?;
    expect_ok(w.exec_tx(&[ixs::propagate_fee_state(group)], &[]), "propagate")?;
    let g: MarginfiGroup = w.get(&group).unwrap();
    ensure!(g.panic_state_cache.is_paused_flag(), "group cache paused");
    let before = w.accounts.clone();
    expect_err(w.exec_tx(&[ix.clone()], &[a.wallet]), 0, code(MarginfiError::ProtocolPaused), "deposit while paused")?;
    ensure!(w.accounts == before, "store changed after paused deposit");
    expect_err(
        w.exec_tx(&[ixs::panic_unpause_permissionless()], &[]),
        0,
        code(MarginfiError::PauseLimitExceeded),
        "permissionless unpause too early",
    )?;
    w.advance_clock(1799);
    expect_err(w.exec_tx(&[ix.clone()], &[a.wallet]), 0, code(MarginfiError::ProtocolPaused), "deposit at +1799s")?;
    w.advance_clock(1);
    let a_pre = w.token_balance(&a.usdc);
    expect_ok(w.exec_tx(&[ix], &[a.wallet]), "deposit after pause expiry")?;
    ensure!(w.token_balance(&a.usdc) == a_pre - USDC, "deposit after pause moved tokens");
    expect_ok(w.exec_tx(&[ixs::panic_unpause_permissionless()], &[]), "permissionless unpause after expiry")?;
    ensure!(!w.get::<FeeState>(&fee_state).unwrap().panic_state.is_paused_flag(), "fee state unpaused");
    rep.push("step 7 ok: panic_pause (fee admin only), propagate, deposit ProtocolPaused, +1799s still paused, +1800s deposit succeeds, permissionless unpause".into());

    // ------------------------------------------------------------------------------ step 8 (extras)
    extras(&mut w, group, admin, fee_wallet, &a, usdc_mint, sol_mint, sol_oracle, &mut rep)?;

    // ------------------------------------------------------------------------------ step 9 (builder coverage)
    for o in [usdc_oracle, sol_oracle, t22_oracle] {
        touch_pyth(&mut w, &o);
    }
    builders(&mut w, group, admin, fee_wallet, &a, &b, &c, usdc_bank, sol_bank, t22_bank, usdc_mint, sol_mint, &mut rep)?;

    Ok(rep.join("\n"))
}

/// Runtime features beyond the seven required scenarios: Anchor `init` through the emulated
/// system program + real token init (add_bank, account initialize), `close`, oracle
/// configuration, Switchboard + Fixed oracles in the risk engine, ATA creation, top-level token
/// transfers, panics, per-instruction privileges.
fn extras(
    w: &mut World,
    group: Pubkey,
    admin: Pubkey,
    fee_wallet: Pubkey,
    a: &User,
    usdc_mint: Pubkey,
    sol_mint: Pubkey,
    sol_oracle: Pubkey,
    rep: &mut Vec<String>,
) -> Result<(), String> {
    touch_pyth(w, &sol_oracle);
    // lending_pool_add_bank through the real instruction
    let new_bank = w.new_key();
    let cfg = BankConfigCompact {
        asset_weight_init: I80F48::from_num(0.5).into(),
        asset_weight_maint: I80F48::from_num(0.6).into(),
        liability_weight_init: I80F48::from_num(1.3).into(),
        liability_weight_maint: I80F48::from_num(1.2).into(),
        deposit_limit: 1_000_000 * SOL,
        interest_rate_config: InterestRateConfigCompact::from(default_interest_rate_config()),
        operational_state: BankOperationalState::Operational,
        borrow_limit: 1_000_000 * SOL,
        risk_tier: RiskTier::Collateral,
        asset_tag: 0,
        config_flags: 1,
        _pad0: [0; 5],
        total_asset_value_init_limit: 0,
        oracle_max_age: 60,
        oracle_max_confidence: 0,
    };
    let fw_pre = w.lamports(&fee_wallet);
    let banks_pre = w.get::<MarginfiGroup>(&group).unwrap().banks;
    let ix = ixs::lending_pool_add_bank(group, admin, admin, fee_wallet, sol_mint, new_bank, spl_token::ID, cfg);
    // the bank keypair must sign
    let r = w.exec_tx(&[ix.clone()], &[admin]);
    ensure!(r.is_err(), "add_bank without bank signature must fail");
    expect_ok(w.exec_tx(&[ix], &[admin, new_bank]), "add_bank")?;
    let nb: Bank = w.get(&new_bank).ok_or("bank not created")?;
    let k = BankKeys::derive(&new_bank);
    ensure!(nb.group == group && nb.mint == sol_mint && nb.mint_decimals == 9, "new bank fields");
    ensure!(nb.liquidity_vault == k.liquidity_vault && nb.liquidity_vault_bump == k.liquidity_vault_bump, "new bank vault");
    ensure!(nb.fee_vault_authority_bump == k.fee_vault_authority_bump && nb.insurance_vault_bump == k.insurance_vault_bump, "new bank bumps");
    ensure!(w.account(&k.liquidity_vault).map(|x| x.owner) == Some(spl_token::ID), "vault created by token program");
    ensure!(w.token_balance(&k.liquidity_vault) == 0, "vault empty");
    ensure!(w.lamports(&fee_wallet) == fw_pre + 10_000, "bank init flat fee");
    ensure!(w.get::<MarginfiGroup>(&group).unwrap().banks == banks_pre + 1, "group.banks after add_bank");
    // a fixture-built bank is byte-identical to an instruction-built one (modulo key-dependent fields)
    {
        let mut p = BankParams::default().with_weights(0.5, 0.6, 1.3, 1.2);
        p.deposit_limit = 1_000_000 * SOL;
        p.borrow_limit = 1_000_000 * SOL;
        p.oracle_max_age = 60;
        p.oracle_setup = OracleSetup::None;
        let fb_key = mk_bank(w, group, sol_mint, p);
        let fb: Bank = w.get(&fb_key).unwrap();
        let fk = BankKeys::derive(&fb_key);
        let mut norm = fb;
        norm.liquidity_vault = nb.liquidity_vault;
        norm.insurance_vault = nb.insurance_vault;
        norm.fee_vault = nb.fee_vault;
        norm.liquidity_vault_bump = nb.liquidity_vault_bump;
        norm.liquidity_vault_authority_bump = nb.liquidity_vault_authority_bump;
        norm.insurance_vault_bump = nb.insurance_vault_bump;
        norm.insurance_vault_authority_bump = nb.insurance_vault_authority_bump;
        norm.fee_vault_bump = nb.fee_vault_bump;
        norm.fee_vault_authority_bump = nb.fee_vault_authority_bump;
        ensure!(bytemuck::bytes_of(&norm) == bytemuck::bytes_of(&nb), "fixture bank differs from instruction-built bank");
        ensure!(w.account(&fk.liquidity_vault).unwrap().data == {
            let mut d = w.account(&k.liquidity_vault).unwrap().data.clone();
            d[32..64].copy_from_slice(fk.liquidity_vault_authority.as_ref());
            d
        }, "fixture vault differs from instruction-built vault");
    }
    // oracle configuration: Pyth push (validated against the account), then Switchboard
    let ix = ixs::lending_pool_configure_bank_oracle(group, admin, new_bank, 3, sol_oracle, vec![ixs::ro(sol_oracle)]);
    expect_ok(w.exec_tx(&[ix], &[admin]), "configure oracle (pyth)")?;
    let swb = mk_switchboard_pull_oracle(w, 60 * 10i128.pow(18), 0, w.unix_timestamp);
    let ix = ixs::lending_pool_configure_bank_oracle(group, admin, new_bank, 4, swb, vec![ixs::ro(swb)]);
    expect_ok(w.exec_tx(&[ix], &[admin]), "configure oracle (switchboard)")?;
    let ix = ixs::lending_pool_configure_bank_oracle(group, admin, new_bank, 4, sol_oracle, vec![ixs::ro(sol_oracle)]);
    expect_err(w.exec_tx(&[ix], &[admin]), 0, code(MarginfiError::SwitchboardWrongAccountOwner), "pyth account as switchboard")?;
    // a Fixed-price bank
    let fixed_bank = mk_bank(w, group, usdc_mint, BankParams::default().with_fixed_price(I80F48::from_num(1)).with_weights(0.9, 0.95, 1.1, 1.05));

    // marginfi_account_initialize via the instruction (system CreateAccount CPI)
    let e_wallet = mk_wallet(w, 10 * SOL);
    let e_acc = w.new_key();
    let ix = ixs::marginfi_account_initialize(group, e_acc, e_wallet, e_wallet);
    expect_ok(w.exec_tx(&[ix], &[e_wallet, e_acc]), "account initialize")?;
    let ea: MarginfiAccount = w.get(&e_acc).ok_or("account not created")?;
    ensure!(ea.group == group && ea.authority == e_wallet, "initialized account fields");
    ensure!(w.account(&e_acc).unwrap().data.len() == 8 + std::mem::size_of::<MarginfiAccount>(), "account size");
    // ATA creation + top-level token transfer + deposit into the switchboard bank, borrow from the fixed bank
    let e_sol = ata_address(&e_wallet, &sol_mint, &spl_token::ID);
    let tx = vec![
        ixs::ata_create_idempotent(e_wallet, e_wallet, sol_mint, spl_token::ID),
        ixs::token_transfer_checked(spl_token::ID, a.sol, sol_mint, e_sol, a.wallet, 20 * SOL, 9),
    ];
    expect_ok(w.exec_tx(&tx, &[e_wallet, a.wallet]), "ata create + transfer")?;
    ensure!(w.token_balance(&e_sol) == 20 * SOL, "E sol {}", w.token_balance(&e_sol));
    // a token transfer not signed by the owner fails inside the real token program
    let ix = ixs::token_transfer_checked(spl_token::ID, a.sol, sol_mint, e_sol, a.wallet, SOL, 9);
    ensure!(w.exec_tx(&[ix], &[e_wallet]).is_err(), "unsigned token transfer must fail");
    let ix = ixs::lending_account_deposit(group, e_acc, e_wallet, new_bank, e_sol, spl_token::ID, 20 * SOL, None, vec![]);
    expect_ok(w.exec_tx(&[ix], &[e_wallet]), "E deposit into switchboard bank")?;
    // fund the fixed bank
    let ix = ixs::lending_account_deposit(group, a.account, a.wallet, fixed_bank, a.usdc, spl_token::ID, 1_000 * USDC, None, vec![]);
    expect_ok(w.exec_tx(&[ix], &[a.wallet]), "A deposit into fixed bank")?;
    let e_usdc = mk_token_account(w, usdc_mint, e_wallet, 10 * USDC);
    // collateral: 20 SOL * $60 (switchboard) * 0.5 = $600; borrow 500 USDC * 1.1 = $550 ok, 600 USDC not
    let rem = remaining_for(w, &e_acc, &[fixed_bank]);
    ensure!(rem.len() == 3, "fixed bank contributes no oracle account: {}", rem.len());
    let ix = ixs::lending_account_borrow(group, e_acc, e_wallet, fixed_bank, e_usdc, spl_token::ID, 600 * USDC, rem.clone());
    expect_err(w.exec_tx(&[ix], &[e_wallet]), 0, code(MarginfiError::RiskEngineInitRejected), "over-borrow vs switchboard collateral")?;
    let ix = ixs::lending_account_borrow(group, e_acc, e_wallet, fixed_bank, e_usdc, spl_token::ID, 500 * USDC, rem);
    expect_ok(w.exec_tx(&[ix], &[e_wallet]), "borrow vs switchboard collateral / fixed-price liability")?;
    // stale switchboard feed
    w.advance_clock(61);
    let rem = remaining_for(w, &e_acc, &[]);
    let ix = ixs::lending_account_borrow(group, e_acc, e_wallet, fixed_bank, e_usdc, spl_token::ID, USDC, rem);
    ensure!(w.exec_tx(&[ix], &[e_wallet]).is_err(), "stale switchboard oracle must block borrowing");
    set_switchboard_price(w, &swb, 60 * 10i128.pow(18), 0, w.unix_timestamp);

    // close: repay_all, withdraw_all, then marginfi_account_close returns the rent
    let ix = ixs::lending_account_repay(group, e_acc, e_wallet, fixed_bank, e_usdc, spl_token::ID, 0, Some(true), vec![]);
    expect_ok(w.exec_tx(&[ix], &[e_wallet]), "E repay_all")?;
    let rem = remaining_for_ex(w, &e_acc, &[], &[new_bank]);
    let ix = ixs::lending_account_withdraw(group, e_acc, e_wallet, new_bank, e_sol, spl_token::ID, 0, Some(true), rem);
    expect_ok(w.exec_tx(&[ix], &[e_wallet]), "E withdraw_all")?;
    ensure!(w.token_balance(&e_sol) == 20 * SOL, "E sol back {}", w.token_balance(&e_sol));
    let (lam_pre, rent) = (w.lamports(&e_wallet), w.lamports(&e_acc));
    let ix = ixs::marginfi_account_close(e_acc, e_wallet, e_wallet);
    expect_ok(w.exec_tx(&[ix], &[e_wallet]), "account close")?;
    ensure!(w.account(&e_acc).is_none(), "closed account must vanish");
    ensure!(w.lamports(&e_wallet) == lam_pre + rent, "rent refunded");

    // a handler panic maps to ExecError::Panic and rolls back
    // (configure_bank_oracle with an unsupported setup value panics in the program)
    let before = w.accounts.clone();
    let ix = ixs::lending_pool_configure_bank_oracle(group, admin, new_bank, 200, sol_oracle, vec![]);
    let r = w.exec_tx(&[ixs::lending_pool_accrue_bank_interest(group, new_bank), ix], &[admin]);
    ensure!(r == Err((1, ExecError::Panic)), "expected panic, got {:?}", r);
    ensure!(w.accounts == before, "store changed after panic");
    // ... and the runtime still works afterwards
    expect_ok(w.exec_tx(&[ixs::lending_pool_accrue_bank_interest(group, new_bank)], &[]), "accrue after panic")?;

    // message-level vs per-instruction privileges
    let ix_unsigned_meta = ixs::lending_pool_accrue_bank_interest(group, new_bank);
    let cfg_ix = ixs::lending_pool_configure_bank_limits_only(group, admin, new_bank, Some(5), None, None).set_signer(&admin, false);
    let signer_elsewhere = ixs::system_transfer(admin, fee_wallet, 1);
    // admin signs the tx (asked for by the transfer) → is_signer also in the configure ix, as on chain
    expect_ok(w.exec_tx(&[ix_unsigned_meta.clone(), signer_elsewhere.clone(), cfg_ix.clone()], &[admin]), "message-level signer")?;
    w.per_ix_privileges = true;
    expect_err(w.exec_tx(&[signer_elsewhere, cfg_ix], &[admin]), 1, 3010, "per-ix signer")?;
    w.per_ix_privileges = false;

    // writing to an account passed read-only is caught by the runtime
    let ix = ixs::lending_pool_accrue_bank_interest(group, new_bank).set_writable(&new_bank, false);
    w.advance_clock(5);
    let r = w.exec_tx(&[ix], &[]);
    ensure!(r.is_err(), "write to read-only account must fail: {:?}", r);

    // ... and when no program-side check exists (SPL-Token does not look at is_writable) the
    // runtime's own post-instruction verification fires
    let dst = mk_token_account(w, sol_mint, admin, 0);
    let before = w.accounts.clone();
    let ix = ixs::token_transfer_checked(spl_token::ID, a.sol, sol_mint, dst, a.wallet, 1, 9);
    let r = w.exec_tx(&[ix.set_writable(&dst, false)], &[a.wallet]);
    ensure!(matches!(&r, Err((0, ExecError::Program(s))) if s.starts_with("Runtime::ReadonlyDataModified")), "runtime read-only check: {:?}", r);
    ensure!(w.accounts == before, "store changed after read-only violation");

    // lending_pool_close_bank (no positions) closes the account and decrements nothing else
    let ix = ixs::lending_pool_close_bank(group, new_bank, admin);
    expect_ok(w.exec_tx(&[ix], &[admin]), "close bank")?;
    ensure!(w.account(&new_bank).is_none(), "closed bank must vanish");

    rep.push("step 8 ok: add_bank / account init+close / close_bank via real ixs (system-program + token init CPIs), fixture bank == ix-built bank, pyth+switchboard+fixed oracles, ATA create, top-level token transfer, panic -> ExecError::Panic + rollback, privileges, read-only write detection".into());
    Ok(())
}

/// Exercise the remaining instruction builders once each against the real handlers.
fn builders(
    w: &mut World,
    group: Pubkey,
    admin: Pubkey,
    fee_wallet: Pubkey,
    a: &User,
    b: &User,
    c: &User,
    usdc_bank: Pubkey,
    sol_bank: Pubkey,
    t22_bank: Pubkey,
    usdc_mint: Pubkey,
    sol_mint: Pubkey,
    rep: &mut Vec<String>,
) -> Result<(), String> {
    use marginfi_type_crate::constants::EMISSIONS_FLAG_LENDING_ACTIVE;
    use marginfi_type_crate::types::{
        BankConfigOpt, EmodeEntry, InterestRateConfigOpt, ACCOUNT_FROZEN, ACCOUNT_IN_DELEVERAGE, MAX_EMODE_ENTRIES,
    };
    use bytemuck::Zeroable;

    // configure_bank / interest-only / limits-only / fixed price
    let opt = BankConfigOpt { deposit_limit: Some(123_456_789_000_000), ..Default::default() };
    expect_ok(w.exec_tx(&[ixs::lending_pool_configure_bank(group, admin, sol_bank, opt.clone())], &[admin]), "configure_bank")?;
    ensure!(w.get::<Bank>(&sol_bank).unwrap().config.deposit_limit == 123_456_789_000_000, "configure_bank effect");
    expect_err(w.exec_tx(&[ixs::lending_pool_configure_bank(group, a.wallet, sol_bank, opt)], &[a.wallet]), 0, 6042, "configure_bank by stranger")?;
    let iro = InterestRateConfigOpt { protocol_origination_fee: Some(I80F48::from_num(0.01).into()), ..Default::default() };
    expect_ok(w.exec_tx(&[ixs::lending_pool_configure_bank_interest_only(group, admin, sol_bank, iro)], &[admin]), "configure interest only")?;
    ensure!(fx(w.get::<Bank>(&sol_bank).unwrap().config.interest_rate_config.protocol_origination_fee) == I80F48::from_num(0.01), "interest-only effect");
    expect_ok(w.exec_tx(&[ixs::lending_pool_configure_bank_limits_only(group, admin, sol_bank, None, Some(777_000_000_000_000), None)], &[admin]), "configure limits only")?;
    ensure!(w.get::<Bank>(&sol_bank).unwrap().config.borrow_limit == 777_000_000_000_000, "limits-only effect");

    // emode configure + clone
    let mut entries = [EmodeEntry::zeroed(); MAX_EMODE_ENTRIES];
    entries[0] = EmodeEntry {
        collateral_bank_emode_tag: 7,
        flags: 0,
        pad0: [0; 5],
        asset_weight_init: I80F48::from_num(0.85).into(),
        asset_weight_maint: I80F48::from_num(0.9).into(),
    };
    expect_ok(w.exec_tx(&[ixs::lending_pool_configure_bank_emode(group, admin, usdc_bank, 3, entries)], &[admin]), "configure emode")?;
    let ub: Bank = w.get(&usdc_bank).unwrap();
    ensure!(ub.emode.emode_tag == 3 && ub.emode.emode_config.entries.iter().any(|e| e.collateral_bank_emode_tag == 7), "emode effect");
    expect_ok(w.exec_tx(&[ixs::lending_pool_clone_emode(group, admin, usdc_bank, t22_bank)], &[admin]), "clone emode")?;
    let tb: Bank = w.get(&t22_bank).unwrap();
    ensure!(tb.emode.emode_config == ub.emode.emode_config, "clone emode effect");

    // pulse health + bank price cache
    let rem = remaining_for(w, &a.account, &[]);
    expect_ok(w.exec_tx(&[ixs::lending_account_pulse_health(a.account, rem)], &[]), "pulse health")?;
    let ctx_sol = bank_ctx(w, &sol_bank);
    expect_ok(w.exec_tx(&[ixs::lending_pool_pulse_bank_price_cache(group, sol_bank, ctx_sol.oracle_metas.clone())], &[]), "pulse price cache")?;
    ensure!(fx(w.get::<Bank>(&sol_bank).unwrap().cache.last_oracle_price) == I80F48::from_num(60), "cached price");

    // emissions: setup, accrue, settle, withdraw, update parameters
    let em_mint = mk_mint(w, 6, TokenProgram::Spl);
    let em_funding = mk_token_account(w, em_mint, admin, 1_000_000 * 1_000_000);
    let ix = ixs::lending_pool_setup_emissions(
        group, admin, usdc_bank, em_mint, em_funding, spl_token::ID, EMISSIONS_FLAG_LENDING_ACTIVE, 1_000_000, 500_000 * 1_000_000, vec![],
    );
    let flags_pre = w.get::<Bank>(&usdc_bank).unwrap().flags;
    expect_ok(w.exec_tx(&[ix], &[admin]), "setup emissions")?;
    let (_auth, em_vault) = ixs::emissions_pdas(&usdc_bank, &em_mint);
    ensure!(w.token_balance(&em_vault) == 500_000 * 1_000_000, "emissions vault funded");
    let ub: Bank = w.get(&usdc_bank).unwrap();
    ensure!(ub.emissions_mint == em_mint && ub.emissions_rate == 1_000_000, "emissions fields");
    let flags_note = format!("bank.flags {:#b} -> {:#b} by setup_emissions", flags_pre, ub.flags);
    w.advance_clock(3600);
    touch_all(w);
    expect_ok(w.exec_tx(&[ixs::lending_account_settle_emissions(a.account, usdc_bank)], &[]), "settle emissions")?;
    let a_em = mk_token_account(w, em_mint, a.wallet, 0);
    let ix = ixs::lending_account_withdraw_emissions(group, a.account, a.wallet, usdc_bank, em_mint, a_em, spl_token::ID, vec![]);
    expect_ok(w.exec_tx(&[ix], &[a.wallet]), "withdraw emissions")?;
    ensure!(w.token_balance(&a_em) > 0, "emissions received");
    let ix = ixs::lending_pool_update_emissions_parameters(
        group, admin, usdc_bank, em_mint, em_funding, spl_token::ID, None, Some(2_000_000), Some(1_000_000), vec![],
    );
    expect_ok(w.exec_tx(&[ix], &[admin]), "update emissions")?;
    ensure!(w.get::<Bank>(&usdc_bank).unwrap().emissions_rate == 2_000_000, "emissions rate updated");

    // deleverage: [start_deleverage, withdraw, repay, end_deleverage] by the risk admin (= admin)
    let admin_usdc = mk_token_account(w, usdc_mint, admin, 1_000 * USDC);
    let admin_sol = mk_token_account(w, sol_mint, admin, 0);
    let rem_b = remaining_for(w, &b.account, &[]);
    let tx = vec![
        ixs::start_deleverage(group, b.account, admin, rem_b.clone()),
        ixs::lending_account_withdraw(group, b.account, admin, sol_bank, admin_sol, spl_token::ID, SOL, None, rem_b.clone()),
        ixs::lending_account_repay(group, b.account, admin, usdc_bank, admin_usdc, spl_token::ID, 60 * USDC, None, vec![]),
        ixs::end_deleverage(group, b.account, admin, rem_b.clone()),
    ];
    expect_ok(w.exec_tx(&tx, &[admin]), "deleverage")?;
    let bacc: MarginfiAccount = w.get(&b.account).unwrap();
    ensure!(bacc.account_flags & (ACCOUNT_IN_DELEVERAGE | ACCOUNT_IN_RECEIVERSHIP) == 0, "deleverage flags cleared");
    ensure!(w.token_balance(&admin_sol) == SOL, "deleverage withdraw");
    ensure!(w.get::<MarginfiGroup>(&group).unwrap().deleverage_withdraw_window_cache.withdrawn_today == 60, "withdrawn_today");
    // by a non risk-admin
    let tx = vec![
        ixs::start_deleverage(group, b.account, a.wallet, rem_b.clone()),
        ixs::end_deleverage(group, b.account, a.wallet, rem_b.clone()),
    ];
    ensure!(w.exec_tx(&tx, &[a.wallet]).is_err(), "deleverage by stranger must fail");
    // purge_deleverage_balance requires TOKENLESS_REPAYMENTS_COMPLETE on the bank
    let ix = ixs::purge_deleverage_balance(group, b.account, admin, sol_bank);
    expect_err(w.exec_tx(&[ix], &[admin]), 0, code(MarginfiError::ForbiddenIx), "purge without flag")?;

    // freeze / unfreeze
    expect_ok(w.exec_tx(&[ixs::marginfi_account_set_freeze(group, c.account, admin, true)], &[admin]), "freeze")?;
    ensure!(w.get::<MarginfiAccount>(&c.account).unwrap().account_flags & ACCOUNT_FROZEN != 0, "frozen flag");
    let bc = bank_ctx(w, &t22_bank);
    let dep = ixs::lending_account_deposit(group, c.account, c.wallet, t22_bank, c.t22, bc.token_program, T22, None, bc.mint_prefix.clone());
    expect_err(w.exec_tx(&[dep.clone()], &[c.wallet]), 0, code(MarginfiError::AccountFrozen), "deposit into frozen account")?;
    expect_ok(w.exec_tx(&[ixs::marginfi_account_set_freeze(group, c.account, admin, false)], &[admin]), "unfreeze")?;
    expect_ok(w.exec_tx(&[dep], &[c.wallet]), "deposit after unfreeze")?;

    // transfer_to_new_account
    let new_acc = w.new_key();
    let new_auth = mk_wallet(w, SOL);
    let fw_pre = w.lamports(&fee_wallet);
    let ix = ixs::transfer_to_new_account(group, c.account, new_acc, c.wallet, c.wallet, new_auth, fee_wallet);
    expect_ok(w.exec_tx(&[ix], &[c.wallet, new_acc]), "transfer_to_new_account")?;
    let na: MarginfiAccount = w.get(&new_acc).ok_or("new account missing")?;
    ensure!(na.authority == new_auth && na.migrated_from == c.account, "new account fields");
    ensure!(balance_of(w, &new_acc, &t22_bank).is_some(), "balances moved");
    ensure!(w.get::<MarginfiAccount>(&c.account).unwrap().account_flags & ACCOUNT_DISABLED != 0, "old account disabled");
    ensure!(w.lamports(&fee_wallet) == fw_pre + marginfi::constants::ACCOUNT_TRANSFER_FEE, "transfer fee");

    // group configure
    let new_risk = w.new_key();
    let g: MarginfiGroup = w.get(&group).unwrap();
    let ix = ixs::marginfi_group_configure(
        group, admin, g.admin, g.emode_admin, g.delegate_curve_admin, g.delegate_limit_admin,
        g.delegate_emissions_admin, g.metadata_admin, new_risk, None, None,
    );
    expect_ok(w.exec_tx(&[ix], &[admin]), "group configure")?;
    ensure!(w.get::<MarginfiGroup>(&group).unwrap().risk_admin == new_risk, "risk admin changed");

    // close_balance on an emptied (but still active) balance
    let fresh = mk_marginfi_account(w, group, a.wallet);
    let dep = ixs::lending_account_deposit(group, fresh, a.wallet, sol_bank, a.sol, spl_token::ID, SOL, None, vec![]);
    expect_ok(w.exec_tx(&[dep], &[a.wallet]), "fresh deposit")?;
    let rem = remaining_for(w, &fresh, &[]);
    let wd = ixs::lending_account_withdraw(group, fresh, a.wallet, sol_bank, a.sol, spl_token::ID, SOL, None, rem);
    expect_ok(w.exec_tx(&[wd], &[a.wallet]), "fresh withdraw everything")?;
    ensure!(balance_of(w, &fresh, &sol_bank).is_some(), "balance stays active after plain withdraw");
    expect_ok(w.exec_tx(&[ixs::lending_account_close_balance(group, fresh, a.wallet, sol_bank)], &[a.wallet]), "close_balance")?;
    ensure!(balance_of(w, &fresh, &sol_bank).is_none(), "balance closed");

    rep.push(format!("step 9 ok: builders exercised — configure_bank(+interest/limits), emode configure+clone, pulse health/price, emissions setup/settle/withdraw/update, deleverage start/end, purge (ForbiddenIx), freeze, transfer_to_new_account, group configure, close_balance [{}]", flags_note));
    Ok(())
}

fn touch_all(w: &mut World) {
    let keys: Vec<Pubkey> = w
        .accounts
        .iter()
        .filter(|(_, a)| a.owner == PYTH_RECEIVER_ID)
        .map(|(k, _)| *k)
        .collect();
    for k in keys {
        touch_pyth(w, &k);
    }
}
