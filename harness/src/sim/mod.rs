//! sim — a native "sim runtime" for the marginfi program.
//!
//! Executes the REAL marginfi instruction handlers (through `marginfi::entry`, i.e. the full Anchor
//! dispatcher + account validation + handler) on x86 against an in-memory account store, with the
//! real SPL-Token / Token-2022 processors behind the CPI stub, an emulated system program, a
//! genuine instructions sysvar, atomic transactions and byte-exact inspection of all accounts.
//!
//! Layout:
//!   * `runtime`  — `World`, `Acct`, `Ix`, `ExecError`, syscall stubs, CPI, system / ATA emulation
//!   * `fixtures` — direct construction of groups, fee state, mints, token accounts, banks,
//!                  marginfi accounts, oracles (bytes written straight into the store)
//!   * `ixs`      — instruction builders returning `Ix`
//!   * `selftest` — `run()` end-to-end scenarios (deposit/borrow/.../liquidation/flashloan/pause)
//!
//! Nothing in here relies on stdout (Anchor / solana-msg print their logs there on the host).
#![allow(dead_code)]
#![allow(clippy::too_many_arguments)]

pub mod fixtures;
pub mod ixs;
pub mod runtime;
pub mod selftest;

#[allow(unused_imports)]
pub use fixtures::*;
#[allow(unused_imports)]
pub use runtime::{Acct, ExecError, Ix, World};
