//! The sim runtime: in-memory account store, transaction execution, syscall stubs, CPI.
//!
//! Design notes
//! ------------
//! * Every top-level instruction is executed exactly like the BPF loader does it: the instruction's
//!   accounts are serialised into one aligned input buffer (dup markers, 10 KiB realloc padding,
//!   original-data-len slot, ...) and turned into `AccountInfo`s with the real
//!   `solana_program::entrypoint::deserialize`.  Consequently `AccountInfo::realloc`, `assign`,
//!   Anchor's `init` / `close`, duplicate accounts sharing one `RefCell`, etc. all behave as on
//!   chain.  The buffer lives for one instruction only; results are copied back into the store
//!   after a successful instruction, so a panic or a leaked `RefCell` borrow can never poison a
//!   later transaction.
//! * CPI (`sol_invoke_signed`) runs the callee directly on the caller's `AccountInfo` buffers
//!   (after the real privilege checks: signer only if the caller had it or the PDA seeds derive
//!   it for the *calling* program, writable only if the caller had it; the callee program must be
//!   one of the caller's instruction accounts).  Any CPI failure is latched and fails the whole
//!   instruction even if the caller swallowed the error, as on chain.
//! * Post-instruction checks: read-only accounts unchanged, lamports conserved, executable
//!   unchanged.
//! * All syscall state (clock, stack height, return data, latched fault) is thread-local; the
//!   process-global `SyscallStubs` object is stateless, so several `World`s / threads can coexist.
use std::cell::RefCell;
use std::collections::{BTreeMap, BTreeSet};
use std::panic::{catch_unwind, AssertUnwindSafe};

use solana_program::{
    account_info::AccountInfo,
    clock::Clock,
    entrypoint::ProgramResult,
    epoch_schedule::EpochSchedule,
    instruction::{AccountMeta, Instruction},
    program_error::ProgramError,
    program_stubs,
    pubkey::Pubkey,
    rent::Rent,
    system_program, sysvar,
};

// ---------------------------------------------------------------------------------------------
// Public data types
// ---------------------------------------------------------------------------------------------

#[derive(Clone, Debug, PartialEq, Eq)]
pub struct Acct {
    pub lamports: u64,
    pub data: Vec<u8>,
    pub owner: Pubkey,
    pub executable: bool,
}

impl Acct {
    pub fn new(lamports: u64, data: Vec<u8>, owner: Pubkey) -> Self {
        Acct { lamports, data, owner, executable: false }
    }
    pub fn empty() -> Self {
        Acct { lamports: 0, data: vec![], owner: system_program::ID, executable: false }
    }
    fn is_nonexistent(&self) -> bool {
        self.lamports == 0 && self.data.is_empty() && self.owner == system_program::ID && !self.executable
    }
}

#[derive(Clone, Debug, PartialEq, Eq)]
pub struct Ix {
    pub program_id: Pubkey,
    pub accounts: Vec<AccountMeta>,
    pub data: Vec<u8>,
}

impl Ix {
    pub fn new(program_id: Pubkey, accounts: Vec<AccountMeta>, data: Vec<u8>) -> Self {
        Ix { program_id, accounts, data }
    }
    /// Append remaining accounts.
    pub fn with_remaining(mut self, rem: Vec<AccountMeta>) -> Self {
        self.accounts.extend(rem);
        self
    }
    /// Replace every occurrence of key `old` by `new` (flags unchanged) — to pass a wrong account.
    pub fn replace_key(mut self, old: &Pubkey, new: &Pubkey) -> Self {
        for m in self.accounts.iter_mut() {
            if m.pubkey == *old {
                m.pubkey = *new;
            }
        }
        self
    }
    /// Replace the account at position `idx`.
    pub fn set_account(mut self, idx: usize, key: Pubkey) -> Self {
        self.accounts[idx].pubkey = key;
        self
    }
    /// Override the signer flag of every meta carrying `key`.
    pub fn set_signer(mut self, key: &Pubkey, is_signer: bool) -> Self {
        for m in self.accounts.iter_mut() {
            if m.pubkey == *key {
                m.is_signer = is_signer;
            }
        }
        self
    }
    /// Override the writable flag of every meta carrying `key`.
    pub fn set_writable(mut self, key: &Pubkey, is_writable: bool) -> Self {
        for m in self.accounts.iter_mut() {
            if m.pubkey == *key {
                m.is_writable = is_writable;
            }
        }
        self
    }
}

impl From<Instruction> for Ix {
    fn from(i: Instruction) -> Self {
        Ix { program_id: i.program_id, accounts: i.accounts, data: i.data }
    }
}
impl From<Ix> for Instruction {
    fn from(i: Ix) -> Self {
        Instruction { program_id: i.program_id, accounts: i.accounts, data: i.data }
    }
}

#[derive(Clone, Debug, PartialEq, Eq)]
pub enum ExecError {
    /// `ProgramError::Custom(n)` — Anchor / MarginfiError numbers (6000+), Anchor framework errors
    /// (2000.., 3000..), SPL-Token errors (small numbers) ...
    Custom(u32),
    /// Any other `ProgramError` (debug-printed), or a runtime-level fault, prefixed `Runtime::`
    /// (PrivilegeEscalation, ReadonlyDataModified, UnbalancedInstruction, UnknownProgram, ...).
    Program(String),
    /// The handler panicked (explicit `panic!`/`unwrap`/`assert!` or an arithmetic overflow check).
    Panic,
}

impl ExecError {
    pub fn is_custom(&self, n: u32) -> bool {
        matches!(self, ExecError::Custom(m) if *m == n)
    }
}

fn map_err(e: ProgramError) -> ExecError {
    match e {
        ProgramError::Custom(n) => ExecError::Custom(n),
        other => ExecError::Program(format!("{:?}", other)),
    }
}

// ---------------------------------------------------------------------------------------------
// Well-known ids
// ---------------------------------------------------------------------------------------------

pub const ATA_PROGRAM_ID: Pubkey = marginfi::constants::ASSOCIATED_TOKEN_KEY;
pub const COMPUTE_BUDGET_ID: Pubkey = marginfi::constants::COMPUTE_PROGRAM_KEY;
pub const BPF_LOADER_UPGRADEABLE_ID: Pubkey = solana_program::bpf_loader_upgradeable::ID;
pub const NATIVE_LOADER_ID: Pubkey = solana_program::pubkey!("NativeLoader1111111111111111111111111111111");
pub const SYSVAR_OWNER_ID: Pubkey = solana_program::pubkey!("Sysvar1111111111111111111111111111111111111");

pub fn token_program_ids() -> [Pubkey; 2] {
    [spl_token::ID, spl_token_2022::ID]
}

// ---------------------------------------------------------------------------------------------
// Thread-local syscall context
// ---------------------------------------------------------------------------------------------

#[derive(Clone, Debug)]
enum Fault {
    Prog(ProgramError),
    Runtime(String),
}

struct Frame {
    program_id: Pubkey,
    keys: Vec<Pubkey>,
}

struct Ctx {
    unix_timestamp: i64,
    slot: u64,
    epoch: u64,
    stack: Vec<Frame>,
    return_data: Option<(Pubkey, Vec<u8>)>,
    fault: Option<Fault>,
    logs: Vec<String>,
    capture_logs: bool,
}

thread_local! {
    static CTX: RefCell<Ctx> = RefCell::new(Ctx {
        unix_timestamp: 0, slot: 0, epoch: 0, stack: vec![], return_data: None, fault: None,
        logs: vec![], capture_logs: false,
    });
}

fn ctx<R>(f: impl FnOnce(&mut Ctx) -> R) -> R {
    CTX.with(|c| f(&mut c.borrow_mut()))
}

fn latch_fault(f: Fault) {
    ctx(|c| {
        if c.fault.is_none() {
            c.fault = Some(f);
        }
    });
}

struct Stubs;

impl program_stubs::SyscallStubs for Stubs {
    fn sol_log(&self, message: &str) {
        ctx(|c| {
            if c.capture_logs && c.logs.len() < 4096 {
                c.logs.push(message.to_string());
            }
        });
    }
    fn sol_log_compute_units(&self) {}
    fn sol_remaining_compute_units(&self) -> u64 {
        1_400_000
    }
    fn sol_log_data(&self, _fields: &[&[u8]]) {}
    fn sol_invoke_signed(
        &self,
        instruction: &Instruction,
        account_infos: &[AccountInfo],
        signers_seeds: &[&[&[u8]]],
    ) -> ProgramResult {
        cpi(instruction, account_infos, signers_seeds)
    }
    fn sol_get_clock_sysvar(&self, var_addr: *mut u8) -> u64 {
        let clock = current_clock();
        unsafe {
            std::ptr::write_unaligned(var_addr as *mut Clock, clock);
        }
        0
    }
    fn sol_get_rent_sysvar(&self, var_addr: *mut u8) -> u64 {
        unsafe {
            std::ptr::write_unaligned(var_addr as *mut Rent, Rent::default());
        }
        0
    }
    fn sol_get_epoch_schedule_sysvar(&self, var_addr: *mut u8) -> u64 {
        unsafe {
            std::ptr::write_unaligned(var_addr as *mut EpochSchedule, EpochSchedule::default());
        }
        0
    }
    fn sol_get_return_data(&self) -> Option<(Pubkey, Vec<u8>)> {
        ctx(|c| c.return_data.clone())
    }
    fn sol_set_return_data(&self, data: &[u8]) {
        ctx(|c| {
            let pid = c.stack.last().map(|f| f.program_id).unwrap_or_default();
            c.return_data = if data.is_empty() { None } else { Some((pid, data.to_vec())) };
        });
    }
    fn sol_get_stack_height(&self) -> u64 {
        ctx(|c| c.stack.len().max(1) as u64)
    }
    fn sol_get_processed_sibling_instruction(&self, _index: usize) -> Option<Instruction> {
        None
    }
}

fn current_clock() -> Clock {
    ctx(|c| Clock {
        slot: c.slot,
        epoch_start_timestamp: c.unix_timestamp - (c.slot as i64) / 2,
        epoch: c.epoch,
        leader_schedule_epoch: c.epoch + 1,
        unix_timestamp: c.unix_timestamp,
    })
}

/// For level A/B suites that call program functions directly (no transaction): install the stubs
/// and set the clock returned by `Clock::get()`.
pub fn set_global_clock(unix_timestamp: i64) {
    install_stubs();
    ctx(|c| {
        c.unix_timestamp = unix_timestamp;
    });
}

fn install_stubs() {
    use std::sync::Once;
    static ONCE: Once = Once::new();
    ONCE.call_once(|| {
        program_stubs::set_syscall_stubs(Box::new(Stubs));
    });
}

/// For level A suites that call program functions directly (no transaction): install the stubs and
/// set the unix timestamp and slot that `Clock::get()` returns (e.g. Solend reserve staleness
/// reads `Clock::get()?.slot`).
pub fn set_global_clock_slot(unix_timestamp: i64, slot: u64) {
    install_stubs();
    ctx(|c| {
        c.unix_timestamp = unix_timestamp;
        c.slot = slot;
    });
}

// ---------------------------------------------------------------------------------------------
// Program dispatch (shared by top level and CPI)
// ---------------------------------------------------------------------------------------------

fn is_executable_program(id: &Pubkey) -> bool {
    *id == marginfi::ID
        || *id == spl_token::ID
        || *id == spl_token_2022::ID
        || *id == system_program::ID
        || *id == ATA_PROGRAM_ID
}

fn dispatch(program_id: &Pubkey, accounts: &[AccountInfo], data: &[u8]) -> ProgramResult {
    if *program_id == marginfi::ID {
        // `entry` wants `&'info [AccountInfo<'info>]`; the infos point into the per-instruction
        // input buffer which outlives this call, so tying both lifetimes together is sound.
        let accs: &'static [AccountInfo<'static>] = unsafe { std::mem::transmute(accounts) };
        marginfi::entry(program_id, accs, data)
    } else if *program_id == spl_token::ID {
        spl_token::processor::Processor::process(program_id, accounts, data)
    } else if *program_id == spl_token_2022::ID {
        spl_token_2022::processor::Processor::process(program_id, accounts, data)
    } else if *program_id == system_program::ID {
        system_process(accounts, data)
    } else if *program_id == ATA_PROGRAM_ID {
        ata_process(accounts, data)
    } else if data.starts_with(&PROXY_MAGIC) {
        proxy_process(accounts, data)
    } else {
        latch_fault(Fault::Runtime(format!("UnsupportedProgram({})", program_id)));
        Err(ProgramError::IncorrectProgramId)
    }
}

// ---------------------------------------------------------------------------------------------
// CPI proxy (test-only): ANY program id that is not one of the executable programs above acts as a
// proxy when its instruction data starts with `PROXY_MAGIC`:
//   data     = PROXY_MAGIC (8) ‖ callee program id (32) ‖ callee instruction data
//   accounts = the callee's accounts in order, followed by the callee program account
// It forwards with `invoke`, so the callee runs at stack height 2 while the instructions sysvar
// still shows the proxy's program id at the current index — exactly what a third-party program
// CPI-ing into marginfi looks like.
// ---------------------------------------------------------------------------------------------

pub const PROXY_MAGIC: [u8; 8] = *b"SIMPROXY";

fn proxy_process(accounts: &[AccountInfo], data: &[u8]) -> ProgramResult {
    if data.len() < 40 || accounts.is_empty() {
        return Err(ProgramError::InvalidInstructionData);
    }
    let callee = Pubkey::new_from_array(data[8..40].try_into().unwrap());
    let n = accounts.len() - 1;
    let metas: Vec<AccountMeta> = accounts[..n]
        .iter()
        .map(|a| AccountMeta { pubkey: *a.key, is_signer: a.is_signer, is_writable: a.is_writable })
        .collect();
    let ix = Instruction { program_id: callee, accounts: metas, data: data[40..].to_vec() };
    solana_program::program::invoke(&ix, accounts)
}

// ---------------------------------------------------------------------------------------------
// CPI
// ---------------------------------------------------------------------------------------------

const MAX_STACK_HEIGHT: usize = 5;

fn cpi(ix: &Instruction, infos: &[AccountInfo], seeds: &[&[&[u8]]]) -> ProgramResult {
    let r = cpi_inner(ix, infos, seeds);
    if let Err(e) = &r {
        latch_fault(Fault::Prog(e.clone()));
    }
    r
}

fn rt_fault(name: &str, e: ProgramError) -> ProgramError {
    latch_fault(Fault::Runtime(name.to_string()));
    e
}

fn cpi_inner(ix: &Instruction, infos: &[AccountInfo], seeds: &[&[&[u8]]]) -> ProgramResult {
    let (caller, caller_keys, depth) = ctx(|c| {
        let f = c.stack.last();
        (
            f.map(|f| f.program_id).unwrap_or_default(),
            f.map(|f| f.keys.clone()).unwrap_or_default(),
            c.stack.len(),
        )
    });
    if depth >= MAX_STACK_HEIGHT {
        return Err(rt_fault("CallDepth", ProgramError::InvalidArgument));
    }
    if ix.program_id == caller {
        // direct self-recursion is allowed on chain, but nothing here needs it
    }
    // PDA signers derive from the CALLING program id.
    let mut pda_signers: Vec<Pubkey> = Vec::new();
    for s in seeds.iter() {
        match Pubkey::create_program_address(s, &caller) {
            Ok(k) => pda_signers.push(k),
            Err(_) => return Err(rt_fault("BadSeeds", ProgramError::InvalidSeeds)),
        }
    }
    // The callee program must be one of the caller's instruction accounts.
    if !caller_keys.contains(&ix.program_id) {
        return Err(rt_fault(
            &format!("MissingAccount(unknown program {})", ix.program_id),
            ProgramError::NotEnoughAccountKeys,
        ));
    }
    // Per-key union of the requested flags (duplicates in the callee instruction).
    let mut want: BTreeMap<Pubkey, (bool, bool)> = BTreeMap::new();
    for m in ix.accounts.iter() {
        let e = want.entry(m.pubkey).or_insert((false, false));
        e.0 |= m.is_signer;
        e.1 |= m.is_writable;
    }
    let mut callee_infos: Vec<AccountInfo> = Vec::with_capacity(ix.accounts.len());
    for m in ix.accounts.iter() {
        let src = match infos.iter().find(|ai| *ai.key == m.pubkey) {
            Some(ai) => ai,
            None => {
                return Err(rt_fault(
                    &format!("MissingAccount({})", m.pubkey),
                    ProgramError::NotEnoughAccountKeys,
                ))
            }
        };
        let (ws, ww) = want[&m.pubkey];
        if ws && !(src.is_signer || pda_signers.contains(&m.pubkey)) {
            return Err(rt_fault(
                &format!("PrivilegeEscalation(signer {})", m.pubkey),
                ProgramError::MissingRequiredSignature,
            ));
        }
        if ww && !src.is_writable {
            return Err(rt_fault(
                &format!("PrivilegeEscalation(writable {})", m.pubkey),
                ProgramError::InvalidArgument,
            ));
        }
        let mut ai = src.clone();
        ai.is_signer = ws;
        ai.is_writable = ww;
        callee_infos.push(ai);
    }
    // Snapshot for the read-only / lamport-conservation checks.
    let mut seen: BTreeSet<Pubkey> = BTreeSet::new();
    let mut pre: Vec<(usize, u64, Option<Vec<u8>>)> = Vec::new();
    for (i, ai) in callee_infos.iter().enumerate() {
        if !seen.insert(*ai.key) {
            continue;
        }
        let lam = ai.try_borrow_lamports().map(|l| **l).unwrap_or(0);
        let data = if ai.is_writable { None } else { ai.try_borrow_data().ok().map(|d| d.to_vec()) };
        pre.push((i, lam, data));
    }
    let keys: Vec<Pubkey> = callee_infos.iter().map(|a| *a.key).collect();
    ctx(|c| c.stack.push(Frame { program_id: ix.program_id, keys }));
    let r = dispatch(&ix.program_id, &callee_infos, &ix.data);
    ctx(|c| {
        c.stack.pop();
    });
    r?;
    let mut sum_pre: u128 = 0;
    let mut sum_post: u128 = 0;
    for (i, lam, data) in pre.iter() {
        let ai = &callee_infos[*i];
        let now = ai.try_borrow_lamports().map(|l| **l).unwrap_or(*lam);
        sum_pre += *lam as u128;
        sum_post += now as u128;
        if !ai.is_writable {
            if now != *lam {
                return Err(rt_fault(
                    &format!("ReadonlyLamportChange({})", ai.key),
                    ProgramError::InvalidArgument,
                ));
            }
            if let Some(d) = data {
                let same = ai.try_borrow_data().map(|n| n[..] == d[..]).unwrap_or(true);
                if !same {
                    return Err(rt_fault(
                        &format!("ReadonlyDataModified({})", ai.key),
                        ProgramError::InvalidArgument,
                    ));
                }
            }
        }
    }
    if sum_pre != sum_post {
        return Err(rt_fault("UnbalancedInstruction", ProgramError::InvalidArgument));
    }
    Ok(())
}

// ---------------------------------------------------------------------------------------------
// System program emulation (CreateAccount / Assign / Transfer / Allocate)
// ---------------------------------------------------------------------------------------------

const SYS_ERR_ACCOUNT_ALREADY_IN_USE: u32 = 0;
const SYS_ERR_RESULT_WITH_NEGATIVE_LAMPORTS: u32 = 1;
const SYS_ERR_INVALID_ACCOUNT_DATA_LENGTH: u32 = 3;
const MAX_PERMITTED_DATA_LENGTH: u64 = 10 * 1024 * 1024;

fn rd_u64(d: &[u8], off: usize) -> Result<u64, ProgramError> {
    d.get(off..off + 8)
        .map(|b| u64::from_le_bytes(b.try_into().unwrap()))
        .ok_or(ProgramError::InvalidInstructionData)
}
fn rd_key(d: &[u8], off: usize) -> Result<Pubkey, ProgramError> {
    d.get(off..off + 32)
        .map(|b| Pubkey::new_from_array(b.try_into().unwrap()))
        .ok_or(ProgramError::InvalidInstructionData)
}

fn sys_allocate(acc: &AccountInfo, space: u64) -> ProgramResult {
    if !acc.is_signer {
        return Err(ProgramError::MissingRequiredSignature);
    }
    if !acc.data_is_empty() || *acc.owner != system_program::ID {
        return Err(ProgramError::Custom(SYS_ERR_ACCOUNT_ALREADY_IN_USE));
    }
    if space > MAX_PERMITTED_DATA_LENGTH {
        return Err(ProgramError::Custom(SYS_ERR_INVALID_ACCOUNT_DATA_LENGTH));
    }
    acc.realloc(space as usize, true)
}

fn sys_assign(acc: &AccountInfo, owner: &Pubkey) -> ProgramResult {
    if acc.owner == owner {
        return Ok(());
    }
    if !acc.is_signer {
        return Err(ProgramError::MissingRequiredSignature);
    }
    if *acc.owner != system_program::ID {
        return Err(rt_fault("ModifiedProgramId", ProgramError::IllegalOwner));
    }
    acc.assign(owner);
    Ok(())
}

fn sys_transfer(from: &AccountInfo, to: &AccountInfo, lamports: u64) -> ProgramResult {
    if !from.is_signer {
        return Err(ProgramError::MissingRequiredSignature);
    }
    if !from.data_is_empty() {
        return Err(ProgramError::InvalidArgument);
    }
    if *from.owner != system_program::ID {
        return Err(rt_fault("ExternalAccountLamportSpend", ProgramError::IllegalOwner));
    }
    if from.lamports() < lamports {
        return Err(ProgramError::Custom(SYS_ERR_RESULT_WITH_NEGATIVE_LAMPORTS));
    }
    if from.key == to.key {
        return Ok(());
    }
    **from.try_borrow_mut_lamports()? -= lamports;
    let mut tl = to.try_borrow_mut_lamports()?;
    **tl = tl.checked_add(lamports).ok_or(ProgramError::ArithmeticOverflow)?;
    Ok(())
}

fn system_process(accounts: &[AccountInfo], data: &[u8]) -> ProgramResult {
    let tag = data
        .get(0..4)
        .map(|b| u32::from_le_bytes(b.try_into().unwrap()))
        .ok_or(ProgramError::InvalidInstructionData)?;
    match tag {
        // CreateAccount { lamports, space, owner }
        0 => {
            let lamports = rd_u64(data, 4)?;
            let space = rd_u64(data, 12)?;
            let owner = rd_key(data, 20)?;
            let from = accounts.first().ok_or(ProgramError::NotEnoughAccountKeys)?;
            let to = accounts.get(1).ok_or(ProgramError::NotEnoughAccountKeys)?;
            if to.lamports() > 0 {
                return Err(ProgramError::Custom(SYS_ERR_ACCOUNT_ALREADY_IN_USE));
            }
            sys_allocate(to, space)?;
            sys_assign(to, &owner)?;
            sys_transfer(from, to, lamports)
        }
        // Assign { owner }
        1 => {
            let owner = rd_key(data, 4)?;
            let acc = accounts.first().ok_or(ProgramError::NotEnoughAccountKeys)?;
            sys_assign(acc, &owner)
        }
        // Transfer { lamports }
        2 => {
            let lamports = rd_u64(data, 4)?;
            let from = accounts.first().ok_or(ProgramError::NotEnoughAccountKeys)?;
            let to = accounts.get(1).ok_or(ProgramError::NotEnoughAccountKeys)?;
            sys_transfer(from, to, lamports)
        }
        // Allocate { space }
        8 => {
            let space = rd_u64(data, 4)?;
            let acc = accounts.first().ok_or(ProgramError::NotEnoughAccountKeys)?;
            sys_allocate(acc, space)
        }
        other => Err(rt_fault(
            &format!("UnsupportedSystemInstruction({})", other),
            ProgramError::InvalidInstructionData,
        )),
    }
}

// ---------------------------------------------------------------------------------------------
// Associated-token-account program emulation (Create / CreateIdempotent)
// ---------------------------------------------------------------------------------------------

pub fn ata_address(wallet: &Pubkey, mint: &Pubkey, token_program: &Pubkey) -> Pubkey {
    Pubkey::find_program_address(
        &[wallet.as_ref(), token_program.as_ref(), mint.as_ref()],
        &ATA_PROGRAM_ID,
    )
    .0
}

fn ata_process(accounts: &[AccountInfo], data: &[u8]) -> ProgramResult {
    use spl_token_2022::extension::{BaseStateWithExtensions, ExtensionType, StateWithExtensions};
    let idempotent = match data.first() {
        None | Some(0) => false,
        Some(1) => true,
        _ => {
            return Err(rt_fault("UnsupportedAtaInstruction", ProgramError::InvalidInstructionData))
        }
    };
    if accounts.len() < 6 {
        return Err(ProgramError::NotEnoughAccountKeys);
    }
    let (payer, ata, wallet, mint, _system, token_program) =
        (&accounts[0], &accounts[1], &accounts[2], &accounts[3], &accounts[4], &accounts[5]);
    if *token_program.key != spl_token::ID && *token_program.key != spl_token_2022::ID {
        return Err(ProgramError::IncorrectProgramId);
    }
    if *ata.key != ata_address(wallet.key, mint.key, token_program.key) {
        return Err(ProgramError::InvalidSeeds);
    }
    if idempotent && ata.owner == token_program.key {
        let d = ata.try_borrow_data()?;
        let st = StateWithExtensions::<spl_token_2022::state::Account>::unpack(&d)?;
        if st.base.owner != *wallet.key {
            return Err(ProgramError::IllegalOwner); // AssociatedTokenAccountError::InvalidOwner
        }
        if st.base.mint != *mint.key {
            return Err(ProgramError::InvalidAccountData);
        }
        return Ok(());
    }
    if *ata.owner != system_program::ID {
        return Err(ProgramError::IllegalOwner);
    }
    if mint.owner != token_program.key {
        return Err(ProgramError::IllegalOwner);
    }
    let len = if *token_program.key == spl_token::ID {
        spl_token::state::Account::LEN
    } else {
        let md = mint.try_borrow_data()?;
        let ms = StateWithExtensions::<spl_token_2022::state::Mint>::unpack(&md)?;
        let mint_exts = ms.get_extension_types()?;
        let mut exts = ExtensionType::get_required_init_account_extensions(&mint_exts);
        exts.push(ExtensionType::ImmutableOwner);
        ExtensionType::try_calculate_account_len::<spl_token_2022::state::Account>(&exts)?
    };
    use solana_program::program_pack::Pack;
    let _ = spl_token::state::Account::LEN;
    let need = Rent::default().minimum_balance(len).max(1);
    let have = ata.lamports();
    // The ATA is a PDA of the ATA program: it signs for itself here.
    let mut ata_s = ata.clone();
    ata_s.is_signer = true;
    if need > have {
        sys_transfer(payer, &ata_s, need - have)?;
    }
    sys_allocate(&ata_s, len as u64)?;
    sys_assign(&ata_s, token_program.key)?;
    let pid = *token_program.key;
    let ix1 = spl_token_2022::instruction::initialize_immutable_owner(&pid, ata.key)?;
    let ix2 = spl_token_2022::instruction::initialize_account3(&pid, ata.key, mint.key, wallet.key)?;
    let infos = [ata.clone(), mint.clone()];
    ctx(|c| c.stack.push(Frame { program_id: pid, keys: vec![*ata.key, *mint.key] }));
    let r = dispatch(&pid, &infos[..1], &ix1.data).and_then(|_| dispatch(&pid, &infos, &ix2.data));
    ctx(|c| {
        c.stack.pop();
    });
    r
}

// ---------------------------------------------------------------------------------------------
// Input-buffer serialisation (BPF loader "aligned" format)
// ---------------------------------------------------------------------------------------------

const MAX_PERMITTED_DATA_INCREASE: usize = 10 * 1024;
const NON_DUP_MARKER: u8 = 0xff;

struct Slot {
    key: Pubkey,
    off_owner: usize,
    off_lamports: usize,
    off_data_len: usize,
    off_data: usize,
    is_writable: bool,
    synthetic: bool,
    pre: Acct,
}

struct Input {
    buf: Vec<u64>,
    slots: Vec<Slot>,
}

impl Input {
    fn bytes(&self) -> &[u8] {
        unsafe { std::slice::from_raw_parts(self.buf.as_ptr() as *const u8, self.buf.len() * 8) }
    }
    fn read_back(&self, s: &Slot) -> Acct {
        let b = self.bytes();
        let lamports = u64::from_le_bytes(b[s.off_lamports..s.off_lamports + 8].try_into().unwrap());
        let len = u64::from_le_bytes(b[s.off_data_len..s.off_data_len + 8].try_into().unwrap()) as usize;
        let len = len.min(s.pre.data.len() + MAX_PERMITTED_DATA_INCREASE);
        let data = b[s.off_data..s.off_data + len].to_vec();
        let owner = Pubkey::new_from_array(b[s.off_owner..s.off_owner + 32].try_into().unwrap());
        Acct { lamports, data, owner, executable: s.pre.executable }
    }
}

/// `resolved[i]` = (account, is_signer, is_writable, synthetic) for `ix.accounts[i]`.
fn serialize_input(ix: &Ix, resolved: &[(Acct, bool, bool, bool)]) -> Input {
    let mut b: Vec<u8> = Vec::with_capacity(64 * 1024);
    let mut slots: Vec<Slot> = Vec::new();
    let mut first_idx: BTreeMap<Pubkey, usize> = BTreeMap::new();
    b.extend_from_slice(&(ix.accounts.len() as u64).to_le_bytes());
    for (i, m) in ix.accounts.iter().enumerate() {
        if let Some(j) = first_idx.get(&m.pubkey) {
            b.push(*j as u8);
            b.extend_from_slice(&[0u8; 7]);
            continue;
        }
        first_idx.insert(m.pubkey, i);
        let (acct, is_signer, is_writable, synthetic) = &resolved[i];
        b.push(NON_DUP_MARKER);
        b.push(*is_signer as u8);
        b.push(*is_writable as u8);
        b.push(acct.executable as u8);
        b.extend_from_slice(&[0u8; 4]);
        b.extend_from_slice(m.pubkey.as_ref());
        let off_owner = b.len();
        b.extend_from_slice(acct.owner.as_ref());
        let off_lamports = b.len();
        b.extend_from_slice(&acct.lamports.to_le_bytes());
        let off_data_len = b.len();
        b.extend_from_slice(&(acct.data.len() as u64).to_le_bytes());
        let off_data = b.len();
        b.extend_from_slice(&acct.data);
        b.resize(b.len() + MAX_PERMITTED_DATA_INCREASE, 0);
        let pad = (8 - b.len() % 8) % 8;
        b.resize(b.len() + pad, 0);
        b.extend_from_slice(&u64::MAX.to_le_bytes()); // rent_epoch
        slots.push(Slot {
            key: m.pubkey,
            off_owner,
            off_lamports,
            off_data_len,
            off_data,
            is_writable: *is_writable,
            synthetic: *synthetic,
            pre: acct.clone(),
        });
    }
    b.extend_from_slice(&(ix.data.len() as u64).to_le_bytes());
    b.extend_from_slice(&ix.data);
    b.extend_from_slice(ix.program_id.as_ref());
    let words = (b.len() + 7) / 8 + 1;
    let mut buf = vec![0u64; words];
    unsafe {
        std::ptr::copy_nonoverlapping(b.as_ptr(), buf.as_mut_ptr() as *mut u8, b.len());
    }
    Input { buf, slots }
}

// ---------------------------------------------------------------------------------------------
// World
// ---------------------------------------------------------------------------------------------

pub struct World {
    pub accounts: BTreeMap<Pubkey, Acct>,
    pub unix_timestamp: i64,
    pub slot: u64,
    pub epoch: u64,
    /// false (default): signer / writable privileges are message-level as on chain — a key is a
    /// signer in every instruction of the transaction iff it is in `signers` and at least one
    /// instruction's meta asks for its signature; writable iff any meta asks for it.
    /// true: strictly per instruction (is_signer = in `signers` AND this instruction's meta asks).
    /// For single-instruction transactions both coincide.
    pub per_ix_privileges: bool,
    /// Capture `sol_log` output of the last transaction into `logs` (most Anchor / msg! output
    /// bypasses the stub and goes to stdout on the host, so this is of limited use).
    pub capture_logs: bool,
    pub logs: Vec<String>,
    key_counter: u64,
}

impl Default for World {
    fn default() -> Self {
        Self::new()
    }
}

impl World {
    /// Installs the syscall stubs (idempotent); clock = 1_700_000_000 s, slot 1000, epoch 0.
    pub fn new() -> World {
        install_stubs();
        let mut w = World {
            accounts: BTreeMap::new(),
            unix_timestamp: 1_700_000_000,
            slot: 1000,
            epoch: 0,
            per_ix_privileges: false,
            capture_logs: false,
            logs: vec![],
            key_counter: 0,
        };
        for (id, owner) in [
            (marginfi::ID, BPF_LOADER_UPGRADEABLE_ID),
            (spl_token::ID, BPF_LOADER_UPGRADEABLE_ID),
            (spl_token_2022::ID, BPF_LOADER_UPGRADEABLE_ID),
            (ATA_PROGRAM_ID, BPF_LOADER_UPGRADEABLE_ID),
            (system_program::ID, NATIVE_LOADER_ID),
            (COMPUTE_BUDGET_ID, NATIVE_LOADER_ID),
        ] {
            w.accounts.insert(id, Acct { lamports: 1, data: vec![], owner, executable: true });
        }
        w
    }

    /// A fresh deterministic key (sha256 of a counter) — stands in for `Keypair::new().pubkey()`.
    pub fn new_key(&mut self) -> Pubkey {
        self.key_counter += 1;
        let h = solana_program::hash::hashv(&[b"sim-key", &self.key_counter.to_le_bytes()]);
        Pubkey::new_from_array(h.to_bytes())
    }

    /// Advance the wall clock by `secs` seconds (and the slot by 2 per second).
    pub fn advance_clock(&mut self, secs: i64) {
        self.unix_timestamp += secs;
        self.slot = self.slot.saturating_add((secs.max(0) as u64) * 2);
    }

    pub fn set_clock(&mut self, unix_timestamp: i64) {
        self.unix_timestamp = unix_timestamp;
    }

    pub fn account(&self, key: &Pubkey) -> Option<&Acct> {
        self.accounts.get(key)
    }

    pub fn put(&mut self, key: Pubkey, acct: Acct) {
        self.accounts.insert(key, acct);
    }

    pub fn lamports(&self, key: &Pubkey) -> u64 {
        self.accounts.get(key).map(|a| a.lamports).unwrap_or(0)
    }

    /// Zero-copy account body after the 8-byte discriminator.
    pub fn get<T: bytemuck::Pod>(&self, key: &Pubkey) -> Option<T> {
        let a = self.accounts.get(key)?;
        let n = std::mem::size_of::<T>();
        if a.data.len() < 8 + n {
            return None;
        }
        Some(bytemuck::pod_read_unaligned::<T>(&a.data[8..8 + n]))
    }

    /// Overwrite the body (after the discriminator) of an existing account. Panics if the account
    /// does not exist or is too small (test-setup helper).
    pub fn set<T: bytemuck::Pod>(&mut self, key: &Pubkey, v: &T) {
        let a = self.accounts.get_mut(key).expect("World::set: no such account");
        let n = std::mem::size_of::<T>();
        assert!(a.data.len() >= 8 + n, "World::set: account too small");
        a.data[8..8 + n].copy_from_slice(bytemuck::bytes_of(v));
    }

    /// Read-modify-write of a zero-copy account body.
    pub fn update<T: bytemuck::Pod>(&mut self, key: &Pubkey, f: impl FnOnce(&mut T)) {
        let mut v: T = self.get::<T>(key).expect("World::update: no such account");
        f(&mut v);
        self.set(key, &v);
    }

    /// Create (or replace) a marginfi-owned zero-copy account: discriminator + body, rent-exempt.
    pub fn put_zero_copy<T: bytemuck::Pod>(&mut self, key: Pubkey, disc: [u8; 8], v: &T) {
        let mut data = Vec::with_capacity(8 + std::mem::size_of::<T>());
        data.extend_from_slice(&disc);
        data.extend_from_slice(bytemuck::bytes_of(v));
        let lamports = Rent::default().minimum_balance(data.len());
        self.accounts.insert(key, Acct { lamports, data, owner: marginfi::ID, executable: false });
    }

    /// Amount of an SPL-Token / Token-2022 token account (0 if absent / not a token account).
    pub fn token_balance(&self, key: &Pubkey) -> u64 {
        use spl_token_2022::extension::StateWithExtensions;
        match self.accounts.get(key) {
            Some(a) if a.owner == spl_token::ID || a.owner == spl_token_2022::ID => {
                StateWithExtensions::<spl_token_2022::state::Account>::unpack(&a.data)
                    .map(|s| s.base.amount)
                    .unwrap_or(0)
            }
            _ => 0,
        }
    }

    /// The serialised instructions sysvar for `ixs` (current index = 0), exactly as the runtime
    /// builds it.
    pub fn instructions_sysvar_data(&self, ixs: &[Ix], signers: &[Pubkey]) -> Vec<u8> {
        let privs = Privs::new(ixs, signers, self.per_ix_privileges);
        build_ix_sysvar(ixs, &privs)
    }

    /// Execute a transaction atomically. See module docs.
    pub fn exec_tx(&mut self, ixs: &[Ix], signers: &[Pubkey]) -> Result<(), (usize, ExecError)> {
        install_stubs();
        let snapshot = self.accounts.clone();
        let privs = Privs::new(ixs, signers, self.per_ix_privileges);
        let mut sysvar_data = build_ix_sysvar(ixs, &privs);
        let (ts, slot, epoch, cap) = (self.unix_timestamp, self.slot, self.epoch, self.capture_logs);
        ctx(|c| {
            c.unix_timestamp = ts;
            c.slot = slot;
            c.epoch = epoch;
            c.stack.clear();
            c.return_data = None;
            c.fault = None;
            c.logs.clear();
            c.capture_logs = cap;
        });
        let mut touched: BTreeSet<Pubkey> = BTreeSet::new();
        let mut result = Ok(());
        for (i, ix) in ixs.iter().enumerate() {
            sysvar::instructions::store_current_index(&mut sysvar_data, i as u16);
            if let Err(e) = self.exec_ix(i, ix, &privs, &sysvar_data, &mut touched) {
                result = Err((i, e));
                break;
            }
        }
        self.logs = ctx(|c| std::mem::take(&mut c.logs));
        ctx(|c| {
            c.stack.clear();
            c.fault = None;
        });
        match result {
            Ok(()) => {
                // Accounts that ended the transaction with zero lamports cease to exist.
                for k in touched {
                    let gone = self.accounts.get(&k).map(|a| a.lamports == 0).unwrap_or(false);
                    if gone {
                        self.accounts.remove(&k);
                    }
                }
                Ok(())
            }
            Err(e) => {
                self.accounts = snapshot;
                Err(e)
            }
        }
    }

    /// Convenience: a single-instruction transaction.
    pub fn exec(&mut self, ix: Ix, signers: &[Pubkey]) -> Result<(), ExecError> {
        self.exec_tx(&[ix], signers).map_err(|(_, e)| e)
    }

    fn resolve(&self, key: &Pubkey, sysvar_data: &[u8]) -> (Acct, bool) {
        if *key == sysvar::instructions::ID {
            return (
                Acct { lamports: 1, data: sysvar_data.to_vec(), owner: SYSVAR_OWNER_ID, executable: false },
                true,
            );
        }
        if *key == sysvar::clock::ID {
            let c = current_clock();
            let mut d = Vec::with_capacity(40);
            d.extend_from_slice(&c.slot.to_le_bytes());
            d.extend_from_slice(&c.epoch_start_timestamp.to_le_bytes());
            d.extend_from_slice(&c.epoch.to_le_bytes());
            d.extend_from_slice(&c.leader_schedule_epoch.to_le_bytes());
            d.extend_from_slice(&c.unix_timestamp.to_le_bytes());
            return (Acct { lamports: 1, data: d, owner: SYSVAR_OWNER_ID, executable: false }, true);
        }
        if *key == sysvar::rent::ID {
            let r = Rent::default();
            let mut d = Vec::with_capacity(17);
            d.extend_from_slice(&r.lamports_per_byte_year.to_le_bytes());
            d.extend_from_slice(&r.exemption_threshold.to_le_bytes());
            d.push(r.burn_percent);
            return (Acct { lamports: 1, data: d, owner: SYSVAR_OWNER_ID, executable: false }, true);
        }
        match self.accounts.get(key) {
            Some(a) => (a.clone(), false),
            None if is_executable_program(key) || *key == COMPUTE_BUDGET_ID => (
                Acct { lamports: 1, data: vec![], owner: BPF_LOADER_UPGRADEABLE_ID, executable: true },
                true,
            ),
            None => (Acct::empty(), false),
        }
    }

    fn exec_ix(
        &mut self,
        index: usize,
        ix: &Ix,
        privs: &Privs,
        sysvar_data: &[u8],
        touched: &mut BTreeSet<Pubkey>,
    ) -> Result<(), ExecError> {
        if !is_executable_program(&ix.program_id) && !ix.data.starts_with(&PROXY_MAGIC) {
            // compute budget, jupiter, any filler program: successful no-op
            return Ok(());
        }
        if ix.accounts.len() > 254 {
            return Err(ExecError::Program("Runtime::TooManyAccounts".into()));
        }
        let resolved: Vec<(Acct, bool, bool, bool)> = ix
            .accounts
            .iter()
            .map(|m| {
                let (a, synthetic) = self.resolve(&m.pubkey, sysvar_data);
                let s = privs.is_signer(index, &m.pubkey);
                // sysvars and programs are never writable
                let w = privs.is_writable(index, &m.pubkey) && !synthetic && !a.executable;
                (a, s, w, synthetic)
            })
            .collect();
        let mut input = serialize_input(ix, &resolved);
        let mut keys: Vec<Pubkey> = ix.accounts.iter().map(|m| m.pubkey).collect();
        keys.push(ix.program_id);
        ctx(|c| {
            c.stack.clear();
            c.stack.push(Frame { program_id: ix.program_id, keys });
            c.fault = None;
            c.return_data = None;
        });
        let ptr = input.buf.as_mut_ptr() as *mut u8;
        let outcome = catch_unwind(AssertUnwindSafe(|| {
            let (pid, accounts, data) = unsafe { solana_program::entrypoint::deserialize(ptr) };
            let r = dispatch(pid, &accounts, data);
            drop(accounts);
            r
        }));
        let fault = ctx(|c| {
            c.stack.clear();
            c.fault.take()
        });
        let r = match outcome {
            Err(_) => return Err(ExecError::Panic),
            Ok(r) => r,
        };
        match fault {
            Some(Fault::Runtime(s)) => return Err(ExecError::Program(format!("Runtime::{}", s))),
            Some(Fault::Prog(e)) => {
                // A failed CPI aborts the transaction with the callee's error, whatever the
                // caller made of it.
                return Err(map_err(e));
            }
            None => {}
        }
        r.map_err(map_err)?;
        // Post-instruction verification and write-back.
        let mut sum_pre: u128 = 0;
        let mut sum_post: u128 = 0;
        let mut updates: Vec<(Pubkey, Acct)> = Vec::new();
        for s in input.slots.iter() {
            let post = input.read_back(s);
            sum_pre += s.pre.lamports as u128;
            sum_post += post.lamports as u128;
            if post == s.pre {
                continue;
            }
            if !s.is_writable {
                let what = if post.lamports != s.pre.lamports {
                    "ReadonlyLamportChange"
                } else {
                    "ReadonlyDataModified"
                };
                return Err(ExecError::Program(format!("Runtime::{}({})", what, s.key)));
            }
            if s.synthetic {
                continue;
            }
            updates.push((s.key, post));
        }
        if sum_pre != sum_post {
            return Err(ExecError::Program("Runtime::UnbalancedInstruction".into()));
        }
        for (k, a) in updates {
            touched.insert(k);
            if a.is_nonexistent() {
                self.accounts.remove(&k);
            } else {
                self.accounts.insert(k, a);
            }
        }
        Ok(())
    }
}

// ---------------------------------------------------------------------------------------------
// Privileges and the instructions sysvar
// ---------------------------------------------------------------------------------------------

struct Privs {
    per_ix: bool,
    signers: BTreeSet<Pubkey>,
    /// message-level union of requested flags
    msg: BTreeMap<Pubkey, (bool, bool)>,
    /// per-instruction union of requested flags
    ix: Vec<BTreeMap<Pubkey, (bool, bool)>>,
}

impl Privs {
    fn new(ixs: &[Ix], signers: &[Pubkey], per_ix: bool) -> Self {
        let mut msg: BTreeMap<Pubkey, (bool, bool)> = BTreeMap::new();
        let mut per: Vec<BTreeMap<Pubkey, (bool, bool)>> = Vec::new();
        for ix in ixs {
            let mut m: BTreeMap<Pubkey, (bool, bool)> = BTreeMap::new();
            for a in ix.accounts.iter() {
                for map in [&mut msg, &mut m] {
                    let e = map.entry(a.pubkey).or_insert((false, false));
                    e.0 |= a.is_signer;
                    e.1 |= a.is_writable;
                }
            }
            per.push(m);
        }
        // the fee payer (first signer) is a writable signer of the message
        if let Some(p) = signers.first() {
            let e = msg.entry(*p).or_insert((false, false));
            e.0 = true;
            e.1 = true;
        }
        Privs { per_ix, signers: signers.iter().copied().collect(), msg, ix: per }
    }
    fn flags(&self, index: usize, key: &Pubkey) -> (bool, bool) {
        let m = if self.per_ix { &self.ix[index] } else { &self.msg };
        m.get(key).copied().unwrap_or((false, false))
    }
    fn is_signer(&self, index: usize, key: &Pubkey) -> bool {
        self.flags(index, key).0 && self.signers.contains(key)
    }
    fn is_writable(&self, index: usize, key: &Pubkey) -> bool {
        self.flags(index, key).1
    }
}

fn build_ix_sysvar(ixs: &[Ix], privs: &Privs) -> Vec<u8> {
    use sysvar::instructions::{BorrowedAccountMeta, BorrowedInstruction};
    let borrowed: Vec<BorrowedInstruction> = ixs
        .iter()
        .enumerate()
        .map(|(i, ix)| BorrowedInstruction {
            program_id: &ix.program_id,
            accounts: ix
                .accounts
                .iter()
                .map(|m| BorrowedAccountMeta {
                    pubkey: &m.pubkey,
                    is_signer: privs.is_signer(i, &m.pubkey),
                    is_writable: privs.is_writable(i, &m.pubkey),
                })
                .collect(),
            data: &ix.data,
        })
        .collect();
    sysvar::instructions::construct_instructions_data(&borrowed)
}
