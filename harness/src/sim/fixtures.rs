//! Direct-construction helpers: write account bytes straight into the store so scenarios do not
//! depend on the init instructions.
use bytemuck::Zeroable;
use fixed::types::I80F48;
use marginfi::state::bank::{BankImpl, BankVaultType};
use marginfi::utils::{find_bank_vault_authority_pda, find_bank_vault_pda};
use marginfi_type_crate::constants::{
    discriminators, ASSET_TAG_DEFAULT, FEE_STATE_SEED, LIQUIDATION_RECORD_SEED,
    PYTH_PUSH_MIGRATED_DEPRECATED,
};
use marginfi_type_crate::types::{
    basis_to_u32, centi_to_u32, make_points, milli_to_u32, Bank, BankConfig, BankOperationalState,
    FeeState, InterestRateConfig, LiquidationRecord, MarginfiAccount, MarginfiGroup, OracleSetup,
    RatePoint, RiskTier, INTEREST_CURVE_SEVEN_POINT,
};
use solana_program::instruction::AccountMeta;
use solana_program::program_pack::Pack;
use solana_program::pubkey::Pubkey;
use solana_program::rent::Rent;
use solana_program::system_program;

use super::runtime::{ata_address, Acct, World};

pub fn rent_exempt(len: usize) -> u64 {
    Rent::default().minimum_balance(len)
}

// ---------------------------------------------------------------------------------------------
// Wallets
// ---------------------------------------------------------------------------------------------

/// A system-owned account with `lamports` (signer / fee payer / authority). Returns its key.
pub fn mk_wallet(world: &mut World, lamports: u64) -> Pubkey {
    let k = world.new_key();
    world.put(k, Acct::new(lamports, vec![], system_program::ID));
    k
}

// ---------------------------------------------------------------------------------------------
// Fee state & group
// ---------------------------------------------------------------------------------------------

pub fn fee_state_key() -> Pubkey {
    Pubkey::find_program_address(&[FEE_STATE_SEED.as_bytes()], &marginfi::ID).0
}

#[derive(Clone, Copy, Debug)]
pub struct FeeStateParams {
    pub bank_init_flat_sol_fee: u32,
    pub liquidation_flat_sol_fee: u32,
    pub program_fee_fixed: I80F48,
    pub program_fee_rate: I80F48,
    pub liquidation_max_fee: I80F48,
}

impl Default for FeeStateParams {
    fn default() -> Self {
        FeeStateParams {
            bank_init_flat_sol_fee: 0,
            liquidation_flat_sol_fee: 0,
            program_fee_fixed: I80F48::ZERO,
            program_fee_rate: I80F48::ZERO,
            liquidation_max_fee: I80F48::from_num(0.1),
        }
    }
}

/// The global FeeState at its real PDA. Also makes sure `fee_wallet` exists as a system account.
pub fn mk_fee_state(
    world: &mut World,
    global_fee_admin: Pubkey,
    fee_wallet: Pubkey,
    p: FeeStateParams,
) -> Pubkey {
    let (key, bump) = Pubkey::find_program_address(&[FEE_STATE_SEED.as_bytes()], &marginfi::ID);
    let mut fs = FeeState::zeroed();
    fs.key = key;
    fs.global_fee_admin = global_fee_admin;
    fs.global_fee_wallet = fee_wallet;
    fs.bank_init_flat_sol_fee = p.bank_init_flat_sol_fee;
    fs.liquidation_flat_sol_fee = p.liquidation_flat_sol_fee;
    fs.bump_seed = bump;
    fs.liquidation_max_fee = p.liquidation_max_fee.into();
    fs.program_fee_fixed = p.program_fee_fixed.into();
    fs.program_fee_rate = p.program_fee_rate.into();
    world.put_zero_copy(key, discriminators::FEE_STATE, &fs);
    if world.account(&fee_wallet).is_none() {
        world.put(fee_wallet, Acct::new(1_000_000_000, vec![], system_program::ID));
    }
    key
}

/// A MarginfiGroup with every admin role = `admin` (override with `world.update::<MarginfiGroup>`).
/// The fee-state cache is copied from the FeeState account if it exists; program fees enabled
/// (as `marginfi_group_initialize` does).
pub fn mk_group(world: &mut World, admin: Pubkey) -> Pubkey {
    let key = world.new_key();
    let mut g = MarginfiGroup::zeroed();
    g.admin = admin;
    g.emode_admin = admin;
    g.delegate_curve_admin = admin;
    g.delegate_limit_admin = admin;
    g.delegate_emissions_admin = admin;
    g.risk_admin = admin;
    g.metadata_admin = admin;
    g.group_flags = marginfi::state::marginfi_group::PROGRAM_FEES_ENABLED;
    g.emode_max_init_leverage = basis_to_u32(marginfi::state::emode::DEFAULT_INIT_MAX_EMODE_LEVERAGE);
    g.emode_max_maint_leverage = basis_to_u32(marginfi::state::emode::DEFAULT_MAINT_MAX_EMODE_LEVERAGE);
    if let Some(fs) = world.get::<FeeState>(&fee_state_key()) {
        g.fee_state_cache.global_fee_wallet = fs.global_fee_wallet;
        g.fee_state_cache.program_fee_fixed = fs.program_fee_fixed;
        g.fee_state_cache.program_fee_rate = fs.program_fee_rate;
    }
    g.fee_state_cache.last_update = world.unix_timestamp;
    world.put_zero_copy(key, discriminators::GROUP, &g);
    key
}

// ---------------------------------------------------------------------------------------------
// Mints and token accounts
// ---------------------------------------------------------------------------------------------

#[derive(Clone, Copy, Debug, PartialEq, Eq)]
pub enum TokenProgram {
    Spl,
    T22,
    T22WithFee { bps: u16, max_fee: u64 },
}

impl TokenProgram {
    pub fn id(&self) -> Pubkey {
        match self {
            TokenProgram::Spl => spl_token::ID,
            _ => spl_token_2022::ID,
        }
    }
}

/// A mint (no authorities, supply tracked by `mk_token_account`). Returns its key.
pub fn mk_mint(world: &mut World, decimals: u8, tp: TokenProgram) -> Pubkey {
    use solana_program::program_option::COption;
    let key = world.new_key();
    let data = match tp {
        TokenProgram::Spl => {
            let m = spl_token::state::Mint {
                mint_authority: COption::None,
                supply: 0,
                decimals,
                is_initialized: true,
                freeze_authority: COption::None,
            };
            let mut d = vec![0u8; spl_token::state::Mint::LEN];
            m.pack_into_slice(&mut d);
            d
        }
        TokenProgram::T22 => {
            let m = spl_token_2022::state::Mint {
                mint_authority: COption::None,
                supply: 0,
                decimals,
                is_initialized: true,
                freeze_authority: COption::None,
            };
            let mut d = vec![0u8; spl_token_2022::state::Mint::LEN];
            m.pack_into_slice(&mut d);
            d
        }
        TokenProgram::T22WithFee { bps, max_fee } => {
            use spl_token_2022::extension::{
                transfer_fee::{TransferFee, TransferFeeConfig},
                BaseStateWithExtensionsMut, ExtensionType, StateWithExtensionsMut,
            };
            let len = ExtensionType::try_calculate_account_len::<spl_token_2022::state::Mint>(&[
                ExtensionType::TransferFeeConfig,
            ])
            .unwrap();
            let mut d = vec![0u8; len];
            {
                let mut st =
                    StateWithExtensionsMut::<spl_token_2022::state::Mint>::unpack_uninitialized(&mut d)
                        .unwrap();
                let ext = st.init_extension::<TransferFeeConfig>(true).unwrap();
                let fee = TransferFee {
                    epoch: 0u64.into(),
                    maximum_fee: max_fee.into(),
                    transfer_fee_basis_points: bps.into(),
                };
                ext.transfer_fee_config_authority = Default::default();
                ext.withdraw_withheld_authority = Default::default();
                ext.withheld_amount = 0u64.into();
                ext.older_transfer_fee = fee;
                ext.newer_transfer_fee = fee;
                st.base = spl_token_2022::state::Mint {
                    mint_authority: COption::None,
                    supply: 0,
                    decimals,
                    is_initialized: true,
                    freeze_authority: COption::None,
                };
                st.pack_base();
                st.init_account_type().unwrap();
            }
            d
        }
    };
    let lamports = rent_exempt(data.len());
    world.put(key, Acct::new(lamports, data, tp.id()));
    key
}

/// Fixture: give a Token-2022 fee mint a PENDING fee change — the older schedule `old` (from epoch 0) and the newer
/// schedule `new` that takes effect at `epoch_new` (what `set_transfer_fee` leaves behind).  Returns false when the
/// mint has no TransferFeeConfig extension.
pub fn set_fee_schedule(world: &mut World, mint: &Pubkey, old: (u16, u64), new: (u16, u64), epoch_new: u64) -> bool {
    use spl_token_2022::extension::{
        transfer_fee::{TransferFee, TransferFeeConfig},
        BaseStateWithExtensionsMut, StateWithExtensionsMut,
    };
    let Some(a) = world.accounts.get_mut(mint) else { return false };
    if a.owner != spl_token_2022::ID {
        return false;
    }
    let Ok(mut st) = StateWithExtensionsMut::<spl_token_2022::state::Mint>::unpack(&mut a.data) else { return false };
    let Ok(ext) = st.get_extension_mut::<TransferFeeConfig>() else { return false };
    ext.older_transfer_fee =
        TransferFee { epoch: 0u64.into(), maximum_fee: old.1.into(), transfer_fee_basis_points: old.0.into() };
    ext.newer_transfer_fee =
        TransferFee { epoch: epoch_new.into(), maximum_fee: new.1.into(), transfer_fee_basis_points: new.0.into() };
    true
}

/// (token program id, decimals, has transfer-fee extension) of a mint in the store.
pub fn mint_info(world: &World, mint: &Pubkey) -> (Pubkey, u8, bool) {
    use spl_token_2022::extension::{
        transfer_fee::TransferFeeConfig, BaseStateWithExtensions, StateWithExtensions,
    };
    let a = world.account(mint).expect("mint_info: no such mint");
    let st = StateWithExtensions::<spl_token_2022::state::Mint>::unpack(&a.data).expect("not a mint");
    let fee = st.get_extension::<TransferFeeConfig>().is_ok();
    (a.owner, st.base.decimals, fee)
}

fn pack_token_account(world: &World, mint: &Pubkey, owner: &Pubkey, amount: u64) -> (Vec<u8>, Pubkey) {
    use spl_token_2022::state::{Account, AccountState};
    let (program, _dec, fee) = mint_info(world, mint);
    let base = Account {
        mint: *mint,
        owner: *owner,
        amount,
        delegate: solana_program::program_option::COption::None,
        state: AccountState::Initialized,
        is_native: solana_program::program_option::COption::None,
        delegated_amount: 0,
        close_authority: solana_program::program_option::COption::None,
    };
    if program == spl_token_2022::ID && fee {
        use spl_token_2022::extension::{
            transfer_fee::TransferFeeAmount, BaseStateWithExtensionsMut, ExtensionType,
            StateWithExtensionsMut,
        };
        let len =
            ExtensionType::try_calculate_account_len::<Account>(&[ExtensionType::TransferFeeAmount])
                .unwrap();
        let mut d = vec![0u8; len];
        {
            let mut st = StateWithExtensionsMut::<Account>::unpack_uninitialized(&mut d).unwrap();
            let ext = st.init_extension::<TransferFeeAmount>(true).unwrap();
            ext.withheld_amount = 0u64.into();
            st.base = base;
            st.pack_base();
            st.init_account_type().unwrap();
        }
        (d, program)
    } else {
        let mut d = vec![0u8; Account::LEN];
        base.pack_into_slice(&mut d);
        (d, program)
    }
}

fn bump_supply(world: &mut World, mint: &Pubkey, delta: u64) {
    // `supply` sits at offset 36 of both Mint layouts (COption<Pubkey> = 4 + 32).
    if let Some(a) = world.accounts.get_mut(mint) {
        let cur = u64::from_le_bytes(a.data[36..44].try_into().unwrap());
        a.data[36..44].copy_from_slice(&cur.saturating_add(delta).to_le_bytes());
    }
}

/// Put a properly packed token account for `mint` (SPL or Token-2022, with the TransferFeeAmount
/// extension for fee mints) at `key`.
pub fn put_token_account(world: &mut World, key: Pubkey, mint: &Pubkey, owner: &Pubkey, amount: u64) {
    let (data, program) = pack_token_account(world, mint, owner, amount);
    let lamports = rent_exempt(data.len());
    world.put(key, Acct::new(lamports, data, program));
    bump_supply(world, mint, amount);
}

/// A funded token account at a fresh key.
pub fn mk_token_account(world: &mut World, mint: Pubkey, owner: Pubkey, amount: u64) -> Pubkey {
    let key = world.new_key();
    put_token_account(world, key, &mint, &owner, amount);
    key
}

/// A funded token account at the canonical associated-token address of (`owner`, `mint`).
pub fn mk_ata(world: &mut World, mint: Pubkey, owner: Pubkey, amount: u64) -> Pubkey {
    let (program, _, _) = mint_info(world, &mint);
    let key = ata_address(&owner, &mint, &program);
    put_token_account(world, key, &mint, &owner, amount);
    key
}

/// Overwrite the amount of an existing token account (test mutation helper).
pub fn set_token_balance(world: &mut World, key: &Pubkey, amount: u64) {
    let a = world.accounts.get_mut(key).expect("set_token_balance: no such account");
    a.data[64..72].copy_from_slice(&amount.to_le_bytes());
}

// ---------------------------------------------------------------------------------------------
// Oracles
// ---------------------------------------------------------------------------------------------

pub const PYTH_RECEIVER_ID: Pubkey =
    solana_program::pubkey!("rec5EKMGg6MxZYaMdyBfgwp4d5rB9T1VQH5pJv5LtFJ");
pub const SWITCHBOARD_PULL_ID: Pubkey = marginfi::constants::SWITCHBOARD_PULL_ID;

fn anchor_disc(name: &str) -> [u8; 8] {
    let h = solana_program::hash::hash(format!("account:{}", name).as_bytes());
    h.to_bytes()[..8].try_into().unwrap()
}

/// Bytes of a borsh-serialised `PriceUpdateV2` (VerificationLevel::Full), padded to its on-chain
/// size of 134 bytes.
///   disc(8) | write_authority(32) | verification_level(1: 0x01 = Full) | feed_id(32) | price i64 |
///   conf u64 | exponent i32 | publish_time i64 | prev_publish_time i64 | ema_price i64 |
///   ema_conf u64 | posted_slot u64 | 1 spare byte
pub fn pyth_price_update_v2_bytes(
    feed_id: [u8; 32],
    price: i64,
    conf: u64,
    expo: i32,
    ema_price: i64,
    ema_conf: u64,
    publish_time: i64,
    posted_slot: u64,
) -> Vec<u8> {
    let mut d = Vec::with_capacity(134);
    d.extend_from_slice(&anchor_disc("PriceUpdateV2"));
    d.extend_from_slice(&[0u8; 32]); // write_authority
    d.push(1); // VerificationLevel::Full
    d.extend_from_slice(&feed_id);
    d.extend_from_slice(&price.to_le_bytes());
    d.extend_from_slice(&conf.to_le_bytes());
    d.extend_from_slice(&expo.to_le_bytes());
    d.extend_from_slice(&publish_time.to_le_bytes());
    d.extend_from_slice(&(publish_time - 1).to_le_bytes());
    d.extend_from_slice(&ema_price.to_le_bytes());
    d.extend_from_slice(&ema_conf.to_le_bytes());
    d.extend_from_slice(&posted_slot.to_le_bytes());
    d.resize(134, 0);
    d
}

/// A Pyth push oracle (`PriceUpdateV2`, Full verification) owned by the Pyth receiver program.
pub fn mk_pyth_push_oracle(
    world: &mut World,
    feed_id: [u8; 32],
    price: i64,
    conf: u64,
    expo: i32,
    ema_price: i64,
    ema_conf: u64,
    publish_time: i64,
) -> Pubkey {
    let key = world.new_key();
    let data =
        pyth_price_update_v2_bytes(feed_id, price, conf, expo, ema_price, ema_conf, publish_time, world.slot);
    world.put(key, Acct::new(rent_exempt(data.len()), data, PYTH_RECEIVER_ID));
    key
}

/// Update price / conf / ema / publish_time of an existing Pyth push oracle (feed id and exponent
/// are kept).
pub fn set_pyth_price(
    world: &mut World,
    oracle: &Pubkey,
    price: i64,
    conf: u64,
    ema_price: i64,
    ema_conf: u64,
    publish_time: i64,
) {
    let slot = world.slot;
    let a = world.accounts.get_mut(oracle).expect("set_pyth_price: no such oracle");
    let d = &mut a.data;
    // offsets: feed_id @41, price @73, conf @81, expo @89, publish @93, prev @101, ema @109,
    // ema_conf @117, posted_slot @125
    d[73..81].copy_from_slice(&price.to_le_bytes());
    d[81..89].copy_from_slice(&conf.to_le_bytes());
    d[93..101].copy_from_slice(&publish_time.to_le_bytes());
    d[101..109].copy_from_slice(&(publish_time - 1).to_le_bytes());
    d[109..117].copy_from_slice(&ema_price.to_le_bytes());
    d[117..125].copy_from_slice(&ema_conf.to_le_bytes());
    d[125..133].copy_from_slice(&slot.to_le_bytes());
}

/// price = ema, conf = ema_conf = 0, publish_time = now.
pub fn set_pyth_price_simple(world: &mut World, oracle: &Pubkey, price: i64) {
    let now = world.unix_timestamp;
    set_pyth_price(world, oracle, price, 0, price, 0, now);
}

/// Refresh only the publish time (keeps an oracle fresh after a clock advance).
pub fn touch_pyth(world: &mut World, oracle: &Pubkey) {
    let now = world.unix_timestamp;
    let a = world.accounts.get_mut(oracle).expect("touch_pyth: no such oracle");
    a.data[93..101].copy_from_slice(&now.to_le_bytes());
    a.data[101..109].copy_from_slice(&(now - 1).to_le_bytes());
}

// Switchboard on-demand `PullFeedAccountData` (repr(C), Pod, 3200 bytes after the discriminator).
const SWB_DISC: [u8; 8] = [196, 27, 108, 196, 10, 215, 219, 40];
const SWB_LEN: usize = 3200;
const SWB_OFF_LAST_UPDATE_TS: usize = 2208;
const SWB_OFF_RESULT: usize = 2256; // CurrentResult { value i128, std_dev i128, mean i128, ... }
const SWB_OFF_RESULT_SLOT: usize = SWB_OFF_RESULT + 6 * 16 + 8;
pub const SWB_PRECISION: u32 = 18;

/// A Switchboard pull feed: `value` / `std_dev` are 1e18-scaled i128 (e.g. $2 = 2 * 10^18).
pub fn mk_switchboard_pull_oracle(
    world: &mut World,
    value: i128,
    std_dev: i128,
    last_update_timestamp: i64,
) -> Pubkey {
    let key = world.new_key();
    let mut d = vec![0u8; 8 + SWB_LEN];
    d[..8].copy_from_slice(&SWB_DISC);
    world.put(key, Acct::new(rent_exempt(d.len()), d, SWITCHBOARD_PULL_ID));
    set_switchboard_price(world, &key, value, std_dev, last_update_timestamp);
    key
}

pub fn set_switchboard_price(
    world: &mut World,
    oracle: &Pubkey,
    value: i128,
    std_dev: i128,
    last_update_timestamp: i64,
) {
    let slot = world.slot;
    let a = world.accounts.get_mut(oracle).expect("set_switchboard_price: no such oracle");
    let b = &mut a.data[8..];
    b[SWB_OFF_LAST_UPDATE_TS..SWB_OFF_LAST_UPDATE_TS + 8]
        .copy_from_slice(&last_update_timestamp.to_le_bytes());
    b[SWB_OFF_RESULT..SWB_OFF_RESULT + 16].copy_from_slice(&value.to_le_bytes());
    b[SWB_OFF_RESULT + 16..SWB_OFF_RESULT + 32].copy_from_slice(&std_dev.to_le_bytes());
    b[SWB_OFF_RESULT + 32..SWB_OFF_RESULT + 48].copy_from_slice(&value.to_le_bytes()); // mean
    b[SWB_OFF_RESULT + 64..SWB_OFF_RESULT + 80].copy_from_slice(&value.to_le_bytes()); // min
    b[SWB_OFF_RESULT + 80..SWB_OFF_RESULT + 96].copy_from_slice(&value.to_le_bytes()); // max
    b[SWB_OFF_RESULT + 96] = 1; // num_samples
    b[SWB_OFF_RESULT_SLOT..SWB_OFF_RESULT_SLOT + 8].copy_from_slice(&slot.to_le_bytes());
}

// ---------------------------------------------------------------------------------------------
// Banks
// ---------------------------------------------------------------------------------------------

/// The test-suite default seven-point curve: 0% at 0 util, 60% at 50% util, 300% at 100% util,
/// no fees.
pub fn default_interest_rate_config() -> InterestRateConfig {
    InterestRateConfig {
        zero_util_rate: milli_to_u32(I80F48::ZERO),
        hundred_util_rate: milli_to_u32(I80F48::from_num(3)),
        points: make_points(&[RatePoint::new(
            centi_to_u32(I80F48::from_num(0.5)),
            milli_to_u32(I80F48::from_num(0.6)),
        )]),
        curve_type: INTEREST_CURVE_SEVEN_POINT,
        ..Default::default()
    }
}

#[derive(Clone, Debug)]
pub struct BankParams {
    pub asset_weight_init: I80F48,
    pub asset_weight_maint: I80F48,
    pub liability_weight_init: I80F48,
    pub liability_weight_maint: I80F48,
    /// u64::MAX = inactive
    pub deposit_limit: u64,
    /// u64::MAX = inactive
    pub borrow_limit: u64,
    /// 0 = inactive
    pub total_asset_value_init_limit: u64,
    pub interest_rate_config: InterestRateConfig,
    pub oracle_setup: OracleSetup,
    pub oracle_keys: [Pubkey; 5],
    /// only for `OracleSetup::Fixed`
    pub fixed_price: I80F48,
    pub asset_tag: u8,
    pub risk_tier: RiskTier,
    pub operational_state: BankOperationalState,
    pub oracle_max_age: u16,
    pub oracle_max_confidence: u32,
    pub config_flags: u8,
    /// Bank.flags (CLOSE_ENABLED_FLAG is what `lending_pool_add_bank` sets)
    pub flags: u64,
    /// Use this key for the bank instead of a fresh one.
    pub bank_key: Option<Pubkey>,
}

impl Default for BankParams {
    fn default() -> Self {
        BankParams {
            asset_weight_init: I80F48::ONE,
            asset_weight_maint: I80F48::ONE,
            liability_weight_init: I80F48::ONE,
            liability_weight_maint: I80F48::ONE,
            deposit_limit: u64::MAX,
            borrow_limit: u64::MAX,
            total_asset_value_init_limit: 0,
            interest_rate_config: default_interest_rate_config(),
            oracle_setup: OracleSetup::PythPushOracle,
            oracle_keys: [Pubkey::default(); 5],
            fixed_price: I80F48::ZERO,
            asset_tag: ASSET_TAG_DEFAULT,
            risk_tier: RiskTier::Collateral,
            operational_state: BankOperationalState::Operational,
            oracle_max_age: 100,
            oracle_max_confidence: 0,
            config_flags: PYTH_PUSH_MIGRATED_DEPRECATED,
            flags: marginfi_type_crate::constants::CLOSE_ENABLED_FLAG,
            bank_key: None,
        }
    }
}

impl BankParams {
    pub fn with_pyth(mut self, oracle: Pubkey) -> Self {
        self.oracle_setup = OracleSetup::PythPushOracle;
        self.oracle_keys[0] = oracle;
        self
    }
    pub fn with_switchboard(mut self, oracle: Pubkey) -> Self {
        self.oracle_setup = OracleSetup::SwitchboardPull;
        self.oracle_keys[0] = oracle;
        self
    }
    pub fn with_fixed_price(mut self, price: I80F48) -> Self {
        self.oracle_setup = OracleSetup::Fixed;
        self.oracle_keys = [Pubkey::default(); 5];
        self.fixed_price = price;
        self
    }
    pub fn with_weights(mut self, a_init: f64, a_maint: f64, l_init: f64, l_maint: f64) -> Self {
        self.asset_weight_init = I80F48::from_num(a_init);
        self.asset_weight_maint = I80F48::from_num(a_maint);
        self.liability_weight_init = I80F48::from_num(l_init);
        self.liability_weight_maint = I80F48::from_num(l_maint);
        self
    }
    pub fn to_config(&self) -> BankConfig {
        BankConfig {
            asset_weight_init: self.asset_weight_init.into(),
            asset_weight_maint: self.asset_weight_maint.into(),
            liability_weight_init: self.liability_weight_init.into(),
            liability_weight_maint: self.liability_weight_maint.into(),
            deposit_limit: self.deposit_limit,
            interest_rate_config: self.interest_rate_config,
            operational_state: self.operational_state,
            oracle_setup: self.oracle_setup,
            oracle_keys: self.oracle_keys,
            _pad0: [0; 6],
            borrow_limit: self.borrow_limit,
            risk_tier: self.risk_tier,
            asset_tag: self.asset_tag,
            config_flags: self.config_flags,
            _pad1: [0; 5],
            total_asset_value_init_limit: self.total_asset_value_init_limit,
            oracle_max_age: self.oracle_max_age,
            _padding0: [0; 2],
            oracle_max_confidence: self.oracle_max_confidence,
            fixed_price: self.fixed_price.into(),
            _padding1: [0; 16],
        }
    }
}

/// All PDAs of a bank.
#[derive(Clone, Copy, Debug)]
pub struct BankKeys {
    pub bank: Pubkey,
    pub liquidity_vault: Pubkey,
    pub liquidity_vault_bump: u8,
    pub liquidity_vault_authority: Pubkey,
    pub liquidity_vault_authority_bump: u8,
    pub insurance_vault: Pubkey,
    pub insurance_vault_bump: u8,
    pub insurance_vault_authority: Pubkey,
    pub insurance_vault_authority_bump: u8,
    pub fee_vault: Pubkey,
    pub fee_vault_bump: u8,
    pub fee_vault_authority: Pubkey,
    pub fee_vault_authority_bump: u8,
}

impl BankKeys {
    pub fn derive(bank: &Pubkey) -> BankKeys {
        let (lv, lvb) = find_bank_vault_pda(bank, BankVaultType::Liquidity);
        let (lva, lvab) = find_bank_vault_authority_pda(bank, BankVaultType::Liquidity);
        let (iv, ivb) = find_bank_vault_pda(bank, BankVaultType::Insurance);
        let (iva, ivab) = find_bank_vault_authority_pda(bank, BankVaultType::Insurance);
        let (fv, fvb) = find_bank_vault_pda(bank, BankVaultType::Fee);
        let (fva, fvab) = find_bank_vault_authority_pda(bank, BankVaultType::Fee);
        BankKeys {
            bank: *bank,
            liquidity_vault: lv,
            liquidity_vault_bump: lvb,
            liquidity_vault_authority: lva,
            liquidity_vault_authority_bump: lvab,
            insurance_vault: iv,
            insurance_vault_bump: ivb,
            insurance_vault_authority: iva,
            insurance_vault_authority_bump: ivab,
            fee_vault: fv,
            fee_vault_bump: fvb,
            fee_vault_authority: fva,
            fee_vault_authority_bump: fvab,
        }
    }
}

/// Create a Bank exactly as `lending_pool_add_bank` would (Bank::new + config incl. oracle),
/// its three (empty) vault token accounts at the real PDAs owned by the vault-authority PDAs,
/// bumps set, `group.banks` incremented. The bank key is a fresh keypair-style key unless
/// `params.bank_key` is given.
pub fn mk_bank(world: &mut World, group: Pubkey, mint: Pubkey, params: BankParams) -> Pubkey {
    let bank_key = params.bank_key.unwrap_or_else(|| world.new_key());
    let k = BankKeys::derive(&bank_key);
    let (_prog, decimals, _fee) = mint_info(world, &mint);
    let mut bank = Bank::new(
        group,
        params.to_config(),
        mint,
        decimals,
        k.liquidity_vault,
        k.insurance_vault,
        k.fee_vault,
        world.unix_timestamp,
        k.liquidity_vault_bump,
        k.liquidity_vault_authority_bump,
        k.insurance_vault_bump,
        k.insurance_vault_authority_bump,
        k.fee_vault_bump,
        k.fee_vault_authority_bump,
    );
    bank.flags = params.flags;
    world.put_zero_copy(bank_key, discriminators::BANK, &bank);
    put_token_account(world, k.liquidity_vault, &mint, &k.liquidity_vault_authority, 0);
    put_token_account(world, k.insurance_vault, &mint, &k.insurance_vault_authority, 0);
    put_token_account(world, k.fee_vault, &mint, &k.fee_vault_authority, 0);
    if world.get::<MarginfiGroup>(&group).is_some() {
        let now = world.unix_timestamp;
        world.update::<MarginfiGroup>(&group, |g| {
            g.banks = g.banks.saturating_add(1);
            g.fee_state_cache.last_update = now;
        });
    }
    bank_key
}

/// Everything a builder needs to know about a bank, read from the store.
#[derive(Clone, Debug)]
pub struct BankCtx {
    pub keys: BankKeys,
    pub group: Pubkey,
    pub mint: Pubkey,
    pub token_program: Pubkey,
    /// `[mint]` for Token-2022 banks (must be the FIRST remaining account of deposit / withdraw /
    /// borrow / repay / liquidate / bankruptcy / fee ixs), empty for classic SPL banks.
    pub mint_prefix: Vec<AccountMeta>,
    /// oracle account metas, in the order the risk engine expects them after the bank
    pub oracle_metas: Vec<AccountMeta>,
}

pub fn bank_ctx(world: &World, bank: &Pubkey) -> BankCtx {
    let b: Bank = world.get::<Bank>(bank).expect("bank_ctx: no such bank");
    let token_program = world.account(&b.mint).map(|a| a.owner).unwrap_or(spl_token::ID);
    let mint_prefix = if token_program == spl_token_2022::ID {
        vec![AccountMeta::new_readonly(b.mint, false)]
    } else {
        vec![]
    };
    BankCtx {
        keys: BankKeys::derive(bank),
        group: b.group,
        mint: b.mint,
        token_program,
        mint_prefix,
        oracle_metas: oracle_metas_for(&b),
    }
}

/// Number of oracle accounts following the bank in the risk-engine remaining accounts:
/// Fixed → 0; PythPush / SwitchboardPull → 1; Kamino / Drift / Solend → 2; Staked → 3.
pub fn oracle_metas_for(b: &Bank) -> Vec<AccountMeta> {
    let n = match b.config.oracle_setup {
        OracleSetup::Fixed | OracleSetup::None => 0,
        OracleSetup::StakedWithPythPush => 3,
        OracleSetup::KaminoPythPush
        | OracleSetup::KaminoSwitchboardPull
        | OracleSetup::DriftPythPull
        | OracleSetup::DriftSwitchboardPull
        | OracleSetup::SolendPythPull
        | OracleSetup::SolendSwitchboardPull => 2,
        _ => 1,
    };
    b.config.oracle_keys[..n].iter().map(|k| AccountMeta::new_readonly(*k, false)).collect()
}

/// Risk-engine remaining accounts for `marginfi_account`: for every active balance (plus
/// `extra_banks`, minus `exclude_banks`), in the program's order (balances are kept sorted by bank
/// key DESCENDING), the bank followed by its oracle account(s).
///
/// * pass the bank being borrowed / deposited-into-by-liquidation in `extra_banks` when the
///   account has no balance in it yet (the new balance is sorted in BEFORE the health check);
/// * pass a bank in `exclude_banks` when the instruction closes that balance before the health
///   check (`withdraw_all`, `repay_all`).
pub fn remaining_for_ex(
    world: &World,
    marginfi_account: &Pubkey,
    extra_banks: &[Pubkey],
    exclude_banks: &[Pubkey],
) -> Vec<AccountMeta> {
    let acc: MarginfiAccount =
        world.get::<MarginfiAccount>(marginfi_account).expect("remaining_for: no such account");
    let mut banks: Vec<Pubkey> = acc
        .lending_account
        .balances
        .iter()
        .filter(|b| b.is_active())
        .map(|b| b.bank_pk)
        .collect();
    for e in extra_banks {
        if !banks.contains(e) {
            banks.push(*e);
        }
    }
    banks.retain(|b| !exclude_banks.contains(b));
    banks.sort_by(|a, b| b.cmp(a));
    let mut out = Vec::new();
    for bk in banks {
        out.push(AccountMeta::new_readonly(bk, false));
        if let Some(b) = world.get::<Bank>(&bk) {
            out.extend(oracle_metas_for(&b));
        }
    }
    out
}

pub fn remaining_for(world: &World, marginfi_account: &Pubkey, extra_banks: &[Pubkey]) -> Vec<AccountMeta> {
    remaining_for_ex(world, marginfi_account, extra_banks, &[])
}

// ---------------------------------------------------------------------------------------------
// Marginfi accounts & liquidation records
// ---------------------------------------------------------------------------------------------

pub fn mk_marginfi_account(world: &mut World, group: Pubkey, authority: Pubkey) -> Pubkey {
    let key = world.new_key();
    let mut a = MarginfiAccount::zeroed();
    a.group = group;
    a.authority = authority;
    a.last_update = world.unix_timestamp as u64;
    world.put_zero_copy(key, discriminators::ACCOUNT, &a);
    key
}

pub fn liquidation_record_key(marginfi_account: &Pubkey) -> Pubkey {
    Pubkey::find_program_address(
        &[LIQUIDATION_RECORD_SEED.as_bytes(), marginfi_account.as_ref()],
        &marginfi::ID,
    )
    .0
}

/// Directly create the liquidation record of an account (as `marginfi_account_init_liq_record`).
pub fn mk_liquidation_record(world: &mut World, marginfi_account: Pubkey, payer: Pubkey) -> Pubkey {
    let key = liquidation_record_key(&marginfi_account);
    let mut r = LiquidationRecord::zeroed();
    r.key = key;
    r.marginfi_account = marginfi_account;
    r.record_payer = payer;
    world.put_zero_copy(key, discriminators::LIQUIDATION_RECORD, &r);
    world.update::<MarginfiAccount>(&marginfi_account, |a| a.liquidation_record = key);
    key
}

/// (asset_shares, liability_shares) of `marginfi_account` in `bank`, if it has an active balance.
pub fn balance_of(world: &World, marginfi_account: &Pubkey, bank: &Pubkey) -> Option<(I80F48, I80F48)> {
    let acc: MarginfiAccount = world.get::<MarginfiAccount>(marginfi_account)?;
    acc.lending_account
        .balances
        .iter()
        .find(|b| b.is_active() && b.bank_pk == *bank)
        .map(|b| (b.asset_shares.into(), b.liability_shares.into()))
}
