//! Instruction builders returning `Ix`.
//!
//! Account order and signer / writable flags come from Anchor's own `ToAccountMetas` on the
//! generated `marginfi::accounts::*` structs, instruction data from `InstructionData` on
//! `marginfi::instruction::*`, so they are exactly what a client built from the IDL would send.
//!
//! Conventions
//! * builders take every caller-chosen account as an explicit key; bank vault / vault-authority PDAs
//!   are derived from the `bank` key (use `Ix::replace_key` / `Ix::set_account` to substitute a
//!   wrong one);
//! * `remaining` is the explicit list of remaining accounts. For Token-2022 banks the mint must be
//!   the FIRST remaining account (`bank_ctx(..).mint_prefix`), followed by whatever the
//!   instruction expects (risk-engine accounts from `remaining_for`).
use anchor_lang::{InstructionData, ToAccountMetas};
use marginfi::{accounts as acc, instruction as ixd};
use marginfi_type_crate::constants::{
    EMISSIONS_AUTH_SEED, EMISSIONS_TOKEN_ACCOUNT_SEED, MARGINFI_ACCOUNT_SEED,
};
use marginfi_type_crate::types::{
    BankConfigCompact, BankConfigOpt, EmodeEntry, InterestRateConfigOpt, WrappedI80F48,
    MAX_EMODE_ENTRIES,
};
use solana_program::instruction::AccountMeta;
use solana_program::pubkey::Pubkey;
use solana_program::{system_program, sysvar};

use super::fixtures::{fee_state_key, liquidation_record_key, BankKeys};
use super::runtime::{ata_address, Ix, ATA_PROGRAM_ID, COMPUTE_BUDGET_ID};

/// Generic builder: any `marginfi::accounts::X` + `marginfi::instruction::Y` + remaining accounts.
pub fn build<A: ToAccountMetas, D: InstructionData>(accounts: A, data: D, remaining: Vec<AccountMeta>) -> Ix {
    let mut metas = accounts.to_account_metas(None);
    metas.extend(remaining);
    Ix { program_id: marginfi::ID, accounts: metas, data: data.data() }
}

pub fn ro(key: Pubkey) -> AccountMeta {
    AccountMeta::new_readonly(key, false)
}
pub fn rw(key: Pubkey) -> AccountMeta {
    AccountMeta::new(key, false)
}

pub fn emissions_pdas(bank: &Pubkey, emissions_mint: &Pubkey) -> (Pubkey, Pubkey) {
    let auth = Pubkey::find_program_address(
        &[EMISSIONS_AUTH_SEED.as_bytes(), bank.as_ref(), emissions_mint.as_ref()],
        &marginfi::ID,
    )
    .0;
    let vault = Pubkey::find_program_address(
        &[EMISSIONS_TOKEN_ACCOUNT_SEED.as_bytes(), bank.as_ref(), emissions_mint.as_ref()],
        &marginfi::ID,
    )
    .0;
    (auth, vault)
}

pub fn marginfi_account_pda(group: &Pubkey, authority: &Pubkey, account_index: u16, third_party_id: Option<u16>) -> Pubkey {
    Pubkey::find_program_address(
        &[
            MARGINFI_ACCOUNT_SEED.as_bytes(),
            group.as_ref(),
            authority.as_ref(),
            &account_index.to_le_bytes(),
            &third_party_id.unwrap_or(0).to_le_bytes(),
        ],
        &marginfi::ID,
    )
    .0
}

// ---------------------------------------------------------------------------------------------
// Filler / foreign instructions
// ---------------------------------------------------------------------------------------------

/// A compute-budget instruction (SetComputeUnitLimit) — executed as a no-op.
pub fn compute_budget(units: u32) -> Ix {
    let mut data = vec![2u8];
    data.extend_from_slice(&units.to_le_bytes());
    Ix { program_id: COMPUTE_BUDGET_ID, accounts: vec![], data }
}

/// An instruction of an arbitrary other program (no-op filler for introspection tests).
pub fn foreign(program_id: Pubkey, accounts: Vec<AccountMeta>, data: Vec<u8>) -> Ix {
    Ix { program_id, accounts, data }
}

/// A user-level SPL-Token / Token-2022 `TransferChecked`.
pub fn token_transfer_checked(
    token_program: Pubkey,
    source: Pubkey,
    mint: Pubkey,
    destination: Pubkey,
    authority: Pubkey,
    amount: u64,
    decimals: u8,
) -> Ix {
    spl_token_2022::instruction::transfer_checked(
        &token_program, &source, &mint, &destination, &authority, &[], amount, decimals,
    )
    .expect("transfer_checked")
    .into()
}

/// System-program lamport transfer.
pub fn system_transfer(from: Pubkey, to: Pubkey, lamports: u64) -> Ix {
    solana_program::system_instruction::transfer(&from, &to, lamports).into()
}

/// Associated-token-account `CreateIdempotent`.
pub fn ata_create_idempotent(payer: Pubkey, wallet: Pubkey, mint: Pubkey, token_program: Pubkey) -> Ix {
    let ata = ata_address(&wallet, &mint, &token_program);
    Ix {
        program_id: ATA_PROGRAM_ID,
        accounts: vec![
            AccountMeta::new(payer, true),
            AccountMeta::new(ata, false),
            ro(wallet),
            ro(mint),
            ro(system_program::ID),
            ro(token_program),
        ],
        data: vec![1],
    }
}

// ---------------------------------------------------------------------------------------------
// User instructions
// ---------------------------------------------------------------------------------------------

pub fn marginfi_account_initialize(group: Pubkey, marginfi_account: Pubkey, authority: Pubkey, fee_payer: Pubkey) -> Ix {
    build(
        acc::MarginfiAccountInitialize {
            marginfi_group: group,
            marginfi_account,
            authority,
            fee_payer,
            system_program: system_program::ID,
        },
        ixd::MarginfiAccountInitialize {},
        vec![],
    )
}

pub fn marginfi_account_initialize_pda(
    group: Pubkey,
    authority: Pubkey,
    fee_payer: Pubkey,
    account_index: u16,
    third_party_id: Option<u16>,
) -> Ix {
    build(
        acc::MarginfiAccountInitializePda {
            marginfi_group: group,
            marginfi_account: marginfi_account_pda(&group, &authority, account_index, third_party_id),
            authority,
            fee_payer,
            instructions_sysvar: sysvar::instructions::ID,
            system_program: system_program::ID,
        },
        ixd::MarginfiAccountInitializePda { account_index, third_party_id },
        vec![],
    )
}

pub fn marginfi_account_init_liq_record(marginfi_account: Pubkey, fee_payer: Pubkey) -> Ix {
    build(
        acc::InitLiquidationRecord {
            marginfi_account,
            fee_payer,
            liquidation_record: liquidation_record_key(&marginfi_account),
            system_program: system_program::ID,
        },
        ixd::MarginfiAccountInitLiqRecord {},
        vec![],
    )
}

pub fn lending_account_deposit(
    group: Pubkey,
    marginfi_account: Pubkey,
    authority: Pubkey,
    bank: Pubkey,
    signer_token_account: Pubkey,
    token_program: Pubkey,
    amount: u64,
    deposit_up_to_limit: Option<bool>,
    remaining: Vec<AccountMeta>,
) -> Ix {
    let k = BankKeys::derive(&bank);
    build(
        acc::LendingAccountDeposit {
            group,
            marginfi_account,
            authority,
            bank,
            signer_token_account,
            liquidity_vault: k.liquidity_vault,
            token_program,
        },
        ixd::LendingAccountDeposit { amount, deposit_up_to_limit },
        remaining,
    )
}

pub fn lending_account_repay(
    group: Pubkey,
    marginfi_account: Pubkey,
    authority: Pubkey,
    bank: Pubkey,
    signer_token_account: Pubkey,
    token_program: Pubkey,
    amount: u64,
    repay_all: Option<bool>,
    remaining: Vec<AccountMeta>,
) -> Ix {
    let k = BankKeys::derive(&bank);
    build(
        acc::LendingAccountRepay {
            group,
            marginfi_account,
            authority,
            bank,
            signer_token_account,
            liquidity_vault: k.liquidity_vault,
            token_program,
        },
        ixd::LendingAccountRepay { amount, repay_all },
        remaining,
    )
}

pub fn lending_account_withdraw(
    group: Pubkey,
    marginfi_account: Pubkey,
    authority: Pubkey,
    bank: Pubkey,
    destination_token_account: Pubkey,
    token_program: Pubkey,
    amount: u64,
    withdraw_all: Option<bool>,
    remaining: Vec<AccountMeta>,
) -> Ix {
    let k = BankKeys::derive(&bank);
    build(
        acc::LendingAccountWithdraw {
            group,
            marginfi_account,
            authority,
            bank,
            destination_token_account,
            bank_liquidity_vault_authority: k.liquidity_vault_authority,
            liquidity_vault: k.liquidity_vault,
            token_program,
        },
        ixd::LendingAccountWithdraw { amount, withdraw_all },
        remaining,
    )
}

pub fn lending_account_borrow(
    group: Pubkey,
    marginfi_account: Pubkey,
    authority: Pubkey,
    bank: Pubkey,
    destination_token_account: Pubkey,
    token_program: Pubkey,
    amount: u64,
    remaining: Vec<AccountMeta>,
) -> Ix {
    let k = BankKeys::derive(&bank);
    build(
        acc::LendingAccountBorrow {
            group,
            marginfi_account,
            authority,
            bank,
            destination_token_account,
            bank_liquidity_vault_authority: k.liquidity_vault_authority,
            liquidity_vault: k.liquidity_vault,
            token_program,
        },
        ixd::LendingAccountBorrow { amount },
        remaining,
    )
}

pub fn lending_account_close_balance(group: Pubkey, marginfi_account: Pubkey, authority: Pubkey, bank: Pubkey) -> Ix {
    build(
        acc::LendingAccountCloseBalance { group, marginfi_account, authority, bank },
        ixd::LendingAccountCloseBalance {},
        vec![],
    )
}

/// Classic liquidation. `token_program` is the LIABILITY bank's token program.
/// remaining = [liab mint if Token-2022] ++ asset-bank oracle(s) ++ liab-bank oracle(s) ++
///             liquidator risk accounts (`liquidator_accounts` of them) ++
///             liquidatee risk accounts (`liquidatee_accounts` of them).
pub fn lending_account_liquidate(
    group: Pubkey,
    asset_bank: Pubkey,
    liab_bank: Pubkey,
    liquidator_marginfi_account: Pubkey,
    authority: Pubkey,
    liquidatee_marginfi_account: Pubkey,
    token_program: Pubkey,
    asset_amount: u64,
    liquidatee_accounts: u8,
    liquidator_accounts: u8,
    remaining: Vec<AccountMeta>,
) -> Ix {
    let k = BankKeys::derive(&liab_bank);
    build(
        acc::LendingAccountLiquidate {
            group,
            asset_bank,
            liab_bank,
            liquidator_marginfi_account,
            authority,
            liquidatee_marginfi_account,
            bank_liquidity_vault_authority: k.liquidity_vault_authority,
            bank_liquidity_vault: k.liquidity_vault,
            bank_insurance_vault: k.insurance_vault,
            token_program,
        },
        ixd::LendingAccountLiquidate { asset_amount, liquidatee_accounts, liquidator_accounts },
        remaining,
    )
}

pub fn lending_account_start_flashloan(marginfi_account: Pubkey, authority: Pubkey, end_index: u64) -> Ix {
    build(
        acc::LendingAccountStartFlashloan { marginfi_account, authority, ixs_sysvar: sysvar::instructions::ID },
        ixd::LendingAccountStartFlashloan { end_index },
        vec![],
    )
}

/// remaining = risk-engine accounts of the account as it stands at the END of the flashloan.
pub fn lending_account_end_flashloan(marginfi_account: Pubkey, authority: Pubkey, remaining: Vec<AccountMeta>) -> Ix {
    build(
        acc::LendingAccountEndFlashloan { marginfi_account, authority },
        ixd::LendingAccountEndFlashloan {},
        remaining,
    )
}

/// remaining = risk-engine accounts of the liquidatee.
pub fn start_liquidation(marginfi_account: Pubkey, liquidation_receiver: Pubkey, remaining: Vec<AccountMeta>) -> Ix {
    build(
        acc::StartLiquidation {
            marginfi_account,
            liquidation_record: liquidation_record_key(&marginfi_account),
            liquidation_receiver,
            instruction_sysvar: sysvar::instructions::ID,
        },
        ixd::StartLiquidation {},
        remaining,
    )
}

/// remaining = risk-engine accounts of the liquidatee as it stands at the end.
pub fn end_liquidation(
    marginfi_account: Pubkey,
    liquidation_receiver: Pubkey,
    global_fee_wallet: Pubkey,
    remaining: Vec<AccountMeta>,
) -> Ix {
    build(
        acc::EndLiquidation {
            marginfi_account,
            liquidation_record: liquidation_record_key(&marginfi_account),
            liquidation_receiver,
            fee_state: fee_state_key(),
            global_fee_wallet,
            system_program: system_program::ID,
        },
        ixd::EndLiquidation {},
        remaining,
    )
}

pub fn start_deleverage(group: Pubkey, marginfi_account: Pubkey, risk_admin: Pubkey, remaining: Vec<AccountMeta>) -> Ix {
    build(
        acc::StartDeleverage {
            marginfi_account,
            liquidation_record: liquidation_record_key(&marginfi_account),
            group,
            risk_admin,
            instruction_sysvar: sysvar::instructions::ID,
        },
        ixd::StartDeleverage {},
        remaining,
    )
}

pub fn end_deleverage(group: Pubkey, marginfi_account: Pubkey, risk_admin: Pubkey, remaining: Vec<AccountMeta>) -> Ix {
    build(
        acc::EndDeleverage {
            marginfi_account,
            liquidation_record: liquidation_record_key(&marginfi_account),
            group,
            risk_admin,
        },
        ixd::EndDeleverage {},
        remaining,
    )
}

pub fn purge_deleverage_balance(group: Pubkey, marginfi_account: Pubkey, risk_admin: Pubkey, bank: Pubkey) -> Ix {
    build(
        acc::LendingAccountPurgeDelevBalance { group, marginfi_account, risk_admin, bank },
        ixd::PurgeDeleverageBalance {},
        vec![],
    )
}

pub fn transfer_to_new_account(
    group: Pubkey,
    old_marginfi_account: Pubkey,
    new_marginfi_account: Pubkey,
    authority: Pubkey,
    fee_payer: Pubkey,
    new_authority: Pubkey,
    global_fee_wallet: Pubkey,
) -> Ix {
    build(
        acc::TransferToNewAccount {
            group,
            old_marginfi_account,
            new_marginfi_account,
            authority,
            fee_payer,
            new_authority,
            global_fee_wallet,
            system_program: system_program::ID,
        },
        ixd::TransferToNewAccount {},
        vec![],
    )
}

pub fn marginfi_account_close(marginfi_account: Pubkey, authority: Pubkey, fee_payer: Pubkey) -> Ix {
    build(
        acc::MarginfiAccountClose { marginfi_account, authority, fee_payer },
        ixd::MarginfiAccountClose {},
        vec![],
    )
}

pub fn marginfi_account_set_freeze(group: Pubkey, marginfi_account: Pubkey, admin: Pubkey, frozen: bool) -> Ix {
    build(
        acc::SetAccountFreeze { group, marginfi_account, admin },
        ixd::MarginfiAccountSetFreeze { frozen },
        vec![],
    )
}

pub fn lending_account_pulse_health(marginfi_account: Pubkey, remaining: Vec<AccountMeta>) -> Ix {
    build(acc::PulseHealth { marginfi_account }, ixd::LendingAccountPulseHealth {}, remaining)
}

pub fn lending_account_settle_emissions(marginfi_account: Pubkey, bank: Pubkey) -> Ix {
    build(
        acc::LendingAccountSettleEmissions { marginfi_account, bank },
        ixd::LendingAccountSettleEmissions {},
        vec![],
    )
}

/// `token_program` is the EMISSIONS mint's token program; remaining = [emissions mint] if it is
/// Token-2022.
pub fn lending_account_withdraw_emissions(
    group: Pubkey,
    marginfi_account: Pubkey,
    authority: Pubkey,
    bank: Pubkey,
    emissions_mint: Pubkey,
    destination_account: Pubkey,
    token_program: Pubkey,
    remaining: Vec<AccountMeta>,
) -> Ix {
    let (emissions_auth, emissions_vault) = emissions_pdas(&bank, &emissions_mint);
    build(
        acc::LendingAccountWithdrawEmissions {
            group,
            marginfi_account,
            authority,
            bank,
            emissions_mint,
            emissions_auth,
            emissions_vault,
            destination_account,
            token_program,
        },
        ixd::LendingAccountWithdrawEmissions {},
        remaining,
    )
}

// ---------------------------------------------------------------------------------------------
// Group / bank administration
// ---------------------------------------------------------------------------------------------

pub fn marginfi_group_initialize(group: Pubkey, admin: Pubkey) -> Ix {
    build(
        acc::MarginfiGroupInitialize {
            marginfi_group: group,
            admin,
            fee_state: fee_state_key(),
            system_program: system_program::ID,
        },
        ixd::MarginfiGroupInitialize {},
        vec![],
    )
}

pub fn marginfi_group_configure(
    group: Pubkey,
    admin: Pubkey,
    new_admin: Pubkey,
    new_emode_admin: Pubkey,
    new_curve_admin: Pubkey,
    new_limit_admin: Pubkey,
    new_emissions_admin: Pubkey,
    new_metadata_admin: Pubkey,
    new_risk_admin: Pubkey,
    emode_max_init_leverage: Option<WrappedI80F48>,
    emode_max_maint_leverage: Option<WrappedI80F48>,
) -> Ix {
    build(
        acc::MarginfiGroupConfigure { marginfi_group: group, admin },
        ixd::MarginfiGroupConfigure {
            new_admin,
            new_emode_admin,
            new_curve_admin,
            new_limit_admin,
            new_emissions_admin,
            new_metadata_admin,
            new_risk_admin,
            emode_max_init_leverage,
            emode_max_maint_leverage,
        },
        vec![],
    )
}

/// `bank` is a fresh keypair-style key that must sign. The vault PDAs are derived from it.
/// After this instruction the bank has no oracle: follow with `lending_pool_configure_bank_oracle`.
pub fn lending_pool_add_bank(
    group: Pubkey,
    admin: Pubkey,
    fee_payer: Pubkey,
    global_fee_wallet: Pubkey,
    bank_mint: Pubkey,
    bank: Pubkey,
    token_program: Pubkey,
    bank_config: BankConfigCompact,
) -> Ix {
    let k = BankKeys::derive(&bank);
    build(
        acc::LendingPoolAddBank {
            marginfi_group: group,
            admin,
            fee_payer,
            fee_state: fee_state_key(),
            global_fee_wallet,
            bank_mint,
            bank,
            liquidity_vault_authority: k.liquidity_vault_authority,
            liquidity_vault: k.liquidity_vault,
            insurance_vault_authority: k.insurance_vault_authority,
            insurance_vault: k.insurance_vault,
            fee_vault_authority: k.fee_vault_authority,
            fee_vault: k.fee_vault,
            token_program,
            system_program: system_program::ID,
        },
        ixd::LendingPoolAddBank { bank_config },
        vec![],
    )
}

pub fn lending_pool_close_bank(group: Pubkey, bank: Pubkey, admin: Pubkey) -> Ix {
    build(acc::LendingPoolCloseBank { group, bank, admin }, ixd::LendingPoolCloseBank {}, vec![])
}

pub fn lending_pool_configure_bank(group: Pubkey, admin: Pubkey, bank: Pubkey, bank_config_opt: BankConfigOpt) -> Ix {
    build(
        acc::LendingPoolConfigureBank { group, admin, bank },
        ixd::LendingPoolConfigureBank { bank_config_opt },
        vec![],
    )
}

pub fn lending_pool_configure_bank_interest_only(
    group: Pubkey,
    delegate_curve_admin: Pubkey,
    bank: Pubkey,
    interest_rate_config: InterestRateConfigOpt,
) -> Ix {
    build(
        acc::LendingPoolConfigureBankInterestOnly { group, delegate_curve_admin, bank },
        ixd::LendingPoolConfigureBankInterestOnly { interest_rate_config },
        vec![],
    )
}

pub fn lending_pool_configure_bank_limits_only(
    group: Pubkey,
    delegate_limit_admin: Pubkey,
    bank: Pubkey,
    deposit_limit: Option<u64>,
    borrow_limit: Option<u64>,
    total_asset_value_init_limit: Option<u64>,
) -> Ix {
    build(
        acc::LendingPoolConfigureBankLimitsOnly { group, delegate_limit_admin, bank },
        ixd::LendingPoolConfigureBankLimitsOnly { deposit_limit, borrow_limit, total_asset_value_init_limit },
        vec![],
    )
}

pub fn lending_pool_force_tokenless_repay_complete(group: Pubkey, risk_admin: Pubkey, bank: Pubkey) -> Ix {
    build(
        acc::LendingPoolForceTokenlessRepayComplete { group, risk_admin, bank },
        ixd::LendingPoolForceTokenlessRepayComplete {},
        vec![],
    )
}

/// remaining = the oracle account(s) to validate (e.g. `[ro(oracle)]`).
pub fn lending_pool_configure_bank_oracle(
    group: Pubkey,
    admin: Pubkey,
    bank: Pubkey,
    setup: u8,
    oracle: Pubkey,
    remaining: Vec<AccountMeta>,
) -> Ix {
    build(
        acc::LendingPoolConfigureBankOracle { group, admin, bank },
        ixd::LendingPoolConfigureBankOracle { setup, oracle },
        remaining,
    )
}

pub fn lending_pool_set_fixed_oracle_price(group: Pubkey, admin: Pubkey, bank: Pubkey, price: WrappedI80F48) -> Ix {
    build(
        acc::LendingPoolSetFixedOraclePrice { group, admin, bank },
        ixd::LendingPoolSetFixedOraclePrice { price },
        vec![],
    )
}

pub fn lending_pool_configure_bank_emode(
    group: Pubkey,
    emode_admin: Pubkey,
    bank: Pubkey,
    emode_tag: u16,
    entries: [EmodeEntry; MAX_EMODE_ENTRIES],
) -> Ix {
    build(
        acc::LendingPoolConfigureBankEmode { group, emode_admin, bank },
        ixd::LendingPoolConfigureBankEmode { emode_tag, entries },
        vec![],
    )
}

pub fn lending_pool_clone_emode(group: Pubkey, signer: Pubkey, copy_from_bank: Pubkey, copy_to_bank: Pubkey) -> Ix {
    build(
        acc::LendingPoolCloneEmode { group, signer, copy_from_bank, copy_to_bank },
        ixd::LendingPoolCloneEmode {},
        vec![],
    )
}

/// `token_program` is the emissions mint's token program; remaining = [emissions mint] if T22.
pub fn lending_pool_setup_emissions(
    group: Pubkey,
    delegate_emissions_admin: Pubkey,
    bank: Pubkey,
    emissions_mint: Pubkey,
    emissions_funding_account: Pubkey,
    token_program: Pubkey,
    flags: u64,
    rate: u64,
    total_emissions: u64,
    remaining: Vec<AccountMeta>,
) -> Ix {
    let (emissions_auth, emissions_token_account) = emissions_pdas(&bank, &emissions_mint);
    build(
        acc::LendingPoolSetupEmissions {
            group,
            delegate_emissions_admin,
            bank,
            emissions_mint,
            emissions_auth,
            emissions_token_account,
            emissions_funding_account,
            token_program,
            system_program: system_program::ID,
        },
        ixd::LendingPoolSetupEmissions { flags, rate, total_emissions },
        remaining,
    )
}

pub fn lending_pool_update_emissions_parameters(
    group: Pubkey,
    delegate_emissions_admin: Pubkey,
    bank: Pubkey,
    emissions_mint: Pubkey,
    emissions_funding_account: Pubkey,
    token_program: Pubkey,
    emissions_flags: Option<u64>,
    emissions_rate: Option<u64>,
    additional_emissions: Option<u64>,
    remaining: Vec<AccountMeta>,
) -> Ix {
    let (_auth, emissions_token_account) = emissions_pdas(&bank, &emissions_mint);
    build(
        acc::LendingPoolUpdateEmissionsParameters {
            group,
            delegate_emissions_admin,
            bank,
            emissions_mint,
            emissions_token_account,
            emissions_funding_account,
            token_program,
        },
        ixd::LendingPoolUpdateEmissionsParameters { emissions_flags, emissions_rate, additional_emissions },
        remaining,
    )
}

pub fn lending_pool_accrue_bank_interest(group: Pubkey, bank: Pubkey) -> Ix {
    build(
        acc::LendingPoolAccrueBankInterest { group, bank },
        ixd::LendingPoolAccrueBankInterest {},
        vec![],
    )
}

/// `fee_ata` must be the canonical ATA of the fee state's `global_fee_wallet` for the bank mint
/// (`ata_address(wallet, mint, token_program)`). remaining = [mint] for Token-2022 banks.
pub fn lending_pool_collect_bank_fees(
    group: Pubkey,
    bank: Pubkey,
    fee_ata: Pubkey,
    token_program: Pubkey,
    remaining: Vec<AccountMeta>,
) -> Ix {
    let k = BankKeys::derive(&bank);
    build(
        acc::LendingPoolCollectBankFees {
            group,
            bank,
            liquidity_vault_authority: k.liquidity_vault_authority,
            liquidity_vault: k.liquidity_vault,
            insurance_vault: k.insurance_vault,
            fee_vault: k.fee_vault,
            fee_state: fee_state_key(),
            fee_ata,
            token_program,
        },
        ixd::LendingPoolCollectBankFees {},
        remaining,
    )
}

pub fn lending_pool_withdraw_fees(
    group: Pubkey,
    bank: Pubkey,
    admin: Pubkey,
    dst_token_account: Pubkey,
    token_program: Pubkey,
    amount: u64,
    remaining: Vec<AccountMeta>,
) -> Ix {
    let k = BankKeys::derive(&bank);
    build(
        acc::LendingPoolWithdrawFees {
            group,
            bank,
            admin,
            fee_vault: k.fee_vault,
            fee_vault_authority: k.fee_vault_authority,
            dst_token_account,
            token_program,
        },
        ixd::LendingPoolWithdrawFees { amount },
        remaining,
    )
}

pub fn lending_pool_withdraw_insurance(
    group: Pubkey,
    bank: Pubkey,
    admin: Pubkey,
    dst_token_account: Pubkey,
    token_program: Pubkey,
    amount: u64,
    remaining: Vec<AccountMeta>,
) -> Ix {
    let k = BankKeys::derive(&bank);
    build(
        acc::LendingPoolWithdrawInsurance {
            group,
            bank,
            admin,
            insurance_vault: k.insurance_vault,
            insurance_vault_authority: k.insurance_vault_authority,
            dst_token_account,
            token_program,
        },
        ixd::LendingPoolWithdrawInsurance { amount },
        remaining,
    )
}

/// remaining = [mint if Token-2022] ++ risk-engine accounts of the bankrupt account.
pub fn lending_pool_handle_bankruptcy(
    group: Pubkey,
    signer: Pubkey,
    bank: Pubkey,
    marginfi_account: Pubkey,
    token_program: Pubkey,
    remaining: Vec<AccountMeta>,
) -> Ix {
    let k = BankKeys::derive(&bank);
    build(
        acc::LendingPoolHandleBankruptcy {
            group,
            signer,
            bank,
            marginfi_account,
            liquidity_vault: k.liquidity_vault,
            insurance_vault: k.insurance_vault,
            insurance_vault_authority: k.insurance_vault_authority,
            token_program,
        },
        ixd::LendingPoolHandleBankruptcy {},
        remaining,
    )
}

/// remaining = the bank's oracle account(s).
pub fn lending_pool_pulse_bank_price_cache(group: Pubkey, bank: Pubkey, remaining: Vec<AccountMeta>) -> Ix {
    build(
        acc::LendingPoolPulseBankPriceCache { group, bank },
        ixd::LendingPoolPulseBankPriceCache {},
        remaining,
    )
}

// ---------------------------------------------------------------------------------------------
// Global fee state / panic
// ---------------------------------------------------------------------------------------------

pub fn init_global_fee_state(
    payer: Pubkey,
    admin: Pubkey,
    fee_wallet: Pubkey,
    bank_init_flat_sol_fee: u32,
    liquidation_flat_sol_fee: u32,
    program_fee_fixed: WrappedI80F48,
    program_fee_rate: WrappedI80F48,
    liquidation_max_fee: WrappedI80F48,
) -> Ix {
    build(
        acc::InitFeeState { payer, fee_state: fee_state_key(), system_program: system_program::ID },
        ixd::InitGlobalFeeState {
            admin,
            fee_wallet,
            bank_init_flat_sol_fee,
            liquidation_flat_sol_fee,
            program_fee_fixed,
            program_fee_rate,
            liquidation_max_fee,
        },
        vec![],
    )
}

pub fn edit_global_fee_state(
    global_fee_admin: Pubkey,
    admin: Pubkey,
    fee_wallet: Pubkey,
    bank_init_flat_sol_fee: u32,
    liquidation_flat_sol_fee: u32,
    program_fee_fixed: WrappedI80F48,
    program_fee_rate: WrappedI80F48,
    liquidation_max_fee: WrappedI80F48,
) -> Ix {
    build(
        acc::EditFeeState { global_fee_admin, fee_state: fee_state_key() },
        ixd::EditGlobalFeeState {
            admin,
            fee_wallet,
            bank_init_flat_sol_fee,
            liquidation_flat_sol_fee,
            program_fee_fixed,
            program_fee_rate,
            liquidation_max_fee,
        },
        vec![],
    )
}

pub fn config_group_fee(group: Pubkey, global_fee_admin: Pubkey, enable_program_fee: bool) -> Ix {
    build(
        acc::ConfigGroupFee { marginfi_group: group, global_fee_admin, fee_state: fee_state_key() },
        ixd::ConfigGroupFee { enable_program_fee },
        vec![],
    )
}

pub fn propagate_fee_state(group: Pubkey) -> Ix {
    build(
        acc::PropagateFee { fee_state: fee_state_key(), marginfi_group: group },
        ixd::PropagateFeeState {},
        vec![],
    )
}

pub fn panic_pause(global_fee_admin: Pubkey) -> Ix {
    build(acc::PanicPause { global_fee_admin, fee_state: fee_state_key() }, ixd::PanicPause {}, vec![])
}

pub fn panic_unpause(global_fee_admin: Pubkey) -> Ix {
    build(acc::PanicUnpause { global_fee_admin, fee_state: fee_state_key() }, ixd::PanicUnpause {}, vec![])
}

pub fn panic_unpause_permissionless() -> Ix {
    build(
        acc::PanicUnpausePermissionless { fee_state: fee_state_key() },
        ixd::PanicUnpausePermissionless {},
        vec![],
    )
}

pub fn configure_deleverage_withdrawal_limit(group: Pubkey, admin: Pubkey, limit: u32) -> Ix {
    build(
        acc::ConfigureDeleverageWithdrawalLimit { marginfi_group: group, admin },
        ixd::ConfigureDeleverageWithdrawalLimit { limit },
        vec![],
    )
}
