//! Level C (C12 / C08): assignment of the administrator roles. Histories of the REAL `marginfi_group_configure` with
//! DISTINCT keys for the seven roles and arbitrary signers, interleaved with probes: the delegated-administrator
//! instruction of a role, signed by some wallet, through `marginfi::entry` - is the signer recognised as the holder?
//! Model: coq/model/GroupRoles.v.
//! case: t0 nops <op>*
//!   wallets 1..9 (0 = Pubkey::default()); initially wallet 1 holds every role
//!   ops: 1 s na ne nc nl nem nm nr <oi> <om>   marginfi_group_configure signed by s (oi / om: `N` | `S bits`)
//!        2 r s                                  probe role r (0 admin: configure_bank, 1 emode: configure_bank_emode,
//!                                               2 curve: configure_bank_interest_only, 3 limit: configure_bank_limits_only,
//!                                               4 emissions: update_emissions_parameters, 6 risk: force_tokenless_repay_complete)
//!        3 dt                                   clock += dt
//! out : per op; 1: `<res> a e c l em m r ci cm last`; 2: `1` (signer recognised: anything but Unauthorized) | `0`; 3: `OK`
use crate::sim::*;
use crate::util::*;
use anchor_lang::prelude::Pubkey;
use bytemuck::Zeroable;
use fixed::types::I80F48;
use marginfi_type_crate::types::{BankConfigOpt, EmodeEntry, InterestRateConfigOpt, MarginfiGroup, WrappedI80F48, MAX_EMODE_ENTRIES};

fn opt_tok<T>(t: &mut Toks, f: impl FnOnce(&mut Toks) -> T) -> Option<T> {
    match t.s() {
        "N" => None,
        "S" => Some(f(t)),
        x => panic!("bad option token {}", x),
    }
}

pub fn run(line: &str) -> String {
    let mut t = Toks::new(line);
    let t0 = t.i64();
    let nops = t.usize();
    guarded(|| {
        let mut w = World::new();
        w.set_clock(t0);
        let mut wallets = vec![Pubkey::default()];
        for _ in 0..9 {
            wallets.push(mk_wallet(&mut w, 100 * 1_000_000_000));
        }
        let admin = wallets[1];
        let fee_wallet = mk_wallet(&mut w, 1_000_000_000);
        mk_fee_state(&mut w, admin, fee_wallet, FeeStateParams::default());
        let group = mk_group(&mut w, admin);
        let mint = mk_mint(&mut w, 6, TokenProgram::Spl);
        let bank = mk_bank(&mut w, group, mint, BankParams::default().with_fixed_price(I80F48::ONE));
        let em = mk_mint(&mut w, 6, TokenProgram::Spl);
        let funding = mk_token_account(&mut w, em, admin, 1_000_000);
        w.exec(ixs::lending_pool_setup_emissions(group, admin, bank, em, funding, spl_token::ID, 2, 1, 1000, vec![]), &[admin])
            .expect("fixture setup_emissions");
        let id_of = |wallets: &Vec<Pubkey>, k: &Pubkey| wallets.iter().position(|x| x == k).map(|i| i as i64).unwrap_or(99);
        let mut out = Vec::new();
        for _ in 0..nops {
            match t.u8() {
                1 => {
                    let s = wallets[t.usize()];
                    let ks: Vec<Pubkey> = (0..7).map(|_| wallets[t.usize()]).collect();
                    let oi: Option<WrappedI80F48> = opt_tok(&mut t, |t| t.fx().into());
                    let om: Option<WrappedI80F48> = opt_tok(&mut t, |t| t.fx().into());
                    let ix = ixs::marginfi_group_configure(group, s, ks[0], ks[1], ks[2], ks[3], ks[4], ks[5], ks[6], oi, om);
                    let r = w.exec(ix, &[s]);
                    let g: MarginfiGroup = w.get::<MarginfiGroup>(&group).unwrap();
                    let rs = match &r {
                        Ok(()) => "OK".to_string(),
                        Err(ExecError::Custom(n)) => format!("E{}", n),
                        Err(ExecError::Program(s)) => format!("PE:{}", s.split_whitespace().next().unwrap_or("?")),
                        Err(ExecError::Panic) => "PANIC".into(),
                    };
                    out.push(format!(
                        "{} {} {} {} {} {} {} {} {} {} {}",
                        rs,
                        id_of(&wallets, &g.admin),
                        id_of(&wallets, &g.emode_admin),
                        id_of(&wallets, &g.delegate_curve_admin),
                        id_of(&wallets, &g.delegate_limit_admin),
                        id_of(&wallets, &g.delegate_emissions_admin),
                        id_of(&wallets, &g.metadata_admin),
                        id_of(&wallets, &g.risk_admin),
                        g.emode_max_init_leverage,
                        g.emode_max_maint_leverage,
                        g.fee_state_cache.last_update
                    ));
                }
                2 => {
                    let role = t.u8();
                    let s = wallets[t.usize()];
                    let ix = match role {
                        0 => ixs::lending_pool_configure_bank(group, s, bank, BankConfigOpt::default()),
                        1 => ixs::lending_pool_configure_bank_emode(group, s, bank, 0, [EmodeEntry::zeroed(); MAX_EMODE_ENTRIES]),
                        2 => ixs::lending_pool_configure_bank_interest_only(group, s, bank, InterestRateConfigOpt::default()),
                        3 => ixs::lending_pool_configure_bank_limits_only(group, s, bank, None, None, None),
                        4 => ixs::lending_pool_update_emissions_parameters(group, s, bank, em, funding, spl_token::ID, None, None, None, vec![]),
                        6 => ixs::lending_pool_force_tokenless_repay_complete(group, s, bank),
                        _ => panic!("bad role"),
                    };
                    // the probe must not disturb the bank: its bytes are put back afterwards
                    let saved = w.account(&bank).cloned();
                    let r = w.exec(ix, &[s]);
                    if let Some(a) = saved {
                        w.put(bank, a);
                    }
                    let unauthorized = matches!(&r, Err(e) if e.is_custom(6042));
                    out.push(if unauthorized { "0".into() } else { "1".into() });
                }
                3 => {
                    w.advance_clock(t.i64());
                    out.push("OK".into());
                }
                _ => panic!("bad op"),
            }
        }
        out.join(" | ")
    })
}
