//! Level C/D for C12 (forced deleverage): whole transactions [start_deleverage, withdraw.., repay..,
//! end_deleverage] executed by the REAL handlers (through marginfi::entry, genuine instructions
//! sysvar) in the sim runtime, with a configured daily withdrawal limit.
//!
//! World: as suite `hops` (1-3 banks with Fixed-price oracles, 1-4 marginfi accounts with liquidation
//! records) + a group whose risk admin is a key of its own, holding one token account per bank.
//! case: nb na prog_on pf_fixed pf_rate now0  <bank>*nb  nops <op>*        (<bank> as in suite hops)
//!   ops : 0 t | 1 a b amt up_to | 2 a b amt all | 3 a b amt | 4 a b amt all | 19 b price   (as hops)
//!         | 30 s limit                         configure_deleverage_withdrawal_limit (s: 0 admin, 1 risk admin)
//!         | 31 s a nw (b amt all)*nw nr (b amt all)*nr   one transaction by s (0 risk admin, 1 the account's authority)
//!         | 32 b flags                         fixture: set bank.flags (e.g. TOKENLESS_REPAYMENTS_ALLOWED)
//!         | 33 s a b                           lending_account_purge_delev_balance by s (0 risk admin, 1 the account's authority)
//! out : per op `<res> # <bank dumps> # <account dumps> # R <risk admin token balances> # G <limit> <withdrawn_today> <last_reset> # D <group fields changed>`
//!       res of op 31 when it succeeds: `OK H am lm am' lm'` (maintenance assets / liabilities snapshot
//!       in the liquidation record by start_deleverage, and those cached by end_deleverage)
use crate::sim::*;
use crate::suites::bankops::{bank_pk, dump_bank, dump_la, parse_bank};
use crate::suites::config::fxb;
use crate::suites::privsim::{diff_fields, group_fields};
use crate::util::*;
use anchor_lang::prelude::Pubkey;
use marginfi_type_crate::types::{
    Bank, EmodeEntry, LiquidationRecord, MarginfiAccount, MarginfiGroup, RiskTier,
};
use solana_program::instruction::AccountMeta;

struct Dw {
    w: World,
    group: Pubkey,
    admin: Pubkey,
    risk: Pubkey,
    banks: Vec<Pubkey>,
    tprog: Vec<Pubkey>,
    accts: Vec<Pubkey>,
    auths: Vec<Pubkey>,
    utok: Vec<Vec<Pubkey>>,
    rtok: Vec<Pubkey>,
    fee_atas: Vec<Pubkey>,
}

fn err_s(e: &ExecError) -> String {
    match e {
        ExecError::Custom(n) => format!("E{}", n),
        ExecError::Program(s) => format!("PE:{}", s.split_whitespace().next().unwrap_or("?")),
        ExecError::Panic => "PANIC".into(),
    }
}

fn dump_world(h: &Dw) -> String {
    let mut bs = Vec::new();
    for (i, bk) in h.banks.iter().enumerate() {
        let b: Bank = h.w.get::<Bank>(bk).unwrap();
        let k = BankKeys::derive(bk);
        bs.push(format!(
            "{} {} {} {} {} {} {}",
            dump_bank(&b),
            b.flags,
            b.config.operational_state as u8,
            h.w.token_balance(&k.liquidity_vault),
            h.w.token_balance(&k.insurance_vault),
            h.w.token_balance(&k.fee_vault),
            h.w.token_balance(&h.fee_atas[i])
        ));
    }
    let mut accs = Vec::new();
    for (ai, a) in h.accts.iter().enumerate() {
        let acc: MarginfiAccount = h.w.get::<MarginfiAccount>(a).unwrap();
        let toks: Vec<String> = h.utok[ai].iter().map(|t| h.w.token_balance(t).to_string()).collect();
        accs.push(format!("{} {} {}", dump_la(&acc.lending_account), acc.account_flags, toks.join(" ")));
    }
    let r: Vec<String> = h.rtok.iter().map(|t| h.w.token_balance(t).to_string()).collect();
    let g: MarginfiGroup = h.w.get::<MarginfiGroup>(&h.group).unwrap();
    let c = g.deleverage_withdraw_window_cache;
    format!(
        "{} # {} # R {} # G {} {} {}",
        bs.join(" ; "),
        accs.join(" ; "),
        r.join(" "),
        c.daily_limit,
        c.withdrawn_today,
        c.last_daily_reset_timestamp
    )
}

pub fn run(line: &str) -> String {
    let mut t = Toks::new(line);
    let nb = t.usize();
    let na = t.usize();
    let prog_on = t.bool();
    let pf_fixed = t.fx();
    let pf_rate = t.fx();
    let now0 = t.i64();
    let mut w = World::new();
    w.set_clock(now0);
    let admin = mk_wallet(&mut w, 10_000_000_000);
    let risk = mk_wallet(&mut w, 10_000_000_000);
    let fee_wallet = mk_wallet(&mut w, 1_000_000_000);
    mk_fee_state(
        &mut w,
        admin,
        fee_wallet,
        FeeStateParams { program_fee_fixed: pf_fixed, program_fee_rate: pf_rate, ..Default::default() },
    );
    let group = mk_group(&mut w, admin);
    w.update::<MarginfiGroup>(&group, |g| {
        if prog_on {
            g.group_flags |= marginfi::state::marginfi_group::PROGRAM_FEES_ENABLED;
        } else {
            g.group_flags &= !marginfi::state::marginfi_group::PROGRAM_FEES_ENABLED;
        }
        g.risk_admin = risk;
    });
    let mut h = Dw {
        w,
        group,
        admin,
        risk,
        banks: vec![],
        tprog: vec![],
        accts: vec![],
        auths: vec![],
        utok: vec![],
        rtok: vec![],
        fee_atas: vec![],
    };
    let mut mints = Vec::new();
    for i in 0..nb {
        let tmpl = parse_bank(&mut t);
        let awi = t.fx();
        let awm = t.fx();
        let lwi = t.fx();
        let lwm = t.fx();
        let tier = t.u8();
        let tavil = t.u64();
        let price = t.fx();
        let tokprog = t.u8();
        let fee_bps = t.u16();
        let fee_max = t.u64();
        let orig_fee = t.fx();
        let emode_tag = t.u16();
        let n_em = t.usize();
        let mut entries = Vec::new();
        for _ in 0..n_em {
            let tag = t.u16();
            let flags = t.u8();
            let wi = t.fx();
            let wm = t.fx();
            entries.push((tag, flags, wi, wm));
        }
        let tp = match tokprog {
            0 => TokenProgram::Spl,
            1 => TokenProgram::T22,
            _ => TokenProgram::T22WithFee { bps: fee_bps, max_fee: fee_max },
        };
        let mint = mk_mint(&mut h.w, tmpl.mint_decimals, tp);
        let mut params = BankParams::default().with_fixed_price(price);
        params.bank_key = Some(bank_pk(i));
        let bank = mk_bank(&mut h.w, group, mint, params);
        h.w.update::<Bank>(&bank, |b| {
            b.asset_share_value = tmpl.asset_share_value;
            b.liability_share_value = tmpl.liability_share_value;
            b.collected_insurance_fees_outstanding = tmpl.collected_insurance_fees_outstanding;
            b.collected_group_fees_outstanding = tmpl.collected_group_fees_outstanding;
            b.collected_program_fees_outstanding = tmpl.collected_program_fees_outstanding;
            b.last_update = tmpl.last_update;
            b.config.deposit_limit = tmpl.config.deposit_limit;
            b.config.borrow_limit = tmpl.config.borrow_limit;
            b.config.asset_tag = tmpl.config.asset_tag;
            b.flags = tmpl.flags;
            b.emissions_rate = tmpl.emissions_rate;
            b.emissions_remaining = tmpl.emissions_remaining;
            b.config.operational_state = tmpl.config.operational_state;
            b.config.interest_rate_config = tmpl.config.interest_rate_config;
            b.config.interest_rate_config.protocol_origination_fee = orig_fee.into();
            b.config.asset_weight_init = awi.into();
            b.config.asset_weight_maint = awm.into();
            b.config.liability_weight_init = lwi.into();
            b.config.liability_weight_maint = lwm.into();
            b.config.risk_tier = if tier == 0 { RiskTier::Collateral } else { RiskTier::Isolated };
            b.config.total_asset_value_init_limit = tavil;
            b.emode.emode_tag = emode_tag;
            for (k, (tag, flags, wi, wm)) in entries.iter().enumerate() {
                b.emode.emode_config.entries[k] = EmodeEntry {
                    collateral_bank_emode_tag: *tag,
                    flags: *flags,
                    pad0: [0; 5],
                    asset_weight_init: (*wi).into(),
                    asset_weight_maint: (*wm).into(),
                };
            }
        });
        let fee_ata = mk_ata(&mut h.w, mint, fee_wallet, 0);
        h.banks.push(bank);
        mints.push(mint);
        h.tprog.push(tp.id());
        h.fee_atas.push(fee_ata);
        let rt = mk_token_account(&mut h.w, mint, risk, 1u64 << 62);
        h.rtok.push(rt);
    }
    for _ in 0..na {
        let auth = mk_wallet(&mut h.w, 1_000_000_000);
        let acct = mk_marginfi_account(&mut h.w, group, auth);
        mk_liquidation_record(&mut h.w, acct, auth);
        let toks: Vec<Pubkey> = (0..nb).map(|b| mk_token_account(&mut h.w, mints[b], auth, 1u64 << 62)).collect();
        h.accts.push(acct);
        h.auths.push(auth);
        h.utok.push(toks);
    }
    let gtbl = group_fields();
    let nops = t.usize();
    let mut out = Vec::new();
    for _ in 0..nops {
        let op = t.u8();
        let gbefore = h.w.accounts[&h.group].clone();
        let mut extra = String::new();
        let res: Result<(), ExecError> = match op {
            0 => {
                let ts = t.i64();
                h.w.set_clock(ts);
                Ok(())
            }
            1 | 2 | 3 | 4 => {
                let a = t.usize();
                let b = t.usize();
                let amt = t.u64();
                let flag = if op == 3 { false } else { t.bool() };
                let bank = h.banks[b];
                let ctx = bank_ctx(&h.w, &bank);
                let mut rem: Vec<AccountMeta> = ctx.mint_prefix.clone();
                let ix = match op {
                    1 => ixs::lending_account_deposit(
                        group, h.accts[a], h.auths[a], bank, h.utok[a][b], h.tprog[b], amt, Some(flag), rem,
                    ),
                    2 => {
                        if flag {
                            rem.extend(remaining_for_ex(&h.w, &h.accts[a], &[], &[bank]));
                        } else {
                            rem.extend(remaining_for(&h.w, &h.accts[a], &[]));
                        }
                        ixs::lending_account_withdraw(
                            group, h.accts[a], h.auths[a], bank, h.utok[a][b], h.tprog[b], amt, Some(flag), rem,
                        )
                    }
                    3 => {
                        rem.extend(remaining_for(&h.w, &h.accts[a], &[bank]));
                        ixs::lending_account_borrow(group, h.accts[a], h.auths[a], bank, h.utok[a][b], h.tprog[b], amt, rem)
                    }
                    _ => ixs::lending_account_repay(
                        group, h.accts[a], h.auths[a], bank, h.utok[a][b], h.tprog[b], amt, Some(flag), rem,
                    ),
                };
                h.w.exec(ix, &[h.auths[a]])
            }
            19 => {
                let b = t.usize();
                let p = t.fx();
                h.w.update::<Bank>(&h.banks[b], |bk| bk.config.fixed_price = p.into());
                Ok(())
            }
            30 => {
                let s = if t.u8() == 0 { h.admin } else { h.risk };
                let limit = t.u32();
                h.w.exec(ixs::configure_deleverage_withdrawal_limit(group, s, limit), &[s])
            }
            31 => {
                let who = t.u8();
                let a = t.usize();
                let signer = if who == 0 { h.risk } else { h.auths[a] };
                let toks: &Vec<Pubkey> = if who == 0 { &h.rtok } else { &h.utok[a] };
                let acct = h.accts[a];
                let nw = t.usize();
                let mut steps: Vec<(bool, usize, u64, bool)> = Vec::new();
                for _ in 0..nw {
                    steps.push((true, t.usize(), t.u64(), t.bool()));
                }
                let nr = t.usize();
                for _ in 0..nr {
                    steps.push((false, t.usize(), t.u64(), t.bool()));
                }
                let rem0 = remaining_for(&h.w, &acct, &[]);
                let mut tx = vec![ixs::start_deleverage(group, acct, signer, rem0.clone())];
                let mut closed: Vec<Pubkey> = Vec::new();
                for (is_w, b, amt, all) in steps.iter() {
                    let bank = h.banks[*b];
                    let ctx = bank_ctx(&h.w, &bank);
                    let mut rem: Vec<AccountMeta> = ctx.mint_prefix.clone();
                    if *is_w {
                        // the receivership withdraw fetches the bank's price: the bank and its oracle
                        // accounts must be among the remaining accounts
                        rem.extend(remaining_for_ex(&h.w, &acct, &[bank], &closed));
                        tx.push(ixs::lending_account_withdraw(
                            group, acct, signer, bank, toks[*b], h.tprog[*b], *amt, Some(*all), rem,
                        ));
                    } else {
                        tx.push(ixs::lending_account_repay(
                            group, acct, signer, bank, toks[*b], h.tprog[*b], *amt, Some(*all), rem,
                        ));
                    }
                    if *all {
                        closed.push(bank);
                    }
                }
                tx.push(ixs::end_deleverage(group, acct, signer, remaining_for_ex(&h.w, &acct, &[], &closed)));
                let r = h.w.exec_tx(&tx, &[signer]).map_err(|(_, e)| e);
                if r.is_ok() {
                    let rec: LiquidationRecord = h.w.get::<LiquidationRecord>(&liquidation_record_key(&acct)).unwrap();
                    let ac: MarginfiAccount = h.w.get::<MarginfiAccount>(&acct).unwrap();
                    extra = format!(
                        " H {} {} {} {}",
                        fxb(rec.cache.asset_value_maint),
                        fxb(rec.cache.liability_value_maint),
                        fxb(ac.health_cache.asset_value_maint),
                        fxb(ac.health_cache.liability_value_maint)
                    );
                }
                r
            }
            33 => {
                let who = t.u8();
                let a = t.usize();
                let b = t.usize();
                let signer = if who == 0 { h.risk } else { h.auths[a] };
                h.w.exec(ixs::purge_deleverage_balance(group, h.accts[a], signer, h.banks[b]), &[signer])
            }
            32 => {
                let b = t.usize();
                let f = t.u64();
                h.w.update::<Bank>(&h.banks[b], |bk| bk.flags = f);
                Ok(())
            }
            _ => panic!("bad op"),
        };
        let rs = match &res {
            Ok(()) => format!("OK{}", extra),
            Err(e) => err_s(e),
        };
        let gd = diff_fields(&gtbl, &gbefore, &h.w.accounts[&h.group]);
        out.push(format!("{} # {} # D {}", rs, dump_world(&h), if gd.is_empty() { "-".to_string() } else { gd.join(" ") }));
    }
    out.join(" | ")
}
