//! Level B: the real Bank / BankAccountWrapper state machine on in-memory structs.
//! case: nb na prog_on pf_fixed pf_rate now0  <bank>*nb  nops <op>*
//!   bank: asv lsv tas tls ins grp prog last_update dep_limit bor_limit tag decimals flags em_rate
//!         em_rem lend_cnt bor_cnt op_state <ir: see curve.rs parse_ir (20 tokens)>
//!   ops : 0 t | k acct bank amt (k=1..9) | 10 bank | 11 bank amt | 12 acct bank | 13 acct bank | 14 acct | 15 bank
//! out : per op `<res> # <bank dump> # <account dump>` joined by " | " (state rolled back on error)
use crate::sim::runtime::set_global_clock;
use crate::suites::curve::parse_ir;
use crate::util::*;
use anchor_lang::prelude::Pubkey;
use bytemuck::Zeroable;
use fixed::types::I80F48;
use marginfi::state::bank::BankImpl;
use marginfi::state::marginfi_account::{BankAccountWrapper, LendingAccountImpl};
use marginfi::state::marginfi_group::MarginfiGroupImpl;
use marginfi_type_crate::types::{Bank, BankOperationalState, LendingAccount, MarginfiGroup};

pub fn bank_pk(i: usize) -> Pubkey {
    let mut b = [0u8; 32];
    b[0] = (i + 1) as u8;
    Pubkey::new_from_array(b)
}

pub fn pk_id(k: &Pubkey) -> u8 {
    k.to_bytes()[0]
}

pub fn parse_bank(t: &mut Toks) -> Bank {
    let mut b = Bank::zeroed();
    b.asset_share_value = t.fx().into();
    b.liability_share_value = t.fx().into();
    b.total_asset_shares = t.fx().into();
    b.total_liability_shares = t.fx().into();
    b.collected_insurance_fees_outstanding = t.fx().into();
    b.collected_group_fees_outstanding = t.fx().into();
    b.collected_program_fees_outstanding = t.fx().into();
    b.last_update = t.i64();
    b.config.deposit_limit = t.u64();
    b.config.borrow_limit = t.u64();
    b.config.asset_tag = t.u8();
    b.mint_decimals = t.u8();
    b.flags = t.u64();
    b.emissions_rate = t.u64();
    b.emissions_remaining = t.fx().into();
    b.lending_position_count = t.i32();
    b.borrowing_position_count = t.i32();
    b.config.operational_state = match t.u8() {
        0 => BankOperationalState::Paused,
        1 => BankOperationalState::Operational,
        2 => BankOperationalState::ReduceOnly,
        _ => BankOperationalState::KilledByBankruptcy,
    };
    b.config.interest_rate_config = parse_ir(t);
    b
}

pub fn dump_bank(b: &Bank) -> String {
    format!(
        "{} {} {} {} {} {} {} {} {} {} {}",
        I80F48::from(b.asset_share_value).to_bits(),
        I80F48::from(b.liability_share_value).to_bits(),
        I80F48::from(b.total_asset_shares).to_bits(),
        I80F48::from(b.total_liability_shares).to_bits(),
        I80F48::from(b.collected_insurance_fees_outstanding).to_bits(),
        I80F48::from(b.collected_group_fees_outstanding).to_bits(),
        I80F48::from(b.collected_program_fees_outstanding).to_bits(),
        b.last_update,
        I80F48::from(b.emissions_remaining).to_bits(),
        b.lending_position_count,
        b.borrowing_position_count
    )
}

pub fn dump_la(la: &LendingAccount) -> String {
    let mut v = Vec::new();
    for (i, bl) in la.balances.iter().enumerate() {
        if bl.is_active() {
            v.push(format!(
                "{}:{}:{}:{}:{}:{}:{}",
                i,
                pk_id(&bl.bank_pk),
                bl.bank_asset_tag,
                I80F48::from(bl.asset_shares).to_bits(),
                I80F48::from(bl.liability_shares).to_bits(),
                I80F48::from(bl.emissions_outstanding).to_bits(),
                bl.last_update
            ));
        }
    }
    if v.is_empty() {
        "-".into()
    } else {
        v.join(",")
    }
}

fn res_unit(r: anchor_lang::Result<()>) -> String {
    match r {
        Ok(()) => "OK".into(),
        Err(e) => err_tok(&e),
    }
}
fn res_u64(r: anchor_lang::Result<u64>) -> String {
    match r {
        Ok(v) => format!("OK {}", v),
        Err(e) => err_tok(&e),
    }
}

pub fn run(line: &str) -> String {
    let mut t = Toks::new(line);
    let nb = t.usize();
    let na = t.usize();
    let mut group = MarginfiGroup::zeroed();
    group.set_program_fee_enabled(t.bool());
    group.fee_state_cache.program_fee_fixed = t.fx().into();
    group.fee_state_cache.program_fee_rate = t.fx().into();
    let mut now = t.i64();
    set_global_clock(now);
    let mut banks: Vec<Bank> = (0..nb).map(|_| parse_bank(&mut t)).collect();
    let mut accts: Vec<LendingAccount> = (0..na).map(|_| LendingAccount::zeroed()).collect();
    let nops = t.usize();
    let mut out = Vec::new();
    for _ in 0..nops {
        let op = t.u8();
        let banks0 = banks.iter().map(|b| clone_bank(b)).collect::<Vec<_>>();
        let accts0 = accts.clone();
        let (res, bi, ai): (String, Option<usize>, Option<usize>) = match op {
            0 => {
                now = t.i64();
                set_global_clock(now);
                ("OK".into(), None, None)
            }
            1..=9 => {
                let a = t.usize();
                let b = t.usize();
                let amt = t.fx();
                let pk = bank_pk(b);
                let r = guarded(|| {
                    let bank = &mut banks[b];
                    let la = &mut accts[a];
                    match op {
                        1 => res_unit(BankAccountWrapper::find_or_create(&pk, bank, la).and_then(|mut w| w.deposit(amt))),
                        2 => res_unit(BankAccountWrapper::find(&pk, bank, la).and_then(|mut w| w.withdraw(amt))),
                        3 => res_unit(BankAccountWrapper::find_or_create(&pk, bank, la).and_then(|mut w| w.borrow(amt))),
                        4 => res_unit(BankAccountWrapper::find(&pk, bank, la).and_then(|mut w| w.repay(amt))),
                        5 => res_u64(BankAccountWrapper::find(&pk, bank, la).and_then(|mut w| w.withdraw_all())),
                        6 => res_u64(BankAccountWrapper::find(&pk, bank, la).and_then(|mut w| w.repay_all())),
                        7 => res_unit(BankAccountWrapper::find(&pk, bank, la).and_then(|mut w| w.close_balance())),
                        8 => res_unit(
                            BankAccountWrapper::find_or_create(&pk, bank, la)
                                .and_then(|mut w| w.deposit_ignore_deposit_cap(amt)),
                        ),
                        _ => res_unit(
                            BankAccountWrapper::find_or_create(&pk, bank, la)
                                .and_then(|mut w| w.withdraw_ignore_borrow_cap(amt)),
                        ),
                    }
                });
                (r, Some(b), Some(a))
            }
            10 => {
                let b = t.usize();
                let r = guarded(|| res_unit(banks[b].accrue_interest(now, &group, bank_pk(b))));
                (r, Some(b), None)
            }
            11 => {
                let b = t.usize();
                let amt = t.fx();
                let r = guarded(|| match banks[b].socialize_loss(amt) {
                    Ok(k) => format!("OK {}", k as u8),
                    Err(e) => err_tok(&e),
                });
                (r, Some(b), None)
            }
            12 | 13 => {
                let a = t.usize();
                let b = t.usize();
                let pk = bank_pk(b);
                let r = guarded(|| {
                    let bank = &mut banks[b];
                    let la = &mut accts[a];
                    if op == 12 {
                        res_unit(BankAccountWrapper::find(&pk, bank, la).and_then(|mut w| w.claim_emissions(now as u64)))
                    } else {
                        res_u64(
                            BankAccountWrapper::find(&pk, bank, la)
                                .and_then(|mut w| w.settle_emissions_and_get_transfer_amount()),
                        )
                    }
                });
                (r, Some(b), Some(a))
            }
            14 => {
                let a = t.usize();
                accts[a].sort_balances();
                ("OK".into(), None, Some(a))
            }
            15 => {
                let b = t.usize();
                let r = guarded(|| res_u64(banks[b].get_remaining_deposit_capacity()));
                (r, Some(b), None)
            }
            _ => panic!("bad op"),
        };
        if !res.starts_with("OK") {
            banks = banks0;
            accts = accts0;
        }
        out.push(format!(
            "{} # {} # {}",
            res,
            bi.map(|b| dump_bank(&banks[b])).unwrap_or("-".into()),
            ai.map(|a| dump_la(&accts[a])).unwrap_or("-".into())
        ));
    }
    out.join(" | ")
}

fn clone_bank(b: &Bank) -> Bank {
    // Bank is Pod but not Clone under the anchor feature: copy bytes
    let mut n = Bank::zeroed();
    bytemuck::bytes_of_mut(&mut n).copy_from_slice(bytemuck::bytes_of(b));
    n
}
