//! Level C: the REAL instruction handlers (through marginfi::entry in the sim runtime) on a world of
//! 1-3 banks with Fixed-price oracles and 1-4 marginfi accounts.
//! case: nb na prog_on pf_fixed pf_rate now0  <bank>*nb  nops <op>*
//!   bank: <bankops bank tokens (38)> awi awm lwi lwm tier tavil price tokprog fee_bps fee_max orig_fee
//!         emode_tag n_em (tag flags wi wm)*n_em
//!   ops : 0 t | 1 a b amt up_to | 2 a b amt all | 3 a b amt | 4 a b amt all | 7 a b | 10 b | 16 b
//!         | 17 liqor liqee ab lb amt | 18 a b | 19 b price
//!         | 30 a (fixture: the group's risk admin becomes the authority of account a; 255 = the admin again)
//!         | 32 b a (collect_bank_fees with a substituted fee ATA: the token account of user a for the bank's mint)
//!         | 31 b flags (fixture: bank flags word := flags)
//!         | 39 (the fee admin ROTATES the global fee wallet with the real edit_global_fee_state; nothing is propagated to the
//!               group; from now on the fee ATA of op 16 is the NEW wallet's) | 40 b (collect_bank_fees with the PREVIOUS wallet's ATA)
//!         | 38 b old_bps old_max new_bps new_max epoch_new cur_epoch (fixture: pending Token-2022 fee change + clock epoch)
//! out : per op `<res> # <bank dumps ';'-separated> # <account dumps ';'-separated>` joined by " | "
use crate::sim::*;
use crate::suites::bankops::{bank_pk, dump_bank, dump_la, parse_bank};
use crate::util::*;
use anchor_lang::prelude::Pubkey;
use fixed::types::I80F48;
use marginfi_type_crate::types::{
    Bank, BankOperationalState, EmodeEntry, MarginfiAccount, MarginfiGroup, RiskTier,
};
use solana_program::instruction::AccountMeta;

struct Hw {
    w: World,
    group: Pubkey,
    admin: Pubkey,
    banks: Vec<Pubkey>,
    mints: Vec<Pubkey>,
    tprog: Vec<Pubkey>,
    accts: Vec<Pubkey>,
    auths: Vec<Pubkey>,
    utok: Vec<Vec<Pubkey>>,
    fee_atas: Vec<Pubkey>,
    old_fee_atas: Vec<Pubkey>,
    pf: (I80F48, I80F48),
}

fn err_s(e: &ExecError) -> String {
    match e {
        ExecError::Custom(n) => format!("E{}", n),
        ExecError::Program(s) => format!("PE:{}", s.split_whitespace().next().unwrap_or("?")),
        ExecError::Panic => "PANIC".into(),
    }
}

fn dump_world(h: &Hw) -> String {
    let mut bs = Vec::new();
    for (i, bk) in h.banks.iter().enumerate() {
        let b: Bank = h.w.get::<Bank>(bk).unwrap();
        let k = BankKeys::derive(bk);
        bs.push(format!(
            "{} {} {} {} {} {} {}",
            dump_bank(&b),
            b.flags,
            b.config.operational_state as u8,
            h.w.token_balance(&k.liquidity_vault),
            h.w.token_balance(&k.insurance_vault),
            h.w.token_balance(&k.fee_vault),
            h.w.token_balance(&h.fee_atas[i])
        ));
    }
    let mut accs = Vec::new();
    for (ai, a) in h.accts.iter().enumerate() {
        let acc: MarginfiAccount = h.w.get::<MarginfiAccount>(a).unwrap();
        let toks: Vec<String> = h.utok[ai].iter().map(|t| h.w.token_balance(t).to_string()).collect();
        accs.push(format!("{} {} {}", dump_la(&acc.lending_account), acc.account_flags, toks.join(" ")));
    }
    format!("{} # {}", bs.join(" ; "), accs.join(" ; "))
}

pub fn run(line: &str) -> String {
    run_inner(line, false)
}

/// Same as `run`, plus for every op and bank the share values that the REAL `Bank::accrue_interest`
/// yields when applied in isolation to the pre-instruction bank at the instruction's clock
/// (`R <asv> <lsv>` or `R X X` if it errors) — the reference for the C06 freshness oracle.
pub fn run_ref(line: &str) -> String {
    run_inner(line, true)
}

fn ref_accrual(h: &Hw) -> String {
    use marginfi::state::bank::BankImpl;
    let group: MarginfiGroup = h.w.get::<MarginfiGroup>(&h.group).unwrap();
    let now = h.w.unix_timestamp;
    crate::sim::runtime::set_global_clock(now);
    let mut v = Vec::new();
    for bk in h.banks.iter() {
        let mut b: Bank = h.w.get::<Bank>(bk).unwrap();
        let r = guarded(|| match b.accrue_interest(now, &group, *bk) {
            Ok(()) => format!(
                "{} {}",
                I80F48::from(b.asset_share_value).to_bits(),
                I80F48::from(b.liability_share_value).to_bits()
            ),
            Err(_) => "X X".into(),
        });
        v.push(if r == "PANIC" { "X X".to_string() } else { r });
    }
    v.join(" ; ")
}

fn run_inner(line: &str, with_ref: bool) -> String {
    let mut t = Toks::new(line);
    let nb = t.usize();
    let na = t.usize();
    let prog_on = t.bool();
    let pf_fixed = t.fx();
    let pf_rate = t.fx();
    let now0 = t.i64();
    let mut w = World::new();
    w.set_clock(now0);
    let admin = mk_wallet(&mut w, 10_000_000_000);
    let fee_wallet = mk_wallet(&mut w, 1_000_000_000);
    mk_fee_state(
        &mut w,
        admin,
        fee_wallet,
        FeeStateParams { program_fee_fixed: pf_fixed, program_fee_rate: pf_rate, ..Default::default() },
    );
    let group = mk_group(&mut w, admin);
    w.update::<MarginfiGroup>(&group, |g| {
        if prog_on {
            g.group_flags |= marginfi::state::marginfi_group::PROGRAM_FEES_ENABLED;
        } else {
            g.group_flags &= !marginfi::state::marginfi_group::PROGRAM_FEES_ENABLED;
        }
    });
    let mut h = Hw {
        w,
        group,
        admin,
        banks: vec![],
        mints: vec![],
        tprog: vec![],
        accts: vec![],
        auths: vec![],
        utok: vec![],
        fee_atas: vec![],
        old_fee_atas: vec![],
        pf: (pf_fixed, pf_rate),
    };
    for i in 0..nb {
        let tmpl = parse_bank(&mut t);
        let awi = t.fx();
        let awm = t.fx();
        let lwi = t.fx();
        let lwm = t.fx();
        let tier = t.u8();
        let tavil = t.u64();
        let price = t.fx();
        let tokprog = t.u8();
        let fee_bps = t.u16();
        let fee_max = t.u64();
        let orig_fee = t.fx();
        let emode_tag = t.u16();
        let n_em = t.usize();
        let mut entries = Vec::new();
        for _ in 0..n_em {
            let tag = t.u16();
            let flags = t.u8();
            let wi = t.fx();
            let wm = t.fx();
            entries.push((tag, flags, wi, wm));
        }
        let tp = match tokprog {
            0 => TokenProgram::Spl,
            1 => TokenProgram::T22,
            _ => TokenProgram::T22WithFee { bps: fee_bps, max_fee: fee_max },
        };
        let mint = mk_mint(&mut h.w, tmpl.mint_decimals, tp);
        let mut params = BankParams::default().with_fixed_price(price);
        params.bank_key = Some(bank_pk(i));
        let bank = mk_bank(&mut h.w, group, mint, params);
        h.w.update::<Bank>(&bank, |b| {
            b.asset_share_value = tmpl.asset_share_value;
            b.liability_share_value = tmpl.liability_share_value;
            b.collected_insurance_fees_outstanding = tmpl.collected_insurance_fees_outstanding;
            b.collected_group_fees_outstanding = tmpl.collected_group_fees_outstanding;
            b.collected_program_fees_outstanding = tmpl.collected_program_fees_outstanding;
            b.last_update = tmpl.last_update;
            b.config.deposit_limit = tmpl.config.deposit_limit;
            b.config.borrow_limit = tmpl.config.borrow_limit;
            b.config.asset_tag = tmpl.config.asset_tag;
            b.flags = tmpl.flags;
            b.emissions_rate = tmpl.emissions_rate;
            b.emissions_remaining = tmpl.emissions_remaining;
            b.config.operational_state = tmpl.config.operational_state;
            b.config.interest_rate_config = tmpl.config.interest_rate_config;
            b.config.interest_rate_config.protocol_origination_fee = orig_fee.into();
            b.config.asset_weight_init = awi.into();
            b.config.asset_weight_maint = awm.into();
            b.config.liability_weight_init = lwi.into();
            b.config.liability_weight_maint = lwm.into();
            b.config.risk_tier = if tier == 0 { RiskTier::Collateral } else { RiskTier::Isolated };
            b.config.total_asset_value_init_limit = tavil;
            b.emode.emode_tag = emode_tag;
            for (k, (tag, flags, wi, wm)) in entries.iter().enumerate() {
                b.emode.emode_config.entries[k] = EmodeEntry {
                    collateral_bank_emode_tag: *tag,
                    flags: *flags,
                    pad0: [0; 5],
                    asset_weight_init: (*wi).into(),
                    asset_weight_maint: (*wm).into(),
                };
            }
        });
        let fee_ata = mk_ata(&mut h.w, mint, fee_wallet, 0);
        h.banks.push(bank);
        h.mints.push(mint);
        h.tprog.push(tp.id());
        h.fee_atas.push(fee_ata);
    }
    for _ in 0..na {
        let auth = mk_wallet(&mut h.w, 1_000_000_000);
        let acct = mk_marginfi_account(&mut h.w, group, auth);
        let toks: Vec<Pubkey> = (0..nb).map(|b| mk_token_account(&mut h.w, h.mints[b], auth, 1u64 << 62)).collect();
        h.accts.push(acct);
        h.auths.push(auth);
        h.utok.push(toks);
    }
    let nops = t.usize();
    let mut out = Vec::new();
    for _ in 0..nops {
        let op = t.u8();
        let refs = if with_ref { Some(ref_accrual(&h)) } else { None };
        let res: Result<(), ExecError> = match op {
            0 => {
                let ts = t.i64();
                h.w.set_clock(ts);
                Ok(())
            }
            1 | 2 | 3 | 4 => {
                let a = t.usize();
                let b = t.usize();
                let amt = t.u64();
                let flag = if op == 3 { false } else { t.bool() };
                let bank = h.banks[b];
                let ctx = bank_ctx(&h.w, &bank);
                let mut rem: Vec<AccountMeta> = ctx.mint_prefix.clone();
                let ix = match op {
                    1 => ixs::lending_account_deposit(
                        group, h.accts[a], h.auths[a], bank, h.utok[a][b], h.tprog[b], amt, Some(flag), rem,
                    ),
                    2 => {
                        if flag {
                            rem.extend(remaining_for_ex(&h.w, &h.accts[a], &[], &[bank]));
                        } else {
                            rem.extend(remaining_for(&h.w, &h.accts[a], &[]));
                        }
                        ixs::lending_account_withdraw(
                            group, h.accts[a], h.auths[a], bank, h.utok[a][b], h.tprog[b], amt, Some(flag), rem,
                        )
                    }
                    3 => {
                        rem.extend(remaining_for(&h.w, &h.accts[a], &[bank]));
                        ixs::lending_account_borrow(group, h.accts[a], h.auths[a], bank, h.utok[a][b], h.tprog[b], amt, rem)
                    }
                    _ => ixs::lending_account_repay(
                        group, h.accts[a], h.auths[a], bank, h.utok[a][b], h.tprog[b], amt, Some(flag), rem,
                    ),
                };
                h.w.exec(ix, &[h.auths[a]])
            }
            34 | 35 => {
                // borrow (34) / withdraw (35) WITHOUT the risk (bank / oracle) remaining accounts
                let a = t.usize();
                let b = t.usize();
                let amt = t.u64();
                let flag = if op == 34 { false } else { t.bool() };
                let bank = h.banks[b];
                let ctx = bank_ctx(&h.w, &bank);
                let rem: Vec<AccountMeta> = ctx.mint_prefix.clone();
                let ix = if op == 34 {
                    ixs::lending_account_borrow(group, h.accts[a], h.auths[a], bank, h.utok[a][b], h.tprog[b], amt, rem)
                } else {
                    ixs::lending_account_withdraw(group, h.accts[a], h.auths[a], bank, h.utok[a][b], h.tprog[b], amt, Some(flag), rem)
                };
                h.w.exec(ix, &[h.auths[a]])
            }
            7 => {
                let a = t.usize();
                let b = t.usize();
                let ix = ixs::lending_account_close_balance(group, h.accts[a], h.auths[a], h.banks[b]);
                h.w.exec(ix, &[h.auths[a]])
            }
            10 => {
                let b = t.usize();
                h.w.exec(ixs::lending_pool_accrue_bank_interest(group, h.banks[b]), &[h.admin])
            }
            16 => {
                let b = t.usize();
                let ctx = bank_ctx(&h.w, &h.banks[b]);
                let ix = ixs::lending_pool_collect_bank_fees(group, h.banks[b], h.fee_atas[b], h.tprog[b], ctx.mint_prefix.clone());
                h.w.exec(ix, &[h.admin])
            }
            39 => {
                let nw = mk_wallet(&mut h.w, 1_000_000_000);
                let ix = ixs::edit_global_fee_state(h.admin, h.admin, nw, 0, 0, h.pf.0.into(), h.pf.1.into(), I80F48::from_num(0.1).into());
                let r = h.w.exec(ix, &[h.admin]);
                if r.is_ok() {
                    h.old_fee_atas = h.fee_atas.clone();
                    for i in 0..h.banks.len() {
                        let m = h.mints[i];
                        h.fee_atas[i] = mk_ata(&mut h.w, m, nw, 0);
                    }
                }
                r
            }
            40 => {
                let b = t.usize();
                let ctx = bank_ctx(&h.w, &h.banks[b]);
                let ata = if h.old_fee_atas.is_empty() { h.fee_atas[b] } else { h.old_fee_atas[b] };
                let ix = ixs::lending_pool_collect_bank_fees(group, h.banks[b], ata, h.tprog[b], ctx.mint_prefix.clone());
                h.w.exec(ix, &[h.admin])
            }
            32 => {
                let b = t.usize();
                let a = t.usize();
                let ctx = bank_ctx(&h.w, &h.banks[b]);
                let ix = ixs::lending_pool_collect_bank_fees(group, h.banks[b], h.utok[a][b], h.tprog[b], ctx.mint_prefix.clone());
                h.w.exec(ix, &[h.admin])
            }
            17 => {
                let r = t.usize();
                let e = t.usize();
                let ab = t.usize();
                let lb = t.usize();
                let amt = t.u64();
                let (abk, lbk) = (h.banks[ab], h.banks[lb]);
                let lctx = bank_ctx(&h.w, &lbk);
                let actx = bank_ctx(&h.w, &abk);
                let mut rem: Vec<AccountMeta> = lctx.mint_prefix.clone();
                rem.extend(actx.oracle_metas.clone());
                rem.extend(lctx.oracle_metas.clone());
                let liqor_rem = remaining_for(&h.w, &h.accts[r], &[abk, lbk]);
                let liqee_rem = remaining_for(&h.w, &h.accts[e], &[]);
                let (nr, ne) = (liqor_rem.len() as u8, liqee_rem.len() as u8);
                rem.extend(liqor_rem);
                rem.extend(liqee_rem);
                let ix = ixs::lending_account_liquidate(
                    group, abk, lbk, h.accts[r], h.auths[r], h.accts[e], h.tprog[lb], amt, ne, nr, rem,
                );
                h.w.exec(ix, &[h.auths[r]])
            }
            37 => {
                // classic liquidation WITHOUT the risk accounts of either party (only the two banks' oracles are passed)
                let r = t.usize();
                let e = t.usize();
                let ab = t.usize();
                let lb = t.usize();
                let amt = t.u64();
                let (abk, lbk) = (h.banks[ab], h.banks[lb]);
                let lctx = bank_ctx(&h.w, &lbk);
                let actx = bank_ctx(&h.w, &abk);
                let mut rem: Vec<AccountMeta> = lctx.mint_prefix.clone();
                rem.extend(actx.oracle_metas.clone());
                rem.extend(lctx.oracle_metas.clone());
                let ix = ixs::lending_account_liquidate(
                    group, abk, lbk, h.accts[r], h.auths[r], h.accts[e], h.tprog[lb], amt, 0, 0, rem,
                );
                h.w.exec(ix, &[h.auths[r]])
            }
            18 => {
                let a = t.usize();
                let b = t.usize();
                let ctx = bank_ctx(&h.w, &h.banks[b]);
                let mut rem: Vec<AccountMeta> = ctx.mint_prefix.clone();
                rem.extend(remaining_for(&h.w, &h.accts[a], &[]));
                let ix = ixs::lending_pool_handle_bankruptcy(group, h.admin, h.banks[b], h.accts[a], h.tprog[b], rem);
                h.w.exec(ix, &[h.admin])
            }
            19 => {
                let b = t.usize();
                let p: I80F48 = t.fx();
                h.w.update::<Bank>(&h.banks[b], |bk| bk.config.fixed_price = p.into());
                Ok(())
            }
            30 => {
                let a = t.usize();
                let key = if a < h.auths.len() { h.auths[a] } else { h.admin };
                h.w.update::<MarginfiGroup>(&group, |g| g.risk_admin = key);
                Ok(())
            }
            31 => {
                let b = t.usize();
                let fl = t.u64();
                h.w.update::<Bank>(&h.banks[b], |bk| bk.flags = fl);
                Ok(())
            }
            33 => {
                // fixture: set the given bits of the flag word of marginfi account a (0 = clear IN_RECEIVERSHIP / IN_DELEVERAGE)
                let a = t.usize();
                let fl = t.u64();
                h.w.update::<MarginfiAccount>(&h.accts[a], |ac| {
                    if fl == 0 {
                        ac.account_flags &= !(16u64 | 32u64);
                    } else {
                        ac.account_flags |= fl;
                    }
                });
                Ok(())
            }
            38 => {
                // fixture: the mint of bank b gets a pending transfer-fee change (older schedule from epoch 0, newer schedule
                // from epoch_new) and the cluster clock moves to cur_epoch.  No effect on mints without the extension.
                let b = t.usize();
                let old = (t.u16(), t.u64());
                let new = (t.u16(), t.u64());
                let epoch_new = t.u64();
                let cur_epoch = t.u64();
                if crate::sim::set_fee_schedule(&mut h.w, &h.mints[b], old, new, epoch_new) {
                    h.w.epoch = cur_epoch;
                }
                Ok(())
            }
            36 => {
                // probe: would lending_pool_close_bank succeed? (real instruction through the entry point; on success the
                // closed bank account and the group are put back, so that the history continues)
                let b = t.usize();
                let saved_bank = h.w.account(&h.banks[b]).cloned();
                let saved_group = h.w.account(&group).cloned();
                let saved_admin = h.w.account(&h.admin).cloned();
                let r = h.w.exec(ixs::lending_pool_close_bank(group, h.banks[b], h.admin), &[h.admin]);
                if r.is_ok() {
                    if let Some(a) = saved_bank {
                        h.w.accounts.insert(h.banks[b], a);
                    }
                    if let Some(a) = saved_group {
                        h.w.accounts.insert(group, a);
                    }
                    if let Some(a) = saved_admin {
                        h.w.accounts.insert(h.admin, a);
                    }
                }
                r
            }
            _ => panic!("bad op"),
        };
        let rs = match &res {
            Ok(()) => "OK".to_string(),
            Err(e) => err_s(e),
        };
        match refs {
            Some(r) if op != 0 => out.push(format!("{} # {} # R {}", rs, dump_world(&h), r)),
            Some(_) => out.push(format!("{} # {} # R -", rs, dump_world(&h))),
            None => out.push(format!("{} # {}", rs, dump_world(&h))),
        }
    }
    out.join(" | ")
}

#[allow(dead_code)]
fn _unused(_: BankOperationalState) {}
