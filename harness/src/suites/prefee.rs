//! Level A: marginfi::utils::calculate_pre_fee_spl_deposit_amount on a real Token-2022 mint with a
//! TransferFeeConfig extension, and the SPL library fee for the returned amount.
//! case: bps max_fee post_amount      out: `<pre> <fee(pre)>` | NONE | PANIC
use crate::sim::{mk_mint, TokenProgram, World};
use crate::util::*;
use anchor_lang::prelude::AccountInfo;
use spl_token_2022::extension::transfer_fee::TransferFee;

pub fn run(line: &str) -> String {
    let mut t = Toks::new(line);
    let bps = t.u16();
    let max_fee = t.u64();
    let post = t.u64();
    let mut w = World::new();
    let mint = mk_mint(&mut w, 6, TokenProgram::T22WithFee { bps, max_fee });
    let acct = w.account(&mint).unwrap();
    let mut lamports = acct.lamports;
    let mut data = acct.data.clone();
    let owner = acct.owner;
    guarded(|| {
        let ai = AccountInfo::new(&mint, false, false, &mut lamports, &mut data, &owner, false, 0);
        match marginfi::utils::calculate_pre_fee_spl_deposit_amount(ai, post, 0) {
            Err(e) => err_tok(&e),
            Ok(pre) => {
                let tf = TransferFee {
                    epoch: 0.into(),
                    maximum_fee: max_fee.into(),
                    transfer_fee_basis_points: bps.into(),
                };
                match tf.calculate_fee(pre) {
                    Some(fee) => format!("{} {}", pre, fee),
                    None => "NONE".into(),
                }
            }
        }
    })
}
