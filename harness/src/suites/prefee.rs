//! Level A: marginfi::utils::calculate_pre_fee_spl_deposit_amount on a real Token-2022 mint with a
//! TransferFeeConfig extension, and the SPL library fee for the returned amount.
//! case: bps max_fee post_amount [old_bps old_max epoch_new epoch]      out: `<pre> <fee(pre)>` | NONE | PANIC
//!   with the optional tokens the mint carries a PENDING fee change (older schedule from epoch 0, (bps, max_fee) from
//!   epoch_new), marginfi is asked in `epoch` and the fee is what the mint's own config charges in that epoch.
use crate::sim::{mk_mint, TokenProgram, World};
use crate::util::*;
use anchor_lang::prelude::AccountInfo;
use spl_token_2022::extension::transfer_fee::TransferFee;

pub fn run(line: &str) -> String {
    let mut t = Toks::new(line);
    let bps = t.u16();
    let max_fee = t.u64();
    let post = t.u64();
    let mut w = World::new();
    let mint = mk_mint(&mut w, 6, TokenProgram::T22WithFee { bps, max_fee });
    let mut epoch = 0u64;
    if !t.done() {
        let old = (t.u16(), t.u64());
        let epoch_new = t.u64();
        epoch = t.u64();
        crate::sim::set_fee_schedule(&mut w, &mint, old, (bps, max_fee), epoch_new);
    }
    let acct = w.account(&mint).unwrap();
    let mut lamports = acct.lamports;
    let mut data = acct.data.clone();
    let data_copy = acct.data.clone();
    let owner = acct.owner;
    guarded(|| {
        let ai = AccountInfo::new(&mint, false, false, &mut lamports, &mut data, &owner, false, 0);
        // what the token program will charge: the mint's own config in this epoch (read before the call borrows the data)
        let charged: TransferFee = {
            use spl_token_2022::extension::{transfer_fee::TransferFeeConfig, BaseStateWithExtensions, StateWithExtensions};
            let st = StateWithExtensions::<spl_token_2022::state::Mint>::unpack(&data_copy).unwrap();
            *st.get_extension::<TransferFeeConfig>().unwrap().get_epoch_fee(epoch)
        };
        match marginfi::utils::calculate_pre_fee_spl_deposit_amount(ai, post, epoch) {
            Err(e) => err_tok(&e),
            Ok(pre) => {
                match charged.calculate_fee(pre) {
                    Some(fee) => format!("{} {}", pre, fee),
                    None => "NONE".into(),
                }
            }
        }
    })
}
