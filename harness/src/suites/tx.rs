//! Transaction-shape suites for C10 / C11 (receivership and flash-loan brackets).
//!
//!   txconsts  one dummy case line in, the constants of coq/gen/TxConstants.v out (used by
//!             gen/coqgen_tx.py; dumped from the compiled crates, never re-typed)
//!   txval     level A: the REAL ix_utils validators, `validate_instructions` and
//!             `check_flashloan_can_start` on synthesised instructions-sysvar accounts
//!   txsim     level D: whole transactions through `World::exec_tx` with the real handlers
//!   txend     level C: the real `end_liquidation` / `end_deleverage` on arbitrary snapshot values
//!
//! Formats are documented at each runner.  Error tokens: `E<n>` for Anchor / MarginfiError /
//! `ProgramError::Custom(n)`, `E<u64::from(e)>` for builtin `ProgramError`s, `PANIC`.
use crate::sim::fixtures::*;
use crate::sim::ixs;
use crate::sim::runtime::{ExecError, Ix, World, PROXY_MAGIC};
use crate::util::*;
use anchor_lang::prelude::{AccountInfo, AccountLoader, ProgramError, Pubkey};
use anchor_lang::Discriminator;
use fixed::types::I80F48;
use marginfi::constants as mc;
use marginfi::instruction as mi;
use marginfi_type_crate::constants::ix_discriminators as ixd;
use marginfi_type_crate::types::{
    Bank, FeeState, LiquidationRecord, MarginfiAccount, MarginfiGroup, ACCOUNT_DISABLED, ACCOUNT_FROZEN,
    ACCOUNT_IN_DELEVERAGE, ACCOUNT_IN_FLASHLOAN, ACCOUNT_IN_RECEIVERSHIP,
};
use solana_program::instruction::{AccountMeta, Instruction};
use solana_program::sysvar;
use std::cell::RefCell;

// ---------------------------------------------------------------------------------------------
// shared vocabulary: program codes and discriminator symbols
// ---------------------------------------------------------------------------------------------

/// 0 compute budget | 1 marginfi | 2 kamino | 3 drift | 4 jupiter | 5 titan | 6 associated token |
/// 7 system program | 8 spl-token | k >= 9: an unrelated program derived from k
pub fn prog_key(code: u64) -> Pubkey {
    match code {
        0 => mc::COMPUTE_PROGRAM_KEY,
        1 => marginfi::ID,
        2 => kamino_mocks::kamino_lending::ID,
        3 => mc::DRIFT_PROGRAM_ID,
        4 => mc::JUP_KEY,
        5 => mc::TITAN_KEY,
        6 => mc::ASSOCIATED_TOKEN_KEY,
        7 => solana_program::system_program::ID,
        8 => spl_token::ID,
        k => Pubkey::new_from_array(solana_program::hash::hashv(&[b"tx-foreign", &k.to_le_bytes()]).to_bytes()),
    }
}

fn d8(d: &[u8]) -> [u8; 8] {
    let mut o = [0u8; 8];
    o.copy_from_slice(&d[..8]);
    o
}

/// (symbol, discriminator used by the INTROSPECTION code where it has its own constant, else the
/// Anchor dispatch discriminator)
fn disc_table() -> Vec<(&'static str, [u8; 8])> {
    use drift_mocks::drift::client::args as drift;
    use kamino_mocks::kamino_lending::client::args as kamino;
    vec![
        ("IR", ixd::INIT_LIQUIDATION_RECORD),
        ("SL", ixd::START_LIQUIDATION),
        ("EL", ixd::END_LIQUIDATION),
        ("WD", ixd::LENDING_ACCOUNT_WITHDRAW),
        ("RP", ixd::LENDING_ACCOUNT_REPAY),
        ("SE", ixd::LENDING_SETTLE_EMISSIONS),
        ("WE", ixd::LENDING_WITHDRAW_EMISSIONS),
        ("KW", ixd::KAMINO_WITHDRAW),
        ("DW", ixd::DRIFT_WITHDRAW),
        ("SF", ixd::START_FLASHLOAN),
        ("EF", ixd::END_FLASHLOAN),
        ("SD", ixd::START_DELEVERAGE),
        ("ED", ixd::END_DELEVERAGE),
        ("BR", d8(mi::LendingAccountBorrow::DISCRIMINATOR)),
        ("DP", d8(mi::LendingAccountDeposit::DISCRIMINATOR)),
        ("LQ", d8(mi::LendingAccountLiquidate::DISCRIMINATOR)),
        ("HB", d8(mi::LendingPoolHandleBankruptcy::DISCRIMINATOR)),
        ("TR", d8(mi::TransferToNewAccount::DISCRIMINATOR)),
        ("SW", d8(mi::SolendWithdraw::DISCRIMINATOR)),
        ("PH", d8(mi::LendingAccountPulseHealth::DISCRIMINATOR)),
        ("KRR", d8(kamino::RefreshReserve::DISCRIMINATOR)),
        ("KRO", d8(kamino::RefreshObligation::DISCRIMINATOR)),
        ("DUS", d8(drift::UpdateSpotMarketCumulativeInterest::DISCRIMINATOR)),
    ]
}

fn disc_of(sym: &str) -> [u8; 8] {
    for (s, d) in disc_table() {
        if s == sym {
            return d;
        }
    }
    sym.parse::<u64>().expect("bad discriminator token").to_le_bytes()
}

fn key_of(code: u64) -> Pubkey {
    Pubkey::new_from_array(solana_program::hash::hashv(&[b"tx-key", &code.to_le_bytes()]).to_bytes())
}

fn pe_code(e: &ProgramError) -> String {
    match e {
        ProgramError::Custom(n) => format!("E{}", n),
        other => format!("E{}", u64::from(other.clone())),
    }
}

fn etok(e: &anchor_lang::error::Error) -> String {
    use anchor_lang::error::Error;
    match e {
        Error::AnchorError(a) => format!("E{}", a.error_code_number),
        Error::ProgramError(p) => pe_code(&p.program_error),
    }
}

fn rtok(r: Result<(), anchor_lang::error::Error>) -> String {
    match r {
        Ok(()) => "OK".into(),
        Err(e) => etok(&e),
    }
}

// ---------------------------------------------------------------------------------------------
// txconsts
// ---------------------------------------------------------------------------------------------

pub fn run_consts(_line: &str) -> String {
    use anchor_lang::error::ErrorCode as AE;
    let mut o: Vec<String> = Vec::new();
    let le = |d: [u8; 8]| u64::from_le_bytes(d);
    // discriminators as the introspection code sees them (type-crate constants) ...
    for (s, d) in disc_table() {
        o.push(format!("IX_{}={}", s, le(d)));
    }
    // ... and as the Anchor dispatcher matches them
    let disp: Vec<(&str, [u8; 8])> = vec![
        ("IR", d8(mi::MarginfiAccountInitLiqRecord::DISCRIMINATOR)),
        ("SL", d8(mi::StartLiquidation::DISCRIMINATOR)),
        ("EL", d8(mi::EndLiquidation::DISCRIMINATOR)),
        ("WD", d8(mi::LendingAccountWithdraw::DISCRIMINATOR)),
        ("RP", d8(mi::LendingAccountRepay::DISCRIMINATOR)),
        ("KW", d8(mi::KaminoWithdraw::DISCRIMINATOR)),
        ("DW", d8(mi::DriftWithdraw::DISCRIMINATOR)),
        ("SF", d8(mi::LendingAccountStartFlashloan::DISCRIMINATOR)),
        ("EF", d8(mi::LendingAccountEndFlashloan::DISCRIMINATOR)),
        ("SD", d8(mi::StartDeleverage::DISCRIMINATOR)),
        ("ED", d8(mi::EndDeleverage::DISCRIMINATOR)),
    ];
    for (s, d) in disp {
        o.push(format!("DISP_{}={}", s, le(d)));
    }
    o.push(format!("ACCOUNT_DISABLED={}", ACCOUNT_DISABLED));
    o.push(format!("ACCOUNT_IN_FLASHLOAN={}", ACCOUNT_IN_FLASHLOAN));
    o.push(format!("ACCOUNT_IN_RECEIVERSHIP={}", ACCOUNT_IN_RECEIVERSHIP));
    o.push(format!("ACCOUNT_IN_DELEVERAGE={}", ACCOUNT_IN_DELEVERAGE));
    o.push(format!("ACCOUNT_FROZEN={}", ACCOUNT_FROZEN));
    o.push(format!("PE_INVALID_ARGUMENT={}", u64::from(ProgramError::InvalidArgument)));
    o.push(format!("AE_INSTRUCTION_FALLBACK_NOT_FOUND={}", AE::InstructionFallbackNotFound as u32));
    o.push(format!("AE_INSTRUCTION_DID_NOT_DESERIALIZE={}", AE::InstructionDidNotDeserialize as u32));
    o.push(format!("AE_CONSTRAINT_HAS_ONE={}", AE::ConstraintHasOne as u32));
    o.push(format!("AE_ACCOUNT_NOT_ENOUGH_KEYS={}", AE::AccountNotEnoughKeys as u32));
    o.push(format!("AE_ACCOUNT_OWNED_BY_WRONG_PROGRAM={}", AE::AccountOwnedByWrongProgram as u32));
    o.push(format!("AE_ACCOUNT_NOT_INITIALIZED={}", AE::AccountNotInitialized as u32));
    o.push(format!("AE_ACCOUNT_NOT_SIGNER={}", AE::AccountNotSigner as u32));
    o.push(format!("PROXY_DISC={}", u64::from_le_bytes(PROXY_MAGIC)));
    o.push(format!(
        "TRANSACTION_LEVEL_STACK_HEIGHT={}",
        solana_program::instruction::TRANSACTION_LEVEL_STACK_HEIGHT
    ));
    o.join(" ")
}

// ---------------------------------------------------------------------------------------------
// txval — level A
// ---------------------------------------------------------------------------------------------
// case:  pid exp end  na {prog disc}*na  nx {disc}*nx  flags  n {prog disc len acct0}*n
//   pid          program code passed as `program_id` to the three list validators
//   exp / end    discriminator symbols: expected hash of validate_ix_first / validate_ix_last
//   na, (prog disc)   `allowed_ixs` of validate_ix_first
//   nx, disc          `expected_hashes` of validate_ixes_exclusive
//   flags        account_flags of the marginfi account (key code 1) given to check_flashloan_can_start
//   n, (prog disc len acct0)   the transaction: program code, discriminator symbol or u64 (the data
//                is the first `len` bytes of disc_le ‖ 0...), first account key code (0 = no accounts; c >= 100 = two accounts [c % 100, c / 100])
// out:   first last excl | VL[cur]... | VD[cur]... | FL[cur][end]...  (cur in 0..n, end in 0..=n+1,
//        then one probe with end = u64::MAX at cur 0)
//   VL / VD = the real `validate_instructions` with the liquidation / deleverage discriminators.

struct TxIx {
    prog: u64,
    disc: [u8; 8],
    len: usize,
    acct0: u64,
}

fn mk_ix(t: &TxIx) -> Ix {
    let mut data = vec![0u8; t.len];
    for i in 0..t.len.min(8) {
        data[i] = t.disc[i];
    }
    // account code: 0 = no accounts, c < 100 = [c], otherwise [c % 100, c / 100] (a trailing second account)
    let accounts = if t.acct0 == 0 {
        vec![]
    } else if t.acct0 < 100 {
        vec![AccountMeta::new(key_of(t.acct0), false)]
    } else {
        vec![AccountMeta::new(key_of(t.acct0 % 100), false), AccountMeta::new(key_of(t.acct0 / 100), false)]
    };
    Ix { program_id: prog_key(t.prog), accounts, data }
}

fn with_sysvar<R>(data: &mut Vec<u8>, f: impl FnOnce(&AccountInfo<'static>) -> R) -> R {
    let key = sysvar::instructions::ID;
    let owner = solana_program::pubkey!("Sysvar1111111111111111111111111111111111111");
    let mut lamports = 1u64;
    let ai = AccountInfo::new(&key, false, false, &mut lamports, &mut data[..], &owner, false, 0);
    // The info only lives for the duration of `f`; `'static` is what the real signatures ask for.
    let ai_static: &AccountInfo<'static> = unsafe { std::mem::transmute(&ai) };
    f(ai_static)
}

pub fn run_val(line: &str) -> String {
    let mut t = Toks::new(line);
    let pid = prog_key(t.u64());
    let exp = disc_of(t.s());
    let end = disc_of(t.s());
    let na = t.usize();
    let allowed_owned: Vec<(Pubkey, [u8; 8])> = (0..na).map(|_| (prog_key(t.u64()), disc_of(t.s()))).collect();
    let nx = t.usize();
    let excl_owned: Vec<[u8; 8]> = (0..nx).map(|_| disc_of(t.s())).collect();
    let flags = t.u64();
    let n = t.usize();
    let txs: Vec<TxIx> = (0..n)
        .map(|_| {
            let prog = t.u64();
            let disc = disc_of(t.s());
            let len = t.usize();
            let acct0 = t.u64();
            TxIx { prog, disc, len, acct0 }
        })
        .collect();
    let ixs: Vec<Ix> = txs.iter().map(mk_ix).collect();
    let instrs: Vec<Instruction> = ixs.iter().cloned().map(Instruction::from).collect();
    let mut out: Vec<String> = Vec::new();

    // the three list validators, called directly
    let allowed: Vec<(Pubkey, &[u8])> = allowed_owned.iter().map(|(p, d)| (*p, &d[..])).collect();
    let excl: Vec<&[u8]> = excl_owned.iter().map(|d| &d[..]).collect();
    out.push(guarded(|| rtok(marginfi::ix_utils::validate_ix_first(&instrs, &pid, &exp, &allowed))));
    out.push(guarded(|| rtok(marginfi::ix_utils::validate_ix_last(&instrs, &pid, &end))));
    out.push(guarded(|| rtok(marginfi::ix_utils::validate_ixes_exclusive(&instrs, &pid, &excl))));
    out.push("|".into());

    // real sysvar bytes
    let world = World::new();
    let base = world.instructions_sysvar_data(&ixs, &[]);
    let mfi_id = marginfi::ID;
    for (s, e) in [(ixd::START_LIQUIDATION, ixd::END_LIQUIDATION), (ixd::START_DELEVERAGE, ixd::END_DELEVERAGE)] {
        for cur in 0..n {
            let mut data = base.clone();
            sysvar::instructions::store_current_index(&mut data, cur as u16);
            let r = guarded(|| {
                with_sysvar(&mut data, |ai| {
                    rtok(marginfi::instructions::marginfi_account::validate_instructions(ai, &mfi_id, &s, &e))
                })
            });
            out.push(r);
        }
        out.push("|".into());
    }

    // check_flashloan_can_start on a real AccountLoader<MarginfiAccount>
    let acct_key = key_of(1);
    let mut acc: MarginfiAccount = bytemuck::Zeroable::zeroed();
    acc.account_flags = flags;
    let mut acc_data: Vec<u8> = Vec::with_capacity(8 + std::mem::size_of::<MarginfiAccount>());
    acc_data.extend_from_slice(&marginfi_type_crate::constants::discriminators::ACCOUNT);
    acc_data.extend_from_slice(bytemuck::bytes_of(&acc));
    let owner = marginfi::ID;
    let mut lamports = 1u64;
    let acc_ai = AccountInfo::new(&acct_key, false, true, &mut lamports, &mut acc_data[..], &owner, false, 0);
    let acc_ai_static: &'static AccountInfo<'static> = unsafe { std::mem::transmute(&acc_ai) };
    let loader = AccountLoader::<MarginfiAccount>::try_from(acc_ai_static).expect("loader");
    let mut probes: Vec<(usize, usize)> = Vec::new();
    for cur in 0..n {
        for e in 0..=(n + 1) {
            probes.push((cur, e));
        }
    }
    if n > 0 {
        probes.push((0, u64::MAX as usize));
    }
    for (cur, e) in probes {
        let mut data = base.clone();
        sysvar::instructions::store_current_index(&mut data, cur as u16);
        let r = guarded(|| {
            with_sysvar(&mut data, |ai| {
                rtok(marginfi::instructions::marginfi_account::check_flashloan_can_start(&loader, ai, e))
            })
        });
        out.push(r);
    }
    drop(loader);
    out.join(" ")
}

// ---------------------------------------------------------------------------------------------
// txsim — level D: whole transactions, real handlers, real instructions sysvar
// ---------------------------------------------------------------------------------------------
// case:  pC feemax fA fB fF fT ; ix ; ix ; ...
//   pC       fixed price of the collateral bank C, raw I80F48 bits (10.0 => A and T unhealthy, 20.0 => healthy)
//   feemax   fee_state.liquidation_max_fee, raw bits
//   fA..fT   initial account_flags (u64) of the four marginfi accounts
// account codes: 1 A (collateral C/Z/P, debt L, has record) 2 B (healthy, has record) 3 F (collateral C,
//   empty L balance, NO record) 4 T (tiny: < $5 of assets, has record) 9 (fresh key for transfers)
// signer codes:  11..14 authorities of A,B,F,T | 20 liquidator | 21 group admin = risk admin | 22 stranger
// bank codes:    31 C | 32 L | 33 Z (asset weight 0) | 34 P (price 0)
// ix tokens:     CB | FG prog disc len | SL a r | EL a r | SD a r | ED a r | SF a s end | EF a s |
//                WD a s b amt | RP a s b amt | BR a s b amt | DP a s b amt | IR a | LQ l s v | HB a s |
//                TR old s | PX prog <one of the above>      (PX = invoked by CPI from program `prog`)
// out:   OK | ERR idx code ; then per account code 1,2,3,4,9:
//        a<code>:<flags>:<receiver code>:<record 0/1>:<am>,<lm>,<ae>,<le>:<bank>=<asset units>/<liab units>,...:<ref>
//        ref = init assets,liabs, maint assets,liabs, equity assets,liabs computed by the REAL risk engine
//        (pulse_health on a scratch copy of the final state); `-` while IN_FLASHLOAN
//        (`-` for an account that does not exist)

const U: u64 = 1_000_000;

struct Fix {
    accounts: std::collections::BTreeMap<Pubkey, crate::sim::runtime::Acct>,
    group: Pubkey,
    fee_wallet: Pubkey,
    accts: Vec<(u64, Pubkey)>,   // account code -> key
    wallets: Vec<(u64, Pubkey)>, // signer code -> key
    banks: Vec<(u64, Pubkey)>,   // bank code -> key
    toks: Vec<((u64, u64), Pubkey)>, // (signer code, bank code) -> token account
}

fn fxn(v: f64) -> I80F48 {
    I80F48::from_num(v)
}

fn build_fixture() -> Result<Fix, String> {
    let mut w = World::new();
    let ok = |r: Result<(), (usize, ExecError)>, what: &str| -> Result<(), String> {
        r.map_err(|(i, e)| format!("fixture {}: {:?} at {}", what, e, i))
    };
    let admin = mk_wallet(&mut w, 1000 * 1_000_000_000);
    let fee_wallet = mk_wallet(&mut w, 1_000_000_000);
    mk_fee_state(
        &mut w,
        admin,
        fee_wallet,
        FeeStateParams { liquidation_flat_sol_fee: 5_000, liquidation_max_fee: fxn(0.1), ..Default::default() },
    );
    let group = mk_group(&mut w, admin);
    let mut banks: Vec<(u64, Pubkey)> = Vec::new();
    let mut mints: Vec<(u64, Pubkey)> = Vec::new();
    // (code, price at build time, aw_init, aw_maint, lw_init, lw_maint)
    let specs: [(u64, f64, f64, f64, f64, f64); 4] = [
        (31, 20.0, 0.5, 0.75, 1.0, 1.0),
        (32, 1.0, 1.0, 1.0, 1.25, 1.0),
        (33, 10.0, 0.0, 0.0, 1.0, 1.0),
        (34, 0.0, 0.5, 0.75, 1.0, 1.0),
    ];
    for (code, price, ai, am, li, lm) in specs {
        let mint = mk_mint(&mut w, 6, TokenProgram::Spl);
        let mut p = BankParams::default().with_fixed_price(fxn(price));
        p.asset_weight_init = fxn(ai);
        p.asset_weight_maint = fxn(am);
        p.liability_weight_init = fxn(li);
        p.liability_weight_maint = fxn(lm);
        let b = mk_bank(&mut w, group, mint, p);
        banks.push((code, b));
        mints.push((code, mint));
    }
    let bank = |c: u64| banks.iter().find(|(k, _)| *k == c).unwrap().1;
    let mint = |c: u64| mints.iter().find(|(k, _)| *k == c).unwrap().1;
    let mut wallets: Vec<(u64, Pubkey)> = vec![(21, admin)];
    for c in [11u64, 12, 13, 14, 20, 22, 23] {
        let k = mk_wallet(&mut w, 100 * 1_000_000_000);
        wallets.push((c, k));
    }
    let wallet = |c: u64| wallets.iter().find(|(k, _)| *k == c).unwrap().1;
    let mut toks: Vec<((u64, u64), Pubkey)> = Vec::new();
    for (wc, wk) in wallets.clone() {
        for (bc, _) in banks.clone() {
            let t = mk_token_account(&mut w, mint(bc), wk, 10_000_000 * U);
            toks.push(((wc, bc), t));
        }
    }
    let tok = |wc: u64, bc: u64| toks.iter().find(|(k, _)| *k == (wc, bc)).unwrap().1;
    let mut accts: Vec<(u64, Pubkey)> = Vec::new();
    for (ac, wc) in [(1u64, 11u64), (2, 12), (3, 13), (4, 14), (5, 23)] {
        let a = mk_marginfi_account(&mut w, group, wallet(wc));
        accts.push((ac, a));
    }
    let acct = |c: u64| accts.iter().find(|(k, _)| *k == c).unwrap().1;
    let dep = |w: &mut World, ac: u64, wc: u64, bc: u64, amt: u64| -> Result<(), String> {
        let ix = ixs::lending_account_deposit(group, acct(ac), wallet(wc), bank(bc), tok(wc, bc), spl_token::ID, amt, None, vec![]);
        w.exec_tx(&[ix], &[wallet(wc)]).map_err(|(i, e)| format!("fixture deposit {} {}: {:?} at {}", ac, bc, e, i))
    };
    let bor = |w: &mut World, ac: u64, wc: u64, bc: u64, amt: u64| -> Result<(), String> {
        let rem = remaining_for(w, &acct(ac), &[bank(bc)]);
        let ix = ixs::lending_account_borrow(group, acct(ac), wallet(wc), bank(bc), tok(wc, bc), spl_token::ID, amt, rem);
        w.exec_tx(&[ix], &[wallet(wc)]).map_err(|(i, e)| format!("fixture borrow {} {}: {:?} at {}", ac, bc, e, i))
    };
    // whale (account 5, wallet 23) provides liquidity everywhere
    for bc in [31u64, 32, 33, 34] {
        dep(&mut w, 5, 23, bc, 1_000_000 * U)?;
    }
    // A: 100 C, 50 Z, 50 P, debt 800 L
    dep(&mut w, 1, 11, 31, 100 * U)?;
    dep(&mut w, 1, 11, 33, 50 * U)?;
    dep(&mut w, 1, 11, 34, 50 * U)?;
    bor(&mut w, 1, 11, 32, 800 * U)?;
    // B: 100 C, debt 100 L
    dep(&mut w, 2, 12, 31, 100 * U)?;
    bor(&mut w, 2, 12, 32, 100 * U)?;
    // F: 100 C and an active, empty L balance
    dep(&mut w, 3, 13, 31, 100 * U)?;
    dep(&mut w, 3, 13, 32, 10 * U)?;
    {
        let rem = remaining_for(&w, &acct(3), &[]);
        let ix = ixs::lending_account_withdraw(group, acct(3), wallet(13), bank(32), tok(13, 32), spl_token::ID, 10 * U, None, rem);
        ok(w.exec_tx(&[ix], &[wallet(13)]), "F withdraw")?;
    }
    // T: 0.4 C, debt 3.2 L
    dep(&mut w, 4, 14, 31, 400_000)?;
    bor(&mut w, 4, 14, 32, 3_200_000)?;
    for (ac, payer) in [(1u64, 20u64), (2, 20), (4, 20)] {
        mk_liquidation_record(&mut w, acct(ac), wallet(payer));
    }
    accts.retain(|(c, _)| *c != 5);
    let fresh = w.new_key();
    accts.push((9, fresh));
    Ok(Fix { accounts: w.accounts.clone(), group, fee_wallet, accts, wallets, banks, toks })
}

thread_local! {
    static FIX: RefCell<Option<Result<std::rc::Rc<Fix>, String>>> = RefCell::new(None);
}

fn fixture() -> Result<std::rc::Rc<Fix>, String> {
    FIX.with(|f| {
        let mut f = f.borrow_mut();
        if f.is_none() {
            *f = Some(build_fixture().map(std::rc::Rc::new));
        }
        f.as_ref().unwrap().clone()
    })
}

impl Fix {
    fn acct(&self, c: u64) -> Pubkey {
        self.accts.iter().find(|(k, _)| *k == c).map(|x| x.1).unwrap_or_else(|| key_of(1000 + c))
    }
    fn wallet(&self, c: u64) -> Pubkey {
        self.wallets.iter().find(|(k, _)| *k == c).map(|x| x.1).unwrap_or_else(|| key_of(2000 + c))
    }
    fn bank(&self, c: u64) -> Pubkey {
        self.banks.iter().find(|(k, _)| *k == c).map(|x| x.1).unwrap_or_else(|| key_of(3000 + c))
    }
    fn tok(&self, wc: u64, bc: u64) -> Pubkey {
        self.toks.iter().find(|(k, _)| *k == (wc, bc)).map(|x| x.1).unwrap_or_else(|| key_of(4000 + wc * 100 + bc))
    }
    fn wallet_code(&self, k: &Pubkey) -> u64 {
        if *k == Pubkey::default() {
            return 0;
        }
        self.wallets.iter().find(|(_, w)| w == k).map(|x| x.0).unwrap_or(99)
    }
}

fn rem_for(w: &World, a: &Pubkey, extra: &[Pubkey]) -> Vec<AccountMeta> {
    if w.get::<MarginfiAccount>(a).is_some() {
        remaining_for(w, a, extra)
    } else {
        vec![]
    }
}

/// Parse one instruction (tokens up to the next `;`) and build it with the real builders.
fn build_sim_ix(fx: &Fix, w: &World, t: &mut Toks) -> Ix {
    let kind = t.s();
    match kind {
        "CB" => ixs::compute_budget(400_000),
        "FG" => {
            let prog = t.u64();
            let disc = disc_of(t.s());
            let len = t.usize();
            mk_ix(&TxIx { prog, disc, len, acct0: 0 })
        }
        "SL" => {
            let a = fx.acct(t.u64());
            let r = fx.wallet(t.u64());
            ixs::start_liquidation(a, r, rem_for(w, &a, &[]))
        }
        "EL" => {
            let a = fx.acct(t.u64());
            let r = fx.wallet(t.u64());
            ixs::end_liquidation(a, r, fx.fee_wallet, rem_for(w, &a, &[]))
        }
        "SD" => {
            let a = fx.acct(t.u64());
            let r = fx.wallet(t.u64());
            ixs::start_deleverage(fx.group, a, r, rem_for(w, &a, &[]))
        }
        "ED" => {
            let a = fx.acct(t.u64());
            let r = fx.wallet(t.u64());
            ixs::end_deleverage(fx.group, a, r, rem_for(w, &a, &[]))
        }
        "SF" => {
            let a = fx.acct(t.u64());
            let s = fx.wallet(t.u64());
            let e = t.u64();
            ixs::lending_account_start_flashloan(a, s, e)
        }
        "EF" => {
            let a = fx.acct(t.u64());
            let s = fx.wallet(t.u64());
            ixs::lending_account_end_flashloan(a, s, rem_for(w, &a, &[]))
        }
        "EFN" => {
            // end_flashloan WITHOUT the bank / oracle remaining accounts
            let a = fx.acct(t.u64());
            let s = fx.wallet(t.u64());
            ixs::lending_account_end_flashloan(a, s, vec![])
        }
        "EFX" => {
            // end_flashloan of account a with another marginfi account riding along as a trailing remaining account
            let a = fx.acct(t.u64());
            let s = fx.wallet(t.u64());
            let x = fx.acct(t.u64());
            let mut rem = rem_for(w, &a, &[]);
            rem.push(AccountMeta::new(x, false));
            ixs::lending_account_end_flashloan(a, s, rem)
        }
        "WD" | "RP" | "BR" | "DP" => {
            let a = fx.acct(t.u64());
            let sc = t.u64();
            let bc = t.u64();
            let amt = t.u64();
            let (s, b, tk) = (fx.wallet(sc), fx.bank(bc), fx.tok(sc, bc));
            match kind {
                "WD" => ixs::lending_account_withdraw(fx.group, a, s, b, tk, spl_token::ID, amt, None, rem_for(w, &a, &[])),
                "RP" => ixs::lending_account_repay(fx.group, a, s, b, tk, spl_token::ID, amt, None, vec![]),
                "BR" => ixs::lending_account_borrow(fx.group, a, s, b, tk, spl_token::ID, amt, rem_for(w, &a, &[b])),
                _ => ixs::lending_account_deposit(fx.group, a, s, b, tk, spl_token::ID, amt, None, vec![]),
            }
        }
        "IR" => {
            let a = fx.acct(t.u64());
            ixs::marginfi_account_init_liq_record(a, fx.wallet(20))
        }
        "LQ" => {
            let l = fx.acct(t.u64());
            let s = fx.wallet(t.u64());
            let v = fx.acct(t.u64());
            let (ab, lb) = (fx.bank(31), fx.bank(32));
            let lr = rem_for(w, &l, &[ab, lb]);
            let vr = rem_for(w, &v, &[]);
            let (n_or, n_ee) = (lr.len() as u8, vr.len() as u8);
            let mut rem = vec![];
            rem.extend(lr);
            rem.extend(vr);
            ixs::lending_account_liquidate(fx.group, ab, lb, l, s, v, spl_token::ID, U, n_ee, n_or, rem)
        }
        "HB" => {
            let a = fx.acct(t.u64());
            let s = fx.wallet(t.u64());
            ixs::lending_pool_handle_bankruptcy(fx.group, s, fx.bank(32), a, spl_token::ID, rem_for(w, &a, &[]))
        }
        "TR" => {
            let o = fx.acct(t.u64());
            let s = fx.wallet(t.u64());
            ixs::transfer_to_new_account(fx.group, o, fx.acct(9), s, fx.wallet(20), s, fx.fee_wallet)
        }
        "PX" => {
            let prog = prog_key(t.u64());
            let inner = build_sim_ix(fx, w, t);
            let mut data = PROXY_MAGIC.to_vec();
            data.extend_from_slice(inner.program_id.as_ref());
            data.extend_from_slice(&inner.data);
            let mut accounts = inner.accounts.clone();
            accounts.push(AccountMeta::new_readonly(inner.program_id, false));
            Ix { program_id: prog, accounts, data }
        }
        other => panic!("bad ix token {}", other),
    }
}

fn exec_err_tok(e: &ExecError) -> String {
    match e {
        ExecError::Custom(n) => format!("E{}", n),
        ExecError::Panic => "PANIC".into(),
        ExecError::Program(s) => {
            let b: Option<ProgramError> = match s.as_str() {
                "InvalidArgument" => Some(ProgramError::InvalidArgument),
                "InvalidInstructionData" => Some(ProgramError::InvalidInstructionData),
                "InvalidAccountData" => Some(ProgramError::InvalidAccountData),
                "MissingRequiredSignature" => Some(ProgramError::MissingRequiredSignature),
                "NotEnoughAccountKeys" => Some(ProgramError::NotEnoughAccountKeys),
                "AccountBorrowFailed" => Some(ProgramError::AccountBorrowFailed),
                "InsufficientFunds" => Some(ProgramError::InsufficientFunds),
                _ => None,
            };
            match b {
                Some(p) => format!("E{}", u64::from(p)),
                None => format!("EP:{}", s.replace(' ', "_")),
            }
        }
    }
}

fn dump_account(fx: &Fix, w: &World, code: u64) -> String {
    let key = fx.acct(code);
    let a: MarginfiAccount = match w.get::<MarginfiAccount>(&key) {
        Some(a) if w.account(&key).map(|x| x.owner == marginfi::ID).unwrap_or(false) => a,
        _ => return format!("a{}:-", code),
    };
    let rec_key = liquidation_record_key(&key);
    let (recv, has, cache) = match w.get::<LiquidationRecord>(&rec_key) {
        Some(r) if a.liquidation_record == rec_key => (
            fx.wallet_code(&r.liquidation_receiver),
            1,
            format!(
                "{},{},{},{}",
                I80F48::from(r.cache.asset_value_maint).to_bits(),
                I80F48::from(r.cache.liability_value_maint).to_bits(),
                I80F48::from(r.cache.asset_value_equity).to_bits(),
                I80F48::from(r.cache.liability_value_equity).to_bits()
            ),
        ),
        _ => (0, 0, "0,0,0,0".to_string()),
    };
    let mut bals: Vec<String> = Vec::new();
    for (bc, bk) in fx.banks.iter() {
        if let Some(b) = a.lending_account.balances.iter().find(|b| b.is_active() && b.bank_pk == *bk) {
            let au: I80F48 = b.asset_shares.into();
            let lu: I80F48 = b.liability_shares.into();
            let f = |v: I80F48| -> String {
                if v.frac() == I80F48::ZERO {
                    format!("{}", v.to_num::<i128>())
                } else {
                    format!("~{}", v.to_bits())
                }
            };
            bals.push(format!("{}={}/{}", bc, f(au), f(lu)));
        }
    }
    // reference health: the real risk engine (lending_account_pulse_health) on a scratch copy
    let refh = if a.account_flags & ACCOUNT_IN_FLASHLOAN != 0 {
        "-".to_string()
    } else {
        let mut scratch = World::new();
        scratch.accounts = w.accounts.clone();
        let ix = ixs::lending_account_pulse_health(key, rem_for(w, &key, &[]));
        match scratch.exec_tx(&[ix], &[fx.wallet(20)]) {
            Ok(()) => {
                let h = scratch.get::<MarginfiAccount>(&key).unwrap().health_cache;
                format!(
                    "{},{},{},{},{},{}",
                    I80F48::from(h.asset_value).to_bits(),
                    I80F48::from(h.liability_value).to_bits(),
                    I80F48::from(h.asset_value_maint).to_bits(),
                    I80F48::from(h.liability_value_maint).to_bits(),
                    I80F48::from(h.asset_value_equity).to_bits(),
                    I80F48::from(h.liability_value_equity).to_bits()
                )
            }
            Err(_) => "x,x,x,x,x,x".to_string(),
        }
    };
    format!("a{}:{}:{}:{}:{}:{}:{}", code, a.account_flags, recv, has, cache, bals.join(","), refh)
}

pub fn run_sim(line: &str) -> String {
    let fx = match fixture() {
        Ok(f) => f,
        Err(e) => return format!("FIXTURE-FAILED {}", e.replace(' ', "_")),
    };
    let mut parts = line.split(';');
    let cfg = parts.next().unwrap_or("");
    let mut t = Toks::new(cfg);
    let p_c = t.fx();
    let feemax = t.fx();
    let flags: Vec<u64> = (0..4).map(|_| t.u64()).collect();
    let mut w = World::new();
    w.accounts = fx.accounts.clone();
    w.update::<Bank>(&fx.bank(31), |b| b.config.fixed_price = p_c.into());
    w.update::<FeeState>(&fee_state_key(), |f| f.liquidation_max_fee = feemax.into());
    for (i, code) in [1u64, 2, 3, 4].iter().enumerate() {
        let f = flags[i];
        w.update::<MarginfiAccount>(&fx.acct(*code), |a| a.account_flags = f);
    }
    let ixs_v: Vec<Ix> = parts
        .filter(|p| !p.trim().is_empty())
        .map(|p| {
            let mut t = Toks::new(p);
            build_sim_ix(&fx, &w, &mut t)
        })
        .collect();
    let mut signers: Vec<Pubkey> = vec![fx.wallet(20)];
    for c in [11u64, 12, 13, 14, 21, 22] {
        signers.push(fx.wallet(c));
    }
    signers.push(fx.acct(9));
    let r = w.exec_tx(&ixs_v, &signers);
    let mut out: Vec<String> = Vec::new();
    out.push(match &r {
        Ok(()) => "OK".to_string(),
        Err((i, e)) => format!("ERR {} {}", i, exec_err_tok(e)),
    });
    for code in [1u64, 2, 3, 4, 9] {
        out.push(dump_account(&fx, &w, code));
    }
    out.join(" ")
}

// ---------------------------------------------------------------------------------------------
// txend — level C: the real end_liquidation / end_deleverage on arbitrary start-time snapshots
// ---------------------------------------------------------------------------------------------
// case:  kind pC feemax am lm ae le      kind 0 = end_liquidation, 1 = end_deleverage (account A = code 1)
//   The account is put IN_RECEIVERSHIP (and IN_DELEVERAGE for kind 1) with the given snapshot in its
//   liquidation record, then the single-instruction transaction [end] runs.
// out:   OK|ERR code ; flags receiver ; post maint assets, liabs, post equity assets, liabs (from the
//        health cache the handler writes; only after OK)
pub fn run_end(line: &str) -> String {
    let fx = match fixture() {
        Ok(f) => f,
        Err(e) => return format!("FIXTURE-FAILED {}", e.replace(' ', "_")),
    };
    let mut t = Toks::new(line);
    let kind = t.u64();
    let p_c = t.fx();
    let feemax = t.fx();
    let (am, lm, ae, le) = (t.fx(), t.fx(), t.fx(), t.fx());
    let mut w = World::new();
    w.accounts = fx.accounts.clone();
    w.update::<Bank>(&fx.bank(31), |b| b.config.fixed_price = p_c.into());
    w.update::<FeeState>(&fee_state_key(), |f| f.liquidation_max_fee = feemax.into());
    let a = fx.acct(1);
    let (signer_code, fl) = if kind == 0 { (20u64, ACCOUNT_IN_RECEIVERSHIP) } else { (21, ACCOUNT_IN_RECEIVERSHIP | ACCOUNT_IN_DELEVERAGE) };
    let signer = fx.wallet(signer_code);
    w.update::<MarginfiAccount>(&a, |x| x.account_flags = fl);
    w.update::<LiquidationRecord>(&liquidation_record_key(&a), |r| {
        r.liquidation_receiver = signer;
        r.cache.asset_value_maint = am.into();
        r.cache.liability_value_maint = lm.into();
        r.cache.asset_value_equity = ae.into();
        r.cache.liability_value_equity = le.into();
    });
    let rem = rem_for(&w, &a, &[]);
    let ix = if kind == 0 {
        ixs::end_liquidation(a, signer, fx.fee_wallet, rem)
    } else {
        ixs::end_deleverage(fx.group, a, signer, rem)
    };
    let r = w.exec_tx(&[ix], &[signer]);
    let acc: MarginfiAccount = w.get(&a).unwrap();
    let rec: LiquidationRecord = w.get(&liquidation_record_key(&a)).unwrap();
    let head = match &r {
        Ok(()) => "OK".to_string(),
        Err((_, e)) => format!("ERR {}", exec_err_tok(e)),
    };
    let hc = acc.health_cache;
    let post = if r.is_ok() {
        format!(
            "{} {} {} {}",
            I80F48::from(hc.asset_value_maint).to_bits(),
            I80F48::from(hc.liability_value_maint).to_bits(),
            I80F48::from(hc.asset_value_equity).to_bits(),
            I80F48::from(hc.liability_value_equity).to_bits()
        )
    } else {
        "- - - -".to_string()
    };
    format!("{} {} {} {}", head, acc.account_flags, fx.wallet_code(&rec.liquidation_receiver), post)
}
