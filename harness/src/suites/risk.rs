//! Level C for C04 / C05: the REAL instruction handlers (through marginfi::entry in the sim runtime) on a
//! world of any number of banks whose oracles are Fixed prices or Pyth push accounts (real
//! PriceUpdateV2 bytes: price, confidence, EMA price, EMA confidence, publish time), so that the risk
//! engine sees low < high, time-weighted != real-time, stale and wrong oracle accounts.
//! Same case format and output format as suite `hops`, plus an oracle descriptor per bank and two ops.
//! case: nb na prog_on pf_fixed pf_rate now0  <bank>*nb  <oracle>*nb  nops <op>*
//!   oracle: kind max_age max_conf price conf expo ema_price ema_conf publish_time
//!           kind 0 = keep the Fixed price of the bank line (other fields ignored), 1 = Pyth push
//!   extra ops: 20 b price conf ema_price ema_conf publish_time   rewrite bank b's Pyth account
//!              23 b tag cum last   set bank b's asset tag; a Pyth-priced bank retagged 4 also becomes DriftPythPull with a spot
//!                           market account (cumulative_deposit_interest = cum, last_interest_ts = last)
//!              (23 b tag)   set bank b's asset tag (fixture: 3 Kamino, 4 Drift, 5 Solend - a venue bank that already holds positions)
//!              22 b state   set bank b's operational state (0 paused, 1 operational, 2 reduce-only, 3 killed)
//!              21 b mode    mode 1: from now on present a different (decoy) Pyth account in place of
//!                           bank b's oracle; mode 0: present the right one
//!   bank: <bankops bank tokens (38)> awi awm lwi lwm tier tavil price tokprog fee_bps fee_max orig_fee
//!         emode_tag n_em (tag flags wi wm)*n_em
//!   ops : 0 t | 1 a b amt up_to | 2 a b amt all | 3 a b amt | 4 a b amt all | 7 a b | 10 b | 16 b
//!         | 17 liqor liqee ab lb amt | 18 a b | 19 b price
//! out : per op `<res> # <bank dumps ';'-separated> # <account dumps ';'-separated>` joined by " | "
use crate::sim::*;
use crate::suites::bankops::{bank_pk, dump_bank, dump_la, parse_bank};
use marginfi_type_crate::types::OracleSetup;
use crate::util::*;
use anchor_lang::prelude::Pubkey;
use fixed::types::I80F48;
use marginfi_type_crate::types::{
    Bank, BankOperationalState, EmodeEntry, MarginfiAccount, MarginfiGroup, RiskTier,
};
use solana_program::instruction::AccountMeta;

struct Hw {
    w: World,
    group: Pubkey,
    admin: Pubkey,
    banks: Vec<Pubkey>,
    mints: Vec<Pubkey>,
    tprog: Vec<Pubkey>,
    accts: Vec<Pubkey>,
    auths: Vec<Pubkey>,
    utok: Vec<Vec<Pubkey>>,
    fee_atas: Vec<Pubkey>,
    oracles: Vec<Option<Pubkey>>,
    bogus: Vec<bool>,
    decoy: Pubkey,
}

/// replace the oracle account of every bank in `bogus` mode by the decoy account
fn subst(h: &Hw, metas: Vec<AccountMeta>) -> Vec<AccountMeta> {
    metas
        .into_iter()
        .map(|m| {
            for (i, o) in h.oracles.iter().enumerate() {
                if h.bogus[i] && *o == Some(m.pubkey) {
                    return AccountMeta::new_readonly(h.decoy, false);
                }
            }
            m
        })
        .collect()
}

fn err_s(e: &ExecError) -> String {
    match e {
        ExecError::Custom(n) => format!("E{}", n),
        ExecError::Program(s) => format!("PE:{}", s.split_whitespace().next().unwrap_or("?")),
        ExecError::Panic => "PANIC".into(),
    }
}

fn dump_world(h: &Hw) -> String {
    let mut bs = Vec::new();
    for (i, bk) in h.banks.iter().enumerate() {
        let b: Bank = h.w.get::<Bank>(bk).unwrap();
        let k = BankKeys::derive(bk);
        bs.push(format!(
            "{} {} {} {} {} {} {}",
            dump_bank(&b),
            b.flags,
            b.config.operational_state as u8,
            h.w.token_balance(&k.liquidity_vault),
            h.w.token_balance(&k.insurance_vault),
            h.w.token_balance(&k.fee_vault),
            h.w.token_balance(&h.fee_atas[i])
        ));
    }
    let mut accs = Vec::new();
    for (ai, a) in h.accts.iter().enumerate() {
        let acc: MarginfiAccount = h.w.get::<MarginfiAccount>(a).unwrap();
        let toks: Vec<String> = h.utok[ai].iter().map(|t| h.w.token_balance(t).to_string()).collect();
        accs.push(format!("{} {} {}", dump_la(&acc.lending_account), acc.account_flags, toks.join(" ")));
    }
    format!("{} # {}", bs.join(" ; "), accs.join(" ; "))
}

pub fn run(line: &str) -> String {
    run_inner(line)
}

fn run_inner(line: &str) -> String {
    let mut t = Toks::new(line);
    let nb = t.usize();
    let na = t.usize();
    let prog_on = t.bool();
    let pf_fixed = t.fx();
    let pf_rate = t.fx();
    let now0 = t.i64();
    let mut w = World::new();
    w.set_clock(now0);
    let admin = mk_wallet(&mut w, 10_000_000_000);
    let fee_wallet = mk_wallet(&mut w, 1_000_000_000);
    mk_fee_state(
        &mut w,
        admin,
        fee_wallet,
        FeeStateParams { program_fee_fixed: pf_fixed, program_fee_rate: pf_rate, ..Default::default() },
    );
    let group = mk_group(&mut w, admin);
    w.update::<MarginfiGroup>(&group, |g| {
        if prog_on {
            g.group_flags |= marginfi::state::marginfi_group::PROGRAM_FEES_ENABLED;
        } else {
            g.group_flags &= !marginfi::state::marginfi_group::PROGRAM_FEES_ENABLED;
        }
    });
    let mut h = Hw {
        w,
        group,
        admin,
        banks: vec![],
        mints: vec![],
        tprog: vec![],
        accts: vec![],
        auths: vec![],
        utok: vec![],
        fee_atas: vec![],
        oracles: vec![],
        bogus: vec![],
        decoy: Pubkey::default(),
    };
    for i in 0..nb {
        let tmpl = parse_bank(&mut t);
        let awi = t.fx();
        let awm = t.fx();
        let lwi = t.fx();
        let lwm = t.fx();
        let tier = t.u8();
        let tavil = t.u64();
        let price = t.fx();
        let tokprog = t.u8();
        let fee_bps = t.u16();
        let fee_max = t.u64();
        let orig_fee = t.fx();
        let emode_tag = t.u16();
        let n_em = t.usize();
        let mut entries = Vec::new();
        for _ in 0..n_em {
            let tag = t.u16();
            let flags = t.u8();
            let wi = t.fx();
            let wm = t.fx();
            entries.push((tag, flags, wi, wm));
        }
        let tp = match tokprog {
            0 => TokenProgram::Spl,
            1 => TokenProgram::T22,
            _ => TokenProgram::T22WithFee { bps: fee_bps, max_fee: fee_max },
        };
        let mint = mk_mint(&mut h.w, tmpl.mint_decimals, tp);
        let mut params = BankParams::default().with_fixed_price(price);
        params.bank_key = Some(bank_pk(i));
        let bank = mk_bank(&mut h.w, group, mint, params);
        h.w.update::<Bank>(&bank, |b| {
            b.asset_share_value = tmpl.asset_share_value;
            b.liability_share_value = tmpl.liability_share_value;
            b.collected_insurance_fees_outstanding = tmpl.collected_insurance_fees_outstanding;
            b.collected_group_fees_outstanding = tmpl.collected_group_fees_outstanding;
            b.collected_program_fees_outstanding = tmpl.collected_program_fees_outstanding;
            b.last_update = tmpl.last_update;
            b.config.deposit_limit = tmpl.config.deposit_limit;
            b.config.borrow_limit = tmpl.config.borrow_limit;
            b.config.asset_tag = tmpl.config.asset_tag;
            b.flags = tmpl.flags;
            b.emissions_rate = tmpl.emissions_rate;
            b.emissions_remaining = tmpl.emissions_remaining;
            b.config.operational_state = tmpl.config.operational_state;
            b.config.interest_rate_config = tmpl.config.interest_rate_config;
            b.config.interest_rate_config.protocol_origination_fee = orig_fee.into();
            b.config.asset_weight_init = awi.into();
            b.config.asset_weight_maint = awm.into();
            b.config.liability_weight_init = lwi.into();
            b.config.liability_weight_maint = lwm.into();
            b.config.risk_tier = if tier == 0 { RiskTier::Collateral } else { RiskTier::Isolated };
            b.config.total_asset_value_init_limit = tavil;
            b.emode.emode_tag = emode_tag;
            for (k, (tag, flags, wi, wm)) in entries.iter().enumerate() {
                b.emode.emode_config.entries[k] = EmodeEntry {
                    collateral_bank_emode_tag: *tag,
                    flags: *flags,
                    pad0: [0; 5],
                    asset_weight_init: (*wi).into(),
                    asset_weight_maint: (*wm).into(),
                };
            }
        });
        let fee_ata = mk_ata(&mut h.w, mint, fee_wallet, 0);
        h.banks.push(bank);
        h.mints.push(mint);
        h.tprog.push(tp.id());
        h.fee_atas.push(fee_ata);
    }
    h.decoy = mk_pyth_push_oracle(&mut h.w, [0xEE; 32], 1, 0, 0, 1, 0, now0);
    for i in 0..nb {
        let kind = t.u8();
        let max_age = t.u16();
        let max_conf = t.u32();
        let price = t.i64();
        let conf = t.u64();
        let expo = t.i64() as i32;
        let ema = t.i64();
        let ema_conf = t.u64();
        let publish = t.i64();
        if kind == 1 {
            let mut fid = [0u8; 32];
            fid[0] = i as u8 + 1;
            let o = mk_pyth_push_oracle(&mut h.w, fid, price, conf, expo, ema, ema_conf, publish);
            let bank = h.banks[i];
            h.w.update::<Bank>(&bank, |b| {
                b.config.oracle_setup = OracleSetup::PythPushOracle;
                b.config.oracle_keys[0] = o;
                b.config.oracle_max_age = max_age;
                b.config.oracle_max_confidence = max_conf;
            });
            h.oracles.push(Some(o));
        } else {
            h.oracles.push(None);
        }
        h.bogus.push(false);
    }
    for _ in 0..na {
        let auth = mk_wallet(&mut h.w, 1_000_000_000);
        let acct = mk_marginfi_account(&mut h.w, group, auth);
        let toks: Vec<Pubkey> = (0..nb).map(|b| mk_token_account(&mut h.w, h.mints[b], auth, 1u64 << 62)).collect();
        h.accts.push(acct);
        h.auths.push(auth);
        h.utok.push(toks);
    }
    let nops = t.usize();
    let mut out = Vec::new();
    for _ in 0..nops {
        let op = t.u8();
        let res: Result<(), ExecError> = match op {
            0 => {
                let ts = t.i64();
                h.w.set_clock(ts);
                Ok(())
            }
            1 | 2 | 3 | 4 => {
                let a = t.usize();
                let b = t.usize();
                let amt = t.u64();
                let flag = if op == 3 { false } else { t.bool() };
                let bank = h.banks[b];
                let ctx = bank_ctx(&h.w, &bank);
                let mut rem: Vec<AccountMeta> = ctx.mint_prefix.clone();
                let ix = match op {
                    1 => ixs::lending_account_deposit(
                        group, h.accts[a], h.auths[a], bank, h.utok[a][b], h.tprog[b], amt, Some(flag), rem,
                    ),
                    2 => {
                        if flag {
                            rem.extend(subst(&h, remaining_for_ex(&h.w, &h.accts[a], &[], &[bank])));
                        } else {
                            rem.extend(subst(&h, remaining_for(&h.w, &h.accts[a], &[])));
                        }
                        ixs::lending_account_withdraw(
                            group, h.accts[a], h.auths[a], bank, h.utok[a][b], h.tprog[b], amt, Some(flag), rem,
                        )
                    }
                    3 => {
                        rem.extend(subst(&h, remaining_for(&h.w, &h.accts[a], &[bank])));
                        ixs::lending_account_borrow(group, h.accts[a], h.auths[a], bank, h.utok[a][b], h.tprog[b], amt, rem)
                    }
                    _ => ixs::lending_account_repay(
                        group, h.accts[a], h.auths[a], bank, h.utok[a][b], h.tprog[b], amt, Some(flag), rem,
                    ),
                };
                h.w.exec(ix, &[h.auths[a]])
            }
            7 => {
                let a = t.usize();
                let b = t.usize();
                let ix = ixs::lending_account_close_balance(group, h.accts[a], h.auths[a], h.banks[b]);
                h.w.exec(ix, &[h.auths[a]])
            }
            10 => {
                let b = t.usize();
                h.w.exec(ixs::lending_pool_accrue_bank_interest(group, h.banks[b]), &[h.admin])
            }
            16 => {
                let b = t.usize();
                let ctx = bank_ctx(&h.w, &h.banks[b]);
                let ix = ixs::lending_pool_collect_bank_fees(group, h.banks[b], h.fee_atas[b], h.tprog[b], ctx.mint_prefix.clone());
                h.w.exec(ix, &[h.admin])
            }
            17 => {
                let r = t.usize();
                let e = t.usize();
                let ab = t.usize();
                let lb = t.usize();
                let amt = t.u64();
                let (abk, lbk) = (h.banks[ab], h.banks[lb]);
                let lctx = bank_ctx(&h.w, &lbk);
                let actx = bank_ctx(&h.w, &abk);
                let mut rem: Vec<AccountMeta> = lctx.mint_prefix.clone();
                rem.extend(subst(&h, actx.oracle_metas.clone()));
                rem.extend(subst(&h, lctx.oracle_metas.clone()));
                let liqor_rem = subst(&h, remaining_for(&h.w, &h.accts[r], &[abk, lbk]));
                let liqee_rem = subst(&h, remaining_for(&h.w, &h.accts[e], &[]));
                let (nr, ne) = (liqor_rem.len() as u8, liqee_rem.len() as u8);
                rem.extend(liqor_rem);
                rem.extend(liqee_rem);
                let ix = ixs::lending_account_liquidate(
                    group, abk, lbk, h.accts[r], h.auths[r], h.accts[e], h.tprog[lb], amt, ne, nr, rem,
                );
                h.w.exec(ix, &[h.auths[r]])
            }
            18 => {
                let a = t.usize();
                let b = t.usize();
                let ctx = bank_ctx(&h.w, &h.banks[b]);
                let mut rem: Vec<AccountMeta> = ctx.mint_prefix.clone();
                rem.extend(subst(&h, remaining_for(&h.w, &h.accts[a], &[])));
                let ix = ixs::lending_pool_handle_bankruptcy(group, h.admin, h.banks[b], h.accts[a], h.tprog[b], rem);
                h.w.exec(ix, &[h.admin])
            }
            19 => {
                let b = t.usize();
                let p: I80F48 = t.fx();
                h.w.update::<Bank>(&h.banks[b], |bk| bk.config.fixed_price = p.into());
                Ok(())
            }
            20 => {
                let b = t.usize();
                let price = t.i64();
                let conf = t.u64();
                let ema = t.i64();
                let ema_conf = t.u64();
                let publish = t.i64();
                if let Some(o) = h.oracles[b] {
                    set_pyth_price(&mut h.w, &o, price, conf, ema, ema_conf, publish);
                }
                Ok(())
            }
            21 => {
                let b = t.usize();
                let mode = t.u8();
                h.bogus[b] = mode == 1;
                Ok(())
            }
            23 => {
                // fixture: the bank's asset tag (a venue bank that already holds positions)
                let b = t.usize();
                let tg = t.u8();
                let cum = t.u128();
                let last = t.u64();
                h.w.update::<Bank>(&h.banks[b], |bk| bk.config.asset_tag = tg);
                if tg == 4 && h.oracles[b].is_some() {
                    // a Drift bank priced by Pyth: DriftPythPull = the Pyth account followed by the bank's spot market
                    // (MinimalSpotMarket of drift-mocks: cumulative deposit interest = the exchange rate, last_interest_ts)
                    use anchor_lang::Discriminator;
                    use bytemuck::Zeroable;
                    let mut m = drift_mocks::state::MinimalSpotMarket::zeroed();
                    m.last_interest_ts = last;
                    m.cumulative_deposit_interest = cum.to_le_bytes();
                    let mut d = drift_mocks::state::MinimalSpotMarket::DISCRIMINATOR.to_vec();
                    d.extend_from_slice(bytemuck::bytes_of(&m));
                    let key = h.w.new_key();
                    h.w.put(key, Acct::new(1_000_000_000, d, drift_mocks::ID));
                    h.w.update::<Bank>(&h.banks[b], |bk| {
                        bk.config.oracle_setup = OracleSetup::DriftPythPull;
                        bk.config.oracle_keys[1] = key;
                    });
                }
                Ok(())
            }
            22 => {
                let b = t.usize();
                let st = t.u8();
                h.w.update::<Bank>(&h.banks[b], |bk| {
                    bk.config.operational_state = match st {
                        0 => BankOperationalState::Paused,
                        1 => BankOperationalState::Operational,
                        2 => BankOperationalState::ReduceOnly,
                        _ => BankOperationalState::KilledByBankruptcy,
                    }
                });
                Ok(())
            }
            _ => panic!("bad op"),
        };
        let rs = match &res {
            Ok(()) => "OK".to_string(),
            Err(e) => err_s(e),
        };
        out.push(format!("{} # {}", rs, dump_world(&h)));
    }
    out.join(" | ")
}

#[allow(dead_code)]
fn _unused(_: BankOperationalState) {}
