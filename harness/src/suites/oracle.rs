//! C09 level A/C: the REAL `OraclePriceFeedAdapter::try_from_bank[_with_max_age]`,
//! `get_price_of_type`, `get_price_and_confidence_of_type` on real account bytes (built with the sim
//! fixtures and then doctored), and the real `RiskEngine` valuation on top of them.
//!
//! suite `oracle` — case (all tokens decimal integers):
//!   setup k0 k1 k2 max_age max_conf fixed_price   bank oracle configuration (keys are abstract ids)
//!   use_override override_max_age                  1: call try_from_bank_with_max_age(.., override)
//!   now slot                                       clock
//!   n  { key owner body f1 .. f7 } x n             accounts passed as `ais`
//!        owner: 1 pyth receiver | 2 switchboard | 3 system | 4 marginfi | 6 spl-token | n other
//!        body : 0 <8 bytes (len f1) | 1 foreign discriminator | 2 PriceUpdateV2 undecodable
//!               (f1=0: cut to 8+f2 bytes, f1=1: verification tag 2)
//!               | 3 PriceUpdateV2 (full price conf expo publish ema_price ema_conf)
//!               | 4 PullFeed cut to 8+f1 bytes | 5 PullFeed (value std_dev last_update)
//!   loader last avail supply decimals cum          venue account = ais[1] of Kamino/Drift/Solend setups
//!        loader: 0 ok | 1 wrong owner | 2 too short
//!   mint_ok supply stake_kind stake                ais[1], ais[2] of the staked setup
//!        stake_kind: 0 Stake | 1 undecodable | 2 Initialized (not a stake)
//!   m omc_1 .. omc_m                               max-confidence arguments to query with
//! out: <load> { | TWn TWl TWh RTn RTl RTh ; TWpc ; RTpc } per omc    (load = OKP/OKS/OKF or error)
//!
//! suite `oraclerisk` — the same case prefix (one bank, one balance) followed by
//!   side isolated reduce_only                      side: 0 asset balance, 1 liability balance
//! out: value(Initial) | value(Maintenance) | value(Equity)   — `assets liabs` or error
//!   (1 token, 0 decimals, share value 1, all weights 1: the value equals the price used)
use crate::sim::fixtures as fx;
use crate::sim::World;
use crate::util::*;
use anchor_lang::Discriminator;
use bytemuck::Zeroable;
use fixed::types::I80F48;
use marginfi::state::marginfi_account::{RiskEngine, RiskRequirementType};
use marginfi::state::price::{OraclePriceFeedAdapter, OraclePriceType, PriceAdapter, PriceBias};
use marginfi_type_crate::constants::discriminators;
use marginfi_type_crate::types::{
    Bank, BankOperationalState, MarginfiAccount, OracleSetup, RiskTier,
};
use solana_program::account_info::AccountInfo;
use solana_program::clock::Clock;
use solana_program::program_pack::Pack;
use solana_program::pubkey::Pubkey;
use std::cell::RefCell;

thread_local! {
    static WORLD: RefCell<World> = RefCell::new(World::new());
}

pub struct Buf {
    pub key: Pubkey,
    pub owner: Pubkey,
    pub lamports: u64,
    pub data: Vec<u8>,
}

pub fn key_of(k: i128) -> Pubkey {
    let h = solana_program::hash::hashv(&[b"c09-key", &k.to_le_bytes()]);
    Pubkey::new_from_array(h.to_bytes())
}

fn owner_of(o: i128) -> Pubkey {
    match o {
        1 => fx::PYTH_RECEIVER_ID,
        2 => fx::SWITCHBOARD_PULL_ID,
        3 => solana_program::system_program::ID,
        4 => marginfi::ID,
        6 => spl_token::ID,
        n => key_of(1_000_000 + n),
    }
}

fn swb_bytes(value: i128, std_dev: i128, last: i64) -> Vec<u8> {
    WORLD.with(|w| {
        let mut w = w.borrow_mut();
        let k = fx::mk_switchboard_pull_oracle(&mut w, value, std_dev, last);
        let d = w.account(&k).unwrap().data.clone();
        w.accounts.remove(&k);
        d
    })
}

fn oracle_bytes(body: i128, f: &[i128; 7]) -> Vec<u8> {
    match body {
        0 => vec![7u8; (f[0].rem_euclid(8)) as usize],
        1 => {
            let mut d = vec![0u8; 134];
            d[..8].copy_from_slice(&discriminators::BANK);
            d
        }
        2 | 3 => {
            let (full, price, conf, expo, publish, ema, ema_conf) = if body == 3 {
                (f[0], f[1] as i64, f[2] as u64, f[3] as i32, f[4] as i64, f[5] as i64, f[6] as u64)
            } else {
                (1, 100, 1, -2, 0, 100, 1)
            };
            let mut feed_id = [0u8; 32];
            feed_id[0] = 9;
            // publish_time - 1 is written as prev_publish_time by the fixture: avoid the overflow at i64::MIN
            let mut d = if publish == i64::MIN {
                let mut d = fx::pyth_price_update_v2_bytes(feed_id, price, conf, expo, ema, ema_conf, 0, 0);
                d[93..101].copy_from_slice(&publish.to_le_bytes());
                d
            } else {
                fx::pyth_price_update_v2_bytes(feed_id, price, conf, expo, ema, ema_conf, publish, 0)
            };
            if body == 2 {
                if f[0] == 0 {
                    d.truncate(8 + (f[1].rem_euclid(125)) as usize);
                } else {
                    d[40] = 2;
                }
            } else if full == 0 {
                // VerificationLevel::Partial { num_signatures }: one more byte
                let mut e = d[..40].to_vec();
                e.push(0);
                e.push(5);
                e.extend_from_slice(&d[41..]);
                d = e;
            }
            d
        }
        4 => {
            let mut d = swb_bytes(1, 0, 0);
            d.truncate(8 + (f[0].rem_euclid(3200)) as usize);
            d
        }
        5 => swb_bytes(f[0], f[1], f[2] as i64),
        _ => panic!("bad body kind"),
    }
}

fn venue_buf(setup: u8, key: Pubkey, loader: i128, last: u64, avail: u64, supply: u64, dec: u64, cum: u128) -> Buf {
    let (owner, mut data) = match setup {
        6 | 7 => {
            let mut r = kamino_mocks::state::MinimalReserve::zeroed();
            r.slot = last;
            r.available_amount = avail;
            r.mint_total_supply = supply;
            r.mint_decimals = dec;
            let mut d = kamino_mocks::state::MinimalReserve::DISCRIMINATOR.to_vec();
            d.extend_from_slice(bytemuck::bytes_of(&r));
            (kamino_mocks::ID, d)
        }
        9 | 10 => {
            let mut m = drift_mocks::state::MinimalSpotMarket::zeroed();
            m.last_interest_ts = last;
            m.cumulative_deposit_interest = cum.to_le_bytes();
            let mut d = drift_mocks::state::MinimalSpotMarket::DISCRIMINATOR.to_vec();
            d.extend_from_slice(bytemuck::bytes_of(&m));
            (drift_mocks::ID, d)
        }
        _ => {
            let mut r = solend_mocks::state::SolendMinimalReserve::zeroed();
            r.last_update_slot = last;
            r.liquidity_available_amount = avail;
            r.collateral_mint_total_supply = supply;
            r.liquidity_mint_decimals = dec as u8;
            let mut d = solend_mocks::state::SolendMinimalReserve::DISCRIMINATOR.to_vec();
            d.extend_from_slice(bytemuck::bytes_of(&r));
            (solend_mocks::ID, d)
        }
    };
    let owner = if loader == 1 { solana_program::system_program::ID } else { owner };
    if loader == 2 {
        data.truncate(40);
    }
    Buf { key, owner, lamports: 1, data }
}

fn mint_buf(key: Pubkey, ok: bool, supply: u64) -> Buf {
    use solana_program::program_option::COption;
    let m = spl_token::state::Mint {
        mint_authority: COption::None,
        supply,
        decimals: 9,
        is_initialized: true,
        freeze_authority: COption::None,
    };
    let mut d = vec![0u8; spl_token::state::Mint::LEN];
    m.pack_into_slice(&mut d);
    Buf { key, owner: if ok { spl_token::ID } else { solana_program::system_program::ID }, lamports: 1, data: d }
}

fn stake_buf(key: Pubkey, kind: i128, stake: u64) -> Buf {
    // bincode/borsh layout of StakeStateV2: u32 tag | Meta (8+64+48) | Stake (32+8+8+8+8 | 8) | flags u8
    let mut d = vec![0u8; 200];
    let tag: u32 = if kind == 2 { 1 } else { 2 };
    d[..4].copy_from_slice(&tag.to_le_bytes());
    let off = 4 + 120 + 32;
    d[off..off + 8].copy_from_slice(&stake.to_le_bytes());
    d[off + 16..off + 24].copy_from_slice(&u64::MAX.to_le_bytes()); // deactivation_epoch
    if kind == 1 {
        d.truncate(3);
    }
    Buf { key, owner: solana_program::stake::program::ID, lamports: 1, data: d }
}

pub struct Case {
    pub bank: Bank,
    pub use_override: bool,
    pub override_age: u64,
    pub clock: Clock,
    pub bufs: Vec<Buf>,
}

pub fn parse_case(t: &mut Toks) -> Case {
    let setup = t.u8();
    let k: [i128; 3] = [t.i128(), t.i128(), t.i128()];
    let max_age = t.u16();
    let max_conf = t.u32();
    let fixed_price = t.fx();
    let use_override = t.bool();
    let override_age = t.u64();
    let now = t.i64();
    let slot = t.u64();
    let mut bank = Bank::zeroed();
    bank.config.oracle_setup = OracleSetup::from_u8(setup).expect("oracle setup");
    for i in 0..3 {
        bank.config.oracle_keys[i] = key_of(k[i]);
    }
    bank.config.oracle_max_age = max_age;
    bank.config.oracle_max_confidence = max_conf;
    bank.config.fixed_price = fixed_price.into();
    let n = t.usize();
    let mut raw = Vec::new();
    for _ in 0..n {
        let key = t.i128();
        let owner = t.i128();
        let body = t.i128();
        let mut f = [0i128; 7];
        for x in f.iter_mut() {
            *x = t.i128();
        }
        raw.push((key, owner, body, f));
    }
    let (loader, last, avail, supply, dec, cum) = (t.i128(), t.u64(), t.u64(), t.u64(), t.u64(), t.u128());
    let (mint_ok, lst_supply, stake_kind, stake) = (t.bool(), t.u64(), t.i128(), t.u64());
    let venue_setup = matches!(setup, 6 | 7 | 9 | 10 | 11 | 12);
    let mut bufs = Vec::new();
    for (i, (key, owner, body, f)) in raw.iter().enumerate() {
        let key = key_of(*key);
        if i == 1 && venue_setup {
            bufs.push(venue_buf(setup, key, loader, last, avail, supply, dec, cum));
        } else if i == 1 && setup == 5 {
            bufs.push(mint_buf(key, mint_ok, lst_supply));
        } else if i == 2 && setup == 5 {
            bufs.push(stake_buf(key, stake_kind, stake));
        } else {
            bufs.push(Buf { key, owner: owner_of(*owner), lamports: 1, data: oracle_bytes(*body, f) });
        }
    }
    let clock = Clock { slot, unix_timestamp: now, ..Clock::default() };
    // the Solend reserve reads the clock sysvar instead of the argument: keep both equal
    WORLD.with(|w| {
        let mut w = w.borrow_mut();
        w.unix_timestamp = now;
        w.slot = slot;
        let _ = w.exec_tx(&[], &[]);
    });
    Case { bank, use_override, override_age, clock, bufs }
}

/// AccountInfos over the local buffers. The `'static` lifetime is a lie that is kept local: the
/// returned vector is dropped before `bufs` by every caller.
pub fn infos(bufs: &mut [Buf]) -> Vec<AccountInfo<'static>> {
    bufs.iter_mut()
        .map(|b| {
            let ai = AccountInfo::new(&b.key, false, false, &mut b.lamports, &mut b.data[..], &b.owner, false, 0);
            unsafe { std::mem::transmute::<AccountInfo<'_>, AccountInfo<'static>>(ai) }
        })
        .collect()
}

fn res_fx(r: anchor_lang::Result<I80F48>) -> String {
    match r {
        Ok(v) => format!("{}", v.to_bits()),
        Err(e) => err_tok(&e),
    }
}

pub fn run(line: &str) -> String {
    let mut t = Toks::new(line);
    let mut c = parse_case(&mut t);
    let m = t.usize();
    let omcs: Vec<u32> = (0..m).map(|_| t.u32()).collect();
    let ais = infos(&mut c.bufs);
    let ais_ref: &'static [AccountInfo<'static>] = unsafe { std::mem::transmute(&ais[..]) };
    let mut out = Vec::new();
    let mut feed: Option<OraclePriceFeedAdapter> = None;
    out.push(guarded(|| {
        let r = if c.use_override {
            OraclePriceFeedAdapter::try_from_bank_with_max_age(&c.bank, ais_ref, &c.clock, c.override_age)
        } else {
            OraclePriceFeedAdapter::try_from_bank(&c.bank, ais_ref, &c.clock)
        };
        match r {
            Ok(f) => {
                let s = match &f {
                    OraclePriceFeedAdapter::PythPushOracle(_) => "OKP",
                    OraclePriceFeedAdapter::SwitchboardPull(_) => "OKS",
                    OraclePriceFeedAdapter::Fixed(_) => "OKF",
                };
                feed = Some(f);
                s.to_string()
            }
            Err(e) => err_tok(&e),
        }
    }));
    if let Some(f) = &feed {
        for omc in omcs {
            let mut seg = Vec::new();
            for ty in [OraclePriceType::TimeWeighted, OraclePriceType::RealTime] {
                for b in [None, Some(PriceBias::Low), Some(PriceBias::High)] {
                    seg.push(guarded(|| res_fx(f.get_price_of_type(ty, b, omc))));
                }
            }
            for ty in [OraclePriceType::TimeWeighted, OraclePriceType::RealTime] {
                seg.push(";".to_string());
                seg.push(guarded(|| match f.get_price_and_confidence_of_type(ty, omc) {
                    Ok(pc) => format!("{} {}", pc.price.to_bits(), pc.confidence.to_bits()),
                    Err(e) => err_tok(&e),
                }));
            }
            out.push(seg.join(" "));
        }
    }
    drop(feed);
    drop(ais);
    out.join(" | ")
}

/// suite `oraclerisk`
pub fn run_risk(line: &str) -> String {
    let mut t = Toks::new(line);
    let mut c = parse_case(&mut t);
    let side = t.u8();
    let isolated = t.bool();
    let reduce_only = t.bool();
    // the bank: 0 decimals, share values 1, all weights 1, operational unless reduce-only
    let bank_key = key_of(777_777);
    let mut bank = c.bank;
    bank.mint_decimals = 0;
    bank.asset_share_value = I80F48::ONE.into();
    bank.liability_share_value = I80F48::ONE.into();
    bank.config.asset_weight_init = I80F48::ONE.into();
    bank.config.asset_weight_maint = I80F48::ONE.into();
    bank.config.liability_weight_init = I80F48::ONE.into();
    bank.config.liability_weight_maint = I80F48::ONE.into();
    bank.config.total_asset_value_init_limit = 0; // inactive
    // the number of oracle accounts the engine slices off is decided by the asset tag
    bank.config.asset_tag = match bank.config.oracle_setup as u8 {
        5 => marginfi_type_crate::constants::ASSET_TAG_STAKED,
        6 | 7 => marginfi_type_crate::constants::ASSET_TAG_KAMINO,
        9 | 10 => marginfi_type_crate::constants::ASSET_TAG_DRIFT,
        11 | 12 => marginfi_type_crate::constants::ASSET_TAG_SOLEND,
        _ => marginfi_type_crate::constants::ASSET_TAG_DEFAULT,
    };
    bank.config.risk_tier = if isolated { RiskTier::Isolated } else { RiskTier::Collateral };
    bank.config.operational_state =
        if reduce_only { BankOperationalState::ReduceOnly } else { BankOperationalState::Operational };
    let mut bank_data = discriminators::BANK.to_vec();
    bank_data.extend_from_slice(bytemuck::bytes_of(&bank));
    let mut all = vec![Buf { key: bank_key, owner: marginfi::ID, lamports: 1, data: bank_data }];
    all.append(&mut c.bufs);
    let mut acc = MarginfiAccount::zeroed();
    {
        let b = &mut acc.lending_account.balances[0];
        b.active = 1;
        b.bank_pk = bank_key;
        if side == 0 {
            b.asset_shares = I80F48::ONE.into();
        } else {
            b.liability_shares = I80F48::ONE.into();
        }
    }
    let ais = infos(&mut all);
    let ais_ref: &'static [AccountInfo<'static>] = unsafe { std::mem::transmute(&ais[..]) };
    let acc_ref: &'static MarginfiAccount = unsafe { std::mem::transmute(&acc) };
    let mut out = Vec::new();
    for req in 0..3 {
        out.push(guarded(|| {
            let engine = match RiskEngine::new(acc_ref, ais_ref) {
                Ok(e) => e,
                Err(e) => return format!("NEW:{}", err_tok(&e)),
            };
            let rt = match req {
                0 => RiskRequirementType::Initial,
                1 => RiskRequirementType::Maintenance,
                _ => RiskRequirementType::Equity,
            };
            match engine.get_account_health_components(rt, &mut None) {
                Ok((a, l)) => format!("{} {}", a.to_bits(), l.to_bits()),
                Err(e) => err_tok(&e),
            }
        }));
    }
    drop(ais);
    out.join(" | ")
}

// ---------------------------------------------------------------------------------------------
// suite `oracleliq` — the REAL liquidate / receivership-withdraw handlers with one doctored oracle.
// case: op role <prefix as above, setup in {3,4,8}, exact number of accounts, now = 1_700_000_000, slot = 1000>
//   op  : 0 classic `lending_account_liquidate` of 1 A against B
//         1 receivership tx [budget, start_liquidation, withdraw 1 A, repay 58 B, end_liquidation]
//   role: 0 the asset bank A carries the case's oracle configuration, 1 the liability bank B does
// Scenario: liquidatee holds 100 A (9 decimals, maint weight 0.9) and owes 3000 B ($1, 6 decimals) and
//   60 D ($100, 6 decimals); A is at $60 unless doctored; liquidator holds 100000 B.
// out: OK | E<code> | PANIC | PROG:<..>
// ---------------------------------------------------------------------------------------------
use crate::sim::ixs;
use crate::sim::runtime::{Acct, ExecError};
use std::collections::BTreeMap;

#[derive(Clone)]
struct Scn {
    accounts: BTreeMap<Pubkey, Acct>,
    group: Pubkey,
    a_bank: Pubkey,
    b_bank: Pubkey,
    a_oracle: Pubkey,
    fee_wallet: Pubkey,
    or_wallet: Pubkey,
    or_account: Pubkey,
    or_tok_a: Pubkey,
    or_tok_b: Pubkey,
    ee_account: Pubkey,
}

const TOK_A: u64 = 1_000_000_000;
const TOK_B: u64 = 1_000_000;

fn build_scn() -> Scn {
    let mut w = World::new();
    let admin = fx::mk_wallet(&mut w, 100 * TOK_A);
    let fee_admin = fx::mk_wallet(&mut w, 100 * TOK_A);
    let fee_wallet = fx::mk_wallet(&mut w, TOK_A);
    fx::mk_fee_state(
        &mut w,
        fee_admin,
        fee_wallet,
        fx::FeeStateParams {
            bank_init_flat_sol_fee: 10_000,
            liquidation_flat_sol_fee: 5_000,
            program_fee_fixed: I80F48::ZERO,
            program_fee_rate: I80F48::ZERO,
            liquidation_max_fee: I80F48::from_num(0.1),
        },
    );
    let group = fx::mk_group(&mut w, admin);
    let a_mint = fx::mk_mint(&mut w, 9, fx::TokenProgram::Spl);
    let b_mint = fx::mk_mint(&mut w, 6, fx::TokenProgram::Spl);
    let d_mint = fx::mk_mint(&mut w, 6, fx::TokenProgram::Spl);
    let now = w.unix_timestamp;
    // A starts at $1000 so that the borrows pass the initial health check
    let a_oracle = fx::mk_pyth_push_oracle(&mut w, [1u8; 32], 100_000_000_000, 0, -8, 100_000_000_000, 0, now);
    let b_oracle = fx::mk_pyth_push_oracle(&mut w, [2u8; 32], 100_000_000, 0, -8, 100_000_000, 0, now);
    let d_oracle = fx::mk_pyth_push_oracle(&mut w, [3u8; 32], 10_000_000_000, 0, -8, 10_000_000_000, 0, now);
    let a_bank = fx::mk_bank(&mut w, group, a_mint, fx::BankParams::default().with_pyth(a_oracle).with_weights(0.8, 0.9, 1.2, 1.1));
    let b_bank = fx::mk_bank(&mut w, group, b_mint, fx::BankParams::default().with_pyth(b_oracle).with_weights(0.9, 0.95, 1.1, 1.05));
    let d_bank = fx::mk_bank(&mut w, group, d_mint, fx::BankParams::default().with_pyth(d_oracle).with_weights(0.5, 0.6, 1.25, 1.1));
    let mk_user = |w: &mut World| {
        let wallet = fx::mk_wallet(w, 10 * TOK_A);
        let account = fx::mk_marginfi_account(w, group, wallet);
        let ta = fx::mk_token_account(w, a_mint, wallet, 1_000 * TOK_A);
        let tb = fx::mk_token_account(w, b_mint, wallet, 1_000_000 * TOK_B);
        let td = fx::mk_token_account(w, d_mint, wallet, 1_000_000 * TOK_B);
        (wallet, account, ta, tb, td)
    };
    let or = mk_user(&mut w);
    let ee = mk_user(&mut w);
    let must = |r: Result<(), (usize, ExecError)>, what: &str| {
        if let Err(e) = r {
            panic!("oracleliq scenario: {} failed: {:?}", what, e);
        }
    };
    // liquidator supplies B and D liquidity, liquidatee deposits A and borrows B and D
    let ix = ixs::lending_account_deposit(group, or.1, or.0, b_bank, or.3, spl_token::ID, 100_000 * TOK_B, None, vec![]);
    must(w.exec_tx(&[ix], &[or.0]), "liquidator deposit B");
    let ix = ixs::lending_account_deposit(group, or.1, or.0, d_bank, or.4, spl_token::ID, 1_000 * TOK_B, None, vec![]);
    must(w.exec_tx(&[ix], &[or.0]), "liquidator deposit D");
    let ix = ixs::lending_account_deposit(group, ee.1, ee.0, a_bank, ee.2, spl_token::ID, 100 * TOK_A, None, vec![]);
    must(w.exec_tx(&[ix], &[ee.0]), "liquidatee deposit A");
    let rem = fx::remaining_for(&w, &ee.1, &[b_bank]);
    let ix = ixs::lending_account_borrow(group, ee.1, ee.0, b_bank, ee.3, spl_token::ID, 3_000 * TOK_B, rem);
    must(w.exec_tx(&[ix], &[ee.0]), "liquidatee borrow B");
    let rem = fx::remaining_for(&w, &ee.1, &[d_bank]);
    let ix = ixs::lending_account_borrow(group, ee.1, ee.0, d_bank, ee.4, spl_token::ID, 60 * TOK_B, rem);
    must(w.exec_tx(&[ix], &[ee.0]), "liquidatee borrow D");
    let ix = ixs::marginfi_account_init_liq_record(ee.1, or.0);
    must(w.exec_tx(&[ix], &[or.0]), "init liquidation record");
    // A drops to $60
    fx::set_pyth_price_simple(&mut w, &a_oracle, 6_000_000_000);
    Scn {
        accounts: w.accounts.clone(),
        group,
        a_bank,
        b_bank,
        a_oracle,
        fee_wallet,
        or_wallet: or.0,
        or_account: or.1,
        or_tok_a: or.2,
        or_tok_b: or.3,
        ee_account: ee.1,
    }
}

thread_local! {
    static SCN: Scn = build_scn();
}

pub fn run_liq(line: &str) -> String {
    let mut t = Toks::new(line);
    let op = t.u8();
    let role = t.u8();
    let c = parse_case(&mut t);
    let s = SCN.with(|s| s.clone());
    let mut w = World::new();
    w.accounts = s.accounts.clone();
    assert!(c.clock.unix_timestamp == w.unix_timestamp && c.clock.slot == w.slot, "oracleliq: case clock must be the world clock");
    let target = if role == 0 { s.a_bank } else { s.b_bank };
    let old: Bank = w.get(&target).unwrap();
    let old_key = old.config.oracle_keys[0];
    w.update::<Bank>(&target, |b| {
        b.config.oracle_setup = c.bank.config.oracle_setup;
        b.config.oracle_keys = c.bank.config.oracle_keys;
        b.config.oracle_max_age = c.bank.config.oracle_max_age;
        b.config.oracle_max_confidence = c.bank.config.oracle_max_confidence;
        b.config.fixed_price = c.bank.config.fixed_price;
    });
    let _ = old_key;
    for b in &c.bufs {
        w.put(b.key, Acct::new(fx::rent_exempt(b.data.len()), b.data.clone(), b.owner));
    }
    let cfg_key = c.bank.config.oracle_keys[0];
    let passed_key = c.bufs.first().map(|b| b.key);
    let fix = |ix: crate::sim::Ix| -> crate::sim::Ix {
        match passed_key {
            Some(k) if k != cfg_key => ix.replace_key(&cfg_key, &k),
            _ => ix,
        }
    };
    let r = if op == 0 {
        let mut rem = vec![];
        rem.extend(fx::bank_ctx(&w, &s.a_bank).oracle_metas);
        rem.extend(fx::bank_ctx(&w, &s.b_bank).oracle_metas);
        let liquidator = fx::remaining_for(&w, &s.or_account, &[s.a_bank, s.b_bank]);
        let liquidatee = fx::remaining_for(&w, &s.ee_account, &[]);
        let (n_or, n_ee) = (liquidator.len() as u8, liquidatee.len() as u8);
        rem.extend(liquidator);
        rem.extend(liquidatee);
        let ix = fix(ixs::lending_account_liquidate(
            s.group, s.a_bank, s.b_bank, s.or_account, s.or_wallet, s.ee_account, spl_token::ID, TOK_A, n_ee, n_or, rem,
        ));
        w.exec_tx(&[ix], &[s.or_wallet])
    } else {
        let rem = fx::remaining_for(&w, &s.ee_account, &[]);
        let tx = vec![
            ixs::compute_budget(1_000_000),
            fix(ixs::start_liquidation(s.ee_account, s.or_wallet, rem.clone())),
            fix(ixs::lending_account_withdraw(
                s.group, s.ee_account, s.or_wallet, s.a_bank, s.or_tok_a, spl_token::ID, TOK_A, None, rem.clone(),
            )),
            ixs::lending_account_repay(s.group, s.ee_account, s.or_wallet, s.b_bank, s.or_tok_b, spl_token::ID, 58 * TOK_B, None, vec![]),
            fix(ixs::end_liquidation(s.ee_account, s.or_wallet, s.fee_wallet, rem.clone())),
        ];
        w.exec_tx(&tx, &[s.or_wallet])
    };
    let _ = s.a_oracle;
    match r {
        Ok(()) => "OK".to_string(),
        Err((_, ExecError::Custom(n))) => format!("E{}", n),
        Err((_, ExecError::Panic)) => "PANIC".to_string(),
        Err((_, ExecError::Program(p))) => format!("PROG:{}", p.replace(' ', "_")),
    }
}
